"""Verdict protocol (DESIGN §2.4) shared by all properties."""
import json
import os
import random
import sys
import time
import re
import traceback

from . import common
from .common import MachineryError, canon, first_diff
from .rng import HarnessError


class CaseTimeout(Exception):
    pass


GLOBAL_DEADLINE = [None]          # set by run.py: absolute time at which the whole run is given up (exit 2)


class case_time_limit:
    """SIGALRM-based limit for one execution of the real code; the global alarm of run.py is re-armed afterwards"""

    def __init__(self, limit=None):
        self.own = limit          # a property whose cases take milliseconds may set a much shorter limit (Prop.case_limit)

    def __enter__(self):
        import signal
        self.limit = int(os.environ.get("VERIF_CASE_TIMEOUT", "120" if os.environ.get("VERIF_TIER", "quick") == "quick" else "600"))
        if self.own and "VERIF_CASE_TIMEOUT" not in os.environ:
            self.limit = min(self.limit, int(self.own))
        self.prev = signal.getsignal(signal.SIGALRM)
        if GLOBAL_DEADLINE[0] is None or not callable(self.prev):
            self.active = False
            return self
        self.active = True
        remaining = GLOBAL_DEADLINE[0] - time.time()
        if remaining <= self.limit + 1:
            self.active = False              # the global alarm is closer than the case limit: leave it in charge
            return self

        def on_case_alarm(*_):
            raise CaseTimeout(self.limit)
        signal.signal(signal.SIGALRM, on_case_alarm)
        signal.alarm(self.limit)
        return self

    def __exit__(self, *exc):
        import signal
        if self.active:
            signal.alarm(0)
            signal.signal(signal.SIGALRM, self.prev)
            signal.alarm(max(1, int(GLOBAL_DEADLINE[0] - time.time())))
        return False


class Prop:
    pid = "C00"
    title = ""
    rule = ""
    assumptions = []
    model_scope = ""          # which parts of the code are modelled rather than verified
    budgets = {"quick": 100, "thorough": 1000}
    search_budget = {"quick": 400, "thorough": 4000}
    recheck = {"quick": 12, "thorough": 60}       # earlier cases re-executed at the end (state leaking between calls)

    # ---- to override
    def gen(self, rng, i, tier):
        raise NotImplementedError

    def exhaustive(self, tier):
        return []

    def impl(self, case):
        raise NotImplementedError

    def request(self, case, obs):
        raise NotImplementedError

    def model(self, case, reply, obs):
        return reply

    def project(self, case, obs):
        return obs

    def oracle(self, case, obs):
        return []

    def key(self, case, obs):
        return json.dumps(canon(case), sort_keys=True)

    def nontrivial(self, case, obs):
        return True

    def stats(self, case, obs, hist):
        pass

    def shrink(self, case):
        return []

    def fingerprint(self, case, obs, fails):
        return f"{self.pid}/" + (fails[0].split(":")[0] if fails else "?")

    def search_cases(self, rng, seeds, n, tier):
        """cases for the failing-input search after a broken correspondence: neighbours of the
        disagreeing inputs first, then fresh ones from the ordinary generator with new randomness"""
        for s in seeds:
            yield s
            for c in self.shrink(s):
                yield c
        for i in range(n):
            yield self.gen(rng, i, tier)

    # ---- helpers
    def corpus(self):
        d = common.VERIF / "harness" / "corpus" / self.pid
        out = []
        if d.is_dir():
            for f in sorted(d.glob("*.json")):
                out.append(json.loads(f.read_text())["case"])
        return out

    def safe_impl(self, case):
        try:
            with case_time_limit(getattr(self, 'case_limit', None)):
                return canon(self.impl(case))
        except MachineryError:
            raise
        except CaseTimeout as e:
            # not an observation of the property: the case was not seen to its end (never an oracle verdict)
            return {"harness_error": f"the case did not finish within {e.args[0]} s (per-case limit of the harness)"}
        except Exception as e:
            tb = traceback.format_exc().strip().split("\n")
            frames = traceback.extract_tb(e.__traceback__)
            harness = str(common.VERIF / "harness")
            last = frames[-1].filename if frames else ""
            emulated_stdlib = last.endswith("core/rng.py") and not isinstance(e, HarnessError)
            if last.startswith(harness) and not emulated_stdlib:
                # raised by the harness's own code (a hook point that is gone, a callback that met something it does not
                # understand): the implementation was NOT observed — never an oracle verdict, always a broken correspondence
                return {"harness_error": f"{type(e).__name__}: {str(e)[:200]}", "where": tb[-3:-1]}
            if isinstance(e, (TypeError, AttributeError)) and re.search(r"\b(Ex|Poly)\b", str(e)):
                # the real code refuses the harness's own exact number type (e.g. it now calls math.exp or float() on a
                # probability): that is no statement about the property - the case was not observed in exact arithmetic
                return {"harness_error": f"the code under test does not accept the harness's exact number type here: "
                                         f"{type(e).__name__}: {str(e)[:160]}", "where": tb[-3:-1]}
            return {"exc": type(e).__name__, "msg": str(e)[:300], "where": tb[-3:-1]}   # the real code raised: an observation


def _hist_add(hist, k, n=1):
    hist[k] = hist.get(k, 0) + n


def write_replay(prop, kind, seed, payload):
    common.REPLAYS.mkdir(exist_ok=True)
    stem = f"{prop.pid}_{kind}_{seed}_{int(time.time())}_{os.getpid()}"
    name, n = stem + ".json", 1
    while (common.REPLAYS / name).exists():        # several violations within one second: one file each
        n += 1
        name = f"{stem}_{n}.json"
    p = common.REPLAYS / name
    payload = dict(payload)
    payload.update({"property": prop.pid, "kind": kind, "seed": seed,
                    "reproduce_full_run_cmd": f"VERIF_SEED={seed} /venv/bin/python harness/run.py --property {prop.pid} --tier {os.environ.get('VERIF_TIER', 'quick')}"
                                              "  (the case was observed in-process after earlier cases; use this if it needs that history)",
                    "replay_cmd": f"/venv/bin/python harness/run.py --property {prop.pid} --replay replays/{name}"})
    p.write_text(json.dumps(canon(payload), indent=1))
    return p


def shrink_case(prop, case, still_fails, limit=300):
    n = 0
    changed = True
    t_end = time.time() + (90 if os.environ.get("VERIF_TIER", "quick") == "quick" else 600)      # shrinking is a convenience
    while changed and n < limit and time.time() < t_end:
        changed = False
        try:
            candidates = list(prop.shrink(case))       # a shrinker that cannot handle a case simply offers nothing
        except MachineryError:
            raise
        except Exception:
            candidates = []
        for c in candidates:
            n += 1
            if n >= limit or time.time() > t_end:
                break
            try:
                if still_fails(c):
                    case = c
                    changed = True
                    break
            except MachineryError:
                raise
            except Exception:
                continue
    return case


def judge(prop, case, obs, unjudged, i):
    """the oracle's verdict on one observation; [] when it holds OR when it cannot be judged (recorded in `unjudged`)"""
    if isinstance(obs, dict) and "harness_error" in obs:
        unjudged.append((i, "the harness could not observe the implementation: " + obs["harness_error"]))
        return []
    try:
        return prop.oracle(case, obs)
    except MachineryError:
        raise
    except Exception as e:
        unjudged.append((i, f"the oracle cannot judge this observation: {type(e).__name__}: {e}"))
        return []


def compare(prop, cases, obss):
    """run the model on the same cases; return list of (index, diff, model_obs)"""
    reqs, idx = [], []
    mism = []
    for i, (c, o) in enumerate(zip(cases, obss)):
        if isinstance(o, dict) and "harness_error" in o:
            mism.append((i, "the harness could not observe the implementation: " + o["harness_error"], None))
            continue
        try:
            r = prop.request(c, o)
        except MachineryError:
            raise
        except Exception as e:
            mism.append((i, f"cannot build model request from the implementation's observation: {type(e).__name__}: {e}", None))
            continue
        if r is None:
            continue
        reqs.append(r)
        idx.append(i)
    replies = common.run_driver(reqs)
    for i, rep in zip(idx, replies):
        c, o = cases[i], obss[i]
        if isinstance(rep, dict) and "error" in rep and len(rep) == 1:
            mism.append((i, f"model rejects the request: {rep['error']}", rep))
            continue
        try:
            m = canon(prop.model(c, rep, o))
            p = canon(prop.project(c, o))
        except MachineryError:
            raise
        except Exception as e:
            mism.append((i, f"cannot compare observations: {type(e).__name__}: {e}", rep))
            continue
        d = first_diff(p, m)
        if d:
            mism.append((i, d, m))
    return mism, len(reqs)


def run(prop, tier, seed, replay=None):
    t0 = time.time()
    common.ensure_repo_on_path()
    rng = random.Random(seed * 1000003 + sum(map(ord, prop.pid)))
    known = [k for k in common.load_known() if k.get("property") == prop.pid and k.get("status") == "known"]
    hist = {}
    violations = []      # (kind, replay_path, extra)
    known_hits = []

    if replay:
        data = json.loads(open(replay).read())
        case = data["case"]
        obs = prop.safe_impl(case)
        fails = prop.oracle(case, obs)
        print(json.dumps({"case": case, "observation": obs, "oracle_failures": fails}, indent=1)[:6000])
        mism, _ = compare(prop, [case], [obs])
        for _, d, _m in mism:
            print("MODEL-DISAGREES:", d)
        if fails or mism:
            print(f"VIOLATION property={prop.pid} replay={replay}")
            return 1
        print("replay passes on the current tree")
        return 0

    proofs = common.check_proofs(prop.pid, thorough=(tier == "thorough"))

    # ---------------- cases
    cases = list(prop.corpus())
    n_corpus = len(cases)
    ex = list(prop.exhaustive(tier))
    cases += ex
    n_gen = prop.budgets[tier]
    for i in range(n_gen):
        cases.append(prop.gen(rng, i, tier))
    cases = [canon(c) for c in cases]

    # ---------------- implementation + oracle
    obss = []
    oracle_fail = []
    unjudged = []        # (index, why): the oracle could not be applied — a broken correspondence, never a verdict
    keys = set()
    n_new_failures = 0
    n_timeouts = 0
    for i, c in enumerate(cases):
        if obss and isinstance(obss[-1], dict) and "did not finish within" in str(obss[-1].get("harness_error", "")):
            n_timeouts += 1          # counted as the observations come in (a sum over all of them on every case is quadratic)
        if n_timeouts >= 3:
            # the real code does not come back on case after case: stop here, the verdict is a broken correspondence
            _hist_add(hist, "cases_not_run_after_repeated_timeouts", len(cases) - i)
            cases = cases[:i]
            break
        if n_new_failures >= 8 and time.time() - t0 > 60:
            # enough counter-examples that are not known findings, and the run is getting long: go to the verdict
            _hist_add(hist, "cases_not_run_after_repeated_failures", len(cases) - i)
            cases = cases[:i]
            break
        o = prop.safe_impl(c)
        obss.append(o)
        fails = judge(prop, c, o, unjudged, i)
        if fails:
            oracle_fail.append((i, fails))
            try:
                if not any(k.get("fingerprint") == prop.fingerprint(c, o, fails) for k in known):
                    n_new_failures += 1
            except Exception:
                n_new_failures += 1
        try:
            prop.stats(c, o, hist)
            if prop.nontrivial(c, o):
                keys.add(prop.key(c, o))
        except Exception:
            pass

    # ---------------- history independence of the implementation: re-execute some earlier cases after everything else
    # has run in this process; a different observation means state leaked between calls (module/class level caches)
    n_re = min(prop.recheck[tier], len(cases))
    re_idx = sorted(rng.sample(range(len(cases)), n_re)) if n_re else []
    leaked = 0
    for i in re_idx:
        o2 = prop.safe_impl(cases[i])
        try:
            same = canon(prop.project(cases[i], o2)) == canon(prop.project(cases[i], obss[i]))
        except Exception:
            same = True
        if not same:
            leaked += 1
            cases.append(cases[i])
            obss.append(o2)
            fails = judge(prop, cases[i], o2, unjudged, len(cases) - 1)
            if fails:
                oracle_fail.append((len(cases) - 1, fails))
    _hist_add(hist, "rechecked_cases", n_re)
    if leaked:
        _hist_add(hist, "rechecked_cases_with_different_observation", leaked)

    # ---------------- model
    mism, n_model = compare(prop, cases, obss)
    seen_m = {i for i, _, _ in mism}
    mism += [(i, why, None) for i, why in unjudged if i not in seen_m]

    samples = []
    for i in list(range(min(2, len(cases)))) + ([len(cases) - 1] if len(cases) > 2 else []):
        samples.append({"case": cases[i], "impl_observation": _clip(obss[i])})

    # ---------------- verdict
    seen_fp = set()
    for i, fails in oracle_fail:
        fp = prop.fingerprint(cases[i], obss[i], fails)
        if fp in seen_fp:
            continue
        seen_fp.add(fp)
        kn = [k for k in known if k.get("fingerprint") == fp]
        if kn:
            known_hits.append((fp, kn[0].get("what", "")))
            continue

        def still(c, _fp=fp):
            o = prop.safe_impl(c)
            f = prop.oracle(c, o)
            return bool(f) and prop.fingerprint(c, o, f) == _fp
        small = shrink_case(prop, cases[i], still)
        so = prop.safe_impl(small)
        sf = prop.oracle(small, so) or fails
        p = write_replay(prop, "counterexample", seed, {
            "case": small, "original_case": cases[i], "impl_observation": so,
            "oracle_failures": sf, "fingerprint": fp})
        violations.append(("counterexample", p, ""))

    if mism and not violations:
        # correspondence broken but the oracle held on every case: search the real code for a failing input
        seeds = [cases[i] for i, _, _ in mism[:5]]
        srng = random.Random(seed * 7919 + 17)
        found = None
        tried = 0
        search_timeouts = 0
        for c in prop.search_cases(srng, seeds, prop.search_budget[tier], tier):
            c = canon(c)
            tried += 1
            o = prop.safe_impl(c)
            if isinstance(o, dict) and "did not finish within" in str(o.get("harness_error", "")):
                search_timeouts += 1
                if search_timeouts >= 2:
                    break
            f = judge(prop, c, o, [], 0)
            if f:
                fp = prop.fingerprint(c, o, f)
                if any(k.get("fingerprint") == fp for k in known):
                    continue
                found = (c, o, f, fp)
                break
        _hist_add(hist, "search_cases_tried", tried)
        if found:
            c, o, f, fp = found

            def still2(cc, _fp=fp):
                oo = prop.safe_impl(cc)
                ff = prop.oracle(cc, oo)
                return bool(ff) and prop.fingerprint(cc, oo, ff) == _fp
            small = shrink_case(prop, c, still2)
            so = prop.safe_impl(small)
            p = write_replay(prop, "counterexample", seed, {
                "case": small, "impl_observation": so, "oracle_failures": prop.oracle(small, so) or f,
                "fingerprint": fp, "found_by": "failing-input search after the correspondence broke",
                "correspondence_diff": mism[0][1]})
            violations.append(("counterexample", p, ""))
        else:
            i, d, m = mism[0]

            def still3(cc):
                oo = prop.safe_impl(cc)
                mm, _ = compare(prop, [cc], [oo])
                return bool(mm)
            small = shrink_case(prop, cases[i], still3, limit=120)
            so = prop.safe_impl(small)
            mm, _ = compare(prop, [small], [so])
            p = write_replay(prop, "correspondence-broken", seed, {
                "case": small, "impl_observation": so,
                "model_observation": mm[0][2] if mm else m,
                "diff": mm[0][1] if mm else d,
                "broken": f"correspondence between the Lean model of {prop.pid} (lean/GcmpyModel/Model) and the implementation; "
                          f"theorems in lean/GcmpyModel/Properties/{prop.pid}.lean no longer speak about this code",
                "n_disagreeing_cases": len(mism), "search_cases_tried": tried})
            violations.append(("correspondence-broken", p, " no-failing-input-found"))

    wall = time.time() - t0
    cov = {
        "obligations": proofs["obligations"], "discharged": proofs["discharged"],
        "checker_cmd": "cd lean && lake build && lake env lean <generated Audit file: collectAxioms on every theorem of "
                       f"GcmpyModel/Properties/{prop.pid}.lean>" + ("; lake env leanchecker" if tier == "thorough" else ""),
        "trusted_base": common.TRUSTED_BASE + ([prop.model_scope] if prop.model_scope else []),
        "theorems": proofs["theorems"], "axioms_used": proofs["axioms_used"],
        "unproved_full_statements": proofs["unproved_full_statements"],
        "partial_theorems": proofs["partial_theorems"],
        "evaluations": len(cases), "distinct_nontrivial": len(keys), "rule": prop.rule,
        "samples": samples, "traces_validated_against_impl": n_model,
        "correspondence_mismatches": len(mism), "oracle_failures": len(oracle_fail),
        "corpus_cases": n_corpus, "exhaustive_cases": len(ex), "exhaustive": bool(ex) and tier == "thorough",
        "input_distribution": hist,
    }
    if "leanchecker" in proofs:
        cov["leanchecker"] = proofs["leanchecker"]
    ev = {"property_id": prop.pid, "tier": tier, "seed": seed, "level": "proof", "coverage": cov,
          "assumptions": list(prop.assumptions), "wall_s": round(wall, 2), "violations": len(violations),
          "known_findings_hit": [k for k, _ in known_hits]}
    common.EVIDENCE.mkdir(parents=True, exist_ok=True)
    (common.EVIDENCE / f"{prop.pid}.json").write_text(json.dumps(canon(ev), indent=1))

    for fp, what in known_hits:
        print(f"KNOWN-FINDING: property={prop.pid} {fp} {what}")
    for kind, p, tail in violations:
        rel = os.path.relpath(p, common.VERIF)
        print(f"VIOLATION property={prop.pid} replay={rel}{tail}")
    print(f"{prop.pid} {tier} seed={seed}: theorems={proofs['discharged']}/{proofs['obligations']} cases={len(cases)} "
          f"distinct_nontrivial={len(keys)} model_compared={n_model} mismatches={len(mism)} "
          f"oracle_failures={len(oracle_fail)} violations={len(violations)} wall={wall:.1f}s")
    return 1 if violations else 0


def _clip(o, n=1500):
    s = json.dumps(o)
    return o if len(s) <= n else {"clipped": s[:n] + "…"}
