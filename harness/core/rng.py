"""Scripted randomness injected at the `random` module boundary (DESIGN §3.1)."""
import contextlib
import random


class ScriptExhausted(Exception):
    pass


class ScriptedRandom(random.Random):
    """A real `random.Random` whose `_randbelow` pops scripted values, so that the stdlib's own
    `shuffle` / `choice` / `randrange` bodies run on chosen draws.  `log` records (n, value)."""

    def __init__(self, draws=None, mode="mod"):
        super().__init__(0)
        self.draws = list(draws or [])
        self.pos = 0
        self.log = []
        self.mode = mode

    def _randbelow(self, n):
        if self.pos >= len(self.draws):
            raise ScriptExhausted()
        v = self.draws[self.pos]
        self.pos += 1
        if self.mode == "mod":
            v = v % n
        elif not (0 <= v < n):
            raise ValueError(f"scripted draw {v} out of range for randbelow({n})")
        self.log.append((n, v))
        return v

    def random(self):  # not used by shuffle/choice in 3.12; scripted separately where needed
        raise ScriptExhausted()


@contextlib.contextmanager
def patched(obj, name, value):
    old = getattr(obj, name)
    setattr(obj, name, value)
    try:
        yield
    finally:
        setattr(obj, name, old)
