"""Scripted randomness injected at the `random` module boundary (DESIGN §3.1)."""
import contextlib
import random


class ScriptExhausted(Exception):
    pass


class HarnessError(Exception):
    """the script handed to the harness does not fit what the code asked for (a harness problem, not an observation)"""


class ScriptedRandom(random.Random):
    """A real `random.Random` whose `_randbelow` pops scripted values, so that the stdlib's own
    `shuffle` / `choice` / `randrange` bodies run on chosen draws.  `log` records (n, value)."""

    def __init__(self, draws=None, mode="mod"):
        super().__init__(0)
        self.draws = list(draws or [])
        self.pos = 0
        self.log = []
        self.mode = mode

    def _randbelow(self, n):
        if self.pos >= len(self.draws):
            raise ScriptExhausted()
        v = self.draws[self.pos]
        self.pos += 1
        if self.mode == "mod":
            v = v % n
        elif not (0 <= v < n):
            raise ValueError(f"scripted draw {v} out of range for randbelow({n})")
        self.log.append((n, v))
        return v

    def random(self):  # not used by shuffle/choice in 3.12; scripted separately where needed
        raise ScriptExhausted()


@contextlib.contextmanager
def patched(obj, name, value):
    old = getattr(obj, name)
    setattr(obj, name, value)
    try:
        yield
    finally:
        setattr(obj, name, old)


# ======================================================================================================================
# API-agnostic scripting: every public function of the `random` module is interpreted as a sequence of PRIMITIVE events
#   U(n)      uniform choice among n alternatives            -> on_uniform(n, ctx)      -> index in [0, n)
#   W(w)      choice with weights w                          -> on_weighted(w, ctx)     -> index with w[index] > 0
#   P(items)  uniformly random permutation of a list         -> on_permutation(items, ctx) -> permuted copy
#   F         uniform number in [0, 1)                       -> on_float(ctx)           -> number in [0, 1)
# so that a harness scripts WHAT is drawn and not THROUGH WHICH function it is drawn: `random.shuffle(x)` and
# `x = random.sample(x, len(x))` are the same event P(x); `randrange(n)` in a loop and `choices(range(n), k=m)` are the same m
# events U(n).  A harness subclasses SemanticRandom and overrides the four handlers; whatever it does not script is recorded
# in `unexpected` and served from a private seeded generator, so the run stays deterministic and the caller can see that the
# code drew randomness the script (and therefore the model) does not account for.
class SemanticRandom:
    PUBLIC = ["random", "uniform", "randrange", "randint", "choice", "shuffle", "sample", "choices", "getrandbits",
              "randbytes", "triangular", "gauss", "normalvariate", "lognormvariate", "expovariate", "vonmisesvariate",
              "gammavariate", "betavariate", "paretovariate", "weibullvariate", "binomialvariate", "seed", "getstate", "setstate"]

    def __init__(self, fallback_seed=987654321):
        self.fallback = random.Random(fallback_seed)
        self.unexpected = []          # ctx of every primitive event served by the fallback
        self.events = []              # (kind, size, api, caller function)

    # ---- handlers (override)
    def on_uniform(self, n, ctx):
        self.unexpected.append(ctx)
        return self.fallback.randrange(n)

    def on_weighted(self, weights, ctx):
        self.unexpected.append(ctx)
        return self.fallback.choices(range(len(weights)), weights=[float(w) for w in weights])[0]

    def on_permutation(self, items, ctx):
        self.unexpected.append(ctx)
        y = list(items)
        self.fallback.shuffle(y)
        return y

    def on_float(self, ctx):
        self.unexpected.append(ctx)
        return self.fallback.random()

    # ---- plumbing
    def _ctx(self, api, depth=2):
        import sys
        f = sys._getframe(depth)
        here = __file__
        while f is not None and (f.f_code.co_filename == here or f.f_code.co_filename.endswith("random.py")):
            f = f.f_back
        caller = (f.f_code.co_filename.rsplit("/", 1)[-1], f.f_code.co_name) if f is not None else ("?", "?")
        return {"api": api, "file": caller[0], "func": caller[1], "self": f.f_locals.get("self") if f is not None else None}

    def _u(self, n, api):
        ctx = self._ctx(api, 3)
        v = self.on_uniform(n, ctx)
        if not (isinstance(v, int) and 0 <= v < n):
            raise HarnessError(f"scripted uniform index {v!r} out of range for {n} alternatives")
        self.events.append(("U", n, api, ctx["func"]))
        return v

    # ---- the `random` API
    def random(self):
        ctx = self._ctx("random")
        self.events.append(("F", 0, "random", ctx["func"]))
        return self.on_float(ctx)

    def uniform(self, a, b):
        ctx = self._ctx("uniform")
        self.events.append(("F", 0, "uniform", ctx["func"]))
        return a + (b - a) * self.on_float(ctx)

    def randrange(self, start, stop=None, step=1):
        if stop is None:
            start, stop = 0, start
        n = len(range(start, stop, step))
        if n <= 0:
            raise ValueError(f"empty range in randrange({start}, {stop}, {step})")
        return start + step * self._u(n, "randrange")

    def randint(self, a, b):
        return self.randrange(a, b + 1)

    def getrandbits(self, k):
        if k < 0:
            raise ValueError("number of bits must be non-negative")
        return self._u(1 << k, "getrandbits") if k else 0

    def choice(self, seq):
        if not len(seq):
            raise IndexError("Cannot choose from an empty sequence")
        return seq[self._u(len(seq), "choice")]

    def shuffle(self, x):
        ctx = self._ctx("shuffle")
        y = self.on_permutation(list(x), ctx)
        if sorted(map(repr, y)) != sorted(map(repr, x)):
            raise HarnessError("scripted permutation is not a permutation of the list")
        self.events.append(("P", len(y), "shuffle", ctx["func"]))
        x[:] = y

    def sample(self, population, k, *, counts=None):
        if counts is not None:
            population = [p for p, c in zip(population, counts) for _ in range(c)]
        pop = list(population)
        if not 0 <= k <= len(pop):
            raise ValueError("Sample larger than population or is negative")
        if k == len(pop):
            ctx = self._ctx("sample")
            y = self.on_permutation(pop, ctx)
            self.events.append(("P", len(y), "sample", ctx["func"]))
            return y
        out = []
        for _ in range(k):
            out.append(pop.pop(self._u(len(pop), "sample")))
        return out

    def choices(self, population, weights=None, *, cum_weights=None, k=1):
        pop = list(population)
        n = len(pop)
        if cum_weights is not None:
            if weights is not None:
                raise TypeError("Cannot specify both weights and cumulative weights")
            cw = list(cum_weights)
            weights = [cw[0]] + [b - a for a, b in zip(cw, cw[1:])] if cw else []
        if weights is None:
            if not n and k:
                raise IndexError("list index out of range")
            return [pop[self._u(n, "choices")] for _ in range(k)]
        w = list(weights)
        if len(w) != n:
            raise ValueError("The number of weights does not match the population")
        total = sum(w) if w else 0
        if not w and k:
            raise IndexError("list index out of range")
        if w and total <= 0:
            raise ValueError("Total of weights must be greater than zero")
        out = []
        for t in range(k):
            ctx = self._ctx("choices")
            ctx.update(population=pop, k=k, t=t)
            i = self.on_weighted(w, ctx)
            if not (isinstance(i, int) and 0 <= i < n):
                raise HarnessError(f"scripted weighted index {i!r} out of range")
            self.events.append(("W", n, "choices", ctx["func"]))
            out.append(pop[i])
        return out

    def __getattr__(self, name):          # anything else of the random API: unscripted
        if name in SemanticRandom.PUBLIC:
            def f(*a, **kw):
                self.unexpected.append({"api": name, "file": "?", "func": "?"})
                return getattr(self.fallback, name)(*a, **kw)
            return f
        raise AttributeError(name)

    def summary(self):
        """what was drawn, through which function — for evidence and for the model/implementation comparison"""
        return {"unexpected": [f"{c['api']} in {c['file']}:{c['func']}" for c in self.unexpected[:5]],
                "n_unexpected": len(self.unexpected)}


_ORIG = {name: getattr(random, name) for name in SemanticRandom.PUBLIC if hasattr(random, name)}
_TARGETS = {"key": None, "list": []}


def _targets(extra_modules):
    """(module, global name, random-function name) for every global of an imported gcmpy module that IS a function of the
    `random` module (`from random import shuffle`); cached until another gcmpy module gets imported"""
    import sys
    names = tuple(sorted(k for k in sys.modules if k == "gcmpy" or k.startswith("gcmpy."))) + tuple(id(m) for m in extra_modules)
    if _TARGETS["key"] != names:
        out = []
        mods = [sys.modules[k] for k in names if isinstance(k, str) and sys.modules.get(k) is not None] + list(extra_modules)
        for m in mods:
            for gname, val in list(vars(m).items()):
                if not callable(val):
                    continue
                for name, orig in _ORIG.items():
                    if val is orig or (getattr(val, "__self__", None) is random._inst and getattr(val, "__name__", None) == name):
                        out.append((m, gname, name))
                        break
        _TARGETS["key"], _TARGETS["list"] = names, out
    return _TARGETS["list"]


@contextlib.contextmanager
def installed(sem, extra_modules=()):
    """route every use of the `random` module through `sem`: the module's public functions, and every global of an imported
    gcmpy module (or of `extra_modules`) that is one of those functions (`from random import shuffle`)"""
    if getattr(random, "shuffle") is not _ORIG["shuffle"]:
        raise RuntimeError("installed() is not re-entrant")
    saved = []
    try:
        for m, gname, name in _targets(extra_modules):
            saved.append((m, gname, getattr(m, gname)))
            setattr(m, gname, getattr(sem, name))
        for name, orig in _ORIG.items():
            saved.append((random, name, orig))
            setattr(random, name, getattr(sem, name))
        yield sem
    finally:
        for m, gname, val in reversed(saved):
            setattr(m, gname, val)
