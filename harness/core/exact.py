import os
import sys
"""Exact number types on which gcmpy's generic arithmetic runs unchanged (DESIGN §3.2)."""
from fractions import Fraction
import math
import numbers


def _fr(x):
    if isinstance(x, Ex):
        return x.v
    if isinstance(x, bool):
        return Fraction(int(x))
    if isinstance(x, (int, Fraction)):
        return Fraction(x)
    if isinstance(x, float):
        return Fraction(x)          # exact: every float is a dyadic rational
    try:
        import numpy as np
        if isinstance(x, np.integer):
            return Fraction(int(x))
        if isinstance(x, np.floating):
            return Fraction(float(x))
    except Exception:
        pass
    return NotImplemented


_HARNESS = os.path.dirname(os.path.dirname(os.path.abspath(__file__)))


class Ex:
    """exact rational that absorbs ints and floats (floats converted exactly)"""
    __slots__ = ("v",)

    def __init__(self, v=0):
        f = _fr(v) if not isinstance(v, str) else Fraction(v)
        if f is NotImplemented:
            raise TypeError(f"cannot make Ex from {type(v)}")
        self.v = f

    def _bin(self, o, f):
        b = _fr(o)
        if b is NotImplemented:
            return NotImplemented
        return Ex(f(self.v, b))

    def __add__(self, o): return self._bin(o, lambda a, b: a + b)
    __radd__ = __add__
    def __sub__(self, o): return self._bin(o, lambda a, b: a - b)
    def __rsub__(self, o): return self._bin(o, lambda a, b: b - a)
    def __mul__(self, o): return self._bin(o, lambda a, b: a * b)
    __rmul__ = __mul__

    def __truediv__(self, o):
        b = _fr(o)
        if b is NotImplemented:
            return NotImplemented
        if b == 0:
            raise ZeroDivisionError("Ex division by zero")
        return Ex(self.v / b)

    def __rtruediv__(self, o):
        b = _fr(o)
        if b is NotImplemented:
            return NotImplemented
        if self.v == 0:
            raise ZeroDivisionError("Ex division by zero")
        return Ex(b / self.v)

    def __pow__(self, e):
        ef = _fr(e)
        if ef is NotImplemented or ef.denominator != 1:
            return NotImplemented
        return Ex(self.v ** int(ef))

    def __rpow__(self, b):
        if self.v.denominator != 1:
            return NotImplemented
        return Ex(_fr(b) ** int(self.v))

    def __neg__(self): return Ex(-self.v)
    def __pos__(self): return self
    def __abs__(self): return Ex(abs(self.v))
    def __float__(self):
        # the harness may turn an exact value into a double; the code under test may not do so silently (math.pow, float(), numpy):
        # a result computed half exactly and half in doubles would be compared as if it were exact.  A TypeError naming this type
        # is classified by the runner as "not observed in exact arithmetic", never as a verdict on the property.
        f = sys._getframe(1)
        if not f.f_code.co_filename.startswith(_HARNESS):
            raise TypeError("must be real number, not Ex")
        return float(self.v)
    def __int__(self): return int(self.v)
    def __trunc__(self): return math.trunc(self.v)
    def __floor__(self): return math.floor(self.v)
    def __ceil__(self): return math.ceil(self.v)
    def __round__(self, n=None): return round(self.v, n) if n is not None else round(self.v)
    def __bool__(self): return self.v != 0
    def __hash__(self): return hash(self.v)

    def _cmp(self, o, f):
        b = _fr(o)
        if b is NotImplemented:
            return NotImplemented
        return f(self.v, b)

    def __eq__(self, o): return self._cmp(o, lambda a, b: a == b)
    def __lt__(self, o): return self._cmp(o, lambda a, b: a < b)
    def __le__(self, o): return self._cmp(o, lambda a, b: a <= b)
    def __gt__(self, o): return self._cmp(o, lambda a, b: a > b)
    def __ge__(self, o): return self._cmp(o, lambda a, b: a >= b)
    def __repr__(self): return f"Ex({self.v})"

    def s(self):
        return str(self.v.numerator) if self.v.denominator == 1 else f"{self.v.numerator}/{self.v.denominator}"


def rs(x):
    """rational string for the driver protocol"""
    f = _fr(x)
    return str(f.numerator) if f.denominator == 1 else f"{f.numerator}/{f.denominator}"


def recover(x, max_den):
    """the unique rational with denominator <= max_den closest to a float the code produced by int/int"""
    if isinstance(x, Ex):
        return x.v
    if isinstance(x, (int, Fraction)):
        return Fraction(x)
    return Fraction(x).limit_denominator(max_den)


class Poly:
    """exact multivariate polynomial over Q: dict monomial(tuple of (var, exp) sorted) -> Fraction"""
    __slots__ = ("t",)

    def __init__(self, t=None):
        self.t = {k: v for k, v in (t or {}).items() if v != 0}

    @staticmethod
    def const(c):
        return Poly({(): _fr(c)})

    @staticmethod
    def var(name):
        return Poly({((name, 1),): Fraction(1)})

    @staticmethod
    def lift(x):
        if isinstance(x, Poly):
            return x
        f = _fr(x)
        if f is NotImplemented:
            return NotImplemented
        return Poly.const(f)

    def __add__(self, o):
        o = Poly.lift(o)
        if o is NotImplemented:
            return NotImplemented
        t = dict(self.t)
        for k, v in o.t.items():
            t[k] = t.get(k, 0) + v
        return Poly(t)
    __radd__ = __add__

    def __neg__(self): return Poly({k: -v for k, v in self.t.items()})
    def __sub__(self, o):
        o = Poly.lift(o)
        if o is NotImplemented:
            return NotImplemented
        return self + (-o)

    def __rsub__(self, o):
        o = Poly.lift(o)
        if o is NotImplemented:
            return NotImplemented
        return o + (-self)

    def __mul__(self, o):
        o = Poly.lift(o)
        if o is NotImplemented:
            return NotImplemented
        t = {}
        for k1, v1 in self.t.items():
            for k2, v2 in o.t.items():
                d = dict(k1)
                for var, e in k2:
                    d[var] = d.get(var, 0) + e
                k = tuple(sorted(d.items()))
                t[k] = t.get(k, 0) + v1 * v2
        return Poly(t)
    __rmul__ = __mul__

    def __pow__(self, e):
        ef = _fr(e)
        if ef is NotImplemented or ef.denominator != 1 or ef < 0:
            return NotImplemented
        n = int(ef)
        r = Poly.const(1)
        b = self
        while n:
            if n & 1:
                r = r * b
            b = b * b
            n >>= 1
        return r

    def __truediv__(self, o):
        f = _fr(o)
        if f is NotImplemented:
            return NotImplemented
        return Poly({k: v / f for k, v in self.t.items()})

    def __eq__(self, o):
        o = Poly.lift(o)
        if o is NotImplemented:
            return NotImplemented
        return self.t == o.t

    def __hash__(self): return hash(tuple(sorted(self.t.items())))
    def __bool__(self): return bool(self.t)

    def canon(self):
        """sorted list of [[[var, exp]...], "p/q"]"""
        return [[[list(x) for x in k], rs(v)] for k, v in sorted(self.t.items())]

    def __repr__(self): return f"Poly({self.canon()})"
