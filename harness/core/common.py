"""Shared machinery: paths, driver client, proof audit, verdict protocol, evidence writer."""
import hashlib
import json
import os
import random
import re
import subprocess
import sys
import time
import traceback
from pathlib import Path

VERIF = Path(__file__).resolve().parents[2]
LEAN = VERIF / "lean"
REPO = Path(os.environ.get("GCMPY_REPO", "/repo"))
WORK = VERIF / ".work"
EVIDENCE = (VERIF / "evidence") if str(REPO) == "/repo" else (WORK / "evidence_alt")   # trial runs against a scratch copy never overwrite the evidence
REPLAYS = VERIF / "replays"
DRIVER = LEAN / ".lake" / "build" / "bin" / "driver"
ALLOWED_AXIOMS = {"propext", "Classical.choice", "Quot.sound"}
FORBIDDEN = [r"\bsorry\b", r"\badmit\b", r"^\s*axiom\s", r"native_decide", r"bv_decide",
             r"implemented_by", r"\bunsafe\s", r"maxHeartbeats\s+0\b", r"@\[extern", r"\bopaque\s"]

TRUSTED_BASE = [
    "Lean 4.33.0 kernel (axioms audited per theorem: only propext, Classical.choice, Quot.sound accepted)",
    "Mathlib v4.33.0 lemmas imported module by module in Lemmas/ and Properties/ (never in Model/)",
    "Lean native code generator/runtime for the driver executable (executes the model's definitions)",
    "the Python correspondence harness under /verif/harness (generators, scripted RNG, exact number types, canonicalisers, oracles)",
    "CPython 3.12 stdlib and networkx 3.6 behaviour re-defined in the model and compared per instance",
]


class MachineryError(Exception):
    """Something in /verif is broken (build failure, driver crash): exit 2, never a VIOLATION."""


def ensure_repo_on_path():
    p = str(REPO)
    if p in sys.path:
        sys.path.remove(p)
    sys.path.insert(0, p)
    # make sure a previously imported gcmpy from elsewhere is not reused
    for k in list(sys.modules):
        if k == "gcmpy" or k.startswith("gcmpy."):
            f = getattr(sys.modules[k], "__file__", "") or ""
            if not f.startswith(p):
                del sys.modules[k]


# --------------------------------------------------------------------------- proofs

def strip_lean_comments(src: str) -> str:
    out = []
    i, n, depth = 0, len(src), 0
    while i < n:
        if src.startswith("/-", i):
            depth += 1
            i += 2
        elif depth and src.startswith("-/", i):
            depth -= 1
            i += 2
        elif depth:
            if src[i] == "\n":
                out.append("\n")
            i += 1
        elif src.startswith("--", i):
            while i < n and src[i] != "\n":
                i += 1
        elif src[i] == '"':
            j = i + 1
            while j < n and src[j] != '"':
                j += 2 if src[j] == "\\" else 1
            out.append('""')
            i = j + 1
        else:
            out.append(src[i])
            i += 1
    return "".join(out)


def forbidden_tokens():
    hits = []
    for f in sorted(LEAN.glob("GcmpyModel/**/*.lean")) + [LEAN / "Driver.lean"]:
        if "/Driver/" in str(f) or f.name == "Driver.lean":
            continue  # the driver is executed, never trusted for a theorem; still no sorry allowed there
        code = strip_lean_comments(f.read_text())
        for ln, line in enumerate(code.split("\n"), 1):
            for pat in FORBIDDEN:
                if re.search(pat, line):
                    hits.append(f"{f.relative_to(LEAN)}:{ln}: {pat}")
    return hits


def lake_build():
    t = time.time()
    r = subprocess.run(["lake", "build"], cwd=LEAN, capture_output=True, text=True)
    if r.returncode != 0:
        raise MachineryError("lake build failed:\n" + (r.stdout + r.stderr)[-4000:])
    if not DRIVER.exists():
        raise MachineryError("driver executable missing after lake build")
    return time.time() - t


AUDIT_HEAD = """import Lean
{imports}
open Lean Elab Command
"""
AUDIT_BODY = """run_cmd do
  let env ← getEnv
  let some idx := env.getModuleIdx? `GcmpyModel.Properties.{mod} | throwError "no module"
  for (n, ci) in env.constants.map₁.toList do
    if env.getModuleIdxFor? n == some idx then
      if let .thmInfo _ := ci then
        if !n.isInternalDetail then
          let axs ← collectAxioms n
          logInfo m!"AUDIT {{n}} :: {{axs.toList}}"
"""


def property_modules(pid: str):
    """Properties/<pid>.lean plus continuation files Properties/<pid><Suffix>.lean (e.g. C01Custom)"""
    d = LEAN / "GcmpyModel" / "Properties"
    mods = sorted(f.stem for f in d.glob(f"{pid}*.lean") if re.fullmatch(pid + r"[A-Za-z]*", f.stem))
    return mods


def audit(pid: str):
    """Returns list of (theorem, axioms) for every theorem declared in the property's module(s)."""
    WORK.mkdir(exist_ok=True)
    mods = property_modules(pid)
    if not mods:
        raise MachineryError(f"no property file for {pid}")
    # cache on the hash of all lean sources: the audit is a pure function of them
    h = hashlib.sha256()
    for f in sorted(LEAN.glob("GcmpyModel/**/*.lean")):
        h.update(f.read_bytes())
    key = h.hexdigest()[:16]
    cache = WORK / f"audit_{pid}_{key}.json"
    if cache.exists() and os.environ.get("VERIF_TIER") != "thorough":
        return json.loads(cache.read_text())
    af = WORK / f"Audit_{pid}_{os.getpid()}.lean"
    af.write_text(AUDIT_HEAD.format(imports="\n".join(f"import GcmpyModel.Properties.{m}" for m in mods))
                  + "".join(AUDIT_BODY.format(mod=m) for m in mods))
    try:
        r = subprocess.run(["lake", "env", "lean", str(af)], cwd=LEAN, capture_output=True, text=True)
    finally:
        af.unlink(missing_ok=True)
    if r.returncode != 0:
        raise MachineryError("audit failed:\n" + (r.stdout + r.stderr)[-3000:])
    res = []
    for m in re.finditer(r"AUDIT (\S+) :: \[(.*?)\]", r.stdout.replace("\n", " ")):
        axs = [a.strip() for a in m.group(2).split(",") if a.strip()]
        res.append([m.group(1), axs])
    if not res:
        raise MachineryError(f"audit found no theorems in Properties/{pid}*.lean")
    res.sort()
    for old in WORK.glob(f"audit_{pid}_*.json"):
        old.unlink(missing_ok=True)
    cache.write_text(json.dumps(res))
    return res


def partial_statements(pid: str):
    """names of `def …_full : Prop` statements kept visible but unproved, and `_partial` theorems"""
    src = "\n".join((LEAN / "GcmpyModel" / "Properties" / f"{m}.lean").read_text() for m in property_modules(pid))
    code = strip_lean_comments(src)
    full = re.findall(r"^def\s+(\S+_full)\b", code, re.M)
    part = re.findall(r"^theorem\s+(\S+_partial)\b", code, re.M)
    return {"unproved_full_statements": full, "partial_theorems": part}


def check_proofs(pid: str, thorough=False):
    info = {}
    info["build_s"] = round(lake_build(), 2)
    hits = forbidden_tokens()
    if hits:
        raise MachineryError("forbidden tokens in Lean sources: " + "; ".join(hits[:10]))
    thms = audit(pid)
    bad = [(t, a) for t, a in thms if not set(a) <= ALLOWED_AXIOMS]
    info["obligations"] = len(thms)
    info["discharged"] = len(thms) - len(bad)
    info["theorems"] = [t for t, _ in thms]
    info["axioms_used"] = sorted({a for _, ax in thms for a in ax})
    info.update(partial_statements(pid))
    if bad:
        raise MachineryError(f"theorems with unaccepted axioms: {bad[:5]}")
    if thorough:
        t = time.time()
        mods = [f"GcmpyModel.Properties.{m}" for m in property_modules(pid)]
        r = subprocess.run(["lake", "env", "leanchecker"] + mods, cwd=LEAN, capture_output=True, text=True)
        info["leanchecker"] = {"modules": mods, "returncode": r.returncode, "wall_s": round(time.time() - t, 1),
                               "tail": (r.stdout + r.stderr)[-300:]}
        if r.returncode != 0:
            raise MachineryError("leanchecker rejected the compiled proofs: " + (r.stdout + r.stderr)[-1500:])
    return info


# --------------------------------------------------------------------------- driver

def run_driver(requests, timeout=1800):
    """Pipe all requests (dicts) to the native Lean driver; one reply per request."""
    if not requests:
        return []
    data = "\n".join(json.dumps(r, separators=(",", ":")) for r in requests) + "\n"
    r = subprocess.run([str(DRIVER)], input=data, capture_output=True, text=True, timeout=timeout)
    if r.returncode != 0:
        raise MachineryError(f"driver exited {r.returncode}: {r.stderr[-2000:]}")
    lines = [l for l in r.stdout.split("\n") if l.strip()]
    if len(lines) != len(requests):
        raise MachineryError(f"driver returned {len(lines)} replies for {len(requests)} requests; stderr={r.stderr[-500:]}")
    return [json.loads(l) for l in lines]


# --------------------------------------------------------------------------- known findings

def load_known():
    f = VERIF / "known_findings.json"
    if not f.exists():
        return []
    return json.loads(f.read_text()).get("findings", [])


def canon(x):
    """JSON-stable canonical form (tuples -> lists, sets sorted, Fractions -> strings)."""
    from fractions import Fraction
    if isinstance(x, dict):
        return {str(k): canon(v) for k, v in sorted(x.items(), key=lambda kv: str(kv[0]))}
    if isinstance(x, (list, tuple)):
        return [canon(v) for v in x]
    if isinstance(x, (set, frozenset)):
        return sorted((canon(v) for v in x), key=lambda v: json.dumps(v, sort_keys=True))
    if isinstance(x, Fraction):
        return str(x.numerator) if x.denominator == 1 else f"{x.numerator}/{x.denominator}"
    if isinstance(x, bool) or x is None or isinstance(x, (int, str)):
        return x
    if isinstance(x, float):
        return x
    try:
        import numpy as np
        if isinstance(x, np.integer):
            return int(x)
        if isinstance(x, np.floating):
            return float(x)
    except Exception:
        pass
    return repr(x)


def first_diff(a, b, path="$"):
    """human-readable location of the first difference between two canonical JSON values"""
    if type(a) != type(b):
        return f"{path}: {json.dumps(a)[:200]} != {json.dumps(b)[:200]}"
    if isinstance(a, dict):
        for k in sorted(set(a) | set(b)):
            if k not in a or k not in b:
                return f"{path}.{k}: present on one side only"
            d = first_diff(a[k], b[k], f"{path}.{k}")
            if d:
                return d
        return None
    if isinstance(a, list):
        if len(a) != len(b):
            return f"{path}: lengths {len(a)} != {len(b)}: {json.dumps(a)[:160]} vs {json.dumps(b)[:160]}"
        for i, (x, y) in enumerate(zip(a, b)):
            d = first_diff(x, y, f"{path}[{i}]")
            if d:
                return d
        return None
    return None if a == b else f"{path}: {json.dumps(a)[:200]} != {json.dumps(b)[:200]}"
