#!/venv/bin/python
"""Entry point: run.py --property Cxx [--tier quick|thorough] [--replay file]
exit 0 = property held on everything explored; 1 = VIOLATION printed; 2 = machinery broken/timeout."""
import argparse
import importlib
import os
import signal
import sys
from pathlib import Path

HERE = Path(__file__).resolve().parent
sys.path.insert(0, str(HERE))


def main():
    ap = argparse.ArgumentParser()
    ap.add_argument("--property", required=True)
    ap.add_argument("--tier", default=os.environ.get("VERIF_TIER", "quick"))
    ap.add_argument("--replay")
    a = ap.parse_args()
    # the repository's third-party dependencies live in /venv: started under another interpreter, hand over to it
    try:
        import networkx  # noqa: F401
    except ImportError:
        venv = "/venv/bin/python"
        if os.path.exists(venv) and os.path.realpath(sys.executable) != os.path.realpath(venv) and not os.environ.get("VERIF_REEXEC"):
            os.environ["VERIF_REEXEC"] = "1"
            os.execv(venv, [venv] + sys.argv)
        print("MACHINERY-ERROR: networkx is not importable by this interpreter", file=sys.stderr)
        sys.exit(2)
    # string hashing (hence set / dict-of-str iteration order) is fixed per VERIF_SEED: reproducible, and different seeds
    # see different orders
    hs = str(int(os.environ.get("VERIF_SEED", "0") or 0) % 4294967295)
    if os.environ.get("PYTHONHASHSEED") != hs:
        os.environ["PYTHONHASHSEED"] = hs
        os.execv(sys.executable, [sys.executable] + sys.argv)
    os.environ["VERIF_TIER"] = a.tier
    if hasattr(sys, "set_int_max_str_digits"):
        sys.set_int_max_str_digits(0)       # exact rationals of long iterations have more than 4300 digits
    import warnings
    warnings.filterwarnings("ignore", category=SyntaxWarning)
    os.environ.pop("GCMPY_VERIF", None)
    seed = int(os.environ.get("VERIF_SEED", "0") or 0)
    from core import common, runner
    limit = int(os.environ.get("VERIF_TIMEOUT", "1500" if a.tier == "quick" else "7200"))

    def on_alarm(*_):
        print(f"TIMEOUT after {limit}s", file=sys.stderr)
        os._exit(2)
    signal.signal(signal.SIGALRM, on_alarm)
    signal.alarm(limit)
    import time
    runner.GLOBAL_DEADLINE[0] = time.time() + limit
    try:
        mod = importlib.import_module(f"props.{a.property.lower()}")
        prop = mod.PROP
        rc = runner.run(prop, a.tier, seed, replay=a.replay)
    except common.MachineryError as e:
        print(f"MACHINERY-ERROR {a.property}: {e}", file=sys.stderr)
        sys.exit(2)
    except (SystemExit, KeyboardInterrupt):
        raise
    except BaseException as e:       # a crash of the machinery itself is never a verdict on the property: exit 2, not 1
        import traceback
        traceback.print_exc()
        print(f"MACHINERY-ERROR {a.property}: {type(e).__name__}: {e}", file=sys.stderr)
        sys.exit(2)
    sys.exit(rc)


if __name__ == "__main__":
    main()
