"""C09 — EECC returns an edge-disjoint edge clique cover within the size bound."""
import itertools
import json

from core.rng import SemanticRandom, installed, patched
from core.runner import Prop
from . import cover_common as cc


class C09(Prop):
    pid = "C09"
    rule = ("simple graphs without isolated vertices on 4-10 vertices (G(n,p), planted overlapping K3-K6, unions of cliques sharing single "
            "vertices, the suite's 14-vertex fixture), vertex labels shuffled so that maximal cliques arrive unsorted; m0 in 2..6 (below, at "
            "and above the clique number); the random tie-break (eecc.choice) is scripted; the picks actually made are recovered from the cover "
            "list between scoring passes and replayed in the model, which checks each pick against its step relation; "
            "non-trivial = at least one greedy pick was made or a maximal clique exceeds m0; distinct = distinct case")
    assumptions = ["nx.find_cliques returns exactly the maximal cliques (the model uses a brute-force definition; compared per instance through "
                   "limited_maximal_cliques on the input graph)",
                   "which tied candidate the heuristic prefers is not part of the property: the model's step relation allows any non-zero-score clique"]
    model_scope = "modelled: covers/eecc.py (limited_maximal_cliques, compute_scores as 'score is zero', get_EECC) and network.py remove_edge/has_edges/find_cliques"
    budgets = {"quick": 150, "thorough": 10000}
    search_budget = {"quick": 400, "thorough": 3000}

    FIXTURE = [(1, 2), (1, 14), (2, 4), (2, 13), (2, 14), (3, 4), (3, 5), (4, 5), (4, 13), (4, 14), (6, 7), (6, 13), (7, 8), (7, 13),
               (8, 9), (8, 13), (9, 10), (9, 11), (9, 13), (10, 11), (11, 12), (12, 13), (13, 14)]

    def gen(self, rng, i, tier):
        if rng.random() < 0.04:
            edges, shape = [list(e) for e in self.FIXTURE], "fixture"
        elif rng.random() < 0.25:
            edges, shape = cc.gen_soup(rng)
            return {"edges": edges, "m0": rng.choice([3, 4, 4, 5]), "shape": shape,
                    "choices": [rng.randrange(1 << 20) for _ in range(40)]}
        else:
            edges, shape = cc.gen_graph(rng, 4, 9 if tier == "quick" else 10)
        c = {"edges": edges, "m0": rng.choice([2, 3, 3, 4, 5, 6]), "shape": shape,
             "choices": [rng.randrange(1 << 20) for _ in range(40)]}
        if i % 5 == 2 and edges:
            # the input names some edges twice (same or opposite orientation): the graph is the same simple graph
            for _ in range(rng.randint(1, 3)):
                a, b = rng.choice(edges)[:2]
                c["edges"] = c["edges"] + [[a, b] if rng.random() < 0.5 else [b, a]]
            c["dup_input"] = True
        if i % 5 == 4:
            c["m0_type"] = "numpy"          # the bound arrives as a NumPy integer (e.g. read off an array of clique sizes)
        return c

    def impl(self, case):
        from gcmpy.covers import eecc as mod
        G = mod.EECC()
        if case.get("dup_input") and len(case["edges"]) % 2:
            G.add_edges_from([tuple(e) for e in case["edges"]])
        else:
            for e in case["edges"]:
                G.add_edge(tuple(e))
        if case.get("m0_type") == "numpy":
            import numpy as np
            G.set_max_clique_size(np.int64(case["m0"]))
        else:
            G.set_max_clique_size(case["m0"])
        lmc0 = [list(c) for c in G.limited_maximal_cliques()]
        state = {"k": 0, "picks": [], "calls": 0, "ec": None, "cands": []}
        orig = mod.EECC.compute_scores

        def wrapped(self_, C, EC, ord_, r, indexes):
            if state["calls"] >= 1:
                state["picks"].append(list(EC[-1]))
            state["calls"] += 1
            state["ec"] = EC
            return orig(self_, C, EC, ord_, r, indexes)

        class R(SemanticRandom):
            """tie breaks: one uniform choice among the candidates each, from the case's cyclic script"""

            def on_uniform(self, n, ctx):
                v = case["choices"][state["k"] % len(case["choices"])] % n
                state["k"] += 1
                state["cands"].append(n)
                return v
        sem = R()
        hook = hasattr(mod.EECC, "compute_scores")       # where the picks are observed; without it the oracle still applies
        if hook:
            with patched(mod.EECC, "compute_scores", wrapped), installed(sem):
                cover = G.get_EECC()
        else:
            with installed(sem):
                cover = G.get_EECC()
            state["picks"] = None
        return {"cover": sorted([sorted(c) for c in cover], key=lambda c: (-len(c), c)), "raw_cover": [list(c) for c in cover],
                "has_edges_after": G.has_edges(), "picks": state["picks"], "lmc0": lmc0, "n_choice_calls": state["k"],
                "candidate_set_sizes": state["cands"], "nodes": cc.nodes_of(case["edges"]),
                "rng_unexpected": sem.summary()["n_unexpected"]}

    @staticmethod
    def _uniq(edges):
        seen, out = set(), []
        for e in edges:
            k = frozenset(e)
            if k not in seen:
                seen.add(k)
                out.append(list(e))
        return out

    def request(self, case, obs):
        if len(cc.nodes_of(case["edges"])) > 12:
            return None          # the model's maximal cliques are a brute-force definition: large graphs are oracle-only
        if "exc" in obs:
            return {"op": "c09", "kind": "lmc", "edges": self._uniq(case["edges"]), "nodes": cc.nodes_of(case["edges"]), "m0": case["m0"], "picks": []}
        if obs["picks"] is None:
            raise ValueError("EECC.compute_scores is gone: the sequence of picked cliques cannot be observed")
        return {"op": "c09", "edges": self._uniq(case["edges"]), "nodes": obs["nodes"], "m0": case["m0"], "picks": obs["picks"]}

    def model(self, case, reply, obs):
        if "cover" not in reply:
            return {"model": "lmc-only"}
        return {"cover": reply["cover"], "picks_allowed": reply["picks_allowed"], "finished": reply["finished"],
                "lmc0": reply["init_lmc"]}

    def project(self, case, obs):
        if "exc" in obs:
            return {"exc": obs["exc"]}
        return {"cover": obs["cover"], "picks_allowed": True, "finished": True, "lmc0": obs["lmc0"]}

    def oracle(self, case, obs):
        if "exc" in obs:
            return [f"raised: {obs['exc']}: {obs.get('msg', '')[:80]}"]
        f = []
        eset = {frozenset(e) for e in case["edges"]}
        m0 = case["m0"]
        covered = {}
        for c in obs["raw_cover"]:
            if len(set(c)) != len(c) or not (2 <= len(c) <= m0):
                f.append(f"size-bound: cover member {c} does not have between 2 and {m0} distinct vertices")
                continue
            if not cc.is_clique(c, eset):
                f.append(f"not-a-clique: cover member {c} is not a clique of the input graph")
                continue
            for p in itertools.combinations(c, 2):
                covered[frozenset(p)] = covered.get(frozenset(p), 0) + 1
        twice = [sorted(e) for e, k in covered.items() if k > 1]
        if twice:
            f.append(f"edge-covered-twice: edge {twice[0]} lies in {covered[frozenset(twice[0])]} cover members")
        missing = [sorted(e) for e in eset if e not in covered]
        if missing:
            f.append(f"edge-uncovered: edge {missing[0]} lies in no cover member")
        if obs["has_edges_after"]:
            f.append("working-graph-not-empty: has_edges() is true afterwards")
        nodes = cc.nodes_of(case["edges"])
        mx = cc.maximal_cliques(nodes, eset) if len(nodes) <= 12 else cc.maximal_cliques_bk(nodes, eset)
        medges = [set(map(frozenset, itertools.combinations(c, 2))) for c in mx]
        cov = {tuple(sorted(c)) for c in obs["raw_cover"]}
        for i, c in enumerate(mx):
            if 2 <= len(c) <= m0 and not any(i != j and medges[i] & medges[j] for j in range(len(mx))):
                if tuple(sorted(c)) not in cov:
                    f.append(f"isolated-maximal-clique-split: maximal clique {c} shares no edge with another but is not returned intact")
                    break
        return f

    def nontrivial(self, case, obs):
        return "exc" not in obs and (len(obs["picks"]) > 0 or any(len(c) == case["m0"] for c in obs["cover"]))

    def stats(self, case, obs, hist):
        hist["shape_" + case["shape"]] = hist.get("shape_" + case["shape"], 0) + 1
        hist["m0_" + str(case["m0"])] = hist.get("m0_" + str(case["m0"]), 0) + 1
        if "exc" not in obs:
            hist["greedy_picks"] = hist.get("greedy_picks", 0) + len(obs["picks"])
            hist["tie_breaks_with_choice"] = hist.get("tie_breaks_with_choice", 0) + sum(1 for k in obs["candidate_set_sizes"] if k > 1)

    def shrink(self, case):
        for i in range(len(case["edges"])):
            if len(case["edges"]) > 1:
                c = json.loads(json.dumps(case)); del c["edges"][i]; c["shape"] = "shrunk"; yield c

    def fingerprint(self, case, obs, fails):
        return "C09/" + fails[0].split(":")[0]


PROP = C09()
