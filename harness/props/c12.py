"""C12 — MCMC rewiring only creates pairings the target allows (and approaches it)."""
from .mcmc_common import MCMCProp


class C12(MCMCProp):
    pid = "C12"
    rule = ("same runs as C11; targets with arbitrary subsets of pairings removed or zeroed (never one carried by an existing edge); every "
            "edge created by an accepted swap is checked against the target of its topology; the Metropolis decision of every proposal is "
            "recomputed exactly in the model with the injected uniform draw; non-trivial = at least one accepted swap; distinct = distinct case")

    # C12 is about what the target forbids: mostly targets with deleted / zeroed pairings, mostly several topologies
    modes = ["sparse", "sparse", "sparse", "zeros", "full"]
    min_topologies = 2
    budgets = {"quick": 30, "thorough": 400}
    search_budget = {"quick": 150, "thorough": 1500}

    def gen(self, rng, i, tier):
        return self.gen_dense(rng, i, tier) if i % 5 == 4 else super().gen(rng, i, tier)

    def search_cases(self, rng, seeds, n, tier):
        for s in seeds:
            yield s
        for i in range(n):
            yield self.gen_dense(rng, i, tier) if i % 4 else super().gen(rng, i, tier)

    def oracle(self, case, obs):
        return self.clauses_c12(case, obs)

    def fingerprint(self, case, obs, fails):
        return "C12/" + fails[0].split(":")[0]


PROP = C12()
