"""C19 — built-in degree distributions are the probability mass functions they name."""
import json
from decimal import Decimal, getcontext
from fractions import Fraction

from core.runner import Prop

getcontext().prec = 60
TOL = Decimal("1e-6")


def dexp(x):
    return Decimal(x).exp()


def zeta_ref(alpha, M=20000):
    """rigorous bracket: S_M + (M+1)^(1-a)/(a-1) <= zeta(a) <= S_M + M^(1-a)/(a-1)"""
    a = Decimal(alpha)
    S = sum(Decimal(k) ** (-a) for k in range(1, M + 1))
    return S + Decimal(M + 1) ** (1 - a) / (a - 1), S + Decimal(M) ** (1 - a) / (a - 1)


def zeta_trunc(alpha):
    a = Decimal(alpha)
    l, k = Decimal(0), 1
    while True:
        t = Decimal(k) ** (-a)
        l += t
        if t < TOL:
            return l, k
        k += 1


def polylog_trunc(alpha, z):
    a = Decimal(alpha)
    l, k, zk = Decimal(0), 1, z
    while True:
        t = zk / Decimal(k) ** a
        l += t
        if t < TOL:
            return l, k
        zk *= z
        k += 1


def polylog_ref(alpha, z, M=4000):
    a = Decimal(alpha)
    S = sum(z ** k / Decimal(k) ** a for k in range(1, M + 1))
    tail = z ** (M + 1) / (Decimal(M + 1) ** a * (1 - z))
    return S, S + tail


class C19(Prop):
    pid = "C19"
    rule = ("parameter grids: a in [0.05, 5], mean in [0.1, 30], alpha in [2, 6] (integers and non-integers), kappa in [0.5, 50]; k over the "
            "support up to 60, plus lists of extreme parameters walked deterministically; degrees also as NumPy integers; a second function swept "
            "downwards from k = 170 must repeat the values bit for bit; values compared with a 60-digit decimal evaluation of the named formulas whose normalisers are bracketed "
            "rigorously; for integer alpha the truncated normaliser and its stopping index are compared with the executable Lean model "
            "(exact rationals); non-trivial = every case; distinct = distinct (family, parameters)")
    assumptions = ["floating-point rounding and numpy.exp are outside the model: values are compared numerically (relative 1e-9 plus the proved "
                   "truncation bound), the theorems are about the real-number functions",
                   "the stopping index may differ by one when a term lands on the tolerance within rounding"]
    model_scope = ("modelled: the truncation loops of power_law.py / scale_free_cut_off.py (executably for integer exponents, as real functions in "
                   "Properties/C19.lean); exponential.py and poisson.py as real functions")
    budgets = {"quick": 60, "thorough": 600}
    recheck = {"quick": 4, "thorough": 20}
    search_budget = {"quick": 100, "thorough": 600}

    def gen(self, rng, i, tier):
        fam = ["exponential", "poisson", "power_law", "scale_free_cut_off"][i % 4]
        if (i // 4) % 3 == 2:
            # the ends of the documented parameter ranges (a > 0, mean > 0, alpha >= 2, kappa > 0): very small and very large values
            j = i // 12                      # walk through the lists in order: the quick tier reaches the first five of each
            if fam == "exponential":
                return {"family": fam, "a": [1000.0, 1e-6, 710.0, 709.7, 300.0, 745.2, 1e-3, 50.0, 700.0][j % 9]}
            if fam == "poisson":
                return {"family": fam, "mean": [150.0, 1e-9, 60.0, 1e-3][j % 4]}
            if fam == "power_law":
                return {"family": fam, "alpha": [60, 2, 25, 10.0, 2.0, 40.5, 10][j % 7]}
            return {"family": fam, "alpha": [2, 8, 2.5, 20][j % 4], "kappa": [1e5, 0.01, 1e3, 0.05][(j // 2 + j) % 4]}
        if fam == "exponential":
            return {"family": fam, "a": rng.choice([0.05, 0.3, 1.0, 2.5, 5.0, round(rng.uniform(0.05, 5), 3)])}
        if fam == "poisson":
            return {"family": fam, "mean": rng.choice([0.1, 1.0, 3.5, 12.0, 30.0, round(rng.uniform(0.1, 30), 2)])}
        alpha = rng.choice([2, 3, 4, 2.5, 3.7, 6, round(rng.uniform(2, 6), 2)])
        if fam == "power_law":
            return {"family": fam, "alpha": alpha}
        return {"family": fam, "alpha": alpha, "kappa": rng.choice([0.5, 2.0, 10.0, 50.0, round(rng.uniform(0.5, 50), 2)])}

    def impl(self, case):
        import numpy as np
        from gcmpy.distributions import exponential, poisson, power_law, scale_free_cut_off
        fam = case["family"]
        if fam == "exponential":
            p = exponential(case["a"]); ks = list(range(0, 61))
        elif fam == "poisson":
            p = poisson(case["mean"]); ks = list(range(0, 61))
        elif fam == "power_law":
            p = power_law(case["alpha"]); ks = list(range(1, 61))
        else:
            p = scale_free_cut_off(case["alpha"], case["kappa"]); ks = list(range(1, 61))
        vals = [float(p(k)) for k in ks]
        obs = {"ks": ks, "vals": [repr(v) for v in vals]}
        # a value depends on (parameters, k) only: a second function from the same factory, swept downwards from far in the tail
        # (where the values underflow), and the first one asked again out of order, must repeat the values above
        make = {"exponential": lambda: exponential(case["a"]), "poisson": lambda: poisson(case["mean"]),
                "power_law": lambda: power_law(case["alpha"]),
                "scale_free_cut_off": lambda: scale_free_cut_off(case["alpha"], case["kappa"])}[fam]
        p2 = make()
        order = []
        try:
            down = {}
            for k in range(170, ks[0] - 1, -1):
                try:
                    down[k] = float(p2(k))
                except (OverflowError, ZeroDivisionError):
                    if k <= ks[-1]:
                        raise              # beyond the judged range a power may overflow for large parameters: not judged here
            again = {k: float(p(k)) for k in (ks[-1], ks[0], ks[len(ks) // 2], ks[0])}
            for k, v in zip(ks, vals):
                for w in (down[k], again.get(k, v)):
                    if repr(w) != repr(v):
                        order.append([k, repr(v), repr(w)])
        except Exception as e:
            order.append([-1, "", type(e).__name__ + ": " + str(e)[:80]])
        obs["order_dependent"] = order[:3]
        # degrees handed over as NumPy integers (e.g. np.arange over the support) name the same k
        if fam != "power_law" or isinstance(case["alpha"], float):
            bad = []
            for k, v in list(zip(ks, vals))[:16]:
                for ty in ("uint32", "int64"):
                    try:
                        w = float(p(getattr(np, ty)(k)))
                        if not (w == v or abs(w - v) <= 1e-12 * abs(v)):
                            bad.append([k, ty, repr(w)])
                    except Exception as e:
                        bad.append([k, ty, type(e).__name__])
            obs["numpy_degrees"] = bad[:4]
        if fam == "scale_free_cut_off":
            obs["z"] = repr(float(np.exp(-1.0 / case["kappa"])))
        return obs

    def request(self, case, obs):
        fam = case["family"]
        a = case.get("alpha")
        if fam == "scale_free_cut_off" and case["kappa"] < 0.2:
            return None      # z = e^(-1/kappa) < 1e-2..1e-44: below the 1e-18 fixed-point resolution of the model's printed normaliser
        if "exc" not in obs and fam in ("power_law", "scale_free_cut_off") and float(a).is_integer():
            if fam == "power_law":
                return {"op": "c19", "kind": "zeta", "s": int(a)}
            z = Fraction(float(obs["z"]))
            return {"op": "c19", "kind": "polylog", "s": int(a), "z": f"{z.numerator}/{z.denominator}"}
        return None

    def model(self, case, reply, obs):
        # normaliser recovered from the code's value at k = 1:  p(1) = 1^-alpha * z / C  (z = 1 for the pure power law)
        C_model = Decimal(reply["scaled_1e18"]) / Decimal(10) ** 18
        z = Decimal(obs["z"]) if case["family"] == "scale_free_cut_off" else Decimal(1)
        C_code = z / Decimal(obs["vals"][0])
        return {"normaliser_close": bool(abs(C_code - C_model) <= Decimal("1e-9") * C_model), "K": reply["K"]}

    def project(self, case, obs):
        if "exc" in obs:
            return {"exc": obs["exc"]}
        a = Decimal(case["alpha"])
        if case["family"] == "power_law":
            K = zeta_trunc(case["alpha"])[1]
        else:
            K = polylog_trunc(case["alpha"], Decimal(obs["z"]))[1]
        return {"normaliser_close": True, "K": K}

    def oracle(self, case, obs):
        if "exc" in obs:
            tag = "poisson-raises" if case["family"] == "poisson" else "raised"
            return [f"{tag}: {obs['exc']}: {obs.get('msg', '')[:80]}"]
        f = []
        fam = case["family"]
        ks = obs["ks"]
        if any(v.lstrip("-") in ("inf", "nan") for v in obs["vals"]):
            k = next(k for k, v in zip(ks, obs["vals"]) if v.lstrip("-") in ("inf", "nan"))
            return [f"not-finite: p({k}) = {obs['vals'][ks.index(k)]}"]
        vals = [Decimal(v) for v in obs["vals"]]
        if obs.get("order_dependent"):
            k, v, w = obs["order_dependent"][0]
            f.append(f"depends-on-evaluation-order: p({k}) = {v} in an upward sweep, {w} when the degrees are visited in another order")
        if obs.get("numpy_degrees"):
            k, ty, w = obs["numpy_degrees"][0]
            f.append(f"numpy-degree: p(np.{ty}({k})) = {w} but p({k}) = {obs['vals'][ks.index(k)]}")
        if any(v < 0 for v in vals):
            f.append("negative: a probability is negative")
        rel = Decimal("1e-9")
        if fam == "exponential":
            a = Decimal(repr(case["a"]))
            want = [(1 - dexp(-a)) * dexp(-a * k) for k in ks]
            bound = Decimal(0)
            tail = dexp(-a * (ks[-1] + 1))
        elif fam == "poisson":
            m = Decimal(repr(case["mean"]))
            want, fact = [], Decimal(1)
            for k in ks:
                if k > 0:
                    fact *= k
                want.append(dexp(-m) * m ** k / fact)
            bound = Decimal(0)
            tail = None
        elif fam == "power_law":
            lo, hi = zeta_ref(repr(case["alpha"]))
            a = Decimal(repr(case["alpha"]))
            want = [Decimal(k) ** (-a) / hi for k in ks]
            _, K = zeta_trunc(repr(case["alpha"]))
            bound = Decimal(K) * TOL / lo + (hi - lo) / lo        # proved: 0 <= zeta - trunc <= K * tol
            tail = None
        else:
            a = Decimal(repr(case["alpha"]))
            kap = Decimal(repr(case["kappa"]))
            z = dexp(-1 / kap)
            lo, hi = polylog_ref(repr(case["alpha"]), z)
            want = [Decimal(k) ** (-a) * dexp(-Decimal(k) / kap) / hi for k in ks]
            _, K = polylog_trunc(repr(case["alpha"]), z)
            bound = min(Decimal(K) * TOL, TOL * z / (1 - z)) / lo + (hi - lo) / lo + Decimal("1e-7")
            tail = None
        for k, v, w in zip(ks, vals, want):
            if w == 0:
                continue
            if w < Decimal("1e-290"):          # below the range of doubles: the float value may underflow to 0
                if v > Decimal("1e-280"):
                    f.append(f"value: p({k}) = {v:.6g}, the named law gives {w:.6g}")
                    break
                continue
            # truncated normaliser is smaller than the exact one, so the code's value is >= the exact one, by at most `bound` relatively
            r = v / w - 1
            if r < -rel or r > bound + rel:
                f.append(f"value: p({k}) = {v:.12g}, the named law gives {w:.12g} (relative difference {r:.3g}, allowed {bound:.3g})")
                break
        s = sum(vals)
        if fam == "exponential":
            if abs(s - (1 - tail)) > Decimal("1e-9"):
                f.append(f"sum: partial sum over the support {s:.12g} differs from {1 - tail:.12g}")
        elif fam == "poisson":
            if Decimal(repr(case["mean"])) <= 30 and s > 1 + Decimal("1e-9"):
                f.append("sum: partial sums exceed 1")
        else:
            if s > 1 + bound + rel:
                f.append(f"sum: partial sum {s:.9g} exceeds 1 by more than the truncation tolerance")
        return f

    def nontrivial(self, case, obs):
        return "exc" not in obs

    def stats(self, case, obs, hist):
        hist[case["family"]] = hist.get(case["family"], 0) + 1
        if float(case.get("alpha", 0.5)).is_integer() and case["family"] in ("power_law", "scale_free_cut_off"):
            hist["integer_alpha_compared_with_lean_model"] = hist.get("integer_alpha_compared_with_lean_model", 0) + 1

    def fingerprint(self, case, obs, fails):
        return "C19/" + fails[0].split(":")[0]


PROP = C19()
