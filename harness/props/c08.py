"""C08 — joint degrees derived from a clique cover count cliques per vertex."""
import collections
import json
from fractions import Fraction

from core.exact import rs, recover
from core.runner import Prop

SIZE_SETS = [[2], [3], [2, 3], [2, 4], [2, 5], [3, 5], [2, 3, 4], [2, 4, 6], [4], [2, 3, 5], [3, 4],
             [1, 2], [1, 3], [1, 2, 4], [1]]          # a 1-clique is a vertex covered by itself (vertex clique covers)


class C08(Prop):
    pid = "C08"
    rule = ("clique covers over 2-14 vertices numbered contiguously from 0 or 1, clique sizes drawn from size sets with and without 1-cliques and gaps "
            "({2,4}, {2,5}, {3,5}, {2,4,6}, ...), overlapping cliques, every vertex covered; every fiftieth cover has one vertex in 257-330 cliques; a quarter of the loaders are first built on another cover and rebuilt through the cover attribute; 10% malformed (non-contiguous ids) compared "
            "with the model only; non-trivial = at least two clique sizes occur or a size gap exists; distinct = distinct cover")
    assumptions = ["int/int float frequencies are mapped back to the unique rational with denominator <= number of vertices"]
    model_scope = "modelled: joint_degree_cover.py in full (constructor + create_jdd) and convert_jds_to_jdd"
    budgets = {"quick": 300, "thorough": 20000}
    search_budget = {"quick": 800, "thorough": 6000}

    def gen(self, rng, i, tier):
        base = rng.choice([0, 1])
        n = rng.randint(2, 14)
        sizes = [s for s in rng.choice(SIZE_SETS) if s <= n] or [2]
        if i % 6 == 5:
            # large cliques next to small ones (sizes whose hash-table order is not their numeric order: 8, 9, 16, 33 ...)
            sizes = rng.choice([[2, 9], [2, 3, 8], [3, 10], [2, 16], [9, 8], [2, 4, 33], [17, 3, 2, 5, 32], [8]])
            n = max(sizes) + rng.randint(0, 4)
        hub = i % 50 == 7
        if hub:
            # one vertex in several hundred cliques of the same size
            sizes = rng.choice([[2], [2, 3], [3]])
            n = rng.randint(258, 330)
        verts = list(range(base, base + n))
        cover = []
        if hub:
            h = rng.choice(verts)
            for v in verts:
                if v != h:
                    s = rng.choice(sizes)
                    cover.append([h, v] + rng.sample([u for u in verts if u not in (h, v)], s - 2))
        for _ in range(rng.randint(1, 10)):
            s = rng.choice(sizes)
            cover.append(rng.sample(verts, s))
        seen = {v for c in cover for v in c}
        for v in verts:
            if v not in seen:
                s = rng.choice(sizes)
                others = rng.sample([u for u in verts if u != v], s - 1)
                cover.append([v] + others)
                seen |= set(cover[-1])
        if rng.random() < 0.2:
            cover.append(list(rng.choice(cover)))            # the same clique listed twice
        rng.shuffle(cover)
        malformed = rng.random() < 0.10
        if malformed:
            shift = rng.choice([2, 3])
            cover = [[v + (shift if v >= base + n // 2 else 0) for v in c] for c in cover]
        mask = [rng.random() < 0.5 for _ in cover] if rng.random() < 0.3 else None     # cliques given as tuples
        c = {"cover": cover, "contiguous": not malformed, "tuple_mask": mask}
        if i % 4 == 1:
            c["rebuild"] = True
        return c

    def impl(self, case):
        from gcmpy.joint_degree.joint_degree_loaders.joint_degree_cover import JointDegreeCover
        from gcmpy.names.joint_degree_names import JointDegreeNames as JN
        mask = case.get("tuple_mask") or [False] * len(case["cover"])
        cover = [tuple(c) if t else list(c) for c, t in zip(case["cover"], mask)]
        if case.get("rebuild"):
            # the loader first held another cover (the same vertices and clique sizes, one clique listed three times) and is then given this one
            # through its public `cover` attribute and asked to rebuild
            obj = JointDegreeCover({JN.COVER: [list(c) for c in case["cover"]] + [list(case["cover"][0])] * 2})
            obj.cover = cover
            obj.create_jdd()
        else:
            obj = JointDegreeCover({JN.COVER: cover})
        n = len({v for c in case["cover"] for v in c})
        return {"motif_sizes": list(obj.motif_sizes),
                "table": [[list(k), rs(recover(v, n)), type(k).__name__] for k, v in obj.jdd.items()],
                "cover_untouched": [list(c) for c in cover] == case["cover"]}

    def request(self, case, obs):
        return {"op": "c08", "cover": case["cover"]}

    def model(self, case, reply, obs):
        if "exc" in reply:
            return {"exc": "raises"}
        return {"motif_sizes": reply["motif_sizes"], "table": sorted(reply["table"])}   # a mapping: insertion order is incidental

    def project(self, case, obs):
        if "exc" in obs:
            return {"exc": "raises"}
        return {"motif_sizes": obs["motif_sizes"], "table": sorted([k, v] for k, v, _ in obs["table"])}

    def oracle(self, case, obs):
        if not case["contiguous"]:
            return []
        if "exc" in obs:
            return [f"columns: loader raised {obs['exc']}: {obs.get('msg', '')[:80]}"]
        f = []
        cover = case["cover"]
        sizes = sorted({len(c) for c in cover})
        if obs["motif_sizes"] != sizes:
            f.append(f"motif-sizes: reported {obs['motif_sizes']}, sizes occurring are {sizes}")
        verts = sorted({v for c in cover for v in c})
        rows = {v: tuple(sum(1 for c in cover if len(c) == s and v in c) for s in sizes) for v in verts}
        want = collections.Counter(rows.values())
        want = {k: Fraction(c, len(verts)) for k, c in want.items()}
        got = {tuple(k): Fraction(v) for k, v, _ in obs["table"]}
        if any(len(k) != len(sizes) for k in got):
            f.append(f"columns: tuples have {sorted({len(k) for k in got})} columns, {len(sizes)} clique sizes occur")
        elif got != want:
            f.append("counts: per-vertex clique counts / their empirical distribution are wrong")
        if any(t != "tuple" for _, _, t in obs["table"]):
            f.append("keys-not-tuples")
        # profile reproduction: column totals are size * number of cliques of that size
        for j, s in enumerate(sizes):
            tot = sum(r[j] for r in rows.values())
            if tot != s * sum(1 for c in cover if len(c) == s):
                f.append("profile")
        if not obs["cover_untouched"]:
            f.append("cover-mutated")
        return f

    def nontrivial(self, case, obs):
        sizes = sorted({len(c) for c in case["cover"]})
        return case["contiguous"] and (len(sizes) >= 2 or sizes != list(range(1, len(sizes) + 1)))

    def stats(self, case, obs, hist):
        sizes = sorted({len(c) for c in case["cover"]})
        hist["sizes_" + "-".join(map(str, sizes))] = hist.get("sizes_" + "-".join(map(str, sizes)), 0) + 1
        hist["base_" + str(min(v for c in case["cover"] for v in c))] = hist.get("base_" + str(min(v for c in case["cover"] for v in c)), 0) + 1
        if not case["contiguous"]:
            hist["malformed"] = hist.get("malformed", 0) + 1

    def shrink(self, case):
        cov = case["cover"]
        for i in range(len(cov)):
            c = cov[:i] + cov[i + 1:]
            if not c:
                continue
            vs = sorted({v for q in c for v in q})
            if vs == list(range(vs[0], vs[0] + len(vs))) and vs[0] in (0, 1):
                yield {"cover": c, "contiguous": case["contiguous"], "tuple_mask": None}

    def fingerprint(self, case, obs, fails):
        return "C08/" + fails[0].split(":")[0]


PROP = C08()
