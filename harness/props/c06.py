"""C06 — manual, empirical, marginal and function loaders yield the documented law."""
import itertools
import json
from fractions import Fraction

from core.exact import Ex, rs, recover
from core.rng import SemanticRandom, installed
from core.runner import Prop


def tab_fn(table):
    d = {k: Ex(v) for k, v in table}
    return lambda k: d.get(int(k), Ex(0))


class C06(Prop):
    pid = "C06"
    rule = ("manual dictionaries of 1-8 keys; observed sequences with repeats (length 1-40); 1-3 marginals given as tables of small "
            "rationals with bounds inside 0..6 (direct mode and sampling mode with scripted draws); joint functions given as tables on "
            "the inclusive box; every loader is built directly and through JointDegreeDistribution.load_joint_degree; the real code runs "
            "on an exact rational number type; non-trivial = table with at least 2 keys; distinct = distinct case")
    assumptions = ["sampling mode: random.choices draws in proportion to the weights (stdlib); only the arguments handed to it and the "
                   "frequency table of the returned samples are checked — the many-samples limit is not a theorem (marginal_sampled_limit_full)",
                   "int/int float divisions in convert_jds_to_jdd are mapped back to the unique rational with denominator <= n_samples"]
    model_scope = "modelled: joint_degree_{manual,empirical,marginal,function}.py, convert_jds_to_jdd, normalise_jdd, factory/load dispatch"
    budgets = {"quick": 300, "thorough": 20000}
    search_budget = {"quick": 800, "thorough": 6000}

    def gen(self, rng, i, tier):
        kind = rng.choice(["manual", "empirical", "marginal", "marginal", "marginal_sampled", "function"])
        T = rng.randint(1, 3)
        sizes = [rng.randint(2, 4) for _ in range(T)]
        q = lambda: rs(Fraction(rng.randint(0, 6), rng.choice([1, 2, 3, 5, 7])))
        c = {"kind": kind, "sizes": sizes}
        if kind == "manual":
            keys = {tuple(rng.randint(0, 4) for _ in range(T)) for _ in range(rng.randint(1, 8))}
            c["jdd"] = [[list(k), q()] for k in sorted(keys)]
            rng.shuffle(c["jdd"])
        elif kind == "empirical":
            pool = [[rng.randint(0, 3) for _ in range(T)] for _ in range(rng.randint(1, 5))]
            c["jds"] = [rng.choice(pool) for _ in range(rng.randint(1, 40))]
        else:
            bounds = []
            for _ in range(T):
                lo = rng.randint(0, 3)
                hi = lo + rng.randint(0 if kind != "marginal" or rng.random() < 0.1 else 1, 3)
                bounds.append([lo, hi])
            c["bounds"] = bounds
            if kind == "function":
                box = itertools.product(*[range(lo, hi + 1) for lo, hi in bounds])
                c["fp"] = [[list(k), q()] for k in box]
                if rng.random() < 0.3:
                    # a joint function given by a formula in exact integer arithmetic (the loader hands it the degrees themselves)
                    b, m = rng.choice([3, 7, 10]), rng.choice([23, 41])
                    c["fp_formula"] = [b, m]
                    c["fp"] = [[k, rs(Fraction(sum(k) + 1, b ** (m * sum(k))))] for k, _ in c["fp"]]
            else:
                zero = rng.random() < 0.06 and kind != "marginal_sampled"
                c["fs"] = [[[k, "0" if zero else q()] for k in range(0, 8)] for _ in range(T)]
                if kind == "marginal_sampled":
                    n = rng.randint(1, 30)
                    c["n"] = n
                    c["cols"] = [[rng.randint(lo, hi) for _ in range(n)] for lo, hi in bounds]
                    # random.choices refuses weights whose total is zero (ValueError): a marginal without mass on its range has
                    # nothing to sample and is left out of the sampled cases (direct mode covers the zero-mass branch)
                    for i, (lo, hi) in enumerate(bounds):
                        if all(Fraction(c["fs"][i][x][1]) == 0 for x in range(lo, hi + 1)):
                            c["fs"][i][lo][1] = "1"
        return c

    def _params(self, case):
        from gcmpy.names.joint_degree_names import JointDegreeNames as JN
        from gcmpy.joint_degree.joint_degree_type import JointDegreeType as JT
        k = case["kind"]
        p = {JN.MOTIF_SIZES: list(case["sizes"])}
        if k == "manual":
            p[JN.JDD] = {tuple(key): Ex(v) for key, v in case["jdd"]}
            t = JT.MANUAL
        elif k == "empirical":
            p[JN.JDS] = [tuple(r) for r in case["jds"]]
            t = JT.EMPIRICAL
        elif k in ("marginal", "marginal_sampled"):
            p[JN.ARR_FP] = [tab_fn(f) for f in case["fs"]]
            p[JN.LOW_HIGH_DEGREE_BOUND] = [tuple(b) for b in case["bounds"]]
            if k == "marginal_sampled":
                p[JN.USE_SAMPLING] = True
                p[JN.N_SAMPLES] = case["n"]
            t = JT.MARGINAL
        else:
            d = {tuple(key): Ex(v) for key, v in case["fp"]}
            p[JN.FP] = lambda jd: d.get(tuple(int(x) for x in jd), Ex(0))
            if case.get("fp_formula"):
                b, m = case["fp_formula"]
                p[JN.FP] = lambda jd: Ex(Fraction(int(sum(jd) + 1), int(b ** (m * sum(jd)))))
            p[JN.LOW_HIGH_DEGREE_BOUND] = [tuple(b) for b in case["bounds"]]
            t = JT.JOINT_FUNCTION
        p[JN.JOINT_DEGREE_TYPE] = t.value
        return p, t

    def _table(self, obj, case):
        den = {"empirical": len(case.get("jds", [])) or 1, "marginal_sampled": case.get("n", 1)}.get(case["kind"])
        out = []
        for k, v in obj.jdd.items():
            kk = [int(x) for x in k]
            if den is not None and not isinstance(v, Ex):
                v = recover(v, den)
            out.append([kk, rs(v), type(k).__name__])
        return out

    def impl(self, case):
        import random
        from gcmpy.joint_degree.joint_degree_factory import JointDegreeFactory
        from gcmpy.joint_degree.joint_degree_distribution import JointDegreeDistribution
        cols = case.get("cols", [[]])

        class R(SemanticRandom):
            """the i-th batch of weighted draws is dimension i's column of sampled degrees, the t-th draw its t-th entry"""

            def __init__(self):
                super().__init__()
                self.calls = []

            def on_weighted(self, weights, ctx):
                if ctx["t"] == 0:
                    self.calls.append([list(ctx["population"]), [rs(w) for w in weights], ctx["k"]])
                col = cols[(len(self.calls) - 1) % max(1, len(cols))]
                pop = list(ctx["population"])
                if ctx["t"] < len(col) and col[ctx["t"]] in pop:
                    return pop.index(col[ctx["t"]])
                return super().on_weighted(weights, ctx)
        res = {}
        for path in ("direct", "load"):
            p, t = self._params(case)
            sem = R()
            try:
                with installed(sem):
                    if path == "direct":
                        obj = JointDegreeFactory.resolve_joint_degree(t, p)
                    else:
                        obj = JointDegreeDistribution.load_joint_degree(p)
                res[path] = {"table": self._table(obj, case), "calls": list(sem.calls), "class": type(obj).__name__,
                             "rng_unexpected": sem.summary()["n_unexpected"]}
            except ZeroDivisionError:
                res[path] = {"exc": "ZeroDivisionError"}
        return res

    def request(self, case, obs):
        r = {"op": "c06"}
        r.update({k: v for k, v in case.items() if k != "sizes"})
        return r

    def model(self, case, reply, obs):
        if "exc" in reply:
            return {"direct": {"exc": reply["exc"]}}
        m = {"table": sorted(reply["table"])}           # a mapping: insertion order is incidental
        if case["kind"] == "marginal_sampled":
            m["calls"] = reply["calls"]
        return {"direct": m}

    def project(self, case, obs):
        if "exc" in obs:
            return {"exc": obs["exc"]}
        d = obs["direct"]
        if "exc" in d:
            return {"direct": d}
        p = {"table": sorted([k, v] for k, v, _ in d["table"])}
        if case["kind"] == "marginal_sampled":
            p["calls"] = d["calls"]
        return {"direct": p}

    def oracle(self, case, obs):
        if "exc" in obs:
            return [f"{'function-loader-raises' if case['kind'] == 'function' else 'raised'}: {obs['exc']}: {obs.get('msg', '')[:80]}"]
        f = []
        d, l = obs["direct"], obs["load"]
        k = case["kind"]
        if k != "marginal_sampled" or "exc" in d:
            if ("exc" in d) != ("exc" in l) or ("exc" not in d and sorted(map(json.dumps, d["table"])) != sorted(map(json.dumps, l["table"]))):
                f.append("dispatch-differs: loading through the entry point gives a different distribution than direct construction")
        if "exc" in d:
            # only legitimate for marginals whose product has zero total mass
            if k == "marginal":
                w0, z = self._marginal_ref(case)
                if z != 0 or not w0:
                    f.append("raised: ZeroDivisionError although the marginals have positive total mass")
            else:
                f.append(f"raised: {d['exc']}")
            return f
        got = {tuple(key): Fraction(v) for key, v, _ in d["table"]}
        if any(t != "tuple" for _, _, t in d["table"]):
            f.append("keys-not-tuples")
        if any(v < 0 for v in got.values()):
            f.append("negative-mass")
        if k == "manual":
            want = {tuple(key): Fraction(v) for key, v in case["jdd"]}
        elif k == "empirical":
            n = len(case["jds"])
            want = {}
            for r in case["jds"]:
                want[tuple(r)] = want.get(tuple(r), 0) + Fraction(1, n)
        elif k == "marginal":
            want, z = self._marginal_ref(case)
            if want and z == 0:
                f.append("no-error: zero total mass should not produce a table")
                return f
            want = {kk: v / z for kk, v in want.items()}
            for kk in got:
                if any(not (lo <= x < hi) for x, (lo, hi) in zip(kk, case["bounds"])):
                    f.append("support-outside-bounds")
                    break
        elif k == "marginal_sampled":
            if d.get("rng_unexpected"):
                return f          # samples drawn in a way the script does not recognise: which samples came up is unknown here
            n = case["n"]
            want = {}
            for r in zip(*case["cols"]):
                want[tuple(r)] = want.get(tuple(r), 0) + Fraction(1, n)
            calls = d["calls"]
            # one batch of n weighted draws per dimension (the shape this code has; another shape is not judged here): the weights,
            # up to a common factor and zero entries, are the marginal's over the inclusive degree range
            if len(calls) == len(case["bounds"]) and all(c[2] == n for c in calls):
                for i, (lo, hi) in enumerate(case["bounds"]):
                    fs = dict((a, Fraction(b)) for a, b in case["fs"][i])
                    want_w = {x: fs.get(x, Fraction(0)) for x in range(lo, hi + 1) if fs.get(x, 0) != 0}
                    got_w = {}
                    for x, w in zip(calls[i][0], calls[i][1]):
                        if Fraction(w) != 0:
                            got_w[x] = got_w.get(x, 0) + Fraction(w)
                    zw, zg = sum(want_w.values()), sum(got_w.values())
                    if not zg or {x: w / zg for x, w in got_w.items()} != {x: w / zw for x, w in want_w.items()}:
                        f.append(f"sampling-call: dimension {i} is not sampled in proportion to its marginal over its degree range "
                                 f"{lo}..{hi}")
                        break
            # the entry point builds the table a second time (it calls create_jdd again): with the scripted columns both builds
            # see the same samples, so the dispatched loader must expose the same frequency table, and must have sampled
            if "exc" in l:
                f.append(f"dispatch-differs: loading through the entry point raised {l['exc']}")
            elif not l.get("rng_unexpected") and not d.get("rng_unexpected"):
                got_l = {tuple(key): Fraction(v) for key, v, _ in l["table"]}
                if not l["calls"]:
                    f.append("dispatch-differs: sampling was requested, the loader built through the entry point did not sample")
                elif got_l != want:
                    f.append("dispatch-differs: loading through the entry point gives a different distribution than direct "
                             "construction on the same samples")
        else:
            fp = {tuple(key): Fraction(v) for key, v in case["fp"]}
            want = {tuple(kk): fp.get(tuple(kk), Fraction(0))
                    for kk in itertools.product(*[range(lo, hi + 1) for lo, hi in case["bounds"]])}
        if got != want:
            bad = next(kk for kk in set(got) | set(want) if got.get(kk) != want.get(kk))
            f.append(f"law: key {bad} has mass {got.get(bad)} instead of {want.get(bad)}")
        return f

    @staticmethod
    def _marginal_ref(case):
        want = {}
        fs = [dict((a, Fraction(b)) for a, b in f) for f in case["fs"]]
        for kk in itertools.product(*[range(lo, hi) for lo, hi in case["bounds"]]):
            w = Fraction(1)
            for i, x in enumerate(kk):
                w *= fs[i].get(x, 0)
            want[kk] = w
        return want, sum(want.values())

    def nontrivial(self, case, obs):
        return "exc" not in obs and "table" in obs.get("direct", {}) and len(obs["direct"]["table"]) >= 2

    def stats(self, case, obs, hist):
        hist["kind_" + case["kind"]] = hist.get("kind_" + case["kind"], 0) + 1
        if "exc" not in obs and "exc" in obs["direct"]:
            hist["zero_division_branch"] = hist.get("zero_division_branch", 0) + 1

    def shrink(self, case):
        k = case["kind"]
        if k == "manual" and len(case["jdd"]) > 1:
            for i in range(len(case["jdd"])):
                c = json.loads(json.dumps(case))
                del c["jdd"][i]
                yield c
        if k == "empirical" and len(case["jds"]) > 1:
            for i in range(len(case["jds"])):
                c = json.loads(json.dumps(case))
                del c["jds"][i]
                yield c
        if "bounds" in case:
            for i, (lo, hi) in enumerate(case["bounds"]):
                if hi > lo + (1 if k == "marginal" else 0) and k != "marginal_sampled":
                    c = json.loads(json.dumps(case))
                    c["bounds"][i][1] -= 1
                    if k == "function":
                        box = set(itertools.product(*[range(a, b + 1) for a, b in c["bounds"]]))
                        c["fp"] = [e for e in c["fp"] if tuple(e[0]) in box]
                    yield c

    def fingerprint(self, case, obs, fails):
        return "C06/" + fails[0].split(":")[0]


PROP = C06()
