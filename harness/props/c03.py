"""C03 — stub matching is uniformly random (configuration-model measure)."""
import collections
import itertools
import json
import math

from core.common import MachineryError
from core.rng import ScriptedRandom
from core.runner import Prop
from . import gen_common as gc


def all_valid_draws(n):
    if n <= 1:
        return [[]]
    return [list(t) for t in itertools.product(*[range(i + 1) for i in reversed(range(1, n))])]


def key_of(motifs):
    """a placement: WHICH ordered groups of stubs become motifs of which topology; in what order the motifs are built is not part
    of it (a generator may work through its topologies, or the groups of one topology, in any order)"""
    return json.dumps(sorted(motifs, key=json.dumps))


def ref_shape(build, vs):
    """the motif a topology's documented build callback makes of an ORDERED group of stubs (slot i <- vs[i])"""
    vs = list(vs)
    if build == "clique":
        es = list(itertools.combinations(vs, 2))
    elif build == "cycle":
        es = list(zip(vs, vs[1:])) + [(vs[0], vs[-1])]
    else:
        es = [tuple(e) for e in gc.SHAPES[build](vs)]
    return sorted(sorted(e) for e in es)


def built_key(build_of, groups_with_edges):
    """a placement AS BUILT: per motif its topology and the multiset of its edges (which slot a stub fills is visible here
    for motifs that are not symmetric in their slots, e.g. cycles of 4 or more vertices)"""
    return json.dumps(sorted(([t, es] for t, es in groups_with_edges), key=json.dumps))


class C03(Prop):
    pid = "C03"
    rule = ("(a) every valid randbelow draw sequence for every list length n <= 5 (6 thorough) through the real random.shuffle; "
            "(b) small joint degree sequences (<= 5 stubs per topology, <= 2 topologies, fast and custom generators): ALL tuples of valid "
            "draw sequences are run through the real generator and the exact histogram of motif placements is compared with the "
            "push-forward of the uniform measure over all permutations of labelled stubs (no sampling statistics); (c) one sequence of a "
            "million stubs per generator on the real RNG, judged by vertex-order symmetry only; "
            "non-trivial = at least 6 draw tuples and at least 2 distinct placements; distinct = distinct (jds, sizes, kind)")
    assumptions = ["randbelow(i+1) results are independent and uniform (property of the Mersenne Twister; nothing here tests a PRNG)",
                   "random.shuffle body is the transcribed CPython 3.12 one (its source is checked against the transcription on every run)"]
    model_scope = "modelled: random.Random.shuffle (stdlib), stub construction, grouping; the RNG itself is assumed uniform"
    budgets = {"quick": 60, "thorough": 2400}
    search_budget = {"quick": 150, "thorough": 1000}

    def gen(self, rng, i, tier):
        cap = 5 if tier == "quick" else 6
        while True:
            T = rng.randint(1, 2)
            N = rng.randint(2, 5)
            sizes = [rng.randint(1, 3) for _ in range(T)]
            jds = [[0] * T for _ in range(N)]
            for k in range(T):
                n_groups = rng.randint(1, 2)
                n = n_groups * sizes[k]
                if n > cap:
                    n = (cap // sizes[k]) * sizes[k]
                for _ in range(n):
                    jds[rng.randrange(N)][k] += 1
            if T == 2 and rng.random() < 0.35:
                # identical degree columns (the two topologies must still be shuffled independently)
                for r in jds:
                    r[1] = r[0]
                if rng.random() < 0.5:
                    sizes[1] = sizes[0]
                elif sum(r[1] for r in jds) % sizes[1]:
                    sizes[1] = 1
            tot = 1
            for k in range(T):
                tot *= math.factorial(sum(r[k] for r in jds))
            if tot <= (720 if tier == "quick" else 5040):
                break
        kind = "fast" if rng.random() < 0.7 else "custom"
        if i % 8 == 4:
            # custom-motif generator with a size-1 orbit holding several stubs (the order in which singletons are handed out
            # is a placement too)
            kind = "custom"
            sizes[0] = 1
            for r in jds:
                r[0] = 0
            for v in rng.sample(range(N), min(N, rng.randint(2, 3))):
                jds[v][0] += 1
        builds = ["clique"] * T
        if i % 4 == 2 and kind == "fast":
            # a hand-written sequence whose stub total is not a multiple of the motif size: the last, incomplete group is built
            # from the left-over stubs, which must be a uniformly random part of the stubs like every other group
            k = rng.randrange(T)
            if sizes[k] >= 2 and sum(r[k] for r in jds) < 5:
                jds[rng.randrange(N)][k] += 1
        if i % 4 == 3 and kind == "fast":
            # an unused topology (all-zero column) in front of or between the used ones
            at = rng.randrange(T + 1) if rng.random() < 0.5 else 0
            for r in jds:
                r.insert(at, 0)
            sizes.insert(at, rng.randint(1, 3))
            T += 1
            builds = ["clique"] * T
        if i % 4 == 1:
            # a slot-asymmetric motif from the library's own generators: one 4- or 5-cycle; which stub fills which slot matters
            T, N = 1 if rng.random() < 0.6 else 2, rng.randint(4, 6)
            sizes = [rng.choice([4, 4, 5])] + ([2] if T == 2 else [])
            jds = [[0] * T for _ in range(N)]
            for _ in range(sizes[0]):
                jds[rng.randrange(N)][0] += 1
            if T == 2:
                for _ in range(2):
                    jds[rng.randrange(N)][1] += 1
            builds = ["cycle"] + ["clique"] * (T - 1)
            kind = "fast" if rng.random() < 0.7 else "custom"
        if i % 8 == 6:
            # custom motifs with several orbits (a wedge: two leaves from one column, the centre from another; or leaf + centre
            # + leaf from three columns): EVERY orbit's stub list is shuffled, independently of the others
            kind = "custom"
            N = rng.randint(4, 6)
            if rng.random() < 0.6:
                sizes, m = [2, 1], 2
            else:
                sizes, m = [1, 1, 1], 2
            T = len(sizes)
            jds = [[0] * T for _ in range(N)]
            for k in range(T):
                for _ in range(m * sizes[k]):
                    jds[rng.randrange(N)][k] += 1
            builds = ["path"]
            case = {"kind": kind, "jds": jds, "sizes": sizes, "builds": builds, "handshake": True,
                    "orbits": [list(range(T))], "names": [["w"] * 2]}
            return case
        case = {"kind": kind, "jds": jds, "sizes": sizes, "builds": builds, "handshake": True}
        if kind == "fast":
            case["names"] = [f"t{k}" for k in range(T)]
        else:
            case["orbits"] = [[k] for k in range(T)]
            case["names"] = [[f"t{k}"] * (sizes[k] if builds[k] == "cycle" else sizes[k] * (sizes[k] - 1) // 2) for k in range(T)]
        return case

    def exhaustive(self, tier):
        for n in range(0, 6 if tier == "quick" else 7):
            yield {"kind": "shuffle", "n": n}
        # "by symmetry arguments for larger ones": a sequence far too large to enumerate, run once per generator on the real RNG;
        # judged only by a symmetry no uniform matching can break by chance (see oracle)
        for sub in ("fast", "custom"):
            yield {"kind": "symmetry", "sub": sub, "N": 500001 if sub == "fast" else 500003, "seed": 12345}

    def impl(self, case):
        ok, src = gc.shuffle_source_matches()
        if not ok:
            raise MachineryError("random.Random.shuffle source differs from the transcription in Model/Shuffle.lean:\n" + src)
        if case["kind"] == "shuffle":
            n = case["n"]
            res = []
            for d in all_valid_draws(n):
                x = list(range(n))
                sr = ScriptedRandom(d, mode="exact")
                sr.shuffle(x)
                if sr.pos != len(d):
                    res.append("draws-not-consumed")
                else:
                    res.append(x)
            return {"results": res}
        if case["kind"] == "symmetry":
            return self._symmetry(case)
        jds, sizes = case["jds"], case["sizes"]
        T = len(sizes)
        per_top = [all_valid_draws(sum(r[k] for r in jds)) for k in range(T)]
        outs = []
        hist = collections.Counter()
        hist_b, ref_b = collections.Counter(), collections.Counter()
        builds = case["builds"]
        unscripted = 0
        missing = set()
        for tup in itertools.product(*per_top):
            c = dict(case)
            c["draws"] = [list(d) for d in tup]
            o = gc.run_generator(c, "direct")
            m = [[x["top"], x["verts"]] for x in o["calls"]]
            outs.append(m)
            hist[key_of(m)] += 1
            hist_b[built_key(builds, [[x["top"], sorted(sorted(e) for e in x["result"])] for x in o["calls"]])] += 1
            unscripted += o["unscripted_shuffles"]
            missing |= set(k for k in o["shuffles_missing"] if len(c["draws"][k]) > 0)
        # reference: push-forward of the uniform measure on permutations of labelled stubs
        ref = collections.Counter()
        per_top_perms = []
        for k in range(T):
            st = gc.stubs_of(jds, k)
            per_top_perms.append(list(itertools.permutations(range(len(st)))))
        for tup in itertools.product(*per_top_perms):
            groups = []
            if case["kind"] == "fast":
                for k in range(T):
                    st = gc.stubs_of(jds, k)
                    arr = [st[i] for i in tup[k]]
                    for g in range(0, len(arr), sizes[k]):
                        groups.append([k, arr[g:g + sizes[k]]])
            else:
                for j, orb in enumerate(case["orbits"]):
                    # a motif takes one chunk from every orbit column (the code pops them from the end), in orbit order
                    per_col = []
                    for k in orb:
                        st = gc.stubs_of(jds, k)
                        arr = [st[i] for i in tup[k]]
                        per_col.append([arr[g:g + sizes[k]] for g in range(0, len(arr), sizes[k])])
                    n_motifs = len(gc.stubs_of(jds, orb[0])) // sizes[orb[0]]
                    for t in range(n_motifs):
                        groups.append([j, [v for chunks in per_col for v in chunks[len(chunks) - 1 - t]]])
            ref[key_of(groups)] += 1
            ref_b[built_key(builds, [[t, ref_shape(builds[t], g)] for t, g in groups])] += 1
        obs = {"outs": outs, "hist": sorted(hist.items()), "ref": sorted(ref.items()),
               "hist_built": sorted(hist_b.items()), "ref_built": sorted(ref_b.items()),
               "n_tuples": len(outs), "unscripted_shuffles": unscripted, "shuffles_missing": sorted(missing)}
        if unscripted or missing:
            # the code did not draw its permutations through one permutation event per stub list (it may draw them some other,
            # equally valid way, or not at all): the enumeration over scripted permutations says nothing then, and the law is
            # estimated from the real generator instead (see oracle)
            obs["monte_carlo"] = self._monte_carlo(case, builds)
        return obs

    MC_RUNS = 40000

    def _monte_carlo(self, case, builds):
        import random
        state = random.getstate()
        random.seed(20260930)
        h, hb = collections.Counter(), collections.Counter()
        c = dict(case)
        c["draws"] = [[] for _ in case["sizes"]]
        try:
            for _ in range(self.MC_RUNS):
                o = gc.run_generator(c, "direct", real_rng=True)
                h[key_of([[x["top"], x["verts"]] for x in o["calls"]])] += 1
                hb[built_key(builds, [[x["top"], sorted(sorted(e) for e in x["result"])] for x in o["calls"]])] += 1
        finally:
            random.setstate(state)
        return {"n": self.MC_RUNS, "hist": sorted(h.items()), "hist_built": sorted(hb.items())}

    @staticmethod
    def _chernoff(x, n, p):
        """n * KL(x/n || p): P(a Binomial(n, p) count is at least as far from n*p as x, on the same side) <= exp(-this)"""
        q = x / n
        if q == p:
            return 0.0
        kl = 0.0
        if q > 0:
            kl += q * math.log(q / p)
        if q < 1:
            kl += (1 - q) * math.log((1 - q) / (1 - p)) if p < 1 else float("inf")
        return n * kl

    @staticmethod
    def _symmetry(case):
        """N vertices of degree 2 in one 2-vertex topology (2N >= 10^6 stubs), the real generator on the real, seeded RNG.  Stubs are
        created in vertex order, so a matching that favours vertex order joins a vertex to itself or to its successor; under the
        configuration-model measure an edge does so with probability about 3/N, i.e. about 3 such edges in all."""
        import random
        from gcmpy.names.gcm_algorithm_names import GCMAlgorithmNames as GN
        from gcmpy.gcm_algorithm.gcm_algorithm_fast import GCMAlgorithmFast
        from gcmpy.gcm_algorithm.gcm_algorithm_custom_motifs import GCMAlgorithmCustomMotifs
        N = case["N"]
        jds = [(2,)] * N
        params = {GN.MOTIF_SIZES: [2], GN.BUILD_FUNCTIONS: [lambda vs: [(vs[0], vs[1])]]}
        if case["sub"] == "fast":
            params[GN.EDGE_NAMES] = ["e"]
            algo = GCMAlgorithmFast(params)
        else:
            params[GN.EDGE_NAMES] = [lambda: ("e",)]
            params[GN.MOTIF_INDICES] = [[0]]
            algo = GCMAlgorithmCustomMotifs(params)
        state = random.getstate()
        random.seed(case["seed"])
        try:
            out = algo.random_clustered_graph(jds)
        finally:
            random.setstate(state)
        es = out.edge_list
        near = sum(1 for e in es if abs(e[0] - e[1]) <= 1)
        deg = collections.Counter()
        for a, b in es:
            deg[a] += 1
            deg[b] += 1
        return {"edges": len(es), "near": near, "degrees_ok": len(deg) == N and set(deg.values()) == {2}}

    def request(self, case, obs):
        if case["kind"] == "symmetry":
            return None         # nothing to enumerate: the model's theorems speak about all sizes, the run is judged by the oracle
        if case["kind"] == "shuffle":
            return {"op": "gen", "kind": "shuffles", "n": case["n"], "jds": [], "sizes": [], "builds": [],
                    "draws": all_valid_draws(case["n"])}
        T = len(case["sizes"])
        per_top = [all_valid_draws(sum(r[k] for r in case["jds"])) for k in range(T)]
        r = {"op": "gen", "kind": "many", "sub": case["kind"], "jds": case["jds"], "sizes": case["sizes"], "builds": [],
             "draws": [], "draws_list": [[list(d) for d in tup] for tup in itertools.product(*per_top)]}
        if case["kind"] == "custom":
            r["orbits"] = case["orbits"]
        return r

    def model(self, case, reply, obs):
        if case["kind"] == "shuffle":
            return {"results": reply["results"]}
        return {"outs": reply["outs"]}

    def project(self, case, obs):
        if "exc" in obs:
            return obs
        if case["kind"] == "shuffle":
            return {"results": obs["results"]}
        if case["kind"] == "symmetry":
            return {}
        return {"outs": obs["outs"]}

    def oracle(self, case, obs):
        if "exc" in obs:
            return [f"raised: {obs['exc']}"]
        if case["kind"] == "symmetry":
            f = []
            if obs["edges"] != case["N"] or not obs["degrees_ok"]:
                f.append(f"large-sequence: {obs['edges']} edges for {case['N']} vertices of degree 2, degrees realised: {obs['degrees_ok']}")
            elif obs["near"] > 500:
                f.append(f"placement-favoured-by-vertex-order: {obs['near']} of {obs['edges']} edges join a vertex to itself or to its "
                         f"successor in a sequence of {2 * case['N']} stubs; the configuration-model measure gives about 3")
            return f
        if case["kind"] == "shuffle":
            n = case["n"]
            rs = [tuple(r) for r in obs["results"] if isinstance(r, list)]
            f = []
            if len(rs) != len(obs["results"]):
                f.append("shuffle-draws: shuffle did not consume exactly n-1 draws")
            if len(set(rs)) != math.factorial(n) or any(sorted(r) != list(range(n)) for r in rs):
                f.append(f"shuffle-not-bijective: {len(set(rs))} distinct arrangements from {len(rs)} draw sequences for n={n}")
            return f
        f = []
        if obs.get("monte_carlo"):
            # randomness drawn in a way the script does not recognise: judged on 40000 real generations; a placement counts as
            # mis-weighted only when its frequency is so far from the configuration-model probability that the Chernoff bound
            # puts the chance of that under the measure below e^-40 (about 4e-18)
            mc = obs["monte_carlo"]
            n = mc["n"]
            for label, got, ref in (("placement", dict(mc["hist"]), dict(obs["ref"])), ("built-placement", dict(mc["hist_built"]), dict(obs["ref_built"]))):
                tot = sum(ref.values())
                outside = [k for k in got if k not in ref]
                if outside:
                    f.append(f"{label}-outside-the-space: {outside[0]} is produced, the configuration-model measure gives it probability 0")
                    break
                worst = max(ref, key=lambda k: self._chernoff(got.get(k, 0), n, ref[k] / tot))
                if self._chernoff(got.get(worst, 0), n, ref[worst] / tot) > 40:
                    kind = "unreachable" if got.get(worst, 0) == 0 else "not-uniform"
                    f.append(f"{label}-{kind}: {worst} came up {got.get(worst, 0)} times in {n} generations, the configuration-model "
                             f"measure gives probability {ref[worst]}/{tot} (expected {n * ref[worst] / tot:.0f})")
                    break
            return f
        if obs["hist"] != obs["ref"]:
            h, r = dict(obs["hist"]), dict(obs["ref"])
            unreachable = [k for k in r if k not in h]
            if unreachable:
                f.append(f"placement-unreachable: {len(unreachable)} of {len(r)} placements never produced, e.g. {unreachable[0]}")
            else:
                k = next(k for k in set(h) | set(r) if h.get(k) != r.get(k))
                f.append(f"placement-not-uniform: placement {k} arises from {h.get(k, 0)} of {obs['n_tuples']} draw tuples, "
                         f"configuration-model measure gives {r.get(k, 0)}")
        if not f and obs["hist_built"] != obs["ref_built"]:
            h, r = dict(obs["hist_built"]), dict(obs["ref_built"])
            unreachable = [k for k in r if k not in h]
            if unreachable:
                f.append(f"built-placement-unreachable: {len(unreachable)} of {len(r)} placements of stubs in motif slots are never "
                         f"built, e.g. {unreachable[0]}")
            else:
                k = next(k for k in set(h) | set(r) if h.get(k) != r.get(k))
                f.append(f"built-placement-not-uniform: built placement {k} arises from {h.get(k, 0)} of {obs['n_tuples']} draw "
                         f"tuples, configuration-model measure gives {r.get(k, 0)}")
        return f

    def nontrivial(self, case, obs):
        if "exc" in obs:
            return False
        if case["kind"] == "shuffle":
            return case["n"] >= 3
        if case["kind"] == "symmetry":
            return True
        return obs["n_tuples"] >= 6 and len(obs["hist"]) >= 2

    def stats(self, case, obs, hist):
        hist["kind_" + case["kind"]] = hist.get("kind_" + case["kind"], 0) + 1
        if "exc" not in obs and case["kind"] not in ("shuffle", "symmetry"):
            hist["draw_tuples_run"] = hist.get("draw_tuples_run", 0) + obs["n_tuples"]
            hist["distinct_placements"] = hist.get("distinct_placements", 0) + len(obs["hist"])
        if case["kind"] == "shuffle" and "exc" not in obs:
            hist["shuffle_draw_sequences"] = hist.get("shuffle_draw_sequences", 0) + len(obs["results"])

    def shrink(self, case):
        if case["kind"] in ("shuffle", "symmetry"):
            return
        jds = case["jds"]
        for v in range(len(jds)):
            if not any(jds[v]) and len(jds) > 1:
                c = json.loads(json.dumps(case))
                del c["jds"][v]
                yield c
        for k in range(len(case["sizes"])):
            if any(r[k] for r in jds) and len(case["sizes"]) > 1:
                c = json.loads(json.dumps(case))
                for r in c["jds"]:
                    r[k] = 0
                yield c

    def fingerprint(self, case, obs, fails):
        return "C03/" + fails[0].split(":")[0]

    def _clip_obs(self, obs):
        return obs


PROP = C03()
