"""C02 — edge-list columns stay parallel and motif identities are well formed."""
from .genprop import GenProp


class C02(GenProp):
    pid = "C02"
    rule = ("same generator as C01; build callbacks returning a bare edge, 1, 2, 3, 5, 6 and n(n-1)/2 edges with homogeneous or "
            "per-edge names are all forced to appear; non-trivial = handshake-consistent case with at least two motif instances")

    def oracle(self, case, obs):
        return self.clauses_c02(case, obs)


PROP = C02()
