"""C11 — MCMC rewiring preserves vertices, degrees and motif structure."""
from .mcmc_common import MCMCProp


class C11(MCMCProp):
    pid = "C11"
    rule = ("clean networks of 8-24 vertices (60 thorough) built from edge-disjoint 2-/3-/4-cliques and 4-/6-cycles on distinct vertices, "
            "1-3 topologies, many vertices shared between motifs; symmetric targets (full support, pairings deleted, pairings zeroed); "
            "limits 1-12 accepted swaps (60 thorough) or the documented defaults; every swap_condition call is captured with the graph "
            "before it and replayed in the model; non-trivial = at least one accepted swap; distinct = distinct case")

    def oracle(self, case, obs):
        return self.clauses_c11(case, obs)

    def fingerprint(self, case, obs, fails):
        return "C11/" + fails[0].split(":")[0]


PROP = C11()
