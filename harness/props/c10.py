"""C10 — MPCC labels partition the edges into maximal-first disjoint cliques."""
import ast
import itertools
import json

from core.rng import ScriptedRandom, SemanticRandom, installed
from core.runner import Prop
from . import cover_common as cc


class C10(Prop):
    pid = "C10"
    rule = ("simple loop-free graphs on 4-11 vertices: G(n,p) with p in {0.3,0.5,0.7,0.9}, planted overlapping K3-K6, unions of cliques "
            "sharing single vertices; arbitrary vertex labels; size limit in {0,2,3,4}; the shuffle of the clique list is scripted (valid "
            "Fisher-Yates draws); non-trivial = at least one triangle and two cliques of the largest accepted size overlapping or limit > 0; "
            "distinct = distinct case")
    assumptions = ["nx.enumerate_all_cliques returns every clique of the graph (validated per instance against the model's brute-force allCliques)",
                   "random.shuffle is the CPython Fisher-Yates body, executed for real on scripted draws"]
    model_scope = "modelled: covers/mpcc.py in full, given the post-shuffle clique list"
    budgets = {"quick": 200, "thorough": 10000}
    search_budget = {"quick": 500, "thorough": 4000}

    def gen(self, rng, i, tier):
        if rng.random() < 0.2:
            edges, shape = cc.gen_soup(rng)
        else:
            edges, shape = cc.gen_graph(rng, 4, 10 if tier == "quick" else 11)
        n_cl_bound = 60
        case = {"edges": edges, "max_size": rng.choice([0, 0, 2, 3, 4]), "shape": shape,
                "draws": [rng.randrange(1 << 30) for _ in range(n_cl_bound)]}
        if i % 4 == 1:
            case["vnames"] = rng.choice(["prefix", "digit"])
        if rng.random() < 0.5 and len(edges) >= 2:
            # history: the SAME graph object was covered before, then rewired in place by double edge swaps that keep
            # the vertex and edge counts (as the library's own rewiring does), and is covered again
            prior = [tuple(e) for e in edges]
            for _ in range(rng.randint(1, 4)):
                (a, b), (c, d) = rng.sample(prior, 2)
                if len({a, b, c, d}) == 4:
                    present = {frozenset(e) for e in prior}
                    if frozenset((a, d)) not in present and frozenset((c, b)) not in present:
                        prior.remove((a, b)); prior.remove((c, d))
                        prior += [(a, d), (c, b)]
            case["prior_edges"] = [list(e) for e in prior]
        return case

    def impl(self, case):
        import networkx as nx
        from gcmpy.covers import mpcc as mod
        G = nx.Graph()
        # vertices may be named by strings: the label then spells them as Python would print them (with quotes)
        vn = case.get("vnames")
        nm = (lambda v: f"n{v}") if vn == "prefix" else (lambda v: str(v)) if vn == "digit" else (lambda v: v)
        inv = {nm(v): v for e in list(case["edges"]) + list(case.get("prior_edges") or []) for v in e}
        E = lambda es: [(nm(a), nm(b)) for a, b in es]
        if case.get("prior_edges"):
            G.add_edges_from(E(case["edges"]))       # fixes the node order
            G.remove_edges_from(list(G.edges()))
            G.add_edges_from(E(case["prior_edges"]))
            class Ident(SemanticRandom):
                def on_permutation(self, items, ctx):
                    return list(items)
            with installed(Ident()):
                mod.MPCC(G, case["max_size"])
            G.remove_edges_from(list(G.edges()))
        G.add_edges_from(E(case["edges"]))
        before_nodes = [inv[v] for v in G.nodes()]
        before_edges = sorted(tuple(sorted((inv[a], inv[b]))) for a, b in G.edges())
        rec = {}

        class R(SemanticRandom):
            """the one uniformly random permutation (of the clique list), through whichever function it is drawn"""

            def on_permutation(self, items, ctx):
                x = list(items)
                d = case["draws"]
                ScriptedRandom((d * (len(x) // len(d) + 1))[:len(x)], mode="mod").shuffle(x)
                if "L" not in rec and all(isinstance(c, (list, tuple)) for c in x):
                    rec["L"] = [[inv.get(v, repr(v)) for v in c] for c in x]
                return x
        sem = R()
        with installed(sem):
            out = mod.MPCC(G, case["max_size"])
        labels = []
        bad_labels = []
        for a, b in out.edges():
            s = out.edges[a, b].get("clique")
            e = list(sorted((inv.get(a, -1), inv.get(b, -1))))
            if s is None:
                labels.append([e, None])
                continue
            try:
                parts = s.split("-")
                members = ast.literal_eval(parts[1])
                if not all(m in inv for m in members):
                    raise ValueError("members are not vertex names")
                labels.append([e, [int(parts[0]), [inv[m] for m in members], int(parts[-1])], s])
            except Exception as ex:       # the label does not read back as size-members-id over the graph's own vertex names
                bad_labels.append(f"{s!r}: {type(ex).__name__}")
                labels.append([e, None])
        return {"labels": sorted(labels, key=lambda t: t[0]), "L": rec.get("L"), "rng_unexpected": sem.summary()["n_unexpected"],
                "bad_labels": bad_labels[:3],
                "same_object": out is G, "nodes_same": [inv.get(v, -1) for v in out.nodes()] == before_nodes,
                "edges_same": sorted(tuple(sorted((inv.get(a, -1), inv.get(b, -1)))) for a, b in out.edges()) == before_edges,
                "edge_order": [[inv[a], inv[b]] for a, b in G.edges()], "node_order": before_nodes}

    def request(self, case, obs):
        if len(cc.nodes_of(case["edges"])) > 12:
            return None          # the model validates the clique list by brute force over vertex subsets: large graphs are oracle-only
        if "exc" in obs or obs.get("L") is None:
            raise ValueError("the clique list handed to shuffle was not observed")
        return {"op": "c10", "edges": obs["edge_order"], "nodes": obs["node_order"], "max_size": case["max_size"], "L": obs["L"]}

    def model(self, case, reply, obs):
        return {"labels": sorted([[e, l] for e, l in reply["labels"]], key=lambda t: t[0]),
                "contract": reply["enumerate_all_cliques_contract"]}

    def project(self, case, obs):
        if "exc" in obs:
            return {"exc": obs["exc"]}
        return {"labels": [[t[0], t[1]] for t in obs["labels"]], "contract": True}

    def oracle(self, case, obs):
        if "exc" in obs:
            return [f"raised: {obs['exc']}: {obs.get('msg', '')[:80]}"]
        f = []
        if obs.get("bad_labels"):
            f.append(f"label-unreadable: label {obs['bad_labels'][0]} does not read back as size-[members]-id over the graph's vertex names")
            return f
        if not (obs["nodes_same"] and obs["edges_same"]):
            f.append("graph-changed: vertices or edges differ after covering")
        ms = case["max_size"]
        eset = {frozenset(e) for e in case["edges"]}
        by_label = {}
        for t in obs["labels"]:
            if t[1] is None:
                f.append(f"unlabelled: edge {t[0]} carries no label")
                return f
            size, members, cid = t[1]
            by_label.setdefault((size, tuple(members), cid), []).append(tuple(t[0]))
            # (the exact spelling of a label - Python's repr of the member list in this code - is compared with the model; the
            #  property asks for the form size-members-id, which is what reading it back above has established)
        ids = [k[2] for k in by_label]
        if len(set(ids)) != len(ids):
            f.append("ids-not-unique: two cliques share an id")
        for (size, members, cid), es in by_label.items():
            want = sorted(tuple(sorted(p)) for p in itertools.combinations(members, 2))
            if sorted(es) != want:
                f.append(f"label-incomplete: edges carrying label of {list(members)} are not all pairs of its members")
                break
            if size != len(members) or len(set(members)) != len(members):
                f.append("label-size")
            if ms > 0 and size > ms:
                f.append(f"size-limit: clique of size {size} with limit {ms}")
        # greedy-maximal: every clique (within the limit) has an edge assigned to a cover clique at least as large
        nodes = cc.nodes_of(case["edges"])
        size_of_edge = {tuple(t[0]): t[1][0] for t in obs["labels"]}
        for c in cc.all_cliques(nodes, eset):
            k = len(c)
            if ms > 0 and k > ms:
                continue
            if not any(size_of_edge[tuple(sorted(p))] >= k for p in itertools.combinations(c, 2)):
                f.append(f"not-greedy-maximal: clique {list(c)} has no edge in a cover clique of size >= {k}")
                return f
        return f

    def nontrivial(self, case, obs):
        if "exc" in obs:
            return False
        sizes = [t[1][0] for t in obs["labels"] if t[1]]
        return bool(sizes) and max(sizes) >= 3

    def stats(self, case, obs, hist):
        hist["shape_" + case["shape"]] = hist.get("shape_" + case["shape"], 0) + 1
        hist["limit_" + str(case["max_size"])] = hist.get("limit_" + str(case["max_size"]), 0) + 1
        if case.get("prior_edges"):
            hist["covered_again_after_in_place_rewiring"] = hist.get("covered_again_after_in_place_rewiring", 0) + 1
        if "exc" not in obs and obs.get("L"):
            hist["cliques_enumerated"] = hist.get("cliques_enumerated", 0) + len(obs["L"])

    def shrink(self, case):
        for i in range(len(case["edges"])):
            if len(case["edges"]) > 1:
                c = json.loads(json.dumps(case)); del c["edges"][i]; yield c

    def fingerprint(self, case, obs, fails):
        return "C10/" + fails[0].split(":")[0]


PROP = C10()
