"""Shared by C15/C16/C17: motif graphs, exact polynomial evaluation of the real equations, brute-force oracle."""
import itertools
from fractions import Fraction

from core.exact import Poly, rs


def pvar():
    return Poly.var(0)


def uvar(v):
    return Poly.var(v + 1)


def poly_canon(P):
    """sorted list of [monomial as [[var, exp]...], coefficient string] — same shape as the driver's output"""
    if not isinstance(P, Poly):
        P = Poly.lift(P)
    out = [[[list(x) for x in k], rs(v)] for k, v in P.t.items()]
    return sorted(out, key=lambda t: repr(t))


def canon_sorted(terms):
    return sorted(terms, key=lambda t: repr(t))


def comp_of(root, nodes, edges):
    adj = {v: set() for v in nodes}
    for a, b in edges:
        adj[a].add(b)
        adj[b].add(a)
    seen = {root}
    st = [root]
    while st:
        x = st.pop()
        for y in adj[x]:
            if y not in seen:
                seen.add(y)
                st.append(y)
    return frozenset(seen)


def exact_expectation(nodes, edges, root, u_of=uvar, p=None):
    """sum over all open-edge sets A of p^|A| (1-p)^|E-A| * prod_{v in comp_A(root), v != root} u_v  (brute force)"""
    p = pvar() if p is None else p
    E = len(edges)
    counts = {}
    for mask in range(1 << E):
        A = [edges[i] for i in range(E) if mask >> i & 1]
        S = comp_of(root, nodes, A)
        key = (len(A), S)
        counts[key] = counts.get(key, 0) + 1
    q = 1 - p
    ppow = [Poly.const(1)]
    qpow = [Poly.const(1)]
    for _ in range(E):
        ppow.append(ppow[-1] * p)
        qpow.append(qpow[-1] * q)
    total = Poly.const(0)
    for (a, S), c in counts.items():
        m = Poly.const(c)
        for v in sorted(S):
            if v != root:
                m = m * u_of(v)
        total = total + m * ppow[a] * qpow[E - a]
    return total


def exact_numeric(nodes, edges, root, u, p):
    """brute force over all open-edge sets, in exact rationals (u: vertex -> Fraction)"""
    from fractions import Fraction
    E, total = len(edges), Fraction(0)
    for mask in range(1 << E):
        A = [edges[i] for i in range(E) if mask >> i & 1]
        w = p ** len(A) * (1 - p) ** (E - len(A))
        if w:
            for v in comp_of(root, nodes, A):
                if v != root:
                    w *= u[v]
            total += w
    return total


def is_connected(nodes, edges):
    return len(comp_of(nodes[0], nodes, edges)) == len(nodes)


def _labels(rng, n):
    # vertex labels are arbitrary hashables; one case in four uses numbers that are not small
    off = rng.choice([0, 0, 0, 500])
    return [off + x for x in rng.sample(range(0, 3 * n + 2), n)]


def random_connected_graph(rng, n, extra_p):
    labels = _labels(rng, n)
    edges = []
    for i in range(1, n):
        j = rng.randrange(i)
        edges.append((labels[j], labels[i]))
    for i in range(n):
        for j in range(i + 1, n):
            if (labels[i], labels[j]) not in edges and (labels[j], labels[i]) not in edges and rng.random() < extra_p:
                edges.append((labels[i], labels[j]))
    rng.shuffle(edges)
    edges = [list(e) if rng.random() < 0.5 else [e[1], e[0]] for e in edges]
    return labels, edges


def named_motif(rng, kind, n):
    labels = _labels(rng, n)
    if kind == "clique":
        edges = [[labels[i], labels[j]] for i in range(n) for j in range(i + 1, n)]
    elif kind == "cycle":
        edges = [[labels[i], labels[(i + 1) % n]] for i in range(n)]
    elif kind == "diamond":
        a, b, c, d = labels[:4]
        labels = labels[:4]
        edges = [[a, b], [b, c], [c, d], [d, a], [a, c]]
    elif kind == "dumbbell":      # two triangles joined by a bridge: edge connectivity 1 below minimum degree 2
        labels = rng.sample(range(0, 20), 6)
        v = labels
        edges = [[v[0], v[1]], [v[1], v[2]], [v[0], v[2]], [v[2], v[3]], [v[3], v[4]], [v[4], v[5]], [v[3], v[5]]]
    elif kind == "barbell4":      # two 4-cycles sharing one vertex (a cut vertex; every degree is at least 2)
        labels = rng.sample(range(0, 24), 7)
        v = labels
        edges = [[v[0], v[1]], [v[1], v[2]], [v[2], v[3]], [v[3], v[0]], [v[0], v[4]], [v[4], v[5]], [v[5], v[6]], [v[6], v[0]]]
    else:  # chorded pentagon
        v = labels[:5]
        labels = v
        edges = [[v[0], v[1]], [v[1], v[2]], [v[2], v[3]], [v[3], v[4]], [v[0], v[4]], [v[1], v[3]]]
    return labels, edges


def build_nx(nodes, edges, name, u=None):
    import networkx as nx
    H = nx.Graph(name=name)
    H.add_nodes_from(nodes)
    H.add_edges_from([tuple(e) for e in edges])
    nx.set_node_attributes(H, {v: (uvar(v) if u is None else u[v]) for v in nodes}, "u")
    return H
