"""C11 / C12: clean motif networks, targets, instrumented rewiring runs, trace validation against the model."""
import itertools
import json
import random as _random
from fractions import Fraction

from core.exact import Ex, rs
from core.rng import ScriptExhausted, SemanticRandom, installed, patched
from core.runner import Prop
from . import netgen

SHAPES = {
    "2-clique": (2, [(0, 1)]),
    "3-clique": (3, [(0, 1), (0, 2), (1, 2)]),
    "4-clique": (4, [(0, 1), (0, 2), (0, 3), (1, 2), (1, 3), (2, 3)]),
    "4-cycle": (4, [(0, 1), (1, 2), (2, 3), (0, 3)]),
    "6-cycle": (6, [(0, 1), (1, 2), (2, 3), (3, 4), (4, 5), (0, 5)]),
}


# motifs whose edges carry DIFFERENT topology names (multi-orbit motifs of the custom generator): (size, [(a, b, name)...])
MIXED = {
    "sq": (4, [(0, 1, "sq-a"), (1, 2, "sq-b"), (2, 3, "sq-a"), (0, 3, "sq-b")]),
    "kite": (4, [(0, 1, "kite-t"), (0, 2, "kite-t"), (1, 2, "kite-t"), (2, 3, "kite-p")]),
}


def gen_mixed_network(rng, nmax):
    """clean network containing motifs with several edge topologies, so that a vertex's corner in one motif holds edges of
    two topologies (the per-topology pairing of the two corners of a proposal is then exercised)"""
    kinds = rng.sample(list(MIXED), rng.randint(1, 2))
    plain = rng.sample(["2-clique", "3-clique"], rng.randint(0, 2))
    if rng.random() < 0.5:
        plain = []                   # only mixed-topology motifs: every proposal then pairs corners of two topologies
    names = []
    for k in kinds:
        for _, _, nm in MIXED[k][1]:
            if nm not in names:
                names.append(nm)
    names += plain
    rng.shuffle(names)
    N = rng.randint(9, nmax)
    edges, motifs, mid = {}, [], 0
    jd = [[0] * len(names) for _ in range(N)]
    todo = [(k, MIXED[k][0], MIXED[k][1]) for k in kinds] + [(p, SHAPES[p][0], [(a, b, p) for a, b in SHAPES[p][1]]) for p in plain]
    for kind, size, pat in todo:
        want, placed = rng.randint(4, 9), 0
        for _ in range(want * 15):
            if placed >= want:
                break
            vs = rng.sample(range(N), size)
            es = [frozenset((vs[a], vs[b])) for a, b, _ in pat]
            if any(e in edges for e in es):
                continue
            for e, (_, _, nm) in zip(es, pat):
                edges[e] = (nm, mid)
            for i, v in enumerate(vs):
                for nm in {nm for a, b, nm in pat if i in (a, b)}:
                    jd[v][names.index(nm)] += 1
            motifs.append({"id": mid, "name": kind, "verts": vs})
            mid += 1
            placed += 1
    rows = []
    for e, (nm, m) in edges.items():
        a, b = sorted(e)
        rows.append([a, b, nm, m] if rng.random() < 0.5 else [b, a, nm, m])
    rng.shuffle(rows)
    return {"jd": [[v, jd[v]] for v in range(N)], "edges": rows, "names": names, "motifs": motifs}


def gen_clean_network(rng, nmax, min_topologies=1, nmin=8, want_range=(2, 7)):
    names = rng.sample(list(SHAPES), rng.randint(min_topologies, 3))
    N = rng.randint(nmin, nmax)
    edges = {}          # frozenset -> (name, id)
    motifs = []
    jd = [[0] * len(names) for _ in range(N)]
    mid = 0
    for k, nm in enumerate(names):
        size, pat = SHAPES[nm]
        want = rng.randint(*want_range)
        placed = 0
        for _ in range(want * 15):
            if placed >= want:
                break
            vs = rng.sample(range(N), size)
            es = [frozenset((vs[a], vs[b])) for a, b in pat]
            if any(e in edges for e in es):
                continue
            for e in es:
                edges[e] = (nm, mid)
            for v in vs:
                jd[v][k] += 1
            motifs.append({"id": mid, "name": nm, "verts": vs})
            mid += 1
            placed += 1
    rows = []
    for e, (nm, m) in edges.items():
        a, b = sorted(e)
        rows.append([a, b, nm, m] if rng.random() < 0.5 else [b, a, nm, m])
    rng.shuffle(rows)
    return {"jd": [[v, jd[v]] for v in range(N)], "edges": rows, "names": names, "motifs": motifs}


def gen_assortative_network(rng, nmax=26):
    """vertex classes with prescribed joint degrees on a small grid; every motif is placed inside one class, so the realised
    pairings are (mostly) class-internal and many class pairs are unrealised — the regime in which a target forbids pairings"""
    names = rng.sample(["2-clique", "3-clique", "4-cycle"], rng.randint(2, 3))
    if "2-clique" not in names and rng.random() < 0.7:
        names[0] = "2-clique"
    ncls = rng.randint(2, 5)
    grid = [tuple(t) for t in itertools.product(range(0, 4), repeat=len(names)) if 0 < sum(t) <= 4]
    if rng.random() < 0.5:                    # classes of equal total degree: excess keys taken at different indices coincide
        tot = rng.choice([2, 3, 4])
        same = [t for t in grid if sum(t) == tot]
        grid = same if len(same) >= 2 else grid
    wants = rng.sample(grid, min(ncls, len(grid)))
    members, N = [], 0
    for _ in wants:
        k = rng.randint(3, 7)
        members.append(list(range(N, N + k)))
        N += k
        if N >= nmax:
            break
    wants = wants[:len(members)]
    cap = {v: list(w) for w, ms in zip(wants, members) for v in ms}
    jd = [[0] * len(names) for _ in range(N)]
    edges, motifs, mid = {}, [], 0
    for ms in members:
        for k, nm in enumerate(names):
            size, pat = SHAPES[nm]
            for _ in range(60):
                free = [v for v in ms if cap[v][k] > 0]
                if len(free) < size:
                    break
                free.sort(key=lambda v: (-cap[v][k], rng.random()))
                vs = free[:size] if rng.random() < 0.7 else rng.sample(free, size)
                rng.shuffle(vs)
                es = [frozenset((vs[a], vs[b])) for a, b in pat]
                if any(e in edges for e in es):
                    continue
                for e in es:
                    edges[e] = (nm, mid)
                for v in vs:
                    jd[v][k] += 1
                    cap[v][k] -= 1
                motifs.append({"id": mid, "name": nm, "verts": vs})
                mid += 1
    perm = list(range(N))
    rng.shuffle(perm)
    rows = []
    for e, (nm, m) in edges.items():
        a, b = [perm[x] for x in e]
        rows.append([a, b, nm, m] if rng.random() < 0.5 else [b, a, nm, m])
    rng.shuffle(rows)
    jdl = sorted([perm[v], jd[v]] for v in range(N))
    for mo in motifs:
        mo["verts"] = [perm[v] for v in mo["verts"]]
    return {"jd": jdl, "edges": rows, "names": names, "motifs": motifs}


def excess(row, i):
    r = list(row)
    r[i] -= 1
    return tuple(r)


def gen_target(rng, net, mode, pdrop=0.45):
    jd = {v: row for v, row in net["jd"]}
    target = []
    for i, nm in enumerate(net["names"]):
        classes = sorted({excess(row, i) for _, row in net["jd"] if row[i] > 0})
        realized = set()
        for a, b, t, _ in net["edges"]:
            if t == nm:
                realized.add(excess(jd[a], i) + excess(jd[b], i))
                realized.add(excess(jd[b], i) + excess(jd[a], i))
        table = {}
        for x, y in itertools.combinations_with_replacement(classes, 2):
            w = Fraction(rng.randint(1, 12), rng.choice([1, 2, 4]))
            drop = mode != "full" and rng.random() < pdrop and (x + y) not in realized
            if drop and mode == "sparse":
                continue
            if drop and mode == "zeros":
                w = Fraction(0)
            table[x + y] = w
            table[y + x] = w
        target.append([nm, [[list(k), rs(v)] for k, v in sorted(table.items())]])
    return target


def snapshot(G):
    from gcmpy.names.network_names import NetworkNames as NN
    return sorted([min(a, b), max(a, b), G.edges[a, b].get(NN.TOPOLOGY), G.edges[a, b].get(NN.MOTIF_IDS)] for a, b in G.edges())


def node_state(G):
    """vertices in order with their attributes; sequence-valued attributes as (type name, list) so that arrays compare by value"""
    out = []
    for n, d in G.nodes(data=True):
        out.append((n, sorted((str(k), (type(v).__name__, [int(x) for x in v]) if hasattr(v, "__iter__") and not isinstance(v, str) else v)
                              for k, v in d.items())))
    return out


def build_network(case):
    import networkx as nx
    from gcmpy.network.network import Network
    from gcmpy.names.network_names import NetworkNames as NN
    net = Network()
    G = nx.Graph()
    order = {v: k for k, v in enumerate(case.get("node_order") or [])}
    for v, row in sorted(case["jd"], key=lambda t: order.get(t[0], t[0])):
        G.add_node(v)
        G.nodes[v][NN.JOINT_DEGREE] = netgen.annotation(row, case.get("jd_type"))
    for a, b, t, m in case["edges"]:
        G.add_edge(a, b)
        G.edges[a, b][NN.TOPOLOGY] = t
        G.edges[a, b][NN.MOTIF_IDS] = m
    net.G = G
    return net


class MCMCProp(Prop):
    budgets = {"quick": 22, "thorough": 300}
    recheck = {"quick": 4, "thorough": 20}
    search_budget = {"quick": 40, "thorough": 300}
    assumptions = ["DrawSet.draw and random.random() are assumed uniform; the run injects deterministic draws from a private PRNG",
                   "the order in which networkx lists a vertex's edges is not modelled: corner lists are validated as sets",
                   "logging and the acceptance-ratio list are not modelled"]
    model_scope = ("modelled: get_all_edges (as a set), is_edge_choice_suitable, get_motif_vertices, swap_condition (pairing, proposal "
                   "attributes as coded, Metropolis ratio), application of an accepted swap, and (Model/Rewire.lean) the whole of rewire(): both while-loops "
                   "with their counters and limits, the drawable edge set kept in step with the graph, the order in which draws and uniform numbers "
                   "are consumed; the whole-loop replay runs when every draw and every get_all_edges() result could be observed")

    modes = ["full", "full", "sparse", "zeros"]
    min_topologies = 1

    def gen(self, rng, i, tier):
        if i % 3 == 2:
            net = gen_mixed_network(rng, 24 if tier == "quick" else 50)
        else:
            net = gen_clean_network(rng, 24 if tier == "quick" else 60, self.min_topologies if rng.random() < 0.8 else 1)
        mode = rng.choice(self.modes)
        c = dict(net)
        c["target"] = gen_target(rng, net, mode)
        if len(c["target"]) > 1 and rng.random() < 0.5:
            rng.shuffle(c["target"])                 # the target dict need not be listed in EDGE_NAMES order
        c["target_mode"] = mode
        c["rseed"] = rng.getrandbits(30)
        if rng.random() < 0.15:
            c["limits"] = None                      # documented defaults
        else:
            c["limits"] = [rng.randint(1, 12 if tier == "quick" else 60), rng.randint(5, 25)]
        c["grid"] = rng.choice([4, 10, 50])
        c["max_draws"] = 4000 if tier == "quick" else 20000
        if i % 5 == 1:
            c["jd_type"] = "list"          # annotations as lists (hand-built / loaded networks) instead of tuples
        if i % 10 == 8:
            c["jd_type"] = "numpy"         # ... or rows of an integer array
        if i % 2 == 1:
            c["node_order"] = [v for v, _ in c["jd"]]
            rng.shuffle(c["node_order"])   # a vertex's id is not its position in G.nodes()
        if i % 7 == 5:
            c["retarget"] = True
        if i % 9 == 4:
            c["int_target"] = True
        if i % 4 == 2:
            c["warm_rewire"] = True
            if c["limits"] is not None and i % 8 == 2:
                c["limits"][0] = 1 + (i // 8) % 2          # a short observed run after the warm-up: certain to be seen to its end
        return c

    def gen_dense(self, rng, i, tier):
        """few vertices, many motifs, several topologies: joint degrees fill a small grid, so that excess keys of different
        vertex classes (and of different topologies) coincide; most unrealised pairings are forbidden"""
        net = gen_clean_network(rng, 12, 2, nmin=7, want_range=(3, 9)) if rng.random() < 0.3 else gen_assortative_network(rng)
        c = dict(net)
        c["target"] = gen_target(rng, net, "sparse", pdrop=rng.choice([0.5, 0.8, 0.9]))
        if rng.random() < 0.7:
            rng.shuffle(c["target"])
        c["target_mode"] = "sparse"
        c["rseed"] = rng.getrandbits(30)
        c["limits"] = [rng.randint(3, 20), rng.randint(5, 25)]
        c["grid"] = rng.choice([4, 10, 50])
        c["max_draws"] = 4000
        if i % 2 == 1:
            c["node_order"] = [v for v, _ in c["jd"]]
            rng.shuffle(c["node_order"])
        if i % 3 == 1:
            c["retarget"] = True
        if i % 4 == 2:
            c["int_target"] = True
        return c

    # ------------------------------------------------------------------ instrumented run
    def impl(self, case):
        import random
        from gcmpy.tools import markov_chain_monte_carlo_rewiring as mod
        from gcmpy.tools import draw_set
        from gcmpy.names.tools_names import ToolsNames as TN
        from gcmpy.names.network_names import NetworkNames as NN
        from gcmpy.tools.joint_excess_joint_degree_matrices import JointExcessJointDegreeMatrices
        net = build_network(case)
        import copy
        before = copy.deepcopy((node_state(net.G), snapshot(net.G)))     # deep: list annotations may be changed in place
        ejks = {nm: {tuple(k): Ex(v) for k, v in tab} for nm, tab in case["target"]}
        if case.get("int_target"):
            # the same target as unnormalised integer counts (a histogram of observed pairings, scaled): the Metropolis ratio does
            # not depend on the scale
            import math
            L = 1
            for nm, tab in case["target"]:
                for _, v in tab:
                    L = L * Fraction(v).denominator // math.gcd(L, Fraction(v).denominator)
            biggest = max([int(Fraction(v) * L) for nm, tab in case["target"] for _, v in tab] or [1])
            scale = max(1, 10 ** 8 // max(1, biggest))        # counts of the order of 10^8
            ejks = {nm: {tuple(k): int(Fraction(v) * L) * scale for k, v in tab} for nm, tab in case["target"]}
        M = JointExcessJointDegreeMatrices({TN.EJKS: ejks, TN.EDGE_NAMES: list(case["names"])})
        params = {TN.NETWORK: net, TN.EJKS: M}
        if case["limits"] is not None:
            params[TN.CONVERGENCE_LIMIT] = case["limits"][0]
            params[TN.SEARCH_LIMIT] = case["limits"][1]
        prng = _random.Random(case["rseed"])
        budget = {"n": 0, "last_r": None}
        loop = {"events": []}                  # the draws of the whole loop as the code consumed them (Model/Rewire.lean)

        def tick():
            budget["n"] += 1
            if budget["n"] > case["max_draws"]:
                raise ScriptExhausted()

        class R(SemanticRandom):
            """corner draws: one uniform choice among the edges each (an index, or a number in [0,1) scaled by the set's size when
            the edge set draws that way); Metropolis draws: uniform numbers on the case's grid"""

            def on_uniform(self, n, ctx):
                tick()
                return prng.randrange(n)

            def on_float(self, ctx):
                tick()
                if ctx["file"] == "draw_set.py":
                    try:
                        n = len(ctx["self"])
                    except TypeError:
                        return super().on_float(ctx)
                    return (prng.randrange(n) + 0.5) / n if n else 0.0
                r = Ex(Fraction(prng.randint(0, case["grid"] - 1), case["grid"]))
                if case.get("int_target"):
                    r = r + Fraction(1, 1000000007)      # never exactly equal to a ratio of small rationals (float division rounds)
                budget["last_r"] = r
                return r
        sem = R()
        calls = []
        orig = mod.MarkovChainMonteCarloRewiring.swap_condition

        def wrapped(self_, G, e0s, e1s, u0, v0):
            budget["last_r"] = None
            rec = {"before": snapshot(G), "u0": u0, "v0": v0, "e0s": [list(e) for e in e0s], "e1s": [list(e) for e in e1s],
                   "self_loops": sum(1 for a, b in G.edges() if a == b)}
            calls.append(rec)
            res = orig(self_, G, e0s, e1s, u0, v0)
            rec["result"] = bool(res)
            rec["r"] = rs(budget["last_r"]) if budget["last_r"] is not None else "0"
            rec["r_used"] = budget["last_r"] is not None
            return res
        obs = {"exhausted": False, "ctor_exc": None}
        if case.get("retarget"):
            # the sampler is built with another target (every pairing allowed) and is given the real one through its public
            # `ejks` attribute before rewiring: the target in force is the one it holds when rewire() is called
            halves = {nm: sorted({tuple(k[:len(k) // 2]) for k, _ in tab} | {tuple(k[len(k) // 2:]) for k, _ in tab})
                      for nm, tab in case["target"]}
            decoy = {nm: {a + b: Ex(1) for a in hs for b in hs} for nm, hs in halves.items()}
            params[TN.EJKS] = JointExcessJointDegreeMatrices({TN.EJKS: decoy, TN.EDGE_NAMES: list(case["names"])})
        try:
            mc = mod.MarkovChainMonteCarloRewiring(params)
            if case.get("retarget"):
                mc.ejks = M
        except Exception as e:
            return {"exc": type(e).__name__, "msg": "constructor: " + str(e)[:200], "where": []}
        obs["limits_used"] = [mc.convergence_limit if isinstance(mc.convergence_limit, int) else repr(mc.convergence_limit), mc.search_limit]
        final = None
        if case.get("warm_rewire"):
            # the same object rewired once before (a short run whose result is thrown away): each call starts from a fresh copy
            # of the network, so this must not influence the observed run
            keep = mc.convergence_limit
            wprng = _random.Random(case["rseed"] ^ 0x5A5A)
            wbudget = {"n": 0}

            class W(SemanticRandom):
                def on_uniform(self, n, ctx):
                    wbudget["n"] += 1
                    if wbudget["n"] > 3000:
                        raise ScriptExhausted()
                    return wprng.randrange(n)

                def on_float(self, ctx):
                    wbudget["n"] += 1
                    if wbudget["n"] > 3000:
                        raise ScriptExhausted()
                    if ctx["file"] == "draw_set.py":
                        n = len(ctx["self"])
                        return (wprng.randrange(n) + 0.5) / n if n else 0.0
                    return wprng.random()
            try:
                mc.convergence_limit = 2
                with installed(W()):
                    mc.rewire()
            except ScriptExhausted:
                pass
            except mod.ErrorMarkovChainMonteCarloRewiring:
                pass
            finally:
                mc.convergence_limit = keep
        import contextlib
        hook = hasattr(mod.MarkovChainMonteCarloRewiring, "swap_condition")   # where proposals are observed
        obs["hook_missing"] = not hook
        # the whole-loop replay needs every EdgeSet.draw() and every get_all_edges() result; when the code has neither method
        # any more the loop is simply not observed (the per-proposal replay above does not depend on them)
        loop_hooks = hasattr(draw_set.DrawSet, "draw") and hasattr(mod.MarkovChainMonteCarloRewiring, "get_all_edges")
        stack = contextlib.ExitStack()
        if loop_hooks:
            orig_draw = draw_set.DrawSet.draw
            orig_gae = mod.MarkovChainMonteCarloRewiring.get_all_edges

            def draw_w(self_):
                e = orig_draw(self_)
                loop["events"].append({"e": list(e) if isinstance(e, tuple) else repr(e), "given": []})
                return e

            def gae_w(self_, G, u0, edge):
                res = orig_gae(self_, G, u0, edge)
                if loop["events"]:
                    loop["events"][-1]["given"] = [list(x) for x in res]
                    loop["events"][-1]["focal"] = u0
                return res
            stack.enter_context(patched(draw_set.DrawSet, "draw", draw_w))
            stack.enter_context(patched(mod.MarkovChainMonteCarloRewiring, "get_all_edges", gae_w))
        with stack, (patched(mod.MarkovChainMonteCarloRewiring, "swap_condition", wrapped) if hook else contextlib.nullcontext()), \
                installed(sem):
            try:
                Gout = mc.rewire()
                final = snapshot(Gout)
                obs["nodes_final"] = sorted([n, list(d.get(NN.JOINT_DEGREE, []))] for n, d in Gout.nodes(data=True))
                obs["same_object_as_input"] = Gout is net.G
            except ScriptExhausted:
                obs["exhausted"] = True
                if calls and "result" not in calls[-1]:
                    calls.pop()          # the draw budget ran out INSIDE this proposal: it was not observed to its end
            except mod.ErrorMarkovChainMonteCarloRewiring as e:
                obs["raised"] = str(e)[:200]
        obs["calls"] = calls
        obs["loop"] = loop if loop_hooks else None
        obs["rng_unexpected"] = sem.summary()["n_unexpected"]
        obs["final"] = final
        obs["input_untouched"] = (node_state(net.G), snapshot(net.G)) == before
        return obs

    # ------------------------------------------------------------------ model
    def request(self, case, obs):
        if "exc" in obs:
            raise ValueError("no trace: the run raised " + obs["exc"])
        if obs.get("hook_missing"):
            raise ValueError("MarkovChainMonteCarloRewiring.swap_condition is gone: proposals cannot be observed")
        steps = [{"u0": c["u0"], "v0": c["v0"], "e0s": c["e0s"], "e1s": c["e1s"], "r": c.get("r", "0")} for c in obs["calls"]]
        for st, c, a in zip(steps, obs["calls"], self._afters(obs)):
            if c.get("result") and a is not None:
                st["after_impl"] = a
        req = {"op": "c11", "jd": case["jd"], "edges": case["edges"], "names": case["names"], "target": case["target"], "steps": steps}
        if self._loop_observed(obs):
            lim = obs["limits_used"]
            # one entry per proposal that was observed to its end: the uniform number it consumed, or null
            req["loop"] = {"climit": lim[0], "slimit": lim[1],
                           "rs": [(c["r"] if c.get("r_used") else None) for c in obs["calls"] if "result" in c],
                           "draws": [{"e": ev["e"], "given": ev["given"]} for ev in obs["loop"]["events"]]}
        return req

    @staticmethod
    def _loop_observed(obs):
        """the whole loop is replayed when every draw was seen as a pair of vertex ids, every random decision went through the
        script, and the limits in force are natural numbers"""
        lp, lim = obs.get("loop"), obs.get("limits_used") or [None, None]
        return bool(lp and lp["events"] and not obs.get("rng_unexpected")
                    and all(isinstance(x, int) and not isinstance(x, bool) and x >= 0 for x in lim)
                    and all(isinstance(ev["e"], list) and len(ev["e"]) == 2 and all(isinstance(x, int) for x in ev["e"])
                            for ev in lp["events"]))

    @staticmethod
    def _loop_outcome(obs):
        if obs.get("exhausted"):
            return "exhausted"
        r = obs.get("raised")
        if r is not None:
            for key, tag in (("divide by zero", "raise-divide-by-zero"), ("IndexError", "raise-index"), ("already present", "raise-edge-present"),
                             ("edge count", "raise-edge-count")):
                if key in r:
                    return tag
            return "raise-other"
        return "done" if obs.get("final") is not None else "unknown"

    def _afters(self, obs):
        calls = obs["calls"]
        out = []
        for i, c in enumerate(calls):
            if i + 1 < len(calls):
                out.append(calls[i + 1]["before"])
            elif obs["final"] is not None:
                out.append(obs["final"])
            else:
                out.append(None)            # unobserved (run cut short)
        return out

    def model(self, case, reply, obs):
        afters = self._afters(obs)
        m = {"first_state": "same", "steps": []}
        for s, a, c in zip(reply["steps"], afters, obs["calls"]):
            e = {"corner_ok": s["corner_ok"], "suitable": s["suitable"], "decision": s["decision"]}
            if a is not None and "result" in c:
                e["after"] = s["after"]
            m["steps"].append(e)
        m["n_steps"] = len(reply["steps"])
        # a run that was observed to its end stops when the number of accepted swaps has passed the convergence limit in force
        lim = (obs.get("limits_used") or [None])[0]
        if obs.get("final") is not None and not obs.get("exhausted") and "raised" not in obs and isinstance(lim, int):
            m["accepted_at_end"] = lim + 1          # `while convergence_count <= limit`: the loop of this code admits limit + 1 swaps
        if "loop" in reply and self._loop_observed(obs):
            # the attribute assignment the implementation exhibits (known finding: as coded; repaired: intended); both are models
            # of the loop, the oracle tells them apart
            lc, lf = reply["loop"]["coded"], reply["loop"]["fixed"]
            pick = lf if (obs.get("final") is not None and lf["final"] == obs["final"] and lc["final"] != obs["final"]) else lc
            out = pick["outcome"]
            m["loop"] = {"outcome": out, "accepted": pick["count"],
                         "trace": [[t["u0"], t["v0"], sorted(t["e0s"]), sorted(t["e1s"]), t["decision"]] for t in pick["trace"]]}
            if out == "done":
                m["loop"]["final"] = pick["final"]
                m["loop"]["unused_draws"] = pick["draws_left"]
                m["loop"]["unused_uniforms"] = pick["rs_left"]
        return m

    def project(self, case, obs):
        if "exc" in obs:
            return {"exc": obs["exc"]}
        afters = self._afters(obs)
        init = sorted([min(a, b), max(a, b), t, m] for a, b, t, m in case["edges"])
        p = {"first_state": "same" if (not obs["calls"] or obs["calls"][0]["before"] == init) else "differs", "steps": []}
        for c, a in zip(obs["calls"], afters):
            if "result" not in c:
                e = {"corner_ok": True, "suitable": True, "decision": "raise-divide-by-zero" if "divide by zero" in obs.get("raised", "") else "raise-index"}
            else:
                e = {"corner_ok": True, "suitable": True, "decision": "accept" if c["result"] else "reject"}
                if a is not None:
                    e["after"] = a
            p["steps"].append(e)
        p["n_steps"] = len(obs["calls"])
        lim = (obs.get("limits_used") or [None])[0]
        if obs.get("final") is not None and not obs.get("exhausted") and "raised" not in obs and isinstance(lim, int):
            p["accepted_at_end"] = sum(1 for c in obs["calls"] if c.get("result"))
        if self._loop_observed(obs):
            out = self._loop_outcome(obs)
            tr = []
            for c in obs["calls"]:
                if "result" in c:
                    d = "accept" if c["result"] else "reject"
                else:
                    d = out if out in ("raise-divide-by-zero", "raise-index") else "unobserved"
                tr.append([c["u0"], c["v0"], sorted(c["e0s"]), sorted(c["e1s"]), d])
            p["loop"] = {"outcome": out, "accepted": sum(1 for c in obs["calls"] if c.get("result")), "trace": tr}
            if out == "done":
                p["loop"]["final"] = obs["final"]
                p["loop"]["unused_draws"] = 0
                p["loop"]["unused_uniforms"] = 0
        return p

    # ------------------------------------------------------------------ oracle clauses
    def clauses_c11(self, case, obs):
        if "exc" in obs:
            tag = "default-limit" if case["limits"] is None and "constructor" in obs.get("msg", "") else "raised"
            return [f"{tag}: {obs['exc']}: {obs.get('msg', '')[:100]}"]
        f = []
        if "raised" in obs and "divide by zero" not in obs["raised"]:
            f.append(f"raised: rewire() raised: {obs['raised'][:100]}")
        if not obs["input_untouched"]:
            f.append("input-modified: rewiring changed the network it was given")
        jd = {v: row for v, row in case["jd"]}
        names = case["names"]
        init = sorted([min(a, b), max(a, b), t, m] for a, b, t, m in case["edges"])

        def degs(snap):
            d = {}
            for a, b, t, _ in snap:
                for v in (a, b):
                    d[(v, t)] = d.get((v, t), 0) + 1
            return d
        d0 = degs(init)
        afters = self._afters(obs)
        states = [c["before"] for c in obs["calls"]] + ([obs["final"]] if obs["final"] is not None else [])
        for snap in states:
            if any(a == b for a, b, _, _ in snap):
                f.append("self-loop: a self-loop was introduced")
                break
            if len(snap) != len(init):
                f.append(f"edge-count: {len(snap)} edges instead of {len(init)}")
                break
            if degs(snap) != d0:
                f.append("topology-degrees: a vertex's number of incident edges of some topology changed")
                break
            if any(t is None or m is None for _, _, t, m in snap):
                f.append("annotation-lost: an edge lost its topology or motif id")
                break
        if obs["final"] is not None:
            if obs.get("same_object_as_input"):
                f.append("input-modified: the returned graph is the input object")
            if obs.get("nodes_final") != sorted([v, row] for v, row in case["jd"]):
                f.append("nodes: vertex set or vertex annotations changed")
        # motif shape, per accepted swap: each new edge must carry the attributes of the edge it replaces in its motif
        for c, after in zip(obs["calls"], afters):
            if not c.get("result") or after is None:
                continue
            before = {(a, b): (t, m) for a, b, t, m in c["before"]}
            aft = {(a, b): (t, m) for a, b, t, m in after}
            u0, v0 = c["u0"], c["v0"]
            att = lambda e: before.get((min(e), max(e)))
            A = att(c["e0s"][0]); B = att(c["e1s"][0])
            intended, exchanged = {}, {}
            for e0 in c["e0s"]:
                k = (min(v0, e0[1]), max(v0, e0[1]))
                intended[k] = att(e0); exchanged[k] = (att(e0)[0], B[1])
            for e1 in c["e1s"]:
                k = (min(u0, e1[1]), max(u0, e1[1]))
                intended[k] = att(e1); exchanged[k] = (att(e1)[0], A[1])
            got = {k: aft.get(k) for k in intended}
            if got == intended:
                continue
            if got == exchanged:
                f.append("motif-shape/ids-exchanged-between-swapped-corners: the new edges of an accepted swap carry the motif id of the "
                         "OTHER corner, so the edges sharing a motif id no longer form the original motif")
            else:
                f.append("motif-shape/other: new edges of an accepted swap carry unexpected topology / motif id")
            break
        return f

    def clauses_c12(self, case, obs):
        if "exc" in obs:
            return []
        f = []
        if "divide by zero" in obs.get("raised", ""):
            f.append("divide-by-zero: swap_condition divided by zero although existing edges have positive weight")
        jd = {v: row for v, row in case["jd"]}
        names = case["names"]
        target = {nm: {tuple(k): Fraction(v) for k, v in tab} for nm, tab in case["target"]}
        afters = self._afters(obs)
        for c, after in zip(obs["calls"], afters):
            if not c.get("result") or after is None:
                continue
            before = {(a, b) for a, b, _, _ in c["before"]}
            for a, b, t, _ in after:
                if (a, b) in before or t not in names:
                    continue
                i = names.index(t)
                xa, xb = excess(jd[a], i), excess(jd[b], i)
                tt = target.get(t, {})
                if not (tt.get(xa + xb, 0) > 0 and tt.get(xb + xa, 0) > 0):
                    f.append(f"forbidden-pairing: created {t} edge ({a},{b}) joins excess classes {xa},{xb} whose target weight is "
                             f"{tt.get(xa + xb, 'absent')}")
                    return f
        # the statement itself, independent of the trace: edges of the returned graph that were not in the input
        if obs["final"] is not None:
            init = {(min(a, b), max(a, b)) for a, b, _, _ in case["edges"]}
            for a, b, t, _ in obs["final"]:
                if (a, b) in init or t not in names:
                    continue
                i = names.index(t)
                xa, xb = excess(jd[a], i), excess(jd[b], i)
                tt = target.get(t, {})
                if not (tt.get(xa + xb, 0) > 0 and tt.get(xb + xa, 0) > 0):
                    f.append(f"forbidden-pairing: the returned graph has a new {t} edge ({a},{b}) joining excess classes {xa},{xb} "
                             f"whose target weight is {tt.get(xa + xb, 'absent')}")
                    return f
        return f

    def nontrivial(self, case, obs):
        return "exc" not in obs and sum(1 for c in obs["calls"] if c.get("result")) >= 1

    def stats(self, case, obs, hist):
        hist["target_" + case["target_mode"]] = hist.get("target_" + case["target_mode"], 0) + 1
        if case["limits"] is None:
            hist["default_limits"] = hist.get("default_limits", 0) + 1
        if "exc" not in obs:
            hist["proposals"] = hist.get("proposals", 0) + len(obs["calls"])
            hist["accepted_swaps"] = hist.get("accepted_swaps", 0) + sum(1 for c in obs["calls"] if c.get("result"))
            if obs["exhausted"]:
                hist["runs_cut_short"] = hist.get("runs_cut_short", 0) + 1
            if self._loop_observed(obs):
                hist["whole_loop_replayed"] = hist.get("whole_loop_replayed", 0) + 1
                k = "whole_loop_outcome_" + self._loop_outcome(obs)
                hist[k] = hist.get(k, 0) + 1
                hist["whole_loop_draws"] = hist.get("whole_loop_draws", 0) + len(obs["loop"]["events"])
                hist["whole_loop_uniforms"] = hist.get("whole_loop_uniforms", 0) + sum(1 for c in obs["calls"] if c.get("r_used"))
            shared = sum(1 for _, row in case["jd"] if sum(row) >= 2)
            hist["vertices_in_two_or_more_motifs"] = hist.get("vertices_in_two_or_more_motifs", 0) + shared

    def shrink(self, case):
        if case["limits"] is not None and case["limits"][0] > 1:
            c = json.loads(json.dumps(case)); c["limits"][0] = max(1, c["limits"][0] // 2); yield c
