"""C13 — mixing matrices extracted from a network are exact, symmetric and repeatable."""
import json
from fractions import Fraction

from core.exact import rs, recover
from core.runner import Prop
from . import netgen


class C13(Prop):
    pid = "C13"
    rule = ("annotated simple networks: 60% hand-built (2-14 vertices, 1-3 arbitrary topology names, annotation = incident edges per "
            "topology or a coarser consistent one, self-paired classes frequent), 40% produced by the real network generator; "
            "annotations as tuples, lists or integer arrays, edge names as separate string objects; get_ejks() is called 1-4 times on one extractor, then "
            "another extractor is run on a different network with the same names and the first one is asked again; every entry is recovered as an exact rational with denominator 2*E_tau; "
            "non-trivial = at least 3 edges and a topology with both a self-paired and a split class or at least 2 calls; distinct = distinct case")
    assumptions = ["float accumulations of 1/E and 0.5/E are mapped back to the unique rational with denominator <= 2*E (exact for these sizes)"]
    model_scope = "modelled: joint_excess_joint_degree.py, joint_excess_degree.py, JointExcessJointDegreeMatrices.get_excess_degree_keys"
    budgets = {"quick": 300, "thorough": 12000}
    search_budget = {"quick": 800, "thorough": 6000}

    def gen(self, rng, i, tier):
        c = netgen.hand_network(rng) if rng.random() < 0.6 else netgen.generated_network(rng)
        c["calls"] = rng.randint(1, 4)
        r = rng.random()
        if r < 0.45:
            c["jd_type"] = "list" if r < 0.3 else "numpy"
        if rng.random() < 0.4:
            c["node_order"] = [v for v, _ in c["jd"]]
            rng.shuffle(c["node_order"])          # a vertex's label is not its position in G.nodes()
        return c

    def impl(self, case):
        from gcmpy.names.tools_names import ToolsNames as TN
        from gcmpy.tools.joint_excess_joint_degree import JointExcessJointDegree
        from gcmpy.tools.joint_excess_degree import JointExcessDegree
        G = netgen.build_graph(case)
        ext = JointExcessJointDegree({TN.NETWORK: G, TN.EDGE_NAMES: list(case["names"])})
        E = {nm: sum(1 for e in case["edges"] if e[2] == nm) for nm in case["names"]}
        calls = []
        for _ in range(case["calls"]):
            m = ext.get_ejks()
            calls.append([[nm, sorted([list(k), rs(recover(v, 2 * max(1, E[nm])))] for k, v in m.ejks[nm].items())]
                          for nm in case["names"]])
            keys = [[nm, sorted(list(k) for k in m.excess_degree_keys[nm])] for nm in case["names"]]
            tn = list(m.topology_names)
        # the result of an extraction belongs to its extractor and its network: another extractor, built afterwards for another
        # network with the same topology names, changes neither what was returned nor what this extractor returns next
        import copy
        held = m
        snap = (sorted(map(repr, held.excess_degree_keys)), [[repr(nm), sorted(list(k) for k in held.excess_degree_keys[nm])] for nm in case["names"]],
                [[repr(nm), sorted([list(k), repr(v)] for k, v in held.ejks[nm].items())] for nm in case["names"]])
        other = copy.deepcopy({k: case[k] for k in ("jd", "edges", "names")})
        other["jd"] = [[v, [x + 1 for x in row]] for v, row in other["jd"]]
        try:
            JointExcessJointDegree({TN.NETWORK: netgen.build_graph(other), TN.EDGE_NAMES: list(case["names"])}).get_ejks()
        except Exception:
            pass
        snap2 = (sorted(map(repr, held.excess_degree_keys)), [[repr(nm), sorted(list(k) for k in held.excess_degree_keys[nm])] for nm in case["names"]],
                 [[repr(nm), sorted([list(k), repr(v)] for k, v in held.ejks[nm].items())] for nm in case["names"]])
        m3 = ext.get_ejks()
        again = [[nm, sorted([list(k), rs(recover(v, 2 * max(1, E[nm])))] for k, v in m3.ejks[nm].items())] for nm in case["names"]]
        keys3 = [[nm, sorted(list(k) for k in m3.excess_degree_keys[nm])] for nm in case["names"]]
        independent = (snap == snap2 and again == calls[0] and keys3 == keys)
        key_names = sorted(map(repr, m.excess_degree_keys))
        ov = JointExcessDegree.get_ejk(G)
        from gcmpy.names.network_names import NetworkNames as NN
        untouched = all(list(G.nodes[v][NN.JOINT_DEGREE]) == list(row) for v, row in case["jd"]) and \
            sorted(G.nodes()) == sorted(v for v, _ in case["jd"]) and G.number_of_edges() == len({frozenset(e[:2]) for e in case["edges"]})
        return {"network_untouched": untouched, "calls": calls, "excess_keys": keys, "topology_names": tn,
                "independent_of_other_extractors": independent, "excess_key_names": key_names,
                "overall": sorted([list(k), rs(recover(v, 2 * len(case["edges"])))] for k, v in ov.items())}

    def request(self, case, obs):
        return {"op": "c13", "jd": case["jd"], "edges": case["edges"], "names": case["names"], "calls": case["calls"]}

    def model(self, case, reply, obs):
        return {"calls": [[[nm, sorted(t)] for nm, t in call] for call in reply["calls"]],
                "excess_keys": [[nm, sorted(k)] for nm, k in reply["excess_keys"]], "overall": sorted(reply["overall"])}

    def project(self, case, obs):
        if "exc" in obs:
            return {"exc": obs["exc"]}
        return {"calls": obs["calls"], "excess_keys": obs["excess_keys"], "overall": obs["overall"]}

    def oracle(self, case, obs):
        if "exc" in obs:
            return [f"raised: {obs['exc']}: {obs.get('msg', '')[:80]}"]
        f = []
        if not obs["network_untouched"]:
            f.append("network-mutated: extracting the matrices changed the network's annotations (or its vertices / edges)")
        if not obs.get("independent_of_other_extractors", True):
            f.append("not-repeatable: after another extractor was used on another network, the matrices or excess keys already "
                     "returned by this one (or returned by its next call) are different")
        if obs.get("excess_key_names") is not None and obs["excess_key_names"] != sorted(repr(nm) for nm in case["names"]):
            f.append(f"excess-keys: excess_degree_keys lists topologies {obs['excess_key_names']}, the network was extracted for "
                     f"{sorted(map(repr, case['names']))}")
        first = obs["calls"][0]
        for n, call in enumerate(obs["calls"][1:], 2):
            if call != first:
                f.append(f"not-repeatable: call {n} of get_ejks() returned different matrices than the first call")
                break
        for i, (nm, table) in enumerate(first):
            got = {tuple(k): Fraction(v) for k, v in table}
            want = netgen.exact_ejk(case, i, nm)
            if got != want:
                f.append(f"entry: matrix of topology {nm!r} is not the edge-end fraction (e.g. sums to {sum(got.values())})")
                continue
            T = len(case["names"])
            if any(got.get(k[T:] + k[:T]) != v for k, v in got.items()):
                f.append("asymmetric")
            if got and sum(got.values()) != 1:
                f.append("sum")
            halves = {tuple(h) for h in dict(obs["excess_keys"])[nm]} if isinstance(obs["excess_keys"], list) else set()
            ks = {tuple(x) for x in dict((a, b) for a, b in obs["excess_keys"])[nm]}
            consistent = all(row[i] >= 1 for v, row in case["jd"]
                             for a, b, t in case["edges"] if t == nm and v in (a, b))
            if consistent and any(k[:T] not in ks or k[T:] not in ks for k in got):
                f.append("excess-keys: a key half of the matrix is not listed in excess_degree_keys")
        # overall-degree variant
        deg = {}
        for a, b, _ in case["edges"]:
            deg[a] = deg.get(a, 0) + 1
            deg[b] = deg.get(b, 0) + 1
        want = {}
        E = len(case["edges"])
        for a, b, _ in case["edges"]:
            for x, y in ((a, b), (b, a)):
                k = (deg[x] - 1, deg[y] - 1)
                want[k] = want.get(k, 0) + Fraction(1, 2 * E)
        if {tuple(k): Fraction(v) for k, v in obs["overall"]} != want:
            f.append("overall: plain-degree mixing matrix is not the edge-end fraction")
        return f

    def nontrivial(self, case, obs):
        return "exc" not in obs and len(case["edges"]) >= 3 and (case["calls"] >= 2 or len(case["names"]) >= 2)

    def stats(self, case, obs, hist):
        hist["src_" + case["source"]] = hist.get("src_" + case["source"], 0) + 1
        hist["calls_" + str(case["calls"])] = hist.get("calls_" + str(case["calls"]), 0) + 1
        if "exc" not in obs:
            T = len(case["names"])
            for nm, t in obs["calls"][0]:
                if any(k[:T] == k[T:] for k, _ in t):
                    hist["has_self_paired_class"] = hist.get("has_self_paired_class", 0) + 1
                    break

    def shrink(self, case):
        if case["calls"] > 2:
            c = json.loads(json.dumps(case)); c["calls"] = 2; yield c
        for i in range(len(case["edges"])):
            if len(case["edges"]) > 1:
                c = json.loads(json.dumps(case)); del c["edges"][i]; yield c

    def fingerprint(self, case, obs, fails):
        return "C13/" + fails[0].split(":")[0]


PROP = C13()
