"""C20 — the drawable edge set behaves as a set under any add/remove history."""
import itertools
import random as _random

from core.runner import Prop
from core.rng import SemanticRandom, installed


# members are arbitrary hashables: pairs of ints, but also None, strings, numbers, the empty tuple (coded [-1, j] in a case)
NAN = float("nan")       # one object: a member of a plain set too (found by identity), although it is not equal to itself
SPECIAL = [None, "x", 0, (), frozenset(), False, "", NAN]


def D(e):
    e = tuple(e)
    return SPECIAL[e[1]] if len(e) == 2 and e[0] == -1 else e


def E(x):
    for j, sp in enumerate(SPECIAL):
        if x is sp or (type(x) is type(sp) and x == sp):
            return (-1, j)
    return tuple(x)


SNAPSHOT_ABOVE, SNAPSHOT_EVERY = 40, 25


class C20(Prop):
    pid = "C20"
    case_limit = 20          # a history takes milliseconds; a draw that never returns is cut off after this many seconds
    title = "DrawSet behaves as a set under any history"
    rule = ("random operation sequences (add/remove/draw/contains/len/iter) over universes of 1-8 integer pairs (every fifth case also None, '', 'x', 0, False, (), frozenset(), a NaN object as members) (every sixtieth case (every 300th in the thorough tier): a set of 258-300 members built first, drained from its last slot across size 257, partly refilled), "
            "plus every sequence of <= L add/remove operations over a 3-element universe (L=4 quick, 6 thorough); "
            "a case is non-trivial when it performs at least one removal of a present element that is not the last "
            "list slot (the swap-with-last path) or an absent removal; distinct = distinct operation sequence")
    assumptions = ["random.choice(seq) is seq[randbelow(len(seq))] (CPython 3.12 body, executed for real on scripted randbelow)",
                   "randbelow is uniform (not tested)"]
    model_scope = "modelled: gcmpy/tools/draw_set.py in full (every statement of add/remove/draw/__contains__/__len__/__iter__)"
    budgets = {"quick": 400, "thorough": 20000}
    search_budget = {"quick": 2000, "thorough": 20000}

    def gen(self, rng, i, tier):
        u = rng.randint(1, 8)
        universe = [[rng.randint(0, 5), rng.randint(0, 5) + 6 * j] for j in range(u)]
        if i % 3 == 0:
            # elements are plain hashable keys: (a, b) and (b, a) are different members, (a, a) is its own mirror image
            universe += [[b, a] for a, b in universe[: rng.randint(1, len(universe))]]
            if rng.random() < 0.5:
                universe.append([7, 7])
            seen, uniq = set(), []
            for e in universe:
                if tuple(e) not in seen:
                    seen.add(tuple(e))
                    uniq.append(e)
            universe = uniq
        if i % 5 == 2:
            # members that are not pairs: None, a string, 0, the empty tuple ... (any hashable is a legal member)
            for j in rng.sample(range(len(SPECIAL)), rng.randint(1, 3)):
                universe.append([-1, j])
            if [-1, 2] in universe and [-1, 5] in universe:
                universe.remove([-1, 5])          # 0 == False: one member, not two
        n = rng.randint(1, 80)
        ops = []
        if i % (60 if tier == "quick" else 300) == 9:
            # a large set: several hundred members before the mixed history starts
            universe = [[a, 1000 + a] for a in range(rng.randint(258, 300))]
            ops = [["add", e] for e in universe]
            rng.shuffle(ops)
            # ... then drained from the tail (the member inserted last, sitting in the final slot, positions 257 and below
            # are crossed), partly refilled, and drained from the front
            tail = [o[1] for o in ops[::-1][:rng.randint(3, len(ops) - 250)]]
            ops += [["remove", e] for e in tail]
            ops += [["add", e] for e in tail[:rng.randint(0, len(tail))]]
            ops += [["remove", o[1]] for o in ops[:rng.randint(0, 4)]]
        for _ in range(n):
            r = rng.random()
            e = rng.choice(universe)
            if r < 0.38:
                ops.append(["add", e])
            elif r < 0.70:
                ops.append(["remove", e])
            elif r < 0.80:
                ops.append(["draw", rng.randint(0, 50)])
            elif r < 0.88:
                ops.append(["contains", e])
            elif r < 0.94:
                ops.append(["len"])
            else:
                ops.append(["iter"])
        return {"universe": universe, "ops": ops}

    def exhaustive(self, tier):
        L = 4 if tier == "quick" else 6
        universe = [[0, 1], [1, 0], [1, 2]]          # two orientations of one pair are two different elements
        kinds = [["add", e] for e in universe] + [["remove", e] for e in universe]
        for n in range(1, L + 1):
            for seq in itertools.product(kinds, repeat=n):
                yield {"universe": universe, "ops": [list(o) for o in seq]}

    def impl(self, case):
        from gcmpy.tools import draw_set as mod
        ds = mod.DrawSet()
        steps, draws = [], []
        ref = set()
        viol = []

        class R(SemanticRandom):
            """a draw is ONE uniform choice among the current members: served as the scripted index, whether the code asks for an
            index (choice / randrange) or for a uniform number in [0, 1) that it scales by the current size"""

            def __init__(self):
                super().__init__()
                self.i, self.n_events = 0, 0

            def arm(self, i):
                self.i, self.n_events = i, 0
                del self.unexpected[:]

            def on_uniform(self, n, ctx):
                self.n_events += 1
                # the scripted outcome answers the first choice of a draw; a draw that asks again is answered by the private RNG
                return self.i if self.i < n and self.n_events == 1 else super().on_uniform(n, ctx)

            def on_float(self, ctx):
                self.n_events += 1
                n = len(ds)
                return (self.i + 0.5) / n if n and self.i < n and self.n_events == 1 else super().on_float(ctx)

        def state():
            # private representation, observed when it is there (compared with the model's state; not part of the property)
            e, m = getattr(ds, "_edges", None), getattr(ds, "_edge_hashmap", None)
            return (None if e is None else list(e), None if m is None else dict(m))

        def public():
            return ([E(x) for x in ds], len(ds))
        unexpected = 0
        sr = R()
        with installed(sr):
            return self._run(case, ds, sr, ref, viol, steps, draws, state, public, unexpected)

    def _run(self, case, ds, sr, ref, viol, steps, draws, state, public, unexpected):
        for op in case["ops"]:
            name = op[0]
            res = None
            before = (state(), public())
            if name == "add":
                e = tuple(op[1])
                was = e in ref
                ds.add(D(e))
                ref.add(e)
                if was and (state(), public()) != before:
                    viol.append("add-present-changed-state")
            elif name == "remove":
                e = tuple(op[1])
                try:
                    ds.remove(D(e))
                    if e not in ref:
                        viol.append("remove-absent-did-not-raise")
                    ref.discard(e)
                except KeyError:
                    res = "KeyError"
                    if e in ref:
                        viol.append("remove-present-raised")
                    if (state(), public()) != before:
                        viol.append("remove-absent-corrupted-state")
            elif name == "draw":
                n = len(ds)
                i = op[1] % n if n else 0
                draws.append(i)
                sr.arm(i)
                try:
                    x = E(ds.draw())
                    unexpected += len(sr.unexpected) + (sr.n_events != 1)
                    res = list(x)
                    if tuple(x) not in ref:
                        viol.append("draw-returned-non-member")
                except Exception:
                    if ref:
                        raise                  # a draw from a non-empty set must return a member
                    res = "IndexError"         # drawing from the empty set fails; with which exception the property does not say
            elif name == "contains":
                res = D(op[1]) in ds
            elif name == "len":
                res = len(ds)
            elif name == "iter":
                res = [list(E(x)) for x in ds]
            # set-equivalence after every operation
            it = [E(x) for x in ds]
            if len(ds) != len(ref):
                viol.append("len-differs-from-set")
            if sorted(it) != sorted(ref):
                viol.append("iteration-differs-from-set")
            if len(set(it)) != len(it):
                viol.append("iteration-repeats-a-member")
            for u in case["universe"]:
                if (D(u) in ds) != (tuple(u) in ref):
                    viol.append("membership-differs-from-set")
            # every member can be drawn: index i draws the i-th listed member
            drawn, scripted = set(), True
            for i in range(len(ds)):
                sr.arm(i)
                drawn.add(E(ds.draw()))
                scripted = scripted and not sr.unexpected and sr.n_events == 1
            if not drawn <= ref:
                viol.append("draw-returned-non-member")
            if scripted and drawn != ref:          # one uniform choice per draw, every outcome tried: every member must come up
                viol.append("some-member-cannot-be-drawn")
            unexpected += not scripted
            e, m = state()
            if len(ref) > SNAPSHOT_ABOVE and len(steps) % SNAPSHOT_EVERY and len(steps) + 1 < len(case["ops"]):
                # a large set: the private state is compared with the model after every 25th operation and after the last one
                # (the set-level clauses above are checked after every operation all the same)
                steps.append({"res": res, "state": "not-recorded", "size": len(ref)})
                continue
            steps.append({"res": res, "state": {
                "edges": None if e is None else [list(E(x)) for x in e],
                "map": None if m is None else sorted([list(E(k)), v] for k, v in m.items())}})
        return {"steps": steps, "draws": draws, "oracle": sorted(set(viol)), "rng_unexpected": int(unexpected)}

    def request(self, case, obs):
        if "exc" in obs:
            ops, k = [], 0
            for op in case["ops"]:
                ops.append(["draw", 0] if op[0] == "draw" else op)
            return {"op": "c20", "universe": case["universe"], "ops": ops}
        ops, k = [], 0
        for op in case["ops"]:
            if op[0] == "draw":
                ops.append(["draw", obs["draws"][k]])
                k += 1
            else:
                ops.append(op)
        return {"op": "c20", "universe": case["universe"], "ops": ops}

    def model(self, case, reply, obs):
        steps = []
        for k, (op, s) in enumerate(zip(case["ops"], reply["steps"])):
            if k < len(obs.get("steps", [])) and obs["steps"][k].get("state") == "not-recorded":
                s = {"res": s.get("res"), "state": "not-recorded", "size": len(s["state"]["edges"])}
            else:
                s["state"]["map"] = sorted(s["state"]["map"])
            if op[0] == "iter" and isinstance(s.get("res"), list):
                s["res"] = sorted(s["res"])          # the order of iteration is not part of the property
            steps.append(s)
        return {"steps": steps, "rng_unexpected": 0}

    def project(self, case, obs):
        if "exc" in obs:
            return obs
        steps = []
        for op, st in zip(case["ops"], obs["steps"]):
            if op[0] == "iter" and isinstance(st.get("res"), list):
                st = dict(st, res=sorted(st["res"]))
            steps.append(st)
        return {"steps": steps, "rng_unexpected": obs["rng_unexpected"]}

    def oracle(self, case, obs):
        if "exc" in obs:
            return [f"raised: {obs['exc']}"]
        return list(obs["oracle"])

    def nontrivial(self, case, obs):
        if "exc" in obs:
            return False
        prev = []
        for op, st in zip(case["ops"], obs["steps"]):
            if op[0] == "remove":
                if st["res"] == "KeyError":
                    return True
                if prev and prev[-1] != op[1]:
                    return True
            if isinstance(st["state"], dict):
                prev = st["state"]["edges"] or []
            else:
                return True          # a large set: counted as non-trivial
        return False

    def stats(self, case, obs, hist):
        hist["ops_total"] = hist.get("ops_total", 0) + len(case["ops"])
        for op in case["ops"]:
            hist["op_" + op[0]] = hist.get("op_" + op[0], 0) + 1
        if "exc" not in obs:
            for op, st in zip(case["ops"], obs["steps"]):
                if st["res"] in ("KeyError", "IndexError"):
                    hist["err_" + st["res"]] = hist.get("err_" + st["res"], 0) + 1

    def shrink(self, case):
        ops = case["ops"]
        for i in range(len(ops)):
            yield {"universe": case["universe"], "ops": ops[:i] + ops[i + 1:]}
        if len(ops) > 4:
            yield {"universe": case["universe"], "ops": ops[: len(ops) // 2]}

    def fingerprint(self, case, obs, fails):
        return "C20/" + fails[0].split(":")[0]


PROP = C20()
