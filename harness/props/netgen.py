"""Annotated networks for C13/C14 (and later C11/C12)."""
import random as _random
from fractions import Fraction


def hand_network(rng, max_n=14):
    """simple graph, random topology per edge, vertex annotation = number of incident edges per topology
    (2-clique-like) or, with probability 0.3, a coarser consistent annotation (ceil(inc/2), triangle-like)"""
    T = rng.randint(1, 3)
    pool = ["2-clique", "3-clique", "a", "tri-blue", "x"]
    if rng.random() < 0.35:
        # names contained in one another, sharing a prefix, or empty: a name is an opaque key, never a pattern
        pool = ["2-clique", "2-clique-blue", "clique", "", "a", "a-a", "2"]
    names = rng.sample(pool, T)
    n = rng.randint(2, max_n)
    p = rng.choice([0.15, 0.3, 0.5])
    edges = []
    for a in range(n):
        for b in range(a + 1, n):
            if rng.random() < p:
                e = [a, b] if rng.random() < 0.5 else [b, a]
                edges.append(e + [rng.choice(names)])
    if not edges:
        edges.append([0, 1, names[0]])
    rng.shuffle(edges)
    halve = rng.random() < 0.3
    jd = []
    for v in range(n):
        row = []
        for nm in names:
            inc = sum(1 for a, b, t in edges if t == nm and v in (a, b))
            row.append((inc + 1) // 2 if halve else inc)
        jd.append([v, row])
    # make every incident topology positive (consistency) when halving
    return {"jd": jd, "edges": edges, "names": names, "source": "hand"}


def generated_network(rng):
    """a clean clique network from the real generator (consistent by construction)"""
    from . import gen_common as gc
    import random
    from gcmpy.names.gcm_algorithm_names import GCMAlgorithmNames as GN
    from gcmpy.gcm_algorithm.gcm_algorithm_network import GCMAlgorithmNetwork
    from gcmpy.motif_generators.clique_motif import clique_motif
    from gcmpy.names.network_names import NetworkNames as NN
    T = rng.randint(1, 2)
    sizes = [2, 3][:T] if rng.random() < 0.7 else [3, 2][:T]
    names = ["2-clique" if s == 2 else "3-clique" for s in sizes]
    n = rng.randint(4, 16)
    jds = [[rng.randint(0, 2) for _ in range(T)] for _ in range(n)]
    gc.fix_handshake(rng, jds, sizes)
    st = random.getstate()
    random.seed(rng.getrandbits(32))
    net = GCMAlgorithmNetwork({GN.MOTIF_SIZES: sizes, GN.BUILD_FUNCTIONS: [clique_motif] * T, GN.EDGE_NAMES: names}
                              ).random_clustered_graph([tuple(r) for r in jds])
    random.setstate(st)
    G = net.G
    edges = [[u, v, G.edges[u, v][NN.TOPOLOGY]] for u, v in G.edges() if u != v]
    if not edges:
        return hand_network(rng)
    jd = [[v, list(G.nodes[v][NN.JOINT_DEGREE])] for v in G.nodes()]
    # a clean network: no self-loops or collapsed multi-edges, so incident counts match the annotation
    clean = all(sum(1 for a, b, t in edges if t == nm and v in (a, b)) == (sizes[i] - 1) * row[i]
                for v, row in jd for i, nm in enumerate(names))
    return {"jd": jd, "edges": edges, "names": names, "source": "generator", "clean": clean, "sizes": sizes}


def annotation(row, jd_type):
    """the joint-degree annotation is a sequence of ints: tuples from the library's generators, lists from hand-built or loaded
    networks, rows of an integer array from numerical code"""
    if jd_type == "list":
        return list(row)
    if jd_type == "numpy":
        import numpy as np
        return np.array(list(row), dtype=np.int64)
    return tuple(row)


def fresh(t):
    """an equal but separately created object"""
    if isinstance(t, str) and len(t) >= 2:
        return (t + "x")[:-1]
    if isinstance(t, tuple):
        return tuple(fresh(x) for x in t)
    return t


def build_graph(case):
    import networkx as nx
    from gcmpy.names.network_names import NetworkNames as NN
    G = nx.Graph()
    order = {v: k for k, v in enumerate(case.get("node_order") or [])}
    for v, row in sorted(case["jd"], key=lambda t: order.get(t[0], t[0])):
        G.add_node(v)
        # the annotation is a sequence of ints: tuples from the library's generators, lists from hand-built / loaded networks
        G.nodes[v][NN.JOINT_DEGREE] = annotation(row, case.get("jd_type"))
    for a, b, t in case["edges"]:
        G.add_edge(a, b)
        G.edges[a, b][NN.TOPOLOGY] = fresh(t)      # names are compared by value: every edge carries its own string object
        G.edges[a, b][NN.MOTIF_IDS] = 0
    return G


def exact_ejk(case, i, name):
    """edge-end recount from the property text: fraction of topology edge ends with own excess a, partner excess b"""
    jd = {v: row for v, row in case["jd"]}
    ends = []
    for a, b, t in case["edges"]:
        if t != name:
            continue
        ea = list(jd[a]); ea[i] -= 1
        eb = list(jd[b]); eb[i] -= 1
        ends.append((tuple(ea), tuple(eb)))
        ends.append((tuple(eb), tuple(ea)))
    out = {}
    for a, b in ends:
        out[a + b] = out.get(a + b, 0) + Fraction(1, len(ends))
    return out
