"""C14 — degree-distribution algebra is consistent and invertible."""
import itertools
import json
from fractions import Fraction

from core.exact import Ex, rs, recover
from core.runner import Prop
from . import netgen

NAMES = ["2-clique", "3-clique", "2-clique-blue", "a", "b", "tri", "x-y-z"]


class C14(Prop):
    pid = "C14"
    rule = ("(jdd) joint degree distributions over 1-4 topologies with 2-9 keys, zero components, unequal supports, P(0) possibly "
            "positive, arbitrary topology names, exact rational masses: averages, excess distributions, inversion; "
            "(net) clean clique networks from the real generator and hand-built annotated networks: matrix row sums, key halves, "
            "network histogram and the network identity (half of them on a second extraction); (matrix) hand-made matrices per topology, "
            "full / upper triangle / random subset of the ordered pairs: row sums and key halves; non-trivial = at least 3 keys / 3 edges; distinct = distinct case")
    assumptions = ["the static conversion functions are run on an exact rational number type; float accumulations in "
                   "jdd-from-network and get_ejks are mapped back to the unique rational with the known denominator",
                   "the arbitrary common key picked by the code (first element of a set) is passed to the model; the theorem shows the result "
                   "does not depend on it"]
    model_scope = ("modelled: average_joint_degree_from_jdd.py, joint_excess_from_jdd.py, joint_degree_from_excess.py, "
                   "joint_excess_from_ejk.py, joint_degree_distribution_from_network.py, matrices key splitting")
    budgets = {"quick": 300, "thorough": 4000}
    search_budget = {"quick": 800, "thorough": 6000}

    def gen(self, rng, i, tier):
        if i % 6 == 4:
            # "all mixing matrices": a hand-made matrix per topology over a few excess tuples, not necessarily symmetric, with
            # any subset of the ordered pairs stored (one entry per unordered pair, a missing diagonal, one-sided zeros dropped)
            T = rng.randint(1, 3)
            names = rng.sample(NAMES, T)
            ejks = []
            for nm in names:
                tuples = set()
                while len(tuples) < rng.randint(2, 4):
                    tuples.add(tuple(rng.randint(0, 3) for _ in range(T)))
                tuples = sorted(tuples)
                pairs = [(a, b) for a in tuples for b in tuples]
                style = rng.choice(["full", "upper", "random"])
                if style == "upper":
                    pairs = [(a, b) for a, b in pairs if a <= b and (a != b or rng.random() < 0.5)]
                elif style == "random":
                    pairs = [pr for pr in pairs if rng.random() < 0.6] or pairs[:1]
                rng.shuffle(pairs)
                w = [Fraction(rng.randint(1, 9), rng.choice([1, 2, 3])) for _ in pairs]
                if rng.random() < 0.7:
                    z = sum(w)
                    w = [x / z for x in w]
                ejks.append([nm, [[list(a + b), rs(x)] for (a, b), x in zip(pairs, w)]])
            return {"kind": "matrix", "names": names, "ejks": ejks, "reverse_dict": rng.random() < 0.5}
        if rng.random() < 0.6:
            T = rng.randint(1, 4)
            nk = rng.randint(2, 9)
            keys = set()
            # make sure some joint degree is positive in every topology (precondition of the inversion sentence)
            if rng.random() < 0.9:
                keys.add(tuple(rng.randint(1, 3) for _ in range(T)))
            for _ in range(200):
                if len(keys) >= nk:
                    break
                keys.add(tuple(rng.randint(0, 3) if rng.random() < 0.7 else 0 for _ in range(T)))
            if rng.random() < 0.3:
                keys.add(tuple([0] * T))
            keys = list(keys)
            rng.shuffle(keys)
            w = [Fraction(rng.randint(1, 9), rng.choice([1, 2, 3])) for _ in keys]
            if rng.random() < 0.8:
                s = sum(w)
                w = [x / s for x in w]
            names = rng.sample(NAMES, T)
            order = list(range(T))
            if rng.random() < 0.5:
                rng.shuffle(order)
            return {"kind": "jdd", "jdd": [[list(k), rs(x)] for k, x in zip(keys, w)], "names": names, "dict_order": order}
        c = netgen.generated_network(rng) if rng.random() < 0.6 else netgen.hand_network(rng)
        r = rng.random()
        if r < 0.45:
            c["jd_type"] = "list" if r < 0.3 else "numpy"
        if rng.random() < 0.4:
            c["node_order"] = [v for v, _ in c["jd"]]
            rng.shuffle(c["node_order"])          # a vertex's label is not its position in G.nodes()
        c["kind"] = "net"
        c["reverse_dict"] = rng.random() < 0.5
        return c

    # ------------------------------------------------------------------ real code
    def impl(self, case):
        from gcmpy.tools.average_joint_degree_from_jdd import AverageJointDegreeFromJDD
        from gcmpy.tools.joint_excess_from_jdd import JointExcessfromJDD
        from gcmpy.tools.joint_degree_from_excess import JointDegreeFromExcess
        from gcmpy.tools.joint_excess_from_ejk import JointExcessFromEjk
        from gcmpy.tools.joint_excess_joint_degree_matrices import JointExcessJointDegreeMatrices
        from gcmpy.tools.joint_degree_distribution_from_network import JointDegreeDistributionFromNetwork
        from gcmpy.tools.joint_excess_joint_degree import JointExcessJointDegree
        from gcmpy.names.tools_names import ToolsNames as TN
        tab = lambda d: sorted([list(k), rs(v)] for k, v in d.items())
        if case["kind"] == "jdd":
            jdd = {tuple(k): Ex(v) for k, v in case["jdd"]}
            names = case["names"]
            obs = {}
            obs["averages"] = [rs(a) for a in AverageJointDegreeFromJDD.get_average_joint_degrees(jdd)]
            try:
                qs = JointExcessfromJDD.get_joint_excess_distributions(jdd)
            except ZeroDivisionError:
                obs["excess"] = "ZeroDivisionError"
                return obs
            obs["excess"] = [tab(q) for q in qs]
            qd = JointExcessfromJDD.convert_list_qks_to_dict(qs, names)
            back = JointExcessfromJDD.convert_dict_qks_to_list(qd, names)
            # the dict of excess distributions is keyed by NAME: its insertion order must not matter
            order = case.get("dict_order") or list(range(len(names)))
            qd = {names[i]: qd[names[i]] for i in order}
            obs["list_dict_roundtrip"] = [tab(q) for q in back] == obs["excess"]
            # the common key exactly as the code computes it
            try:
                p_obs = JointDegreeFromExcess.observations_from_dict(qd, names)
                common = list(set.intersection(*map(set, [p_obs[t] for t in p_obs])))
                obs["common"] = list(common[0]) if common else None
                P = JointDegreeFromExcess.get_joint_degree_distribution(qd, names)
                obs["inverted"] = tab(P)
            except ZeroDivisionError:
                obs["inverted"] = "ZeroDivisionError"
            except TypeError:
                obs["inverted"] = "NoCommonKey"
            obs["jdd_untouched"] = jdd == {tuple(k): Ex(v) for k, v in case["jdd"]}
            return obs
        if case["kind"] == "matrix":
            names = case["names"]
            d = {nm: {tuple(k): Ex(v) for k, v in rows} for nm, rows in case["ejks"]}
            if case.get("reverse_dict"):
                d = dict(reversed(list(d.items())))
            M = JointExcessJointDegreeMatrices({TN.EJKS: d, TN.EDGE_NAMES: list(names)})
            obs = {"split_keys": [[nm, sorted(list(k) for k in M.excess_degree_keys[nm])] for nm in names]}
            qks = JointExcessFromEjk.get_excess_joint_distributions(M)
            obs["row_sums"] = [[nm, tab(qks[nm])] for nm in names]
            obs["matrix_untouched"] = {nm: sorted([list(k), rs(v)] for k, v in M.ejks[nm].items()) for nm in names} == \
                {nm: sorted([list(k), rs(Fraction(v))] for k, v in rows) for nm, rows in case["ejks"]}
            return obs
        # network case
        G = netgen.build_graph(case)
        names = case["names"]
        n = G.order()
        P = JointDegreeDistributionFromNetwork.get_joint_degree_distribution(G)
        obs = {"jdd_from_network": sorted([list(k), rs(recover(v, n))] for k, v in P.items())}
        exact = {nm: {k: Ex(v) for k, v in netgen.exact_ejk(case, i, nm).items()} for i, nm in enumerate(names)}
        if case.get("reverse_dict"):
            exact = dict(reversed(list(exact.items())))
        M = JointExcessJointDegreeMatrices({TN.EJKS: exact, TN.EDGE_NAMES: names})
        obs["split_keys"] = [[nm, sorted(list(k) for k in M.excess_degree_keys[nm])] for nm in names]
        qks = JointExcessFromEjk.get_excess_joint_distributions(M)
        obs["row_sums"] = [[nm, tab(qks[nm])] for nm in names]
        # the float path, straight from the extractor
        ext = JointExcessJointDegree({TN.NETWORK: G, TN.EDGE_NAMES: names})
        if case.get("reverse_dict"):
            ext.get_ejks()                   # half of the cases use the matrices of a second extraction of the same extractor
        M2 = ext.get_ejks()
        q2 = JointExcessFromEjk.get_excess_joint_distributions(M2)
        E = {nm: sum(1 for e in case["edges"] if e[2] == nm) for nm in names}
        obs["row_sums_float_path"] = [[nm, sorted([list(k), rs(recover(v, 2 * max(1, E[nm])))] for k, v in q2[nm].items())]
                                      for nm in names]
        return obs

    # ------------------------------------------------------------------ model
    def request(self, case, obs):
        return {"op": "ping"}

    def _model_requests(self, case, obs):
        reqs = []
        if case["kind"] == "jdd":
            reqs.append({"op": "c14", "kind": "averages", "jdd": case["jdd"]})
            reqs.append({"op": "c14", "kind": "excess_from_jdd", "jdd": case["jdd"]})
            if isinstance(obs.get("excess"), list) and obs.get("common") is not None:
                reqs.append({"op": "c14", "kind": "invert", "names": case["names"], "common": obs["common"],
                             "qks": [[nm, q] for nm, q in zip(case["names"], obs["excess"])]})
        elif case["kind"] == "matrix":
            for nm, rows in case["ejks"]:
                reqs.append({"op": "c14", "kind": "split_keys", "ejk": sorted([list(k), rs(Fraction(v))] for k, v in rows)})
            reqs.append({"op": "c14", "kind": "excess_from_ejk", "keys": obs["split_keys"],
                         "ejks": [[nm, sorted([list(k), rs(Fraction(v))] for k, v in rows)] for nm, rows in case["ejks"]]})
        else:
            reqs.append({"op": "c14", "kind": "jdd_from_network", "jds": [row for _, row in case["jd"]]})
            for i, nm in enumerate(case["names"]):
                ex = sorted([list(k), rs(v)] for k, v in netgen.exact_ejk(case, i, nm).items())
                reqs.append({"op": "c14", "kind": "split_keys", "ejk": ex})
            ejks = [[nm, sorted([list(k), rs(v)] for k, v in netgen.exact_ejk(case, i, nm).items())]
                    for i, nm in enumerate(case["names"])]
            reqs.append({"op": "c14", "kind": "excess_from_ejk", "ejks": ejks, "keys": obs["split_keys"]})
        return reqs

    def model(self, case, reply, obs):
        from core.common import run_driver
        reps = run_driver(self._model_requests(case, obs))
        if case["kind"] == "jdd":
            m = {"averages": reps[0].get("averages", "raises")}
            m["excess"] = [sorted(t) for t in reps[1]["tables"]] if "tables" in reps[1] else "ZeroDivisionError"
            if len(reps) > 2:
                m["inverted"] = sorted(reps[2]["table"]) if "table" in reps[2] else "raises"
            return m
        T = len(case["names"])
        if case["kind"] == "matrix":
            return {"split_keys": [[nm, sorted(r["keys"])] for nm, r in zip(case["names"], reps[:T])],
                    "row_sums": [[nm, sorted(t)] for nm, t in reps[T]["qks"]] if "qks" in reps[T] else "raises"}
        m = {"jdd_from_network": sorted(reps[0]["table"]),
             "split_keys": [[nm, sorted(r["keys"])] for nm, r in zip(case["names"], reps[1:1 + T])],
             "row_sums": [[nm, sorted(t)] for nm, t in reps[1 + T]["qks"]] if "qks" in reps[1 + T] else "raises"}
        return m

    def project(self, case, obs):
        if "exc" in obs:
            return {"exc": obs["exc"]}
        if case["kind"] == "jdd":
            p = {"averages": obs["averages"], "excess": obs["excess"]}
            if isinstance(obs.get("excess"), list) and obs.get("common") is not None:
                p["inverted"] = obs["inverted"] if isinstance(obs["inverted"], list) else "raises"
            return p
        if case["kind"] == "matrix":
            return {"split_keys": obs["split_keys"], "row_sums": obs["row_sums"]}
        return {"jdd_from_network": obs["jdd_from_network"], "split_keys": obs["split_keys"], "row_sums": obs["row_sums"]}

    # ------------------------------------------------------------------ oracle
    def oracle(self, case, obs):
        if "exc" in obs:
            return [f"{'inversion-raises' if obs['exc'] == 'KeyError' else 'raised'}: {obs['exc']}: {obs.get('msg', '')[:80]}"]
        f = []
        if case["kind"] == "jdd":
            P = {tuple(k): Fraction(v) for k, v in case["jdd"]}
            T = len(case["names"])
            mean = [sum(k[i] * p for k, p in P.items()) for i in range(T)]
            if [Fraction(a) for a in obs["averages"]] != mean:
                f.append("mean: average joint degree is not the P-weighted mean")
            if obs["excess"] == "ZeroDivisionError":
                if all(m != 0 or not any(k[i] > 0 for k in P) for i, m in enumerate(mean)):
                    f.append("raised: ZeroDivisionError although every needed mean is non-zero")
                return f
            for i in range(T):
                want = {}
                for k, p in P.items():
                    if k[i] > 0:
                        kk = list(k); kk[i] -= 1
                        want[tuple(kk)] = k[i] * p / mean[i]
                got = {tuple(k): Fraction(v) for k, v in obs["excess"][i]}
                if got != want:
                    f.append(f"excess: topology {i}: q(k - e_i) is not k_i P(k) / <k_i>")
                elif got and sum(got.values()) != 1:
                    f.append("excess-sum")
            if not obs["list_dict_roundtrip"]:
                f.append("list-dict-conversion")
            if any(all(x > 0 for x in k) for k in P):
                z = sum(p for k, p in P.items() if any(k))
                want = {k: p / z for k, p in P.items() if any(k)}
                if not isinstance(obs["inverted"], list):
                    f.append(f"inversion-raises: {obs['inverted']} although some joint degree is positive in every topology")
                elif {tuple(k): Fraction(v) for k, v in obs["inverted"]} != want:
                    f.append("inversion: inverting the excess distributions does not return P restricted to non-zero joint degrees")
            if not obs.get("jdd_untouched", True):
                f.append("input-mutated")
            return f
        if case["kind"] == "matrix":
            T = len(case["names"])
            for nm, rows in case["ejks"]:
                M = {tuple(k): Fraction(v) for k, v in rows}
                want = {}
                for k, v in M.items():
                    want[k[:T]] = want.get(k[:T], 0) + v
                got = {tuple(k): Fraction(v) for k, v in dict((a, b) for a, b in obs["row_sums"])[nm]}
                if got != want:
                    f.append(f"row-sums: summing the hand-made matrix of {nm!r} over its second index gives {sorted(want.items())}, "
                             f"the code returns {sorted(got.items())}")
                halves = {k[:T] for k in M} | {k[T:] for k in M}
                if {tuple(k) for k in dict((a, b) for a, b in obs["split_keys"])[nm]} != halves:
                    f.append("key-halves")
            if not obs.get("matrix_untouched", True):
                f.append("input-mutated")
            return f
        # network
        names = case["names"]
        T = len(names)
        n = len(case["jd"])
        hist = {}
        for _, row in case["jd"]:
            hist[tuple(row)] = hist.get(tuple(row), 0) + Fraction(1, n)
        if {tuple(k): Fraction(v) for k, v in obs["jdd_from_network"]} != hist:
            f.append("network-histogram: joint degree distribution of the network is not the vertex-annotation histogram")
        for i, nm in enumerate(names):
            M = netgen.exact_ejk(case, i, nm)
            want = {}
            for k, v in M.items():
                want[k[:T]] = want.get(k[:T], 0) + v
            for label in ("row_sums", "row_sums_float_path"):
                got = {tuple(k): Fraction(v) for k, v in dict((a, b) for a, b in obs[label])[nm]}
                if got != want:
                    f.append(f"row-sums: summing the matrix of {nm!r} over its second index is not the excess distribution ({label})")
                    break
            halves = {k[:T] for k in M} | {k[T:] for k in M}
            if {tuple(k) for k in dict((a, b) for a, b in obs["split_keys"])[nm]} != halves:
                f.append("key-halves")
            if case.get("clean") and M:
                # network identity: row sums == excess distribution of the network's empirical jdd
                mean = sum(k[i] * p for k, p in hist.items())
                q = {}
                for k, p in hist.items():
                    if k[i] > 0:
                        kk = list(k); kk[i] -= 1
                        q[tuple(kk)] = k[i] * p / mean
                if q != want:
                    f.append("network-identity: matrix row sums differ from the excess distribution of the empirical jdd")
        return f

    def nontrivial(self, case, obs):
        if "exc" in obs:
            return False
        if case["kind"] == "matrix":
            return sum(len(rows) for _, rows in case["ejks"]) >= 3
        return len(case["jdd"]) >= 3 if case["kind"] == "jdd" else len(case["edges"]) >= 3

    def stats(self, case, obs, hist):
        hist["kind_" + case["kind"]] = hist.get("kind_" + case["kind"], 0) + 1
        if case["kind"] == "jdd":
            hist["T_" + str(len(case["names"]))] = hist.get("T_" + str(len(case["names"])), 0) + 1
            if any(not any(k) for k, _ in case["jdd"]):
                hist["P0_positive"] = hist.get("P0_positive", 0) + 1
            if "exc" not in obs and isinstance(obs.get("inverted"), list):
                hist["inverted_ok"] = hist.get("inverted_ok", 0) + 1
        elif case["kind"] == "matrix":
            pass
        elif case.get("clean"):
            hist["clean_generated_network"] = hist.get("clean_generated_network", 0) + 1

    def shrink(self, case):
        if case["kind"] == "jdd":
            for i in range(len(case["jdd"])):
                if len(case["jdd"]) > 2:
                    c = json.loads(json.dumps(case)); del c["jdd"][i]; yield c
        elif case["kind"] == "matrix":
            for t, (nm, rows) in enumerate(case["ejks"]):
                for i in range(len(rows)):
                    if len(rows) > 1:
                        c = json.loads(json.dumps(case)); del c["ejks"][t][1][i]; yield c
        else:
            for i in range(len(case["edges"])):
                if len(case["edges"]) > 1 and not case.get("clean"):
                    c = json.loads(json.dumps(case)); del c["edges"][i]; yield c

    def fingerprint(self, case, obs, fails):
        return "C14/" + fails[0].split(":")[0]


PROP = C14()
