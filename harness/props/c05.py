"""C05 — sampled joint degree sequences are handshake-consistent minimal perturbations."""
import json
from fractions import Fraction
import random as _random

from core.runner import Prop
from core.rng import SemanticRandom, installed


class C05(Prop):
    pid = "C05"
    rule = ("distributions with 1-6 distinct tuple keys over 1-4 topologies, unnormalised integer weights, motif sizes 1-5 (size 1 forced "
            "in 25% of cases), N 1-60; keys of Python or NumPy integers; in 15% of cases the loader first holds and samples another distribution "
            "whose dictionary is then edited in place; the weighted key draws and the uniform vertex picks are scripted as events, through whichever function of `random` they are drawn; "
            "non-trivial = at least one column needed patching; distinct = distinct case")
    assumptions = ["random.choices(population, weights, k) draws i.i.d. in proportion to the weights and random.randrange is uniform "
                   "(stdlib; only the arguments handed to them are checked)"]
    model_scope = "modelled: JointDegree.handshaking_lemma and the call made by sample_jds_from_jdd (joint_degree.py)"
    budgets = {"quick": 400, "thorough": 30000}
    search_budget = {"quick": 1500, "thorough": 10000}

    def gen(self, rng, i, tier):
        T = rng.randint(1, 4)
        nk = min(rng.randint(1, 6), 5 ** T)
        keys = set()
        while len(keys) < nk:
            keys.add(tuple(rng.randint(0, 4) for _ in range(T)))
        keys = sorted(keys)
        rng.shuffle(keys)
        jdd = [[list(k), rng.randint(1, 9)] for k in keys]
        sizes = [1 if rng.random() < 0.25 else rng.randint(2, 5) for _ in range(T)]
        N = rng.choice([1, 1, 2, 3]) if rng.random() < 0.2 else rng.randint(1, 60)
        chosen = [rng.randrange(nk) for _ in range(N)]
        picks = [rng.randrange(N) for _ in range(5 * T)]
        if T >= 2 and rng.random() < 0.3:
            sizes[rng.randrange(1, T)] = sizes[0]            # repeated motif sizes
        c = {"jdd": jdd, "sizes": sizes, "N": N, "chosen": chosen, "picks": picks}
        if rng.random() < 0.3:
            c["warmup"] = rng.randint(1, 7)
            c["edited"] = rng.random() < 0.5
        if i % 7 == 3:
            c["key_type"] = rng.choice(["uint32", "uint16", "int64"])      # degrees as NumPy integers (keys read off an array)
        return c

    def impl(self, case):
        import random
        from gcmpy.joint_degree.joint_degree_loaders.joint_degree_manual import JointDegreeManual
        from gcmpy.names.joint_degree_names import JointDegreeNames as JN
        jdd = {tuple(k): w for k, w in case["jdd"]}
        if case.get("key_type"):
            import numpy as np
            ty = getattr(np, case["key_type"])
            jdd = {tuple(ty(x) for x in k): w for k, w in case["jdd"]}
        if case.get("warmup") and case.get("edited"):
            # the loader first holds (and is sampled from, below) another distribution; its dictionary is then edited in place to
            # the case's distribution: a sample follows the distribution the loader holds when it is drawn
            T = len(case["sizes"])
            first = {tuple([9] * T): 1, **{k: 3 for k in list(jdd)[:1]}}
            obj = JointDegreeManual({JN.JDD: first, JN.MOTIF_SIZES: list(case["sizes"])})
        else:
            obj = JointDegreeManual({JN.JDD: jdd, JN.MOTIF_SIZES: list(case["sizes"])})
        picks = list(case["picks"])
        chosen_keys = [tuple(case["jdd"][i][0]) for i in case["chosen"]]

        class R(SemanticRandom):
            """t-th weighted draw -> the case's t-th chosen KEY (wherever it sits in the population handed over);
            uniform picks among the N vertices -> the case's picks, in order"""

            def __init__(self):
                super().__init__()
                self.weighted, self.uniform, self.t = [], [], 0

            def on_weighted(self, weights, ctx):
                pop = [tuple(p) if isinstance(p, (tuple, list)) else p for p in ctx["population"]]
                if ctx["t"] == 0:
                    self.weighted.append({"population": [list(p) if isinstance(p, tuple) else repr(p) for p in pop],
                                          "weights": list(weights), "k": ctx["k"]})
                want = chosen_keys[self.t % len(chosen_keys)]
                self.t += 1
                if want in pop:
                    return pop.index(want)
                return super().on_weighted(weights, ctx)

            def on_uniform(self, n, ctx):
                self.uniform.append(n)
                if not picks:
                    return 0
                v = picks.pop(0)
                return v if 0 <= v < n else super().on_uniform(n, ctx)
        sem = R()
        if case.get("warmup"):
            # an earlier sampling call on the same object must not influence this one
            st = random.getstate()
            obj.sample_jds_from_jdd(case["warmup"])
            random.setstate(st)
            if case.get("edited"):
                held = obj.jdd
                held.clear()
                held.update(jdd)
        with installed(sem):
            out = obj.sample_jds_from_jdd(case["N"])
        obs = {"out": [list(x) for x in out], "types": sorted({type(x).__name__ for x in out}),
               "elem_types": sorted({type(v).__name__ for x in out for v in x}),
               "weighted_calls": sem.weighted, "uniform_picks": sem.uniform, "rng": sem.summary(),
               "jdd_untouched": obj.jdd == {tuple(k): w for k, w in case["jdd"]}}
        # usable wherever the library accepts a joint degree sequence
        usable = []
        try:
            from gcmpy.joint_degree.joint_degree_loaders.joint_degree_empirical import JointDegreeEmpirical
            JointDegreeEmpirical({JN.MOTIF_SIZES: list(case["sizes"]), JN.JDS: list(out)})
        except Exception as e:
            usable.append(f"JointDegreeEmpirical: {type(e).__name__}: {e}")
        try:
            from gcmpy.gcm_algorithm.gcm_algorithm_fast import GCMAlgorithmFast
            from gcmpy.names.gcm_algorithm_names import GCMAlgorithmNames as GN
            from gcmpy.motif_generators.clique_motif import clique_motif
            T = len(case["sizes"])
            st = random.getstate()
            el = GCMAlgorithmFast({GN.MOTIF_SIZES: list(case["sizes"]), GN.BUILD_FUNCTIONS: [clique_motif] * T,
                                   GN.EDGE_NAMES: [f"t{k}" for k in range(T)]}).random_clustered_graph(list(out))
            random.setstate(st)
            hash(tuple(el.joint_degrees))
        except Exception as e:
            usable.append(f"GCMAlgorithmFast: {type(e).__name__}: {e}")
        obs["unusable"] = usable
        return obs

    def request(self, case, obs):
        drawn = [case["jdd"][i][0] for i in case["chosen"]]
        return {"op": "c05", "sizes": case["sizes"], "jds": drawn, "picks": case["picks"]}

    def model(self, case, reply, obs):
        return {"out": reply["out"], "n_uniform_picks": reply["picks_used"], "n_weighted_draws": case["N"],
                "weighted_pairs": [sorted([k, w] for k, w in case["jdd"])], "rng_unexpected": 0}

    def project(self, case, obs):
        if "exc" in obs:
            return {"exc": obs["exc"]}
        return {"out": obs["out"], "n_uniform_picks": len(obs["uniform_picks"]),
                "n_weighted_draws": sum(c["k"] for c in obs["weighted_calls"]),
                "weighted_pairs": [sorted([k, w] for k, w in zip(c["population"], c["weights"])) for c in obs["weighted_calls"]],
                "rng_unexpected": obs["rng"]["n_unexpected"]}

    def oracle(self, case, obs):
        if "exc" in obs:
            return [f"raised: {obs['exc']}: {obs.get('msg', '')[:100]}"]
        f = []
        N, sizes = case["N"], case["sizes"]
        out = obs["out"]
        drawn = [case["jdd"][i][0] for i in case["chosen"]]
        if len(out) != N:
            f.append(f"length: {len(out)} joint degrees returned for N={N}")
            return f
        ok_elems = {"int"} | ({"uint8", "uint16", "uint32", "uint64", "int64", "int32"} if case.get("key_type") else set())
        if obs["types"] != ["tuple"] or not set(obs["elem_types"]) <= ok_elems:
            f.append(f"entry-not-tuple: entries have types {obs['types']} of {obs['elem_types']}")
        if any(v < 0 for r in out for v in r):
            f.append("negative-entry")
        T = len(sizes)
        scripted = not obs["rng"]["n_unexpected"]      # the drawn keys are known only if every draw went through the script
        for i in range(T):
            s_in = sum(r[i] for r in drawn)
            s_out = sum(r[i] for r in out)
            if s_out % sizes[i]:
                f.append(f"not-divisible: topology {i} total {s_out} not divisible by {sizes[i]}")
            want = (sizes[i] - s_in % sizes[i]) % sizes[i]
            if scripted and s_out - s_in != want:
                f.append(f"not-minimal: topology {i} got {s_out - s_in} added stubs, the fewest that achieve divisibility is {want}")
        if scripted and any(o[i] < d[i] for o, d in zip(out, drawn) for i in range(T)) or any(len(o) != len(d) for o, d in zip(out, drawn)):
            f.append("removal: an entry is smaller than the drawn key (or changed shape)")
        keys = [k for k, _ in case["jdd"]]
        ws = [w for _, w in case["jdd"]]
        for c in obs["weighted_calls"]:
            if len(c["population"]) == len(c["weights"]):
                got_w, want_w = {}, {}
                for k, w in zip(c["population"], c["weights"]):
                    k = tuple(k) if isinstance(k, list) else k
                    if w != 0:
                        got_w[k] = got_w.get(k, 0) + Fraction(w)
                for k, w in zip(keys, ws):
                    if w != 0:
                        want_w[tuple(k)] = want_w.get(tuple(k), 0) + Fraction(w)
                zg, zw = sum(got_w.values()), sum(want_w.values())
                # proportional: a common factor (normalised weights) or a split entry is the same distribution
                if not zg or {k: w / zg for k, w in got_w.items()} != {k: w / zw for k, w in want_w.items()}:
                    f.append("weights-misaligned: keys are not drawn in proportion to their weights")
        if not obs["rng"]["n_unexpected"]:
            nd = sum(c["k"] for c in obs["weighted_calls"])
            if nd != N:
                f.append(f"draw-count: {nd} keys drawn for N={N}")
        # (WHICH vertices receive the added stubs, and through which random primitive they are chosen, is compared with the model;
        #  the property only bounds how many stubs are added and forbids removals)
        if obs["unusable"]:
            f.append("unusable: " + obs["unusable"][0][:120])
        if not obs["jdd_untouched"]:
            f.append("jdd-mutated: sampling changed the distribution")
        return f

    def nontrivial(self, case, obs):
        return "exc" not in obs and len(obs["uniform_picks"]) > 0

    def stats(self, case, obs, hist):
        if 1 in case["sizes"]:
            hist["has_size_1"] = hist.get("has_size_1", 0) + 1
        if "exc" not in obs:
            hist["patched_stubs"] = hist.get("patched_stubs", 0) + len(obs["uniform_picks"])
            if not obs["uniform_picks"]:
                hist["already_divisible"] = hist.get("already_divisible", 0) + 1
        hist["N_sum"] = hist.get("N_sum", 0) + case["N"]

    def shrink(self, case):
        if case["N"] > 1:
            c = json.loads(json.dumps(case))
            c["N"] -= 1
            c["chosen"] = c["chosen"][:-1]
            c["picks"] = [p % c["N"] for p in c["picks"]]
            yield c
        if len(case["sizes"]) > 1:
            c = json.loads(json.dumps(case))
            c["sizes"] = c["sizes"][:-1]
            seen, jdd = set(), []
            for k, w in c["jdd"]:
                k = k[:-1]
                if tuple(k) not in seen:
                    seen.add(tuple(k))
                    jdd.append([k, w])
            remap = {}
            for idx, (k, w) in enumerate(case["jdd"]):
                remap[idx] = [tuple(x[0]) for x in jdd].index(tuple(k[:-1]))
            c["jdd"] = jdd
            c["chosen"] = [remap[i] for i in c["chosen"]]
            yield c

    def fingerprint(self, case, obs, fails):
        return "C05/" + fails[0].split(":")[0]


PROP = C05()
