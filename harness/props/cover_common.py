"""Graphs for the clique-cover properties C09/C10."""
import itertools


def gen_graph(rng, nmin=4, nmax=11):
    r = rng.random()
    n = rng.randint(nmin, nmax)
    labels = rng.sample(range(0, 3 * n + 2), n)          # 0 is a vertex label like any other
    edges = set()
    if r < 0.55:
        p = rng.choice([0.3, 0.5, 0.7, 0.9])
        for i in range(n):
            for j in range(i + 1, n):
                if rng.random() < p:
                    edges.add((labels[i], labels[j]))
        shape = "gnp"
    elif r < 0.8:
        # planted overlapping cliques
        for _ in range(rng.randint(2, 4)):
            k = rng.randint(3, min(6, n))
            vs = rng.sample(labels, k)
            for a, b in itertools.combinations(vs, 2):
                edges.add((a, b))
        shape = "planted"
    else:
        # union of (mostly) edge-disjoint cliques sharing single vertices
        pool = list(labels)
        rng.shuffle(pool)
        pos = 0
        prev = None
        while pos < len(pool) - 1:
            k = rng.randint(2, 4)
            vs = pool[pos:pos + k]
            if prev is not None and rng.random() < 0.6:
                vs = [prev] + vs
            for a, b in itertools.combinations(vs, 2):
                edges.add((a, b))
            prev = vs[-1]
            pos += k
        shape = "disjoint-cliques"
    norm = {}
    for a, b in edges:
        norm[(min(a, b), max(a, b))] = True
    edges = [list(e) if rng.random() < 0.5 else [e[1], e[0]] for e in norm]
    rng.shuffle(edges)
    if not edges:
        edges = [[labels[0], labels[1]]]
    return edges, shape


def nodes_of(edges):
    out = []
    for a, b in edges:
        for v in (a, b):
            if v not in out:
                out.append(v)
    return out


def is_clique(c, eset):
    return all(frozenset(p) in eset for p in itertools.combinations(c, 2))


def maximal_cliques(nodes, eset):
    res = []
    ns = sorted(nodes)
    for k in range(1, len(ns) + 1):
        for c in itertools.combinations(ns, k):
            if is_clique(c, eset) and not any(v not in c and is_clique(c + (v,), eset) for v in ns):
                res.append(list(c))
    return res


def gen_soup(rng):
    """many pairwise disjoint small cliques on consecutive labels plus a few small cliques overlapping one or two of them:
    lots of score-0 cliques and only a handful of overlapping ones (large graphs: oracle only, the brute-force model is skipped)"""
    edges = set()
    label = 1
    groups = []
    for _ in range(rng.randint(6, 12)):
        k = rng.choice([2, 3, 4, 4, 4, 5])
        vs = list(range(label, label + k))
        label += k
        groups.append(vs)
        for a, b in itertools.combinations(vs, 2):
            edges.add((a, b))
    for _ in range(rng.randint(1, 4)):
        g = rng.choice(groups[-3:] if rng.random() < 0.7 else groups)
        if len(g) < 2:
            continue
        a, b = rng.sample(g, 2)
        extra = label
        label += 1
        for x in (a, b):
            edges.add((min(x, extra), max(x, extra)))
    es = [list(e) if rng.random() < 0.5 else [e[1], e[0]] for e in edges]
    rng.shuffle(es)
    return es, "soup"


def maximal_cliques_bk(nodes, eset):
    adj = {v: set() for v in nodes}
    for e in eset:
        a, b = tuple(e)
        adj[a].add(b)
        adj[b].add(a)
    out = []

    def bk(R, P, X):
        if not P and not X:
            out.append(sorted(R))
            return
        for v in list(P):
            bk(R | {v}, P & adj[v], X & adj[v])
            P = P - {v}
            X = X | {v}
    bk(set(), set(nodes), set())
    return out


def all_cliques(nodes, eset, min_size=2):
    """every clique with at least min_size vertices (as sorted tuples), by extension"""
    adj = {v: set() for v in nodes}
    for e in eset:
        a, b = tuple(e)
        adj[a].add(b)
        adj[b].add(a)
    ns = sorted(nodes)

    def ext(c, cand):
        if len(c) >= min_size:
            yield tuple(c)
        for i, v in enumerate(cand):
            yield from ext(c + [v], [w for w in cand[i + 1:] if w in adj[v]])
    yield from ext([], ns)
