"""C15 — automated motif equation equals the exact bond-percolation expectation."""
import json
from fractions import Fraction

from core.exact import rs
from core.runner import Prop
from . import mp_common as mp


SWEEP = ["1", "3/4", "0", "1/2", "1", "1/4"]


def _fresh(x):
    """an equal but separately created object (callers name the root by value, not by handing back the graph's own object)"""
    return int(str(x)) if isinstance(x, int) and not isinstance(x, bool) else x


def exact_numeric(nodes, edges, root, u, p):
    """brute force over all open-edge sets, in exact rationals"""
    E, total = len(edges), Fraction(0)
    for mask in range(1 << E):
        A = [edges[i] for i in range(E) if mask >> i & 1]
        w = p ** len(A) * (1 - p) ** (E - len(A))
        if w:
            for v in mp.comp_of(root, nodes, A):
                if v != root:
                    w *= u[v]
            total += w
    return total


class C15(Prop):
    pid = "C15"
    rule = ("connected motifs: random connected graphs on 2-6 vertices (7 in thorough) with arbitrary labels, cliques to K6, cycles to C9, "
            "diamonds, chorded pentagons; every case fixes a root; the real evaluator runs on exact polynomial arguments (p and one variable "
            "per vertex) and is compared coefficient by coefficient with the model and with a brute-force expectation over all 2^|E| "
            "open-edge sets; numeric points with exact 0 / 1 values, a phi sweep 1, 3/4, 0, 1/2, 1, 1/4 on one evaluator and the same motif with other "
            "neighbour values on one evaluator; 25% of cases are call sequences on ONE shared evaluator (distinct names, repeated motifs, different roots); "
            "non-trivial = motif with a cycle or at least 4 vertices; distinct = distinct (graph, root)")
    assumptions = ["networkx neighbors/copy/remove_edges_from/remove_nodes_from/is_connected set-level semantics (re-defined in Model/Graph.lean)",
                   "distinct motifs evaluated on one evaluator carry distinct names (the property's own proviso)"]
    model_scope = "modelled: equations/automated_equation.py in full, including both caches"
    budgets = {"quick": 110, "thorough": 1500}
    recheck = {"quick": 8, "thorough": 40}
    search_budget = {"quick": 200, "thorough": 1500}

    def _graph(self, rng, tier):
        r = rng.random()
        nmax = 6 if tier == "quick" else 7
        if r < 0.5:
            n = rng.randint(2, nmax)
            nodes, edges = mp.random_connected_graph(rng, n, rng.choice([0.0, 0.2, 0.5]))
            while len(edges) > 12:
                edges.pop()
                if not mp.is_connected(nodes, edges):
                    nodes, edges = mp.random_connected_graph(rng, n, 0.1)
        elif r < 0.65:
            nodes, edges = mp.named_motif(rng, "clique", rng.randint(2, 5 if tier == "quick" else 6))
        elif r < 0.8:
            nodes, edges = mp.named_motif(rng, "cycle", rng.randint(3, 9))
        elif r < 0.86:
            nodes, edges = mp.named_motif(rng, "diamond", 4)
        elif r < 0.93:
            nodes, edges = mp.named_motif(rng, rng.choice(["dumbbell", "dumbbell", "barbell4"]), 6)
        else:
            nodes, edges = mp.named_motif(rng, "pentagon", 5)
        return nodes, edges

    def gen(self, rng, i, tier):
        if rng.random() < 0.25:
            motifs = []
            for m in range(rng.randint(2, 3)):
                nodes, edges = self._graph(rng, "quick")
                if len(edges) > 9:
                    nodes, edges = mp.named_motif(rng, "cycle", 4)
                motifs.append({"name": rng.choice([f"{rng.choice(nodes)}-{m}", f"near-clique-{m}", f"{m}-clique"]), "nodes": nodes, "edges": edges})
            calls = []
            for _ in range(rng.randint(3, 6)):
                m = rng.choice(motifs)
                calls.append({"name": m["name"], "nodes": m["nodes"], "edges": m["edges"], "root": rng.choice(m["nodes"])})
            return {"kind": "seq", "calls": calls}
        nodes, edges = self._graph(rng, tier)
        c = {"kind": "one", "nodes": nodes, "edges": edges, "root": rng.choice(nodes),
             "name": rng.choice(["m", "m", "4-clique-minus-edge", "near-clique", "2,3-biclique", "clique", "", "cycle-7"])}
        # numeric evaluation points, including the ends of the admissible ranges: u exactly 0 or 1 at some vertices, phi 0 or 1
        pts = []
        for _ in range(2):
            us = {}
            for v in nodes:
                r = rng.random()
                us[str(v)] = "0" if r < 0.3 else "1" if r < 0.45 else rs(Fraction(rng.randint(1, 6), 7))
            pts.append({"phi": rng.choice(["0", "1", "1/3", "1/2", "3/4"]), "u": us, "zero_as": rng.choice(["int", "fraction"])})
        c["points"] = pts
        return c

    def impl(self, case):
        from gcmpy.message_passing.equations.automated_equation import AutomatedEquation
        p = mp.pvar()
        if case["kind"] == "one":
            AE = AutomatedEquation()
            H = mp.build_nx(case["nodes"], case["edges"], case.get("name", "m"))      # the name is a label, not a description
            val = AE.automated_equation(H, p, _fresh(case["root"]))
            AE2 = AutomatedEquation()
            comps = AE2.get_connected_subgraphs(H, _fresh(case["root"]))
            numeric = []
            for pt in case.get("points", []):
                u = {}
                for v in case["nodes"]:
                    x = Fraction(pt["u"][str(v)])
                    u[v] = (0 if pt["zero_as"] == "int" else Fraction(0)) if x == 0 else (1 if x == 1 and pt["zero_as"] == "int" else x)
                Hn = mp.build_nx(case["nodes"], case["edges"], case.get("name", "num"), u=u)
                numeric.append(rs(Fraction(AutomatedEquation().automated_equation(Hn, Fraction(pt["phi"]), _fresh(case["root"])))))
            # one evaluator asked for the same motif at several occupation probabilities, starting at exactly 1 and passing through
            # exactly 0: every answer is the expectation at ITS phi, whatever was asked before
            shared = []
            if case.get("points"):
                pt = case["points"][0]
                u = {v: Fraction(pt["u"][str(v)]) for v in case["nodes"]}
                AE3 = AutomatedEquation()
                for phi in SWEEP:
                    Hn = mp.build_nx(case["nodes"], case["edges"], case.get("name", "num"), u=u)
                    shared.append(rs(Fraction(AE3.automated_equation(Hn, Fraction(phi), _fresh(case["root"])))))
            # ... and asked for the same motif (same name, a new graph object) with OTHER neighbour values, as the message-passing
            # iteration does on every sweep: the answer follows the values it is given now
            changed = []
            pts = case.get("points") or []
            if len(pts) >= 2:
                AE4 = AutomatedEquation()
                for pt in pts + [pts[0]]:
                    u = {v: Fraction(pt["u"][str(v)]) for v in case["nodes"]}
                    Hn = mp.build_nx(case["nodes"], case["edges"], case.get("name", "num"), u=u)
                    changed.append(rs(Fraction(AE4.automated_equation(Hn, Fraction(pt["phi"]), _fresh(case["root"])))))
            return {"poly": mp.poly_canon(val), "components": sorted(sorted(c) for c in comps),
                    "n_components": len(comps), "numeric": numeric, "numeric_shared": shared, "numeric_changed_u": changed}
        AE = AutomatedEquation()
        vals, fresh = [], []
        for c in case["calls"]:
            H = mp.build_nx(c["nodes"], c["edges"], c["name"])
            vals.append(mp.poly_canon(AE.automated_equation(H, p, _fresh(c["root"]))))
            fresh.append(mp.poly_canon(AutomatedEquation().automated_equation(
                mp.build_nx(c["nodes"], c["edges"], c["name"]), p, _fresh(c["root"]))))
        return {"polys": vals, "fresh": fresh}

    def request(self, case, obs):
        if case["kind"] == "one":
            return {"op": "c15", "kind": "one", "nodes": case["nodes"], "edges": case["edges"], "root": case["root"]}
        return {"op": "c15", "kind": "seq", "calls": case["calls"]}

    def model(self, case, reply, obs):
        if case["kind"] == "one":
            return {"poly": mp.canon_sorted(reply["poly"]), "components": sorted(reply["components"])}
        return {"polys": [mp.canon_sorted(p) for p in reply["polys"]]}

    def project(self, case, obs):
        if "exc" in obs:
            return {"exc": obs["exc"]}
        if case["kind"] == "one":
            return {"poly": obs["poly"], "components": obs["components"]}
        return {"polys": obs["polys"]}

    def oracle(self, case, obs):
        if "exc" in obs:
            return [f"raised: {obs['exc']}: {obs.get('msg', '')[:80]}"]
        f = []
        if case["kind"] == "one":
            want = mp.poly_canon(mp.exact_expectation(case["nodes"], [tuple(e) for e in case["edges"]], case["root"]))
            if obs["poly"] != want:
                f.append("expectation: automated equation differs from the exact bond-percolation expectation as a polynomial")
            if len(set(map(tuple, obs["components"]))) != obs["n_components"]:
                f.append("enumeration: a connected vertex set is listed more than once")
            for pt, got in zip(case.get("points", []), obs.get("numeric", [])):
                want = exact_numeric(case["nodes"], [tuple(e) for e in case["edges"]], case["root"],
                                     {v: Fraction(pt["u"][str(v)]) for v in case["nodes"]}, Fraction(pt["phi"]))
                if abs(Fraction(got) - want) > Fraction(1, 10 ** 11):      # the accumulator of the real code is a float
                    f.append(f"expectation-at-point: at phi = {pt['phi']}, u = {pt['u']} the value is {got}, the exact expectation is {want}")
                    break
            pts = case.get("points") or []
            for pt, got in zip(pts + pts[:1], obs.get("numeric_changed_u") or []):
                want = exact_numeric(case["nodes"], [tuple(e) for e in case["edges"]], case["root"],
                                     {v: Fraction(pt["u"][str(v)]) for v in case["nodes"]}, Fraction(pt["phi"]))
                if abs(Fraction(got) - want) > Fraction(1, 10 ** 11):
                    f.append(f"history: one evaluator given the same motif with other neighbour values answers {got} at phi = {pt['phi']}, "
                             f"u = {pt['u']}; the exact expectation is {want}")
                    break
            if obs.get("numeric_shared") and case.get("points"):
                pt = case["points"][0]
                for phi, got in zip(SWEEP, obs["numeric_shared"]):
                    want = exact_numeric(case["nodes"], [tuple(e) for e in case["edges"]], case["root"],
                                         {v: Fraction(pt["u"][str(v)]) for v in case["nodes"]}, Fraction(phi))
                    if abs(Fraction(got) - want) > Fraction(1, 10 ** 11):
                        f.append(f"history: one evaluator asked at phi = {', '.join(SWEEP)} in turn answers {got} at phi = {phi}, "
                                 f"the exact expectation is {want} (u = {pt['u']})")
                        break
            return f
        for k, (v, fr) in enumerate(zip(obs["polys"], obs["fresh"])):
            if v != fr:
                f.append(f"history: call {k} on the shared evaluator differs from a fresh evaluator")
                break
        for c, v in zip(case["calls"], obs["polys"]):
            want = mp.poly_canon(mp.exact_expectation(c["nodes"], [tuple(e) for e in c["edges"]], c["root"]))
            if v != want:
                f.append("expectation: a value on the shared evaluator differs from the exact expectation")
                break
        return f

    def key(self, case, obs):
        return json.dumps(case, sort_keys=True)

    def nontrivial(self, case, obs):
        if case["kind"] == "seq":
            return True
        return len(case["edges"]) >= len(case["nodes"]) or len(case["nodes"]) >= 4

    def stats(self, case, obs, hist):
        hist["kind_" + case["kind"]] = hist.get("kind_" + case["kind"], 0) + 1
        if case["kind"] == "one":
            hist[f"n{len(case['nodes'])}"] = hist.get(f"n{len(case['nodes'])}", 0) + 1
            hist["edges_total"] = hist.get("edges_total", 0) + len(case["edges"])

    def shrink(self, case):
        if case["kind"] == "seq":
            for i in range(len(case["calls"])):
                if len(case["calls"]) > 1:
                    c = json.loads(json.dumps(case)); del c["calls"][i]; yield c
            return
        for i in range(len(case["edges"])):
            es = case["edges"][:i] + case["edges"][i + 1:]
            if es and mp.is_connected(case["nodes"], [tuple(e) for e in es]):
                yield {"kind": "one", "nodes": case["nodes"], "edges": es, "root": case["root"]}
        for v in case["nodes"]:
            if v != case["root"]:
                ns = [x for x in case["nodes"] if x != v]
                es = [e for e in case["edges"] if v not in e]
                if ns and es and mp.is_connected(ns, [tuple(e) for e in es]) and all(x in {y for e in es for y in e} for x in ns):
                    yield {"kind": "one", "nodes": ns, "edges": es, "root": case["root"]}

    def fingerprint(self, case, obs, fails):
        return "C15/" + fails[0].split(":")[0]


PROP = C15()
