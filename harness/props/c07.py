"""C07 — split-degree and delta loaders preserve the overall degree law."""
import itertools
import json
from fractions import Fraction

from core.exact import Ex, rs
from core.runner import Prop


def splits_of(k, t):
    """all jd in N^t with sum (i+1)*jd[i] == k (brute force, independent of the code's recursion)"""
    rng = [range(0, k // (i + 1) + 1) for i in range(t)]
    return [jd for jd in itertools.product(*rng) if sum((i + 1) * d for i, d in enumerate(jd)) == k]


def weight(probs, jd):
    w = Fraction(1)
    for i, d in enumerate(jd):
        w *= probs[i] ** ((i + 1) * d)
    return w


class C07(Prop):
    pid = "C07"
    rule = ("overall degree functions as tables of small rationals (zeros included) on 0..14, probability vectors of length 1-4 with "
            "rational entries (a zero entry in 10% of cases to reach the ZeroDivisionError branch), degree ranges inside 0..12, delta targets "
            "inside, at both ends and outside the range; both loaders, direct and through the dispatching entry point, on exact rationals; "
            "plus four double-precision runs at degrees 20-1060 where raw split weights are tiny, judged against the exact reference to 1e-9; "
            "non-trivial = at least two degrees in range and a degree with at least two splits; distinct = distinct case")
    assumptions = ["the overall degree function and the probabilities are exact rationals (the real code runs on an exact number type)"]
    model_scope = "modelled: joint_degree_split_degree.py and joint_degree_delta.py in full"
    budgets = {"quick": 250, "thorough": 15000}
    search_budget = {"quick": 600, "thorough": 5000}

    def gen(self, rng, i, tier):
        t = rng.randint(1, 4)
        probs = [Fraction(rng.randint(1, 9), 10) for _ in range(t)]
        if rng.random() < 0.10:
            probs[rng.randrange(t)] = Fraction(0)
        lo = rng.randint(0, 6)
        hi = lo + rng.randint(0 if rng.random() < 0.05 else 1, 6)
        fp = [[k, rs(Fraction(rng.randint(0 if rng.random() < 0.2 else 1, 7), rng.choice([1, 2, 3, 4])))] for k in range(0, 15)]
        kind = rng.choice(["split", "delta"])
        c = {"kind": kind, "fp": fp, "probs": [rs(p) for p in probs], "lo": lo, "hi": hi, "ntop": t,
             "sizes": [s + 2 for s in range(t)]}
        if kind == "delta":
            c["target"] = rng.choice([lo, max(lo, hi - 1), hi, hi + 2, rng.randint(lo, max(lo, hi))])
        return c

    def exhaustive(self, tier):
        # double-precision runs at degrees where the raw split weights are tiny (near the subnormal range) or where the first
        # topology's weight underflows: the property speaks about every degree range, and the arithmetic the library is normally
        # used with is float.  Judged against the exact reference with a relative tolerance; not sent to the model.
        for probs, lo, hi, kind in ((["1/2", "1/2"], 1040, 1043, "split"), (["1/2", "1/2"], 1055, 1058, "delta"),
                                    (["1/10", "9/10"], 330, 333, "split"), (["4/5", "1/5"], 20, 26, "split")):
            c = {"kind": kind, "float": True, "probs": probs, "lo": lo, "hi": hi, "ntop": 2, "sizes": [2, 3],
                 "fp": [[k, rs(Fraction(1, k + 1))] for k in range(lo, hi)]}
            if kind == "delta":
                c["target"] = lo + 1
            yield c

    def _float_obs(self, case):
        from gcmpy.names.joint_degree_names import JointDegreeNames as JN
        from gcmpy.joint_degree.joint_degree_type import JointDegreeType as JT
        from gcmpy.joint_degree.joint_degree_factory import JointDegreeFactory
        d = {k: float(Fraction(v)) for k, v in case["fp"]}
        p = {JN.FP: lambda k: d.get(int(k), 0.0), JN.PROBS: [float(Fraction(x)) for x in case["probs"]],
             JN.MOTIF_SIZES: list(case["sizes"]), JN.LOW_HIGH_DEGREE_BOUND: (case["lo"], case["hi"])}
        t = JT.SPLIT_DEGREE
        if case["kind"] == "delta":
            p[JN.TARGET_K] = case["target"]
            t = JT.DELTA
        p[JN.JOINT_DEGREE_TYPE] = t.value
        obj = JointDegreeFactory.resolve_joint_degree(t, p)
        return {"float_table": [[list(k), repr(float(v))] for k, v in obj.jdd.items()]}

    def _float_oracle(self, case, obs):
        import math
        status, want = self._reference(case)
        vals = {tuple(k): float(v) for k, v in obs["float_table"]}
        if any(math.isnan(v) or math.isinf(v) for v in vals.values()):
            k = next(k for k, v in vals.items() if math.isnan(v) or math.isinf(v))
            return [f"not-normalised: in double precision joint degree {k} has mass {vals[k]} (degrees {case['lo']}..{case['hi'] - 1}, probs {case['probs']})"]
        f = []
        tot = sum(vals.values())
        if abs(tot - 1) > 1e-9:
            f.append(f"not-normalised: in double precision the total mass is {tot!r}")
        edges = lambda jd: sum((i + 1) * x for i, x in enumerate(jd))
        for k in range(case["lo"], case["hi"]):
            mass = sum(v for jd, v in vals.items() if edges(jd) == k)
            w = float(sum(v for jd, v in want.items() if edges(jd) == k))
            if abs(mass - w) > 1e-9 * max(w, 1e-300) and not f:
                f.append(f"class-mass: in double precision joint degrees using {k} edges carry {mass!r}, the degree function prescribes {w!r}")
        if not f:
            for jd, w in want.items():
                w = float(w)
                if w > 1e-12 and abs(vals.get(jd, 0.0) - w) > 1e-6 * w:
                    f.append(f"within-class: in double precision joint degree {jd} has mass {vals.get(jd)!r} instead of {w!r}")
                    break
        return f

    def _build(self, case, path):
        from gcmpy.names.joint_degree_names import JointDegreeNames as JN
        from gcmpy.joint_degree.joint_degree_type import JointDegreeType as JT
        from gcmpy.joint_degree.joint_degree_factory import JointDegreeFactory
        from gcmpy.joint_degree.joint_degree_distribution import JointDegreeDistribution
        d = {k: Ex(v) for k, v in case["fp"]}
        p = {JN.FP: lambda k: d.get(int(k), Ex(0)), JN.PROBS: [Ex(x) for x in case["probs"]],
             JN.MOTIF_SIZES: list(case["sizes"]), JN.LOW_HIGH_DEGREE_BOUND: (case["lo"], case["hi"])}
        t = JT.SPLIT_DEGREE
        if case["kind"] == "delta":
            p[JN.TARGET_K] = case["target"]
            t = JT.DELTA
        p[JN.JOINT_DEGREE_TYPE] = t.value
        if path == "direct":
            return JointDegreeFactory.resolve_joint_degree(t, p)
        return JointDegreeDistribution.load_joint_degree(p)

    def impl(self, case):
        if case.get("float"):
            return self._float_obs(case)
        res = {}
        for path in ("direct", "load"):
            try:
                obj = self._build(case, path)
                res[path] = {"table": [[list(k), rs(v), type(k).__name__] for k, v in obj.jdd.items()]}
            except ZeroDivisionError:
                res[path] = {"exc": "ZeroDivisionError"}
        return res

    def request(self, case, obs):
        if case.get("float"):
            return None
        r = {"op": "c07", "kind": case["kind"], "fp": case["fp"], "probs": case["probs"], "lo": case["lo"], "hi": case["hi"]}
        if case["kind"] == "delta":
            r["target"] = case["target"]
            r["ntop"] = case["ntop"]
        return r

    def model(self, case, reply, obs):
        # the distribution is a mapping: the order in which the loader inserted its keys is not part of the property
        return {"direct": reply if "exc" in reply else dict(reply, table=sorted(reply["table"]))}

    def project(self, case, obs):
        if "exc" in obs:
            return {"exc": obs["exc"]}
        if case.get("float"):
            return {}
        d = obs["direct"]
        return {"direct": d if "exc" in d else {"table": sorted([k, v] for k, v, _ in d["table"])}}

    def _reference(self, case):
        """expected table computed from the property text; returns ('error', None) when a division by zero is unavoidable"""
        probs = [Fraction(x) for x in case["probs"]]
        fp = {k: Fraction(v) for k, v in case["fp"]}
        t = len(probs)
        raw = {}
        for k in range(case["lo"], case["hi"]):
            if case["kind"] == "delta" and k != case["target"]:
                raw[tuple([k] + [0] * (t - 1))] = fp.get(k, Fraction(0))
                continue
            sp = splits_of(k, t)
            ws = [weight(probs, jd) for jd in sp]
            tot = sum(ws)
            if tot == 0:
                return "error", None
            for jd, w in zip(sp, ws):
                raw[tuple(jd)] = fp.get(k, Fraction(0)) * w / tot
        z = sum(raw.values())
        if raw and z == 0:
            return "error", None
        return "ok", {k: v / z for k, v in raw.items()}

    def oracle(self, case, obs):
        if "exc" in obs:
            return [f"raised: {obs['exc']}: {obs.get('msg', '')[:80]}"]
        if case.get("float"):
            return self._float_oracle(case, obs)
        f = []
        d, l = obs["direct"], obs["load"]
        if json.dumps(d, sort_keys=True) != json.dumps(l, sort_keys=True):
            if ("exc" in d) != ("exc" in l) or sorted(map(json.dumps, d.get("table", []))) != sorted(map(json.dumps, l.get("table", []))):
                f.append("dispatch-differs: loading through the entry point gives a different distribution")
        status, want = self._reference(case)
        if "exc" in d:
            if status != "error":
                f.append("raised: ZeroDivisionError although all normalisers are non-zero")
            return f
        if status == "error":
            f.append("no-error: a zero normaliser should not produce a table")
            return f
        got = {tuple(k): Fraction(v) for k, v, _ in d["table"]}
        if any(tn != "tuple" for _, _, tn in d["table"]):
            f.append("keys-not-tuples")
        if got == want:
            return f
        # say which sentence of the property fails
        probs = [Fraction(x) for x in case["probs"]]
        fp = {k: Fraction(v) for k, v in case["fp"]}
        edges = lambda jd: sum((i + 1) * x for i, x in enumerate(jd))
        tot_fp = sum(fp.get(k, 0) for k in range(case["lo"], case["hi"]))
        for k in range(case["lo"], case["hi"]):
            mass = sum(v for jd, v in got.items() if edges(jd) == k)
            if tot_fp and mass != fp.get(k, 0) / tot_fp:
                f.append(f"class-mass: joint degrees using {k} edges carry {mass}, the degree function prescribes {fp.get(k, 0) / tot_fp}")
                return f
        if sum(got.values()) != 1 and got:
            f.append(f"not-normalised: total mass {sum(got.values())}")
            return f
        bad = next(kk for kk in set(got) | set(want) if got.get(kk) != want.get(kk))
        f.append(f"within-class: joint degree {bad} has mass {got.get(bad)} instead of {want.get(bad)}")
        return f

    def nontrivial(self, case, obs):
        if case.get("float"):
            return "exc" not in obs
        return "exc" not in obs and case["hi"] - case["lo"] >= 2 and case["ntop"] >= 2 and case["hi"] > 2 and \
            "table" in obs.get("direct", {})

    def stats(self, case, obs, hist):
        hist["kind_" + case["kind"]] = hist.get("kind_" + case["kind"], 0) + 1
        hist["t_" + str(case["ntop"])] = hist.get("t_" + str(case["ntop"]), 0) + 1
        if case.get("float"):
            hist["double_precision_runs"] = hist.get("double_precision_runs", 0) + 1
            return
        if "exc" not in obs and "exc" in obs["direct"]:
            hist["zero_division_branch"] = hist.get("zero_division_branch", 0) + 1
        if case["kind"] == "delta":
            pos = "inside" if case["lo"] <= case["target"] < case["hi"] else "outside"
            hist["target_" + pos] = hist.get("target_" + pos, 0) + 1

    def shrink(self, case):
        if case.get("float"):
            return
        if case["hi"] - case["lo"] > 1:
            c = dict(case); c["hi"] = case["hi"] - 1; yield c
            c = dict(case); c["lo"] = case["lo"] + 1; yield c
        if case["ntop"] > 1:
            c = json.loads(json.dumps(case))
            c["probs"] = c["probs"][:-1]; c["ntop"] -= 1; c["sizes"] = c["sizes"][:-1]
            yield c

    def fingerprint(self, case, obs, fails):
        return "C07/" + fails[0].split(":")[0]


PROP = C07()
