"""Shared by C01/C02/C03: configurations, scripted shuffles, running the real generators."""
import inspect
import random as _random

from core.rng import ScriptedRandom, SemanticRandom, installed, patched

# ---- build callbacks that exist verbatim in the Lean driver (GcmpyModel/Driver/Gen.lean `shape`)


def _g(vs, i):
    return vs[i]


SHAPES = {
    "path": lambda vs: list(zip(vs, vs[1:])),
    "star": lambda vs: [(vs[0], y) for y in vs[1:]],
    "single": lambda vs: [(vs[0], vs[1])],
    "two": lambda vs: [(vs[0], vs[1]), (vs[1], vs[2])],
    "diamond5": lambda vs: ((vs[0], vs[1]), (vs[1], vs[2]), (vs[2], vs[3]), (vs[3], vs[1]), (vs[0], vs[2])),
    "pentagon": lambda vs: ((vs[0], vs[1]), (vs[1], vs[2]), (vs[2], vs[3]), (vs[3], vs[4]), (vs[0], vs[4]), (vs[1], vs[3])),
    "bare": lambda vs: (vs[0], vs[1]),
    # a user callback whose number of edges depends on the group it is handed: a clique without the self-loops that arise when
    # one vertex was drawn into the group twice
    "simple": lambda vs: [e for e in shape_fn("clique")(vs) if e[0] != e[1]],
}
MIN_SIZE = {"simple": 1, "clique": 1, "cycle": 1, "diamond": 4, "path": 1, "star": 1, "single": 2, "two": 3,
            "diamond5": 4, "pentagon": 5, "bare": 2}
N_EDGES = {"clique": lambda n: n * (n - 1) // 2, "cycle": lambda n: n, "diamond": lambda n: 6, "path": lambda n: n - 1,
           "star": lambda n: n - 1, "single": lambda n: 1, "two": lambda n: 2, "diamond5": lambda n: 5,
           "pentagon": lambda n: 6, "bare": lambda n: 1}


def shape_fn(name):
    if name in SHAPES:
        return SHAPES[name]
    from gcmpy.motif_generators import clique_motif, cycle_motif, diamond_motif
    return {"clique": clique_motif, "cycle": cycle_motif, "diamond": diamond_motif}[name]


def stubs_of(jds, k):
    out = []
    for v, jd in enumerate(jds):
        out.extend([v] * jd[k])
    return out


def valid_draws(rng, n):
    return [rng.randrange(i + 1) for i in reversed(range(1, n))]


def fix_handshake(rng, jds, sizes):
    """add stubs to random rows until every column sum is divisible by its size"""
    if not jds:
        return
    for k, s in enumerate(sizes):
        while sum(r[k] for r in jds) % s:
            jds[rng.randrange(len(jds))][k] += 1


def gen_fast_case(rng, malformed=False, small=False, big=False):
    N = rng.choice([0, 1, 2, 3]) if rng.random() < 0.08 else rng.randint(2, 12 if small else 40)
    T = rng.randint(1, 2 if small else 5)
    if big:
        # more than a thousand stubs per topology
        N, T = rng.randint(380, 520), rng.randint(1, 2)
    builds, sizes = [], []
    for _ in range(T):
        b = rng.choice(["clique", "clique", "cycle", "diamond", "path", "star", "single", "two", "diamond5", "pentagon", "simple"])
        if malformed and b not in ("clique", "cycle", "path", "star"):
            b = "clique"
        if b == "diamond":
            s = 4
        elif b in ("diamond5",):
            s = 4
        elif b == "pentagon":
            s = 5
        elif b == "single":
            s = 2
        elif b == "two":
            s = 3
        else:
            s = rng.randint(1, 5)
        if big:
            b, s = rng.choice(["clique", "cycle"]), rng.choice([3, 5])
        builds.append(b)
        sizes.append(s)
    jds = []
    for _ in range(N):
        if rng.random() < 0.3 and not big:
            jds.append([0] * T)
        else:
            jds.append([rng.randint(2 if big else 0, 2 if small else 4) for _ in range(T)])
    if T >= 2 and rng.random() < 0.2:
        # coincidences: two topologies with identical degree columns and the same callback / size
        a, b = rng.sample(range(T), 2)
        for r in jds:
            r[b] = r[a]
        builds[b], sizes[b] = builds[a], sizes[a]
    if not malformed:
        fix_handshake(rng, jds, sizes)
    else:
        if jds:
            k = rng.randrange(T)
            if sizes[k] == 1:
                sizes[k] = 2
            fix_handshake(rng, jds, sizes)
            jds[rng.randrange(N)][k] += rng.randint(1, sizes[k] - 1)
    names = [rng.choice(["2-clique", "3-clique", "a", "tri-blue", "x-y"]) + (f"#{k}" if rng.random() < 0.7 else "")
             for k in range(T)]
    draws = [valid_draws(rng, sum(r[k] for r in jds)) for k in range(T)] if jds else []
    return {"kind": "fast", "jds": jds, "sizes": sizes, "builds": builds, "names": names, "draws": draws,
            "handshake": not malformed, "as_tuple": [rng.random() < 0.4 for _ in builds],
            **({"reenter": rng.randrange(T)} if rng.random() < 0.12 and not big and not malformed else {}),
            **({"shared_buffer": [k for k in range(T) if rng.random() < 0.6]} if rng.random() < 0.15 else {})}


def gen_custom_case(rng, malformed=False, small=False):
    M = rng.randint(1, 3)
    N = rng.randint(1, 10 if small else 30)
    orbits, sizes, builds, names, counts = [], [], [], [], []
    col = 0
    for j in range(M):
        no = rng.randint(1, 3)
        cols = list(range(col, col + no))
        col += no
        osz = [rng.randint(1, 3) for _ in range(no)]
        tot = sum(osz)
        cands = ["clique", "cycle", "path", "star"]
        if not malformed:
            if tot == 2:
                cands += ["bare", "bare", "single"]
            if tot >= 2:
                cands += ["single"]
            if tot >= 3:
                cands += ["two", "two"]
            if tot == 4:
                cands += ["diamond5", "diamond"]
            if tot == 5:
                cands += ["pentagon"]
        b = rng.choice(cands)
        ne = N_EDGES[b](tot)
        if b == "bare":
            nm = f"bare{j}"
        elif rng.random() < 0.5:
            nm = [f"m{j}"] * ne
        else:
            nm = [f"m{j}e{t}" for t in range(ne)]
        orbits.append(cols)
        sizes.extend(osz)
        builds.append(b)
        names.append(nm)
        counts.append(rng.randint(0, 3 if small else 6))
    # permute the column numbering so that orbit columns are not contiguous
    perm = list(range(col))
    rng.shuffle(perm)
    orbits = [[perm[c] for c in o] for o in orbits]
    sizes2 = [0] * col
    for old, new in enumerate(perm):
        sizes2[new] = sizes[old]
    sizes = sizes2
    jds = [[0] * col for _ in range(N)]
    for j, o in enumerate(orbits):
        for c in o:
            for _ in range(counts[j] * sizes[c]):
                jds[rng.randrange(N)][c] += 1
    if malformed:
        c = rng.randrange(col)
        jds[rng.randrange(N)][c] += rng.randint(1, max(1, sizes[c]))
        if rng.random() < 0.5:
            c2 = rng.randrange(col)
            for _ in range(sizes[c2] * rng.randint(1, 2)):
                jds[rng.randrange(N)][c2] += 1
    draws = [valid_draws(rng, sum(r[k] for r in jds)) for k in range(col)]
    return {"kind": "custom", "jds": jds, "sizes": sizes, "orbits": orbits, "builds": builds, "names": names,
            "draws": draws, "handshake": not malformed, "as_tuple": [rng.random() < 0.4 for _ in builds],
            "names_iter": [rng.random() < 0.25 for _ in builds],
            **({"reenter": rng.randrange(M)} if rng.random() < 0.12 and not malformed else {}),
            **({"shared_buffer": [k for k in range(M) if rng.random() < 0.6]} if rng.random() < 0.15 else {})}


class ShuffleScript:
    """replacement for `random.shuffle`: runs the stdlib Fisher-Yates on scripted randbelow draws, choosing the
    draw list by the content of the list it is handed (so the order of the shuffle calls does not matter)"""

    def __init__(self, jds, draws):
        self.expected = [(k, stubs_of(jds, k)) for k in range(len(draws))]
        self.draws = draws
        self.used = set()
        self.calls = []
        self.unscripted = 0

    def __call__(self, x):
        for k, st in self.expected:
            if k not in self.used and list(x) == st:
                self.used.add(k)
                sr = ScriptedRandom(self.draws[k], mode="exact")
                sr.shuffle(x)
                self.calls.append(k)
                return
        self.unscripted += 1  # a list the model does not expect: leave it as it is


class GenRandom(SemanticRandom):
    """the generators' randomness: one uniformly random permutation per stub list, whatever function draws it.  The scripted
    permutation of a stub list is the one the stdlib Fisher-Yates produces from the case's draws for that column."""

    def __init__(self, jds, draws):
        super().__init__()
        self.script = ShuffleScript(jds, draws)

    def on_permutation(self, items, ctx):
        y = list(items)
        before = len(self.script.calls)
        self.script(y)
        if len(self.script.calls) == before:          # not one of the expected stub lists
            return super().on_permutation(items, ctx)
        return y


def tuplify(jds):
    return [tuple(r) for r in jds]


def run_generator(case, path="direct", algo=None, real_rng=False):
    """run the real generator with scripted shuffles (or, real_rng=True, on the interpreter's own generator as it stands);
    returns the observation dict"""
    import random
    from gcmpy.names.gcm_algorithm_names import GCMAlgorithmNames as GN
    from gcmpy.gcm_algorithm.gcm_algorithm_fast import GCMAlgorithmFast
    from gcmpy.gcm_algorithm.gcm_algorithm_network import GCMAlgorithmNetwork
    from gcmpy.gcm_algorithm.gcm_algorithm_custom_motifs import GCMAlgorithmCustomMotifs
    from gcmpy.gcm_algorithm.gcm_algorithm_factory import GCMAlgorithmFactory
    from gcmpy.gcm_algorithm.gcm_algorithm_main import GCMAlgorithmMain
    from gcmpy.gcm_algorithm.gcm_algorithm_types import GCMAlgorithmTypes

    kind = algo or case["kind"]
    jds = tuplify(case["jds"])
    jds_before = list(jds)
    calls = []

    as_tuple = case.get("as_tuple") or []

    depth = {"d": 0, "done": False}
    holder = {}
    buffers = {k: [] for k in (case.get("shared_buffer") or [])}

    def wrap(k, f):
        def g(vs):
            if depth["d"] > 0:
                return f(vs)             # inside the nested generation: not part of the observed run
            if case.get("reenter") == k and "algo" in holder and sum(map(sum, case["jds"])) <= 40:
                # a hierarchical model: every motif of this topology has its builder draw an inner graph from the same generator
                # object before it returns its own edges; the generations are separate runs and must not influence each other
                depth["d"], depth["done"] = 1, True
                try:
                    holder["algo"].random_clustered_graph(tuplify(case["jds"]))
                finally:
                    depth["d"] = 0
            r = f(vs)
            if k < len(as_tuple) and as_tuple[k] and not _is_bare(r):
                r = tuple(tuple(e) for e in r)        # the same edges, handed back as a tuple of tuples instead of a list
            calls.append({"top": k, "verts": list(vs), "result": r if _is_bare(r) else type(r)(r)})
            if k in buffers and isinstance(r, list):
                # a callback that refills and hands back one pre-allocated list: what it returned is valid until its next call
                buffers[k][:] = r
                return buffers[k]
            return r
        return g
    params = {GN.MOTIF_SIZES: list(case["sizes"]),
              GN.BUILD_FUNCTIONS: [wrap(k, shape_fn(b)) for k, b in enumerate(case["builds"])]}
    if kind == "custom":
        # the naming callback is called once per motif; what it hands back is any iterable of names: a tuple, or (names_iter) a
        # fresh one-shot iterator each time
        it = case.get("names_iter") or []
        params[GN.EDGE_NAMES] = [(lambda nm=nm, j=j: (nm if isinstance(nm, str) else
                                                      iter(tuple(nm)) if j < len(it) and it[j] else tuple(nm)))
                                 for j, nm in enumerate(case["names"])]
        params[GN.MOTIF_INDICES] = [list(o) for o in case["orbits"]]
        cls, typ = GCMAlgorithmCustomMotifs, GCMAlgorithmTypes.MOTIFS
    elif kind == "network":
        params[GN.EDGE_NAMES] = list(case["names"])
        cls, typ = GCMAlgorithmNetwork, GCMAlgorithmTypes.NETWORK
    else:
        params[GN.EDGE_NAMES] = list(case["names"])
        cls, typ = GCMAlgorithmFast, GCMAlgorithmTypes.FAST
    if path == "direct":
        algo_obj = cls(params)
    elif path == "factory":
        algo_obj = GCMAlgorithmFactory.resolve_algorithm(typ, params)
    else:
        params[GN.GCM_TYPE] = typ.value
        algo_obj = GCMAlgorithmMain.load_gcm_algorithm(params)
    holder["algo"] = algo_obj
    sem = GenRandom(case["jds"], case["draws"])
    script = sem.script
    import contextlib
    with (contextlib.nullcontext() if real_rng else installed(sem)):
        out = algo_obj.random_clustered_graph(jds)
    obs = {"class": type(algo_obj).__name__, "unscripted_shuffles": len(sem.unexpected),
           "shuffles_missing": sorted(set(range(len(case["draws"]))) - script.used)}
    obs["calls"] = [{"top": c["top"], "verts": c["verts"], "result_is_bare": _is_bare(c["result"]),
                     "result": _rows(c["result"])} for c in calls]
    if kind == "network":
        G = out.G
        obs["nodes"] = sorted(G.nodes())
        obs["graph_edges"] = sorted(tuple(sorted(e)) for e in G.edges())
        obs["node_jd"] = {str(n): list(G.nodes[n].get(_nn().JOINT_DEGREE, ["missing"])) for n in G.nodes()}
        obs["jds_out"] = None
    else:
        obs["edges"] = [_row(e) for e in out.edge_list]
        obs["edge_types"] = sorted({_etype(e) for e in out.edge_list})
        obs["topologies"] = [t if isinstance(t, str) else (list(t) if isinstance(t, (tuple, list)) else repr(t))
                             for t in out.topologies]
        obs["motif_id"] = list(out.motif_id)
        obs["jds_out"] = [list(r) if isinstance(r, (tuple, list)) else repr(r) for r in out.joint_degrees]
        obs["jds_same_types"] = all(isinstance(r, tuple) for r in out.joint_degrees)
    obs["jds_input_untouched"] = (jds == jds_before)
    return obs


def _nn():
    from gcmpy.names.network_names import NetworkNames
    return NetworkNames


def _is_bare(r):
    return len(r) == 2 and not isinstance(r[0], (tuple, list))


def _rows(r):
    if _is_bare(r):
        return [[r[0], r[1]]]
    return [_row(e) for e in r]


def _row(e):
    if isinstance(e, (tuple, list)):
        return [x if isinstance(x, int) else repr(x) for x in e]
    return repr(e)


def _etype(e):
    if isinstance(e, (tuple, list)) and len(e) == 2 and all(isinstance(x, int) and not isinstance(x, bool) for x in e):
        return "pair"
    return f"bad:{type(e).__name__}:{len(e) if hasattr(e, '__len__') else ''}"


def shuffle_source_matches():
    """the transcription in Model/Shuffle.lean is of this exact stdlib body"""
    src = inspect.getsource(_random.Random.shuffle)
    body = [l.strip() for l in src.split("\n") if l.strip() and not l.strip().startswith(("#", '"""', "'"))]
    want = ["randbelow = self._randbelow", "for i in reversed(range(1, len(x))):", "j = randbelow(i + 1)",
            "x[i], x[j] = x[j], x[i]"]
    return all(w in body for w in want), src
