"""C17 — message passing returns the fixed point of the motif-cover equations."""
import itertools
import json
from fractions import Fraction

from core.common import run_driver
from core.exact import Ex, rs
from core.runner import Prop

SHAPES = {
    "K2": (2, [(0, 1)]),
    "K3": (3, [(0, 1), (0, 2), (1, 2)]),
    "K4": (4, [(0, 1), (0, 2), (0, 3), (1, 2), (1, 3), (2, 3)]),
    "C4": (4, [(0, 1), (1, 2), (2, 3), (0, 3)]),
    "C5": (5, [(0, 1), (1, 2), (2, 3), (3, 4), (0, 4)]),
    "diamond": (4, [(0, 1), (1, 2), (2, 3), (0, 3), (0, 2)]),
    "pentagon": (5, [(0, 1), (1, 2), (2, 3), (3, 4), (0, 4), (1, 3)]),
}


def gen_network(rng, n_motifs, loopy):
    motifs = []          # {"verts": [...], "edges": [(a,b)...], "id": k}
    base = rng.choice([0, 0, 1000])      # motif identifiers need not be small numbers
    coded = rng.random() < 0.25          # topology keys that are codes (0 for an edge, 1 for a triangle ...), not sizes
    nv = 0
    member = {}          # vertex -> set of motif ids
    for k in range(n_motifs):
        name = rng.choice(list(SHAPES))
        size, pat = SHAPES[name]
        attach = []
        if motifs:
            cands = list(member)
            a = rng.choice(cands)
            attach = [a]
            if loopy and rng.random() < 0.7 and size >= 3:
                others = [b for b in cands if b != a and not (member[a] & member[b])]
                if others:
                    attach.append(rng.choice(others))
        verts = list(attach)
        while len(verts) < size:
            verts.append(nv)
            nv += 1
        if not motifs:
            pass
        rng.shuffle(verts)
        # attached vertices must not be adjacent in the new motif if they are... (they share no motif, so no duplicate edge)
        edges = [(verts[a], verts[b]) for a, b in pat]
        mid = base + k * 3 + rng.randint(0, 2)
        motifs.append({"verts": verts, "edges": edges, "id": mid, **({"key": max(0, size - 2) + (7 if len(edges) > size else 0)} if coded else {})})
        for v in verts:
            member.setdefault(v, set()).add(mid)
    rows = []
    for m in motifs:
        for a, b in m["edges"]:
            rows.append([a, b, {"verts": m["verts"], "edges": [list(e) for e in m["edges"]], "id": m["id"],
                                **({"key": m["key"]} if "key" in m else {})}])
    rng.shuffle(rows)
    nodes = sorted(member)
    rng.shuffle(nodes)
    return nodes, rows, motifs


def label_key(lab):
    """the first field of a cover label names the motif's topology: its size in the covers the library writes itself, any code
    in a cover written by someone else (lab["key"])"""
    return lab.get("key", len(lab["verts"]))


def label_str(lab):
    verts = list(lab["verts"])
    edges = [tuple(e) for e in lab["edges"]]
    return f"{label_key(lab)}-{verts}-{edges}-{lab['id']}"


def label_variants(raw):
    """the labels themselves (all of them), and for the first few: the compact spelling, tuples instead of lists, a trailing comma,
    blanks around the numbers; then malformed labels (too few fields, a field that is not a number / not a sequence)"""
    out = list(dict.fromkeys(s for s in raw if isinstance(s, str)))
    for s in out[:3]:
        parts = s.split("-")
        if len(parts) != 4:
            continue
        k, vs, es, i = parts
        out.append(s.replace(" ", ""))
        out.append(f"{k}-({vs[1:-1]},)-{es}-{i}" if vs[1:-1] else s)
        out.append(f"{k}-{vs}-({es[1:-1]},)-{i}" if es[1:-1] else s)
        out.append(f" {k} - {vs} - {es} - {i} ")
        out.append(f"{k}-{vs[:-1]}-{es}-{i}")            # unbalanced member list
        out.append(f"{k}-{vs}-{es[:-1]}-{i}")            # unbalanced edge list
        out.append(f"x-{vs}-{es}-{i}")                   # key is not a number
        out.append(f"{k}-{vs}-{es}-")                    # id missing
        out.append(f"{k}-{vs}")                          # two fields only
        out.append(f"{k}-{vs.replace(', ', ',,', 1)}-{es}-{i}" if ", " in vs else f"{k}-[,]-{es}-{i}")
    out += ["", "7", "-"]
    return list(dict.fromkeys(out))


def real_accessors(mpm, s):
    """the four accessors on one label; None = the call raises; values outside the modelled domain (not int / not a sequence of
    ints / pairs) are reported as 'other'"""
    def call(f, shape):
        try:
            v = f(s)
        except Exception:
            return None
        try:
            if shape == "int":
                return v if isinstance(v, int) and not isinstance(v, bool) else "other"
            if shape == "ints":
                return [x for x in v] if isinstance(v, (list, tuple)) and all(type(x) is int for x in v) else "other"
            if isinstance(v, (list, tuple)) and all(isinstance(e, (list, tuple)) and len(e) == 2 and all(type(x) is int for x in e) for e in v):
                return [list(e) for e in v]
            return "other"
        except Exception:
            return "other"
    return {"key": call(mpm.get_motif_topology, "int"), "id": call(mpm.get_motif_ID, "int"),
            "verts": call(mpm.get_vertices_in_motif, "ints"), "edges": call(mpm.get_edges_in_motif, "pairs")}


def expectation(edges, root, phi, u):
    nodes = sorted({v for e in edges for v in e})
    E = len(edges)
    total = Fraction(0)
    for mask in range(1 << E):
        A = [edges[i] for i in range(E) if mask >> i & 1]
        seen = {root}
        st = [root]
        while st:
            x = st.pop()
            for a, b in A:
                y = b if a == x else a if b == x else None
                if y is not None and y not in seen:
                    seen.add(y)
                    st.append(y)
        w = phi ** len(A) * (1 - phi) ** (E - len(A))
        for v in seen:
            if v != root:
                w *= u[v]
        total += w
    return total


def reference(nodes, rows, edge_order, iterations, phi):
    """independent re-implementation from the property text (membership lists, brute-force motif expectation)"""
    motifs = {}
    for a, b, lab in rows:
        motifs[lab["id"]] = lab
    memb = {}
    for mid, lab in motifs.items():
        for v in lab["verts"]:
            memb.setdefault(v, []).append(mid)
    H = {(v, mid): Fraction(1, 2) for mid, lab in motifs.items() for v in lab["verts"]}
    lab_of = {}
    for a, b, lab in rows:
        lab_of[frozenset((a, b))] = lab
    for _ in range(iterations):
        for a, b in edge_order:
            lab = lab_of[frozenset((a, b))]
            for focal in (a, b):
                u = {}
                for j in lab["verts"]:
                    if j == focal:
                        continue
                    pj = Fraction(1)
                    for m2 in memb[j]:
                        if m2 != lab["id"]:
                            pj *= H[(j, m2)]
                    u[j] = pj
                H[(focal, lab["id"])] = expectation([tuple(e) for e in lab["edges"]], focal, phi, u)
    tot = Fraction(0)
    for v in nodes:
        p = Fraction(1)
        for m2 in memb.get(v, []):
            p *= H[(v, m2)]
        tot += p
    return 1 - tot / len(nodes)


class C17(Prop):
    pid = "C17"
    rule = ("cover-labelled networks of 2-6 motifs from {K2,K3,K4,C4,C5,diamond,chorded pentagon} glued at single vertices into trees (35%) and "
            "loopy arrangements (65%), motifs pairwise sharing at most one vertex, arbitrary motif ids (also from 1000 up) and edge order, topology "
            "keys in the labels that are sizes or codes, isolated vertices; double-precision ladder phi = 0, 0.6, 0.99, 1 at 5 and 12 sweeps "
            "(range, zero, monotone); exact mode: 1-3 sweeps with "
            "rational phi on a grid including 0 (the real code then computes in exact rationals); float mode: the default 25 sweeps compared to "
            "1e-9; query histories on one object versus fresh objects; the real label parser is checked against the generating structure; "
            "non-trivial = loopy network or at least 3 motifs; distinct = distinct case")
    assumptions = ["exact mode relies on 0.5 being dyadic so that Ex arithmetic stays exact; float mode compares doubles with tolerance 1e-9",
                   "convergence of the 25-sweep iterate to the fixed point is not a theorem (converges_full); the residual is reported",
                   "cover labels are consistent (every edge of a motif carries that motif's label)"]
    model_scope = ("modelled: message_passing.py in full, and the label accessors of message_passing_mixin.py (split / int / literal_eval on the "
                   "grammar of the documented labels, Model/LabelParse.lean): the model is handed the label strings the graph stores")
    budgets = {"quick": 24, "thorough": 400}
    recheck = {"quick": 3, "thorough": 10}
    search_budget = {"quick": 80, "thorough": 500}

    def exhaustive(self, tier):
        """two fixed networks that every run sees: (a) a 4-clique covered by six single edges plus a triangle - messages square on
        every sweep and underflow at phi = 1 in double precision; (b) a vertex in three motifs one of which (a triangle) gives it
        two neighbours with smaller labels than another motif's neighbour, on a loopy cover"""
        def net(motifs, nodes):
            rows = []
            for mid, (verts, edges) in enumerate(motifs):
                for a, b in edges:
                    rows.append([a, b, {"verts": list(verts), "edges": [list(e) for e in edges], "id": mid}])
            return {"nodes": nodes, "edges": rows, "iterations": 2, "phis": ["0", "1/2", "3/4", "1"], "query_order": [2, 0, 3, 1, 2],
                    "loopy": True}
        k4 = [((a, b), [(a, b)]) for a in range(4) for b in range(a + 1, 4)]
        yield net(k4 + [((3, 4, 5), [(3, 4), (4, 5), (3, 5)])], list(range(6)))
        yield net([((0, 1, 2), [(0, 1), (1, 2), (0, 2)]), ((0, 3), [(0, 3)]), ((3, 1), [(3, 1)]), ((0, 4), [(0, 4)]),
                   ((4, 2), [(4, 2)])], list(range(5)))

    def gen(self, rng, i, tier):
        loopy = rng.random() < 0.65
        nodes, rows, motifs = gen_network(rng, rng.randint(2, 4 if tier == "quick" else 6), loopy)
        if i % 3 == 1:
            # vertices that belong to no motif (degree zero): they count in the vertex average with an empty product
            extra = [max(nodes) + 1 + k for k in range(rng.randint(1, 3))]
            nodes = list(nodes) + extra
            rng.shuffle(nodes)
        q = rng.choice([4, 5, 10])
        phis = sorted({Fraction(0), Fraction(rng.randint(1, q - 1), q), Fraction(rng.randint(1, q), q), Fraction(rng.randint(1, q), q)})
        order = list(range(len(phis)))
        rng.shuffle(order)
        return {"nodes": nodes, "edges": rows, "iterations": rng.randint(1, 3 if len(rows) <= 14 else 2),
                "phis": [rs(p) for p in phis], "query_order": order + [rng.randrange(len(phis))], "loopy": loopy}

    def _graph(self, case):
        import networkx as nx
        G = nx.Graph()
        G.add_nodes_from(case["nodes"])
        for a, b, lab in case["edges"]:
            G.add_edge(a, b)
            G.edges[a, b]["CoverLabel"] = label_str(lab)
        return G

    def impl(self, case):
        from gcmpy.message_passing.message_passing import MessagePassing
        from gcmpy.message_passing.message_passing_mixin import MessagePassingMixin
        G = self._graph(case)
        edge_order = [list(e) for e in G.edges()]
        it = case["iterations"]
        phis = [Fraction(p) for p in case["phis"]]
        fresh = []
        for p in phis:
            v = MessagePassing(self._graph(case), iterations=it).theoretical(Ex(p))
            fresh.append(rs(v))
        shared = MessagePassing(G, iterations=it)
        hist = []
        for qi in case["query_order"]:
            hist.append([qi, rs(shared.theoretical(Ex(phis[qi])))])
        # default 25 sweeps in double precision at the largest phi
        fl = MessagePassing(self._graph(case)).theoretical(float(phis[-1]))
        # ... and along a ladder of phi up to exactly 1 (bounds and monotonicity hold for every phi and every sweep count)
        ladder = [0.0, 0.6, 0.99, 1.0]
        one = MessagePassing(self._graph(case), iterations=12)
        fl_ladder = [float(one.theoretical(x)) for x in ladder]
        fl_ladder5 = [float(MessagePassing(self._graph(case), iterations=5).theoretical(x)) for x in ladder]
        # the real label parser against the generating structure
        mpm = MessagePassingMixin("motif cover", G)
        parse_ok = True
        for a, b, lab in case["edges"]:
            s = mpm.get_edge_cover_label(a, b)
            if (mpm.get_motif_ID(s) != lab["id"] or list(mpm.get_vertices_in_motif(s)) != list(lab["verts"])
                    or [list(e) for e in mpm.get_edges_in_motif(s)] != [list(e) for e in lab["edges"]]
                    or mpm.get_motif_topology(s) != label_key(lab)):
                parse_ok = False
        # the label strings as the graph stores them (the model parses these itself), and the real accessors on them, on other
        # spellings Python reads the same way, and on malformed labels
        raw = [G.edges[a, b]["CoverLabel"] for a, b in G.edges()]
        table = []
        for s in label_variants(raw):
            table.append([s, real_accessors(mpm, s)])
        return {"fresh": fresh, "history": hist, "float25": fl, "edge_order": edge_order, "node_order": list(G.nodes()),
                "parse_ok": parse_ok, "float_ladder": [ladder, fl_ladder, fl_ladder5], "raw_labels": raw, "label_table": table}

    def request(self, case, obs):
        return {"op": "ping"}

    def _rows_in_order(self, case, obs):
        # the model is handed the label STRINGS the graph stores and parses them with its own model of the mixin's parser
        # (Model/LabelParse.lean); a label that is not a string falls back to the generating structure
        lab_of = {frozenset((a, b)): lab for a, b, lab in case["edges"]}
        raw = obs.get("raw_labels") or [None] * len(obs["edge_order"])
        return [[a, b, s if isinstance(s, str) else lab_of[frozenset((a, b))]] for (a, b), s in zip(obs["edge_order"], raw)]

    def model(self, case, reply, obs):
        rows = self._rows_in_order(case, obs)
        reqs = [{"op": "c17", "nodes": obs["node_order"], "edges": rows, "iterations": case["iterations"], "phis": case["phis"]},
                {"op": "c17", "mode": "float", "nodes": obs["node_order"], "edges": rows, "iterations": 25,
                 "phi": float(Fraction(case["phis"][-1]))}]
        r = run_driver(reqs)
        import struct
        vf = struct.unpack("<d", struct.pack("<Q", r[1]["value_bits"]))[0]
        d = abs(vf - obs["float25"])
        tab = run_driver([{"op": "c17_labels", "labels": [s for s, _ in obs["label_table"]]}])[0]["parsed"]
        return {"fresh": r[0]["values"], "float25_close": d < 1e-9,
                "label_parser": [[s, m] for (s, _), m in zip(obs["label_table"], tab)]}

    def project(self, case, obs):
        if "exc" in obs:
            return {"exc": obs["exc"]}
        return {"fresh": obs["fresh"], "float25_close": True, "label_parser": obs["label_table"]}

    def oracle(self, case, obs):
        if "exc" in obs:
            return [f"raised: {obs['exc']}: {obs.get('msg', '')[:80]}"]
        f = []
        phis = [Fraction(p) for p in case["phis"]]
        vals = [Fraction(v) for v in obs["fresh"]]
        for p, v in zip(phis, vals):
            want = reference(obs["node_order"], case["edges"], obs["edge_order"], case["iterations"], p)
            if v != want:
                f.append(f"formula: theoretical({p}) = {float(v):.6f}, the motif-cover equations give {float(want):.6f}")
                break
        if any(v < 0 or v > 1 for v in vals):
            f.append("range: value outside [0, 1]")
        if phis[0] == 0 and vals[0] != 0:
            f.append(f"zero: theoretical(0) = {vals[0]}")
        if any(b < a for a, b in zip(vals, vals[1:])):
            f.append("monotone: value decreases when phi increases")
        for qi, v in obs["history"]:
            if v != obs["fresh"][qi]:
                f.append("history: a query on a reused object differs from the answer of a fresh object")
                break
        if not (0 - 1e-12 <= obs["float25"] <= 1 + 1e-12):
            f.append("range: default 25-sweep value outside [0, 1]")
        if obs.get("float_ladder"):
            ladder, *runs = obs["float_ladder"]
            for sweeps, vals_f in zip((12, 5), runs):
                if any(not (-1e-12 <= v <= 1 + 1e-12) for v in vals_f):
                    f.append(f"range: {sweeps}-sweep double-precision value outside [0, 1]: {vals_f}")
                elif abs(vals_f[0]) > 1e-12:
                    f.append(f"zero: {sweeps}-sweep double-precision value at phi = 0 is {vals_f[0]}")
                elif any(b < a - 1e-9 for a, b in zip(vals_f, vals_f[1:])):
                    k = next(k for k, (a, b) in enumerate(zip(vals_f, vals_f[1:])) if b < a - 1e-9)
                    f.append(f"monotone: {sweeps}-sweep double-precision value drops from {vals_f[k]} at phi = {ladder[k]} to "
                             f"{vals_f[k + 1]} at phi = {ladder[k + 1]}")
        if not obs["parse_ok"]:
            f.append("labels: cover label parser disagrees with the label's content")
        return f

    def nontrivial(self, case, obs):
        return "exc" not in obs and (case["loopy"] or len({lab["id"] for _, _, lab in case["edges"]}) >= 3)

    def stats(self, case, obs, hist):
        hist["loopy" if case["loopy"] else "tree"] = hist.get("loopy" if case["loopy"] else "tree", 0) + 1
        hist["iterations_" + str(case["iterations"])] = hist.get("iterations_" + str(case["iterations"]), 0) + 1
        hist["motifs_total"] = hist.get("motifs_total", 0) + len({lab["id"] for _, _, lab in case["edges"]})
        if "exc" not in obs and any(Fraction(v) > 0 for v in obs["fresh"]):
            hist["nonzero_value"] = hist.get("nonzero_value", 0) + 1

    def shrink(self, case):
        if case["iterations"] > 1:
            c = json.loads(json.dumps(case)); c["iterations"] -= 1; yield c
        if len(case["phis"]) > 2:
            c = json.loads(json.dumps(case)); c["phis"] = c["phis"][:2]; c["query_order"] = [0, 1, 0]; yield c

    def fingerprint(self, case, obs, fails):
        return "C17/" + fails[0].split(":")[0]


PROP = C17()
