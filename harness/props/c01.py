"""C01 — generated graphs realise exactly the requested joint degree sequence."""
from .genprop import GenProp


class C01(GenProp):
    pid = "C01"
    rule = ("joint degree sequences with N in 0..40 (30% zero rows), 1-5 topologies / 1-3 multi-orbit custom motif types, sizes 1-5, "
            "column sums repaired to satisfy the handshake, valid scripted randbelow draws per topology; every hundredth case has 380-520 vertices "
            "(more than 1024 stubs per topology); callbacks with a fixed or a group-dependent number of edges, returning lists, tuples, one "
            "shared list object, or re-entering the generator; naming callbacks returning tuples or one-shot iterators; all three algorithm types "
            "and three construction paths are run on the same draws; 16% malformed (handshake-violating) inputs are compared with "
            "the model only; non-trivial = handshake-consistent case with at least two motif instances; distinct = distinct case")

    def oracle(self, case, obs):
        return self.clauses_c01(case, obs)


PROP = C01()
