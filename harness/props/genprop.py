"""C01 / C02 share cases, runs and the model request; they differ in the oracle clauses."""
import collections
import json

from core.runner import Prop
from . import gen_common as gc


def _strip(o):
    o = dict(o)
    o.pop("class", None)
    return o


def valid_first(n):
    """a valid draw sequence for shuffling n items: the identity choice at every step (randbelow(i+1) = i)"""
    return list(range(n - 1, 0, -1)) if n > 1 else []


class GenProp(Prop):
    budgets = {"quick": 260, "thorough": 20000}
    search_budget = {"quick": 600, "thorough": 5000}
    assumptions = ["random.shuffle is the CPython 3.12 Fisher-Yates body (executed for real on scripted randbelow draws)",
                   "build/naming callbacks are arbitrary functions; the library shapes exist verbatim on both sides"]
    model_scope = ("modelled: gcm_algorithm_fast.py, gcm_algorithm_custom_motifs.py, infinite_sequence, clique/cycle/diamond motif "
                   "callbacks; factory/main/network dispatch is checked by running all construction paths on the same draws")

    def exhaustive(self, tier):
        """corner sequences every run sees, for the fast and the custom generator: nobody has a stub (N = 1, 4), a single vertex
        carrying a whole motif, one motif instance per topology"""
        for jds, sizes in (([[0]], [2]), ([[0, 0]] * 4, [2, 3]), ([[2]], [2]), ([[1, 0], [1, 0], [0, 3]], [2, 3])):
            T = len(sizes)
            draws = [valid_first(sum(r[k] for r in jds)) for k in range(T)]
            yield {"kind": "fast", "jds": jds, "sizes": sizes, "builds": ["clique"] * T, "names": [f"t{k}" for k in range(T)],
                   "draws": draws, "handshake": True, "as_tuple": [False] * T}
            yield {"kind": "custom", "jds": jds, "sizes": sizes, "orbits": [[k] for k in range(T)], "builds": ["clique"] * T,
                   "names": [[f"t{k}"] * (sizes[k] * (sizes[k] - 1) // 2) for k in range(T)], "draws": draws, "handshake": True,
                   "as_tuple": [False] * T}

    def gen(self, rng, i, tier):
        r = rng.random()
        small = rng.random() < 0.3
        if i % 100 == 37:
            return gc.gen_fast_case(rng, big=True)
        if r < 0.42:
            return gc.gen_fast_case(rng, small=small)
        if r < 0.84:
            return gc.gen_custom_case(rng, small=small)
        if r < 0.92:
            return gc.gen_fast_case(rng, malformed=True, small=small)
        return gc.gen_custom_case(rng, malformed=True, small=small)

    def impl(self, case):
        obs = gc.run_generator(case, "direct")
        paths = {}
        for p in ("factory", "main"):
            try:
                o = gc.run_generator(case, p)
                paths[p] = "same" if _strip(o) == _strip(obs) and o["class"] == obs["class"] else "differs"
            except Exception as e:
                paths[p] = f"raised {type(e).__name__}"
        obs["paths"] = paths
        if case["kind"] == "fast":
            net = {}
            for p in ("direct", "factory", "main"):
                try:
                    o = gc.run_generator(case, p, algo="network")
                    if p == "direct":
                        net = o
                    elif _strip(o) != _strip(net):
                        net["paths_differ"] = p
                except Exception as e:
                    if p == "direct":
                        net = {"exc": type(e).__name__, "msg": str(e)[:200]}
                    else:
                        net["paths_differ"] = f"{p} raised {type(e).__name__}"
            obs["network"] = net
        return obs

    def safe_impl(self, case):
        o = super().safe_impl(case)
        return o

    def request(self, case, obs):
        r = {"op": "gen", "kind": case["kind"], "jds": case["jds"], "sizes": case["sizes"], "draws": case["draws"],
             "builds": case["builds"], "names": case["names"]}
        if case["kind"] == "custom":
            r["orbits"] = case["orbits"]
        return r

    def model(self, case, reply, obs):
        if "exc" in reply:
            return {"exc": reply["exc"]}
        m = {"edges": reply["edges"], "topologies": reply["topologies"], "motif_id": reply["motif_id"],
             "jds_out": reply["jds"], "motifs": [{"top": x["top"], "verts": x["verts"]} for x in reply["motifs"]]}
        if case["kind"] == "fast":
            m["graph_edges"] = sorted({tuple(sorted(e)) for e in reply["edges"]})
        return m

    def project(self, case, obs):
        if "exc" in obs:
            return {"exc": obs["exc"]}
        p = {"edges": obs["edges"], "topologies": obs["topologies"], "motif_id": obs["motif_id"],
             "jds_out": obs["jds_out"], "motifs": [{"top": c["top"], "verts": c["verts"]} for c in obs["calls"]]}
        if case["kind"] == "fast":
            net = obs.get("network", {})
            p["graph_edges"] = net.get("graph_edges", net.get("exc"))
        return p

    # ---------------------------------------------------------------- oracle clauses
    def clauses_c01(self, case, obs):
        f = []
        if not case["handshake"]:
            return f
        if "exc" in obs:
            return [f"raised: {obs['exc']} on a handshake-consistent sequence"]
        jds, sizes = case["jds"], case["sizes"]
        N = len(jds)
        T = len(sizes)
        col = lambda k: [r[k] for r in jds]
        calls = obs["calls"]
        # two runs can be compared with each other only when both were driven by the same scripted permutations; a generator that
        # draws its permutations through something the script does not see (another RNG, another primitive) gives a different,
        # equally valid outcome on every run
        scripted = not obs.get("unscripted_shuffles") and not any(len(case["draws"][k]) > 0 for k in obs.get("shuffles_missing") or [])
        if obs["jds_out"] != jds or not obs["jds_input_untouched"]:
            f.append("jds-changed: joint degree sequence not carried through unchanged")
        for c in calls:
            if any((not isinstance(v, int)) or v < 0 or v >= N for v in c["verts"]):
                f.append("vertex-out-of-range: a vertex outside 0..N-1 appears")
                break
        if case["kind"] == "fast":
            for k in range(T if jds else 0):
                ck = [c for c in calls if c["top"] == k]
                want = sum(col(k)) // sizes[k]
                if len(ck) != want:
                    f.append(f"motif-count: topology {k} has {len(ck)} motif instances, expected {want}")
                if any(len(c["verts"]) != sizes[k] for c in ck):
                    f.append(f"group-size: a topology-{k} motif was not built from {sizes[k]} stubs")
                cnt = collections.Counter(v for c in ck for v in c["verts"])
                if [cnt.get(v, 0) for v in range(N)] != col(k) or any(v not in range(N) for v in cnt):
                    f.append(f"slots: vertex slot counts in topology {k} differ from jds")
            net = obs.get("network", {})
            if "exc" in net:
                f.append(f"network-raised: {net['exc']}")
            else:
                if scripted and net.get("calls") is not None and [(c["top"], sorted(c["verts"])) for c in net["calls"]] != \
                        [(c["top"], sorted(c["verts"])) for c in calls]:
                    f.append("network-motifs: network variant built different motif instances than the edge-list variant")
                if any(n not in range(N) for n in net.get("nodes", [])):
                    f.append("network-vertex-out-of-range")
                if "paths_differ" in net and (scripted or "raised" in str(net["paths_differ"])):
                    f.append(f"network-paths: construction path {net['paths_differ']} differs from direct construction")
        else:
            for j, orb in enumerate(case["orbits"]):
                cj = [c for c in calls if c["top"] == j]
                want = sum(col(orb[0])) // sizes[orb[0]]
                if len(cj) != want:
                    f.append(f"motif-count: motif type {j} has {len(cj)} instances, expected {want}")
                tot = sum(sizes[o] for o in orb)
                if any(len(c["verts"]) != tot for c in cj):
                    f.append(f"group-size: a type-{j} motif was not built from {tot} stubs")
                    continue
                off = 0
                for o in orb:
                    cnt = collections.Counter(v for c in cj for v in c["verts"][off:off + sizes[o]])
                    if [cnt.get(v, 0) for v in range(N)] != col(o):
                        f.append(f"slots: vertex slot counts in orbit column {o} differ from jds")
                    off += sizes[o]
        for p, r in obs["paths"].items():
            if r != "same" and (scripted or r.startswith("raised")):
                f.append(f"paths: construction through {p} {r}")
        if obs.get("shuffles_missing") and any(len(case["draws"][k]) > 0 for k in obs["shuffles_missing"]):
            pass  # uniformity is C03's business
        return f

    def clauses_c02(self, case, obs):
        f = []
        if not case["handshake"]:
            return f
        if "exc" in obs:
            return [f"raised: {obs['exc']} on a valid configuration"]
        E, Tp, M = obs["edges"], obs["topologies"], obs["motif_id"]
        if not (len(E) == len(Tp) == len(M)):
            f.append(f"columns-not-parallel: lengths edges={len(E)} topologies={len(Tp)} motif_id={len(M)}")
            return f
        if any(t != "pair" for t in obs["edge_types"]):
            f.append(f"row-not-a-pair: {obs['edge_types']}")
        calls = obs["calls"]
        # rows sharing an id are exactly the edges one build call returned, each with the name its position prescribes - as multisets:
        # in which order the motifs, or the edges of one motif, are written into the columns is not part of the property
        key = lambda x: json.dumps(x, sort_keys=True, default=repr)
        groups = collections.OrderedDict()
        for e, t, m in zip(E, Tp, M):
            groups.setdefault(key(m), []).append((key(e), key(t)))
        nonempty = [c for c in calls if c["result"]]
        want_groups = []
        for c in nonempty:
            n = len(c["result"])
            if case["kind"] == "fast":
                names = [case["names"][c["top"]]] * n
            else:
                nm = case["names"][c["top"]]
                names = [nm] if isinstance(nm, str) else list(nm)
            if len(names) != n:
                names = (names + [None] * n)[:n]
            want_groups.append(sorted((key(e), key(t)) for e, t in zip(c["result"], names)))
        got_groups = [sorted(g) for g in groups.values()]
        if len(got_groups) != len(want_groups):
            f.append(f"id-groups: {len(got_groups)} distinct ids for {len(nonempty)} motif instances with edges")
        elif sorted(got_groups) != sorted(want_groups):
            if sorted([e for e, _ in g] for g in got_groups) != sorted([e for e, _ in g] for g in want_groups):
                f.append("id-groups: rows sharing a motif id are not the edges returned by one build call")
            else:
                bad = next(g for g in sorted(got_groups) if g not in want_groups)
                f.append(f"names: the rows of one motif carry {[json.loads(t) for _, t in bad][:4]}, which is not what its topology "
                         f"(or the matching positions of its naming callback) prescribes")
        return f

    def nontrivial(self, case, obs):
        return "exc" not in obs and len(obs.get("calls", [])) >= 2 and case["handshake"]

    def stats(self, case, obs, hist):
        hist["kind_" + case["kind"]] = hist.get("kind_" + case["kind"], 0) + 1
        if not case["handshake"]:
            hist["malformed"] = hist.get("malformed", 0) + 1
        if any(not any(r) for r in case["jds"]):
            hist["has_zero_degree_vertex"] = hist.get("has_zero_degree_vertex", 0) + 1
        for b in case["builds"]:
            hist["build_" + b] = hist.get("build_" + b, 0) + 1
        if "exc" in obs:
            hist["impl_exc_" + obs["exc"]] = hist.get("impl_exc_" + obs["exc"], 0) + 1
        else:
            hist["motif_instances"] = hist.get("motif_instances", 0) + len(obs["calls"])
            hist["edges_total"] = hist.get("edges_total", 0) + len(obs.get("edges", []))
        hist["N_sum"] = hist.get("N_sum", 0) + len(case["jds"])

    def shrink(self, case):
        jds = case["jds"]
        # drop a vertex (only when all its degrees are zero, to keep the handshake), or zero a whole motif type
        for v in range(len(jds)):
            if not any(jds[v]):
                c = json.loads(json.dumps(case))
                del c["jds"][v]
                yield c
        if case["kind"] == "fast":
            for k in range(len(case["sizes"])):
                if any(r[k] for r in jds):
                    c = json.loads(json.dumps(case))
                    for r in c["jds"]:
                        r[k] = 0
                    c["draws"][k] = []
                    yield c
        else:
            for j, orb in enumerate(case["orbits"]):
                if any(r[o] for r in jds for o in orb):
                    c = json.loads(json.dumps(case))
                    for r in c["jds"]:
                        for o in orb:
                            r[o] = 0
                    for o in orb:
                        c["draws"][o] = []
                    yield c
        # replace the draws by the identity shuffle
        if any(any(d) for d in case["draws"]):
            c = json.loads(json.dumps(case))
            c["draws"] = [[i for i in reversed(range(1, len(d) + 1))] for d in c["draws"]]
            yield c
