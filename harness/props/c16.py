"""C16 — closed-form clique and cycle equations and their graph counts are exact."""
import itertools
import json

from fractions import Fraction

from core.exact import Poly, rs
from core.runner import Prop
from . import mp_common as mp


def conn_count(n, k):
    """number of connected labelled graphs on n vertices with k edges (brute force, own union-find)"""
    nodes = list(range(n))
    pairs = [(a, b) for a in range(n) for b in range(a + 1, n)]
    c = 0
    for es in itertools.combinations(pairs, k):
        if mp.is_connected(nodes, list(es)):
            c += 1
    return c


_CC = {}


def conn_count_cached(n, k):
    if (n, k) not in _CC:
        _CC[(n, k)] = conn_count(n, k)
    return _CC[(n, k)]


class C16(Prop):
    pid = "C16"
    rule = ("clique equation for tau 2-6 (7 in thorough) with a distinct polynomial variable per neighbour and a polynomial phi; cycle "
            "equation for n 3-10 (12 thorough); Q(n,k) for every n <= 12 (14 thorough) and every k against the model, against the brute-force "
            "count for n <= 5 (6 thorough) and against the recursion without the tree shortcut; QQ(n,k) for n <= 5 (6 thorough); "
            "number_of_connected_graphs on random substrates, vertex subsets and k against an independent brute force, plus bridged substrates "
            "(two triangles / two 4-cliques joined by an edge, two 4-cycles sharing a vertex) for k = 0..3; cycle equation also on an object array "
            "of exact rationals; "
            "non-trivial = tau >= 3 / n >= 4 / n >= 3 for counts / substrate with a cycle; distinct = distinct case")
    assumptions = ["lru_cache is semantically transparent", "networkx complete_graph / copy / remove_node / is_connected set-level semantics"]
    model_scope = "modelled: clique_equation.py, chordless_cycle_equation.py, number_connected_graphs.py in full (cache excluded)"
    budgets = {"quick": 60, "thorough": 600}
    search_budget = {"quick": 120, "thorough": 600}

    def exhaustive(self, tier):
        q = tier == "quick"
        for tau in range(2, 7 if q else 8):
            yield {"kind": "clique", "tau": tau}
        # neighbour values that repeat (same value set, different multiplicities), evaluated one after the other in this process
        for tau, pats in ((3, [[0, 0]]), (4, [[0, 0, 1], [0, 1, 1], [1, 1, 1], [1, 0, 1]]),
                          (5, [[0, 1, 2, 0], [2, 1, 2, 0], [1, 1, 2, 0], [0, 0, 0, 0], [0, 1, 0, 1]])):
            for hs in pats:
                yield {"kind": "clique", "tau": tau, "hs": hs}
        yield {"kind": "clique", "tau": 1}
        for n in range(3, 11 if q else 13):
            yield {"kind": "cycle", "n": n} if n > 10 else \
                {"kind": "cycle", "n": n, "points": [{"phi": ["1/3", "1/2", "1"][n % 3], "hs": [["1/2", "6/7", "1"][n % 3]], "zero_as": "int"},
                                                     {"phi": "3/4", "hs": ["0"], "zero_as": ["float", "fraction"][n % 2]}]}
        for n in range(1, 13 if q else 15):
            yield {"kind": "Qrow", "n": n}
        # the connected-subgraph counter on substrates whose edge connectivity is below their minimum degree: two triangles /
        # two 4-cliques joined by a bridge, two 4-cycles sharing a vertex
        tri2 = [[0, 1], [1, 2], [0, 2], [2, 3], [3, 4], [4, 5], [3, 5]]
        k4 = lambda o: [[o + a, o + b] for a in range(4) for b in range(a + 1, 4)]
        k42 = k4(0) + k4(4) + [[3, 4]]
        cyc2 = [[0, 1], [1, 2], [2, 3], [3, 0], [0, 4], [4, 5], [5, 6], [6, 0]]
        for edges, nn, ks in ((tri2, 6, (0, 1, 2, 3)), (k42, 8, (1, 2)), (cyc2, 7, (1, 2))):
            for focal in (0, nn - 3):
                for k in ks:
                    yield {"kind": "nocg", "nodes": list(range(nn)), "edges": edges, "ak": [v for v in range(nn) if v != focal],
                           "i": focal, "k": k}
        for n in range(1, 6 if q else 7):
            yield {"kind": "QQ", "n": n}

    def gen0(self, rng, i, tier):
        if rng.random() < 0.4:
            tau = rng.randint(3, 5 if tier == "quick" else 6)
            pool = rng.randint(1, 3)
            return {"kind": "clique", "tau": tau, "hs": [rng.randrange(pool) for _ in range(tau - 1)]}
        n = rng.randint(2, 6)
        nodes, edges = mp.random_connected_graph(rng, n, rng.choice([0.2, 0.5, 0.8]))
        if rng.random() < 0.2:
            # substrates whose edge connectivity is below their minimum degree (dense parts joined by a bridge or a cut vertex)
            nodes, edges = mp.named_motif(rng, rng.choice(["dumbbell", "barbell4", "dumbbell"]), 6)
            nodes, edges = list(nodes), [list(e) for e in edges]
            focal = rng.choice(nodes)
            full = rng.random() < 0.7
            ak = [v for v in nodes if v != focal and (full or rng.random() < 0.8)]
            return {"kind": "nocg", "nodes": nodes, "edges": edges, "ak": ak, "i": focal, "k": rng.choice([0, 1, 1, 2, 3])}
        if rng.random() < 0.3 and len(edges) > 1:
            edges.pop(rng.randrange(len(edges)))      # possibly disconnected substrate
        while len(edges) > 11:
            edges.pop()
        focal = rng.choice(nodes)
        ak = [v for v in nodes if v != focal and rng.random() < 0.7]
        if rng.random() < 0.5:
            # the substrate is larger than the part the counter looks at: isolated vertices and extra tree-like components
            base = max(nodes) + 1
            for j in range(rng.randint(1, 3)):
                nodes.append(base + j)
            if rng.random() < 0.5:
                a, b, c = base + 10, base + 11, base + 12
                nodes += [a, b, c]
                edges += [[a, b], [b, c]]
        k = rng.randint(0, min(len(edges), 4))
        return {"kind": "nocg", "nodes": nodes, "edges": edges, "ak": ak, "i": focal, "k": k}

    @staticmethod
    def _num(x, pt):
        x = Fraction(x)
        if x == 0:
            return 0 if pt["zero_as"] == "int" else Fraction(0) if pt["zero_as"] == "fraction" else 0.0
        return 1 if (x == 1 and pt["zero_as"] == "int") else x

    @staticmethod
    def _points(rng, n_hs):
        pts = []
        for _ in range(2):
            hs = []
            for _ in range(max(1, n_hs)):
                r = rng.random()
                hs.append("0" if r < 0.3 else "1" if r < 0.45 else rs(Fraction(rng.randint(1, 6), 7)))
            pts.append({"phi": rng.choice(["0", "1", "1/3", "1/2", "3/4"]), "hs": hs, "zero_as": rng.choice(["int", "fraction", "float"])})
        return pts

    def gen(self, rng, i, tier):
        c = self.gen0(rng, i, tier)
        if c.get("kind") == "clique" and 2 <= c["tau"] <= 6:
            c["points"] = self._points(rng, c["tau"] - 1)
        elif c.get("kind") == "cycle" and c["n"] <= 10:
            c["points"] = self._points(rng, 1)
        return c

    def impl(self, case):
        from gcmpy.message_passing.equations.clique_equation import clique_equation
        from gcmpy.message_passing.equations.chordless_cycle_equation import chordless_cycle_equation
        from gcmpy.message_passing import number_connected_graphs as ncg
        k = case["kind"]
        if k == "clique":
            tau = case["tau"]
            Hs = [mp.uvar(i) for i in case.get("hs", range(tau - 1))]
            o = {"poly": mp.poly_canon(clique_equation(tau, mp.pvar(), Hs))}
            # numeric points at the ends of the ranges: neighbour values exactly 0 or 1, phi 0 or 1
            o["numeric"] = [repr(float(clique_equation(tau, Fraction(pt["phi"]), [self._num(x, pt) for x in pt["hs"]])))
                            for pt in case.get("points", [])]
            return o
        if k == "cycle":
            o = {"poly": mp.poly_canon(chordless_cycle_equation(case["n"], mp.uvar(0), mp.pvar()))}
            o["numeric"] = [repr(float(chordless_cycle_equation(case["n"], self._num(pt["hs"][0], pt), Fraction(pt["phi"]))))
                            for pt in case.get("points", [])]
            pts = case.get("points", [])
            if pts:
                # the same polynomial evaluated element-wise on a whole grid of neighbour values (an array argument), exactly
                import numpy as np
                us = [Fraction(pt["hs"][0]) for pt in pts] + [Fraction(2, 5)]
                grid = []
                for pt in pts:
                    arr = np.array(us, dtype=object)
                    val = chordless_cycle_equation(case["n"], arr, Fraction(pt["phi"]))
                    grid.append({"phi": pt["phi"], "us": [rs(x) for x in us], "vals": [rs(Fraction(x)) for x in np.asarray(val, dtype=object).ravel()],
                                 "arg_untouched": [Fraction(x) for x in arr] == us})
                o["grid"] = grid
            return o
        if k == "Qrow":
            n = case["n"]
            ncg.Q.cache_clear()
            return {"row": [ncg.Q(n, kk) for kk in range(n * (n - 1) // 2 + 3)], "types": sorted({type(ncg.Q(n, kk)).__name__ for kk in range(3)})}
        if k == "QQ":
            n = case["n"]
            ncg.QQ.cache_clear()
            return {"row": [ncg.QQ(n, kk) for kk in range(n * (n - 1) // 2 + 1)]}
        import networkx as nx
        G = nx.Graph()
        G.add_nodes_from(case["nodes"])
        G.add_edges_from([tuple(e) for e in case["edges"]])
        before = (list(G.nodes()), list(G.edges()))
        c = ncg.number_of_connected_graphs(G, list(case["ak"]), case["i"], case["k"])
        return {"count": c, "untouched": before == (list(G.nodes()), list(G.edges()))}

    def request(self, case, obs):
        r = {"op": "c16"}
        r.update({k: v for k, v in case.items() if k != "points"})
        return r

    def model(self, case, reply, obs):
        if "poly" in reply:
            return {"poly": mp.canon_sorted(reply["poly"])}
        if case["kind"] == "Qrow":
            return {"row": reply["row"]}
        return reply

    def project(self, case, obs):
        if "exc" in obs:
            return {"exc": obs["exc"]}
        if case["kind"] == "Qrow":
            return {"row": obs["row"]}
        if case["kind"] == "nocg":
            return {"count": obs["count"]}
        return {k: v for k, v in obs.items() if k not in ("numeric", "grid")}

    def oracle(self, case, obs):
        if "exc" in obs:
            return [f"raised: {obs['exc']}: {obs.get('msg', '')[:80]}"]
        f = []
        k = case["kind"]
        if k == "clique":
            tau = case["tau"]
            if tau < 2 or tau > 6:
                return f
            nodes = list(range(tau))
            edges = [(a, b) for a in range(tau) for b in range(a + 1, tau)]
            hs = case.get("hs", list(range(tau - 1)))
            want = mp.exact_expectation(nodes, edges, 0, u_of=lambda v: mp.uvar(hs[v - 1]))
            if obs["poly"] != mp.poly_canon(want):
                f.append(f"clique: clique equation for tau={tau} differs from the exact expectation on K_tau as a polynomial")
            for pt, got in zip(case.get("points", []), obs.get("numeric", [])):
                w = mp.exact_numeric(nodes, edges, 0, {v: Fraction(pt["hs"][v - 1]) for v in nodes if v}, Fraction(pt["phi"]))
                if abs(Fraction(float(got)) - w) > Fraction(1, 10 ** 9):
                    f.append(f"clique-at-point: tau={tau}, phi={pt['phi']}, Hs={pt['hs']}: value {got}, exact expectation {float(w)}")
                    break
        elif k == "cycle":
            n = case["n"]
            if n > 12:
                return f
            nodes = list(range(n))
            edges = [(i, (i + 1) % n) for i in range(n)]
            want = mp.exact_expectation(nodes, edges, 0, u_of=lambda v: mp.uvar(0))
            if obs["poly"] != mp.poly_canon(want):
                f.append(f"cycle: cycle equation for n={n} differs from the exact expectation on C_n as a polynomial")
            for pt, got in zip(case.get("points", []), obs.get("numeric", [])):
                w = mp.exact_numeric(nodes, edges, 0, {v: Fraction(pt["hs"][0]) for v in nodes if v}, Fraction(pt["phi"]))
                if abs(Fraction(float(got)) - w) > Fraction(1, 10 ** 9):
                    f.append(f"cycle-at-point: n={n}, phi={pt['phi']}, u={pt['hs'][0]}: value {got}, exact expectation {float(w)}")
                    break
            for g in obs.get("grid", []):
                want_g = [rs(mp.exact_numeric(nodes, edges, 0, {v: Fraction(u) for v in nodes if v}, Fraction(g["phi"]))) for u in g["us"]]
                if g["vals"] != want_g:
                    f.append(f"cycle-on-grid: n={n}, phi={g['phi']}, u = array{g['us']}: values {g['vals']}, exact expectations {want_g}")
                    break
                if not g["arg_untouched"]:
                    f.append(f"cycle-on-grid: n={n}: the array handed in as u was modified")
                    break
        elif k in ("Qrow", "QQ"):
            n = case["n"]
            if n <= 5 or (n == 6 and len(obs["row"]) <= 16 and k == "QQ"):
                for kk in range(n * (n - 1) // 2 + 1):
                    if n <= 5 and obs["row"][kk] != conn_count_cached(n, kk):
                        f.append(f"count: {k[:2].rstrip('r')}({n},{kk}) = {obs['row'][kk]}, there are {conn_count_cached(n, kk)} connected labelled graphs")
                        break
            if k == "Qrow":
                if any(x != 0 for x in obs["row"][n * (n - 1) // 2 + 1:]):
                    f.append("count: Q is non-zero beyond n(n-1)/2 edges")
                if n >= 2 and obs["row"][n - 1] != n ** (n - 2):
                    f.append("count: number of labelled trees is not n^(n-2)")
                if n >= 1 and obs["row"][n * (n - 1) // 2] != 1:
                    f.append("count: the complete graph is not counted once")
        else:
            nodes = [v for v in case["nodes"] if v == case["i"] or v in case["ak"]]
            edges = [tuple(e) for e in case["edges"] if e[0] in nodes and e[1] in nodes]
            want = sum(1 for comb in itertools.combinations(edges, case["k"])
                       if mp.is_connected(nodes, [e for e in edges if e not in comb]))
            if obs["count"] != want:
                f.append(f"counter: {obs['count']} ways reported, {want} ways to delete {case['k']} edges and stay connected")
            if not obs["untouched"]:
                f.append("input-mutated")
        return f

    def nontrivial(self, case, obs):
        k = case["kind"]
        return {"clique": case.get("tau", 0) >= 3, "cycle": case.get("n", 0) >= 4, "Qrow": case.get("n", 0) >= 3,
                "QQ": case.get("n", 0) >= 3, "nocg": len(case.get("edges", [])) >= len(case.get("nodes", []))}[k]

    def stats(self, case, obs, hist):
        hist["kind_" + case["kind"]] = hist.get("kind_" + case["kind"], 0) + 1

    def shrink(self, case):
        if case["kind"] == "nocg":
            for i in range(len(case["edges"])):
                c = json.loads(json.dumps(case)); del c["edges"][i]; c["k"] = min(c["k"], len(c["edges"])); yield c

    def fingerprint(self, case, obs, fails):
        return "C16/" + fails[0].split(":")[0]


PROP = C16()
