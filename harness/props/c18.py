"""C18 — bond percolation keeps each edge independently with probability phi."""
import json
from fractions import Fraction

from core.exact import Ex, rs, recover
from core.rng import patched
from core.runner import Prop


def lcc_size(nodes, edges):
    parent = {v: v for v in nodes}

    def find(x):
        while parent[x] != x:
            parent[x] = parent[parent[x]]
            x = parent[x]
        return x
    for a, b in edges:
        parent[find(a)] = find(b)
    cnt = {}
    for v in nodes:
        r = find(v)
        cnt[r] = cnt.get(r, 0) + 1
    return max(cnt.values()) if cnt else 0


class C18(Prop):
    pid = "C18"
    rule = ("random graphs with 1-30 vertices (edgeless, disconnected, with self-loops), stars with 1-12 leaves, paths and cycles; "
            "phi in {0, 1} and on a rational grid; scripted uniform draws on a grid that both avoids and hits phi exactly; "
            "non-trivial = at least 3 edges of which some are kept and some dropped; distinct = distinct case")
    assumptions = ["random.random() is i.i.d. uniform on [0,1) (assumed; the check injects the draws)",
                   "networkx connected_components / Graph.copy / remove_edges_from set-level semantics (re-defined in Model/Graph.lean)"]
    model_scope = "modelled: tools/bond_percolate.py in full"
    budgets = {"quick": 400, "thorough": 6000}
    search_budget = {"quick": 1500, "thorough": 10000}

    def gen(self, rng, i, tier):
        r = rng.random()
        if r < 0.25:
            m = rng.randint(1, 12)
            nodes = list(range(m + 1))
            c = rng.randrange(m + 1)
            edges = [[c, v] for v in nodes if v != c]
            shape = "star"
        elif r < 0.35:
            n = rng.randint(2, 12)
            nodes = list(range(n))
            edges = [[k, k + 1] for k in range(n - 1)] + ([[n - 1, 0]] if rng.random() < 0.5 and n > 2 else [])
            shape = "path-or-cycle"
        else:
            n = rng.randint(1, 30)
            nodes = list(range(n))
            rng.shuffle(nodes)
            p = rng.choice([0.0, 0.05, 0.15, 0.3])
            edges = [[a, b] for a in range(n) for b in range(a + 1, n) if rng.random() < p]
            if rng.random() < 0.1 and n:
                v = rng.randrange(n)
                edges.append([v, v])
            rng.shuffle(edges)
            shape = "random"
        q = rng.choice([4, 5, 10])
        pr = rng.random()
        phi = Fraction(0) if pr < 0.15 else Fraction(1) if pr < 0.3 else Fraction(rng.randint(0, q), q)
        draws = []
        for _ in edges:
            d = Fraction(rng.randint(0, q - 1), q) if rng.random() < 0.6 else Fraction(rng.randint(1, 2 * q - 1), 2 * q)
            draws.append(d)
        return {"nodes": nodes, "edges": edges, "phi": rs(phi), "draws": [rs(d) for d in draws], "shape": shape}

    def impl(self, case):
        import networkx as nx
        import random
        from gcmpy.tools.bond_percolate import bond_percolate
        g = nx.Graph()
        g.add_nodes_from(case["nodes"])
        g.add_edges_from([tuple(e) for e in case["edges"]])
        # the input carries data on vertices, edges and the graph itself: "untouched" includes all of it
        g.graph["name"] = "input"
        for k, v in enumerate(g.nodes()):
            g.nodes[v]["joint_degree"] = (k, 1)
        for k, (a, b) in enumerate(g.edges()):
            g.edges[a, b]["weight"] = k + 0.5
            g.edges[a, b]["topology"] = "2-clique"
        order = [list(e) for e in g.edges()]
        by_edge = {}
        for e, d in zip(case["edges"], case["draws"]):
            by_edge.setdefault(tuple(sorted(e)), d)
        seq = [Ex(by_edge[tuple(sorted(e))]) for e in order]
        used = []

        def fake_random():
            if len(used) >= len(seq):
                used.append(None)
                return Ex(Fraction(1, 2))
            used.append(seq[len(used)])
            return seq[len(used) - 1]
        import copy
        snap = lambda: copy.deepcopy((dict(g.graph), list(g.nodes(data=True)),
                                      sorted((tuple(sorted((a, b))), sorted(d.items())) for a, b, d in g.edges(data=True))))
        before = snap()
        with patched(random, "random", fake_random):
            S = bond_percolate(g, Ex(case["phi"]))
        after = snap()
        n = g.order()
        return {"S": rs(recover(S, n)), "is_float": isinstance(S, float), "n_draws": len(used), "edge_order": order,
                "draws_in_order": [rs(x) for x in seq], "input_untouched": before == after, "N": n}

    def request(self, case, obs):
        if "exc" in obs:
            return {"op": "c18", "nodes": case["nodes"], "edges": case["edges"], "phi": case["phi"], "draws": case["draws"]}
        return {"op": "c18", "nodes": case["nodes"], "edges": obs["edge_order"], "phi": case["phi"], "draws": obs["draws_in_order"]}

    def model(self, case, reply, obs):
        if "exc" in reply:
            return {"exc": reply["exc"]}
        return {"S": reply["S"]}

    def project(self, case, obs):
        if "exc" in obs:
            return {"exc": obs["exc"]}
        return {"S": obs["S"]}

    def oracle(self, case, obs):
        if "exc" in obs:
            return [f"raised: {obs['exc']}: {obs.get('msg', '')[:80]}"]
        f = []
        N = len(case["nodes"])
        S = Fraction(obs["S"])
        phi = Fraction(case["phi"])
        if not obs["input_untouched"]:
            f.append("input-mutated: the input graph was changed")
        if (S * N).denominator != 1 or not (Fraction(1, N) <= S <= 1):
            f.append(f"range: {S} is not a multiple of 1/{N} in [1/{N}, 1]")
        edges = obs["edge_order"]
        draws = [Fraction(d) for d in obs["draws_in_order"]]
        if obs["n_draws"] != len(edges):
            f.append(f"draws: {obs['n_draws']} uniform draws for {len(edges)} edges (one independent draw per edge expected)")
        keep = [e for e, d in zip(edges, draws) if d <= phi]
        want = Fraction(lcc_size(case["nodes"], keep), N)
        if S != want:
            f.append(f"kept-iff: result {S}, but keeping exactly the edges whose draw is <= phi gives {want}")
        if phi == 1 and S != Fraction(lcc_size(case["nodes"], edges), N):
            f.append("phi-one: not the largest-component fraction of the input")
        if phi == 0 and all(d > 0 for d in draws) and S != Fraction(1, N):
            f.append("phi-zero: not 1/N")
        if case["shape"] == "star" and len(edges) == N - 1:
            if S * N - 1 != sum(1 for d in draws if d <= phi):
                f.append("star: N*S-1 is not the number of retained edges")
        return f

    def nontrivial(self, case, obs):
        if "exc" in obs:
            return False
        phi = Fraction(case["phi"])
        ds = [Fraction(d) for d in obs["draws_in_order"]]
        return len(ds) >= 3 and any(d <= phi for d in ds) and any(d > phi for d in ds)

    def stats(self, case, obs, hist):
        hist["shape_" + case["shape"]] = hist.get("shape_" + case["shape"], 0) + 1
        phi = Fraction(case["phi"])
        hist["phi_0" if phi == 0 else "phi_1" if phi == 1 else "phi_mid"] = hist.get("phi_0" if phi == 0 else "phi_1" if phi == 1 else "phi_mid", 0) + 1
        if any(Fraction(d) == phi for d in case["draws"]):
            hist["draw_hits_phi_exactly"] = hist.get("draw_hits_phi_exactly", 0) + 1
        if not case["edges"]:
            hist["edgeless"] = hist.get("edgeless", 0) + 1

    def shrink(self, case):
        for i in range(len(case["edges"])):
            c = json.loads(json.dumps(case))
            del c["edges"][i]
            del c["draws"][i]
            c["shape"] = "random"
            yield c
        used = {v for e in case["edges"] for v in e}
        for v in case["nodes"]:
            if v not in used and len(case["nodes"]) > 1:
                c = json.loads(json.dumps(case))
                c["nodes"].remove(v)
                c["shape"] = "random"
                yield c
                break

    def fingerprint(self, case, obs, fails):
        return "C18/" + fails[0].split(":")[0]


PROP = C18()
