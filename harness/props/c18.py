"""C18 — bond percolation keeps each edge independently with probability phi."""
import json
from fractions import Fraction

from core.exact import Ex, rs, recover
from core.rng import SemanticRandom, installed
from core.runner import Prop


def lcc_size(nodes, edges):
    parent = {v: v for v in nodes}

    def find(x):
        while parent[x] != x:
            parent[x] = parent[parent[x]]
            x = parent[x]
        return x
    for a, b in edges:
        parent[find(a)] = find(b)
    cnt = {}
    for v in nodes:
        r = find(v)
        cnt[r] = cnt.get(r, 0) + 1
    return max(cnt.values()) if cnt else 0


def explore(run, phi):
    """exact law of `run` over its uniform draws, however many it makes and to whichever edge it attributes them: every call of
    random.random() is answered from [0, phi) ("low", probability phi) or from (phi, 1) ("high", probability 1 - phi); all answer
    sequences are explored depth first.  Returns {result: probability}."""
    lo = Ex(phi / 2) if phi > 0 else None
    hi = Ex((1 + phi) / 2) if phi < 1 else None
    law, stack, leaves = {}, [[]], 0
    while stack:
        prefix = stack.pop()
        calls = []

        def decide():
            i = len(calls)
            d = prefix[i] if i < len(prefix) else (0 if lo is not None else 1)
            calls.append(d)
            return lo if d == 0 else hi
        out = run(decide)
        leaves += 1
        w = Fraction(1)
        for d in calls:
            w *= phi if d == 0 else 1 - phi
        law[out] = law.get(out, 0) + w
        if lo is not None and hi is not None:
            for i in range(len(prefix), len(calls)):
                stack.append(calls[:i] + [1])
        if leaves > 5000:
            return None
    return law


def percolation_law(nodes, edges, phi):
    """brute force: every subset of the edges kept with probability phi^|kept| (1-phi)^|dropped|"""
    N, law = len(nodes), {}
    for mask in range(1 << len(edges)):
        keep = [e for i, e in enumerate(edges) if mask >> i & 1]
        w = phi ** len(keep) * (1 - phi) ** (len(edges) - len(keep))
        if w:
            S = Fraction(lcc_size(nodes, keep), N)
            law[S] = law.get(S, 0) + w
    return law


LAW_MAX_EDGES = 6


class C18(Prop):
    pid = "C18"
    rule = ("random graphs with 1-30 vertices (edgeless, disconnected, with self-loops), stars with 1-12 leaves, paths and cycles; "
            "multigraphs; phi in {0, 1} and on a rational grid; exact law over all outcomes of the draws on graphs of up to 6 edges; the float returned "
            "must be the quotient k/N itself; scripted uniform draws on a grid that both avoids and hits phi exactly; "
            "non-trivial = at least 3 edges of which some are kept and some dropped; distinct = distinct case")
    assumptions = ["random.random() is i.i.d. uniform on [0,1) (assumed; the check injects the draws)",
                   "networkx connected_components / Graph.copy / remove_edges_from set-level semantics (re-defined in Model/Graph.lean)"]
    model_scope = "modelled: tools/bond_percolate.py in full"
    budgets = {"quick": 400, "thorough": 20000}
    search_budget = {"quick": 1500, "thorough": 10000}

    def gen(self, rng, i, tier):
        c = self.gen0(rng, i, tier)
        if i % 7 == 6 and c["edges"] and c["shape"] != "star":
            # a multigraph: some bonds are doubled or tripled (each parallel bond is kept or dropped on its own)
            extra = []
            for e in c["edges"]:
                if e[0] != e[1] and rng.random() < 0.4:
                    extra += [list(e) if rng.random() < 0.5 else [e[1], e[0]]] * rng.randint(1, 2)
            c["edges"] += extra
            c["draws"] += [rs(Fraction(rng.randint(0, 9), 10)) for _ in extra]
            c["multi"] = True
            c["shape"] = "random"
        if i % 3 == 0 and len(c["edges"]) > LAW_MAX_EDGES:          # keep a third of the cases small enough for the exact law
            keep = set(rng.sample(range(len(c["edges"])), LAW_MAX_EDGES))
            c["edges"] = [e for k, e in enumerate(c["edges"]) if k in keep]
            c["draws"] = [d for k, d in enumerate(c["draws"]) if k in keep]
            c["shape"] = "random"
        return c

    def gen0(self, rng, i, tier):
        r = rng.random()
        if r < 0.25:
            m = rng.randint(1, 12)
            nodes = list(range(m + 1))
            c = rng.randrange(m + 1)
            edges = [[c, v] for v in nodes if v != c]
            shape = "star"
        elif r < 0.35:
            n = rng.randint(2, 12)
            nodes = list(range(n))
            edges = [[k, k + 1] for k in range(n - 1)] + ([[n - 1, 0]] if rng.random() < 0.5 and n > 2 else [])
            shape = "path-or-cycle"
        else:
            n = rng.randint(1, 30)
            nodes = list(range(n))
            rng.shuffle(nodes)
            p = rng.choice([0.0, 0.05, 0.15, 0.3])
            edges = [[a, b] for a in range(n) for b in range(a + 1, n) if rng.random() < p]
            if rng.random() < 0.1 and n:
                v = rng.randrange(n)
                edges.append([v, v])
            rng.shuffle(edges)
            shape = "random"
        q = rng.choice([4, 5, 10])
        pr = rng.random()
        phi = Fraction(0) if pr < 0.15 else Fraction(1) if pr < 0.3 else Fraction(rng.randint(0, q), q)
        draws = []
        for _ in edges:
            d = Fraction(rng.randint(0, q - 1), q) if rng.random() < 0.6 else Fraction(rng.randint(1, 2 * q - 1), 2 * q)
            draws.append(d)
        return {"nodes": nodes, "edges": edges, "phi": rs(phi), "draws": [rs(d) for d in draws], "shape": shape}

    def impl(self, case):
        import networkx as nx
        import random
        from gcmpy.tools.bond_percolate import bond_percolate
        multi = bool(case.get("multi"))
        g = nx.MultiGraph() if multi else nx.Graph()
        g.add_nodes_from(case["nodes"])
        g.add_edges_from([tuple(e) for e in case["edges"]])
        # the input carries data on vertices, edges and the graph itself: "untouched" includes all of it
        g.graph["name"] = "input"
        for k, v in enumerate(g.nodes()):
            g.nodes[v]["joint_degree"] = (k, 1)
        for k, e in enumerate(g.edges(keys=True) if multi else g.edges()):
            g.edges[e]["weight"] = k + 0.5
            g.edges[e]["topology"] = "2-clique"
        order = [list(e) for e in g.edges()]              # parallel edges of a multigraph are listed once each
        if multi:
            seq = [Ex(d) for d in case["draws"]][:len(order)] + [Ex(Fraction(1, 2))] * max(0, len(order) - len(case["draws"]))
        else:
            by_edge = {}
            for e, d in zip(case["edges"], case["draws"]):
                by_edge.setdefault(tuple(sorted(e)), d)
            seq = [Ex(by_edge[tuple(sorted(e))]) for e in order]
        class R(SemanticRandom):
            def __init__(self, decide=None):
                super().__init__()
                self.used, self.decide = [], decide

            def on_float(self, ctx):
                if self.decide is not None:
                    return self.decide()
                self.used.append(seq[len(self.used)] if len(self.used) < len(seq) else None)
                return self.used[-1] if self.used[-1] is not None else Ex(Fraction(1, 2))
        import copy
        snap = lambda: copy.deepcopy((dict(g.graph), list(g.nodes(data=True)),
                                      sorted((tuple(sorted((a, b))), sorted(d.items())) for a, b, d in g.edges(data=True)),
                                      type(g).__name__))
        before = snap()
        sem = R()
        with installed(sem):
            S = bond_percolate(g, Ex(case["phi"]))
        after = snap()
        n = g.order()
        obs = {"S": rs(recover(S, n)), "S_repr": repr(float(S)), "is_float": isinstance(S, float), "n_draws": len(sem.used), "edge_order": order,
               "draws_in_order": [rs(x) for x in seq], "input_untouched": before == after, "N": n,
               "rng_unexpected": sem.summary()["n_unexpected"]}
        if len(order) <= LAW_MAX_EDGES:
            phi = Fraction(case["phi"])

            other = {"n": 0}

            def run(decide):
                r = R(decide)
                with installed(r):
                    out = rs(recover(bond_percolate(g, Ex(case["phi"])), n))
                other["n"] += r.summary()["n_unexpected"]
                return out
            law = explore(run, phi)
            if other["n"]:
                law = None          # randomness drawn through something else than uniform numbers: this exploration says nothing
            obs["law"] = None if law is None else sorted([k, rs(v)] for k, v in law.items())
            obs["input_untouched"] = obs["input_untouched"] and snap() == before
        return obs

    def request(self, case, obs):
        if "exc" in obs:
            return {"op": "c18", "nodes": case["nodes"], "edges": case["edges"], "phi": case["phi"], "draws": case["draws"]}
        return {"op": "c18", "nodes": case["nodes"], "edges": obs["edge_order"], "phi": case["phi"], "draws": obs["draws_in_order"]}

    def model(self, case, reply, obs):
        if "exc" in reply:
            return {"exc": reply["exc"]}
        return {"S": reply["S"]}

    def project(self, case, obs):
        if "exc" in obs:
            return {"exc": obs["exc"]}
        return {"S": obs["S"]}

    def oracle(self, case, obs):
        if "exc" in obs:
            return [f"raised: {obs['exc']}: {obs.get('msg', '')[:80]}"]
        f = []
        N = len(case["nodes"])
        S = Fraction(obs["S"])
        phi = Fraction(case["phi"])
        if not obs["input_untouched"]:
            f.append("input-mutated: the input graph was changed")
        if (S * N).denominator != 1 or not (Fraction(1, N) <= S <= 1):
            f.append(f"range: {S} is not a multiple of 1/{N} in [1/{N}, 1]")
        edges = obs["edge_order"]
        draws = [Fraction(d) for d in obs["draws_in_order"]]
        # which draw decides which edge is the implementation's business (compared with the model, not demanded by the property):
        # the property is the LAW of the result, computed exactly below for small graphs by exploring every outcome of the draws
        if obs.get("law") is not None:
            got = {Fraction(k): Fraction(v) for k, v in obs["law"]}
            want = percolation_law(case["nodes"], [tuple(e) for e in edges], phi)
            if got != want:
                bad = sorted(set(got) | set(want), key=lambda k: (got.get(k) == want.get(k), k))[0]
                f.append(f"law: P(S = {bad}) = {got.get(bad, 0)}, independent retention with probability {phi} gives {want.get(bad, 0)}")
        if not f and "S_repr" in obs and (S * N).denominator == 1 and float(obs["S_repr"]) != int(S * N) / N:
            # "exact": the float returned is the quotient k/N itself (a connected graph at phi = 1 gives 1.0, not 0.9999999999999999)
            f.append(f"range: the value returned is {obs['S_repr']}, the largest component has {int(S * N)} of {N} vertices, i.e. {int(S * N) / N!r}")
        if phi == 1 and S != Fraction(lcc_size(case["nodes"], edges), N):
            f.append("phi-one: not the largest-component fraction of the input")
        if phi == 0 and all(d > 0 for d in draws) and S != Fraction(1, N):
            f.append("phi-zero: not 1/N")
        return f

    def nontrivial(self, case, obs):
        if "exc" in obs:
            return False
        phi = Fraction(case["phi"])
        ds = [Fraction(d) for d in obs["draws_in_order"]]
        return len(ds) >= 3 and any(d <= phi for d in ds) and any(d > phi for d in ds)

    def stats(self, case, obs, hist):
        hist["shape_" + case["shape"]] = hist.get("shape_" + case["shape"], 0) + 1
        phi = Fraction(case["phi"])
        hist["phi_0" if phi == 0 else "phi_1" if phi == 1 else "phi_mid"] = hist.get("phi_0" if phi == 0 else "phi_1" if phi == 1 else "phi_mid", 0) + 1
        if any(Fraction(d) == phi for d in case["draws"]):
            hist["draw_hits_phi_exactly"] = hist.get("draw_hits_phi_exactly", 0) + 1
        if not case["edges"]:
            hist["edgeless"] = hist.get("edgeless", 0) + 1

    def shrink(self, case):
        for i in range(len(case["edges"])):
            c = json.loads(json.dumps(case))
            del c["edges"][i]
            del c["draws"][i]
            c["shape"] = "random"
            yield c
        used = {v for e in case["edges"] for v in e}
        for v in case["nodes"]:
            if v not in used and len(case["nodes"]) > 1:
                c = json.loads(json.dumps(case))
                c["nodes"].remove(v)
                c["shape"] = "random"
                yield c
                break

    def fingerprint(self, case, obs, fails):
        return "C18/" + fails[0].split(":")[0]


PROP = C18()
