"""C04 — edge list <-> network conversion loses nothing."""
import collections
import json

from core.runner import Prop
from . import gen_common as gc


def norm(e):
    return (min(e), max(e))


def dec(t):
    """topology names are arbitrary objects for the conversion: strings, but also ints or tuples (JSON-safe encoding)"""
    if isinstance(t, str) and t.startswith("#int:"):
        return int(t[5:])
    if isinstance(t, str) and t.startswith("#tuple:"):
        return tuple(json.loads(t[7:]))
    return t


def enc(t):
    if isinstance(t, bool) or t is None:
        return t
    if isinstance(t, int):
        return f"#int:{t}"
    if isinstance(t, tuple):
        return "#tuple:" + json.dumps(list(t))
    return t


class C04(Prop):
    pid = "C04"
    rule = ("edge lists produced by the real fast generator on random handshake-consistent sequences (70%) and hand-built ones with "
            "repeated pairs in both orientations, self-loops, zero-degree rows and N=0 (30%); forward, reverse and forward-again "
            "conversions are all observed; the sequence as a list of tuples or an (N, T) integer array, edited in place between the two "
            "conversions in every fifth case; non-trivial = at least 3 distinct vertex pairs and a zero-degree vertex or a repeated pair or "
            "a self-loop; distinct = distinct edge list")
    assumptions = ["networkx 3.6 set-level semantics of add_nodes_from/add_edges_from/set_node_attributes/set_edge_attributes "
                   "(re-defined in Model/Network.lean, compared on every case)",
                   "for a pair that occurs in several rows the property does not say whose attributes win; the model follows the code and "
                   "the oracle checks attributes only on pairs that occur once"]
    model_scope = "modelled: edge_list_to_network.py, network_to_edge_list.py, edge_list.py, the nx.Graph calls they make"
    budgets = {"quick": 300, "thorough": 20000}
    search_budget = {"quick": 800, "thorough": 6000}

    def gen(self, rng, i, tier):
        c = self._gen(rng, i, tier)
        if i % 5 == 2:
            c["edit_between"] = True
        if i % 6 == 3 and c["jds"] and c["jds"][0]:
            c["jds_type"] = "numpy"        # the joint degree sequence is an (N, T) integer array; vertex annotations are its rows
        return c

    def _gen(self, rng, i, tier):
        if rng.random() < 0.7:
            case = gc.gen_fast_case(rng, small=rng.random() < 0.5)
            obs = gc.run_generator(case, "direct")
            return {"edges": obs["edges"], "topologies": obs["topologies"], "motif_id": obs["motif_id"],
                    "jds": case["jds"], "source": "generator"}
        N = rng.choice([0, 1, 2, 3, 5, 8, 12])
        T = rng.randint(1, 3)
        jds = [[rng.randint(0, 3) if rng.random() < 0.7 else 0 for _ in range(T)] for _ in range(N)]
        edges, tops, ids = [], [], []
        if N:
            for m in range(rng.randint(0, 14)):
                u, v = rng.randrange(N), rng.randrange(N)
                if rng.random() < 0.25 and edges:
                    u, v = rng.choice(edges)
                    if rng.random() < 0.5:
                        u, v = v, u
                edges.append([u, v])
                tops.append(rng.choice(["a", "b", "2-clique"]))
                ids.append(m if rng.random() < 0.8 else rng.randint(0, 3))
        if rng.random() < 0.3:
            # names that are not strings (motif sizes as ints, (size, colour) tuples): carried through unchanged, never stringified
            ren = {"a": "#int:2", "b": "#tuple:[3, 1]", "2-clique": "#int:3"}
            tops = [ren[t] for t in tops]
        return {"edges": edges, "topologies": tops, "motif_id": ids, "jds": jds, "source": "hand"}

    # ---- real code
    def _observe_net(self, G):
        from gcmpy.names.network_names import NetworkNames as NN
        return {"nodes": list(G.nodes()),
                "jd": {str(n): (list(G.nodes[n][NN.JOINT_DEGREE]) if NN.JOINT_DEGREE in G.nodes[n] else None)
                       for n in G.nodes()},
                "edges": sorted([list(norm(e)), enc(G.edges[e].get(NN.TOPOLOGY)), G.edges[e].get(NN.MOTIF_IDS)]
                                for e in G.edges()),
                "extra_node_attrs": sorted({k.name if hasattr(k, "name") else str(k) for n in G.nodes() for k in G.nodes[n]}),
                }

    def impl(self, case):
        from gcmpy.network.edge_list import LightWeightEdgeList
        from gcmpy.network.edge_list_to_network import EdgeListToNetwork
        from gcmpy.network.network_to_edge_list import NetworkToEdgeList
        el = LightWeightEdgeList()
        el.edge_list = [tuple(e) for e in case["edges"]]
        el.topologies = [dec(t) for t in case["topologies"]]
        el.motif_id = list(case["motif_id"])
        el.joint_degrees = [tuple(r) for r in case["jds"]]
        if case.get("jds_type") == "numpy":
            import numpy as np
            el.joint_degrees = np.array(case["jds"], dtype=np.int64)
        net = EdgeListToNetwork.convert(el)
        obs = {"net": self._observe_net(net.G)}
        obs["input_untouched"] = (el.edge_list == [tuple(e) for e in case["edges"]] and el.topologies == [dec(t) for t in case["topologies"]]
                                  and el.motif_id == case["motif_id"]
                                  and [[int(x) for x in r] for r in el.joint_degrees] == [list(r) for r in case["jds"]]
                                  and (case.get("jds_type") == "numpy" or all(isinstance(r, tuple) for r in el.joint_degrees)))
        if case.get("edit_between") and case.get("jds_type") != "numpy" and len(el.joint_degrees) >= 1:
            # the caller goes on using its sequence for something else (the library's own handshaking_lemma edits it in place):
            # the network was built from the sequence as it was, and converting back returns THAT sequence
            el.joint_degrees.reverse()
            el.joint_degrees[0] = tuple(x + 1 for x in el.joint_degrees[0])
        try:
            back = NetworkToEdgeList.convert(net)
            obs["back"] = {"edges": [list(e) for e in back.edge_list], "topologies": [enc(t) for t in back.topologies],
                           "motif_id": list(back.motif_id), "jds": [list(r) for r in back.joint_degrees]}
            again = EdgeListToNetwork.convert(back)
            obs["again"] = self._observe_net(again.G)
        except KeyError as e:
            obs["back"] = "KeyError"
            obs["again"] = None
        return obs

    def request(self, case, obs):
        return {"op": "c04", "edges": case["edges"], "topologies": case["topologies"], "motif_id": case["motif_id"],
                "jds": case["jds"]}

    @staticmethod
    def _mnet(n):
        if n is None:
            return None
        return {"nodes": n["nodes"], "jd": {str(k): v for k, v in n["jd"]}, "edges": sorted(n["edges"])}

    @staticmethod
    def _mask(case, rows):
        """the property pins the annotation of an edge only when its pair occurs once in the edge list: which of several
        entries annotates a repeated pair is incidental and is not compared between model and implementation"""
        pairs = collections.Counter(norm(e) for e in case["edges"])
        return sorted([list(e), "*", "*"] if pairs.get(tuple(e), 0) > 1 else [list(e), t, m] for e, t, m in rows)

    def model(self, case, reply, obs):
        back = reply["back"]
        if back != "KeyError":
            rows = sorted(zip([list(norm(e)) for e in back["edges"]], back["topologies"], back["motif_id"]))
            back = {"rows": self._mask(case, rows), "jds": back["jds"]}
        net, again = self._mnet(reply["net"]), self._mnet(reply["again"])
        for n in (net, again):
            if n is not None:
                n["edges"] = self._mask(case, n["edges"])
        return {"net": net, "back": back, "again": again}

    def project(self, case, obs):
        if "exc" in obs:
            return {"exc": obs["exc"]}

        def pn(n):
            if n is None:
                return None
            # node insertion order is compared as is for the forward conversion; jd None = attribute missing
            return {"nodes": n["nodes"], "jd": {k: v for k, v in n["jd"].items() if v is not None},
                    "edges": self._mask(case, n["edges"])}
        back = obs["back"]
        if back != "KeyError":
            rows = sorted(zip([list(norm(e)) for e in back["edges"]], back["topologies"], back["motif_id"]))
            back = {"rows": self._mask(case, rows), "jds": back["jds"]}
        again = pn(obs["again"])
        if again is not None:
            again["nodes"] = sorted(again["nodes"])
        return {"net": pn(obs["net"]), "back": back, "again": again}

    def compare_fix(self, m):
        return m

    def oracle(self, case, obs):
        if "exc" in obs:
            return [f"raised: {obs['exc']}: {obs.get('msg', '')[:80]}"]
        f = []
        N = len(case["jds"])
        in_range = all(0 <= x < N for e in case["edges"] for x in e)
        parallel = len(case["edges"]) == len(case["topologies"]) == len(case["motif_id"])
        if not (in_range and parallel):
            return f
        net = obs["net"]
        if sorted(net["nodes"]) != list(range(N)):
            f.append(f"zero-degree-vertex-missing: nodes {sorted(net['nodes'])[:12]} are not 0..{N - 1}")
        for v in range(N):
            if net["jd"].get(str(v)) != case["jds"][v]:
                f.append(f"node-annotation: vertex {v} carries {net['jd'].get(str(v))} instead of {case['jds'][v]}")
                break
        pairs = collections.Counter(norm(e) for e in case["edges"])
        got = {tuple(e[0]) for e in net["edges"]}
        if got != set(pairs):
            f.append("edge-set: network edges differ from the pairs occurring in the edge list")
        rows = {}
        for e, t, m in zip(case["edges"], case["topologies"], case["motif_id"]):
            rows.setdefault(norm(e), []).append((t, m))
        for e, t, m in net["edges"]:
            k = tuple(e)
            if pairs.get(k) == 1 and rows[k][0] != (t, m):
                f.append(f"edge-annotation: edge {k} carries {(t, m)} instead of {rows[k][0]}")
                break
        if not obs["input_untouched"]:
            f.append("input-mutated: the conversion changed the edge list it was given")
        back = obs["back"]
        if back == "KeyError":
            f.append("reverse-raises: converting the network back raised KeyError")
            return f
        if back["jds"] != case["jds"]:
            f.append("roundtrip-jds: joint degree sequence changed by the round trip")
        brow = sorted((norm(e), t, m) for e, t, m in zip(back["edges"], back["topologies"], back["motif_id"]))
        nrow = sorted((tuple(e), t, m) for e, t, m in net["edges"])
        if brow != nrow:
            f.append("roundtrip-edges: reverse conversion does not list the network's annotated edges")
        if all(c == 1 for c in pairs.values()):
            orig = sorted((norm(e), t, m) for e, t, m in zip(case["edges"], case["topologies"], case["motif_id"]))
            if brow != orig:
                f.append("roundtrip-edgelist: annotated edge set changed by the round trip")
        ag = obs["again"]
        if ag is None or sorted(ag["nodes"]) != sorted(net["nodes"]) or ag["jd"] != net["jd"] or ag["edges"] != net["edges"]:
            f.append("roundtrip-network: network -> edge list -> network is not the identity")
        return f

    def nontrivial(self, case, obs):
        pairs = collections.Counter(norm(e) for e in case["edges"])
        special = any(not any(r) for r in case["jds"]) or any(c > 1 for c in pairs.values()) or any(a == b for a, b in pairs)
        return len(pairs) >= 3 and special

    def stats(self, case, obs, hist):
        pairs = collections.Counter(norm(e) for e in case["edges"])
        hist["src_" + case.get("source", "?")] = hist.get("src_" + case.get("source", "?"), 0) + 1
        for name, cond in (("has_zero_degree_vertex", any(not any(r) for r in case["jds"])),
                           ("has_repeated_pair", any(c > 1 for c in pairs.values())),
                           ("has_self_loop", any(a == b for a, b in pairs)), ("N_is_0", not case["jds"])):
            if cond:
                hist[name] = hist.get(name, 0) + 1
        hist["rows_total"] = hist.get("rows_total", 0) + len(case["edges"])

    def shrink(self, case):
        n = len(case["edges"])
        for i in range(n):
            c = json.loads(json.dumps(case))
            for k in ("edges", "topologies", "motif_id"):
                del c[k][i]
            yield c
        N = len(case["jds"])
        if N and all(x < N - 1 for e in case["edges"] for x in e):
            c = json.loads(json.dumps(case))
            c["jds"].pop()
            yield c

    def fingerprint(self, case, obs, fails):
        return "C04/" + fails[0].split(":")[0]


PROP = C04()
