#!/bin/bash
# tools/collect_seed.sh Cxx [suffix] : collect patch + demo from /tmp/seeds/Cxx, confirm demo fails with / passes without the change
P=$1; S=${2:-}; WT=${SEEDROOT:-/tmp/seeds}/$P; OUT=/verif/seeded/$P$S
mkdir -p $OUT
git -C $WT diff -- gcmpy > $OUT/patch.diff
cp $WT/demo.py $OUT/demo.py || exit 3
[ -f $WT/REPORT.md ] && cp $WT/REPORT.md $OUT/REPORT.md || true
echo "--- patch"; cat $OUT/patch.diff | head -60
# confirm in a fresh scratch worktree
T=/tmp/confirm_$P$S; rm -rf $T; git -C /repo worktree add -q $T HEAD
cd $T
sed "s#$WT#$T#g" $OUT/demo.py > demo.py
echo "--- demo without change"; PYTHONPATH=$T timeout 600 /venv/bin/python demo.py > /tmp/confirm_$P$S.clean.txt 2>&1; echo "exit=$?"; tail -2 /tmp/confirm_$P$S.clean.txt
git apply $OUT/patch.diff
echo "--- demo with change"; PYTHONPATH=$T timeout 600 /venv/bin/python demo.py > /tmp/confirm_$P$S.mut.txt 2>&1; echo "exit=$?"; tail -3 /tmp/confirm_$P$S.mut.txt
cd /verif; git -C /repo worktree remove --force $T
