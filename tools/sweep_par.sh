#!/bin/bash
# tools/sweep_par.sh <tier> <jobs> <seed...> : like sweep.sh, but runs (seed, property) pairs in parallel; prints one line per run
cd /verif
TIER=$1; JOBS=$2; shift; shift
PROPS=$(python3 -c "import json;print(' '.join(c['property_id'] for c in json.load(open('MANIFEST.json'))['checks']))")
for s in "$@"; do for p in $PROPS; do echo "$s $p"; done; done | xargs -P $JOBS -L 1 bash -c '
  out=$(VERIF_SEED=$0 timeout 7000 /venv/bin/python harness/run.py --property $1 --tier '$TIER' 2>&1); rc=$?
  echo "seed=$0 $1 rc=$rc $(echo "$out" | grep -c "^VIOLATION") violations :: $(echo "$out" | tail -1 | cut -c1-170)"'
