#!/usr/bin/env python3
"""tools/confirm_harmless.py <holds-script-name> <patch-glob> [--jobs N] — confirm, in scratch worktrees of /repo, that every
harmless/Cxx patch matching the glob applies alone and that the property demonstration harmless/Cxx/<holds-script> exits 0 with
it (and on the unchanged tree)."""
import os, subprocess, sys
from concurrent.futures import ThreadPoolExecutor
from pathlib import Path
VERIF = Path(__file__).resolve().parents[1]
holds, glob = sys.argv[1], sys.argv[2]
jobs = int(sys.argv[sys.argv.index("--jobs") + 1]) if "--jobs" in sys.argv else 8


def run(item):
    d, patch = item
    wt = Path(f"/tmp/confirmh_{os.getpid()}_{d.name}_{patch.stem if patch else 'clean'}")
    subprocess.check_call(["git", "-C", "/repo", "worktree", "add", "-q", str(wt), "HEAD"])
    try:
        if patch is not None:
            r = subprocess.run(["git", "-C", str(wt), "apply", str(patch)], capture_output=True, text=True)
            if r.returncode:
                return f"{d.name}/{patch.name}: DOES NOT APPLY {r.stderr[:100]}"
        src = (d / holds).read_text().replace(f"/tmp/harmless3/{d.name}", str(wt)).replace(f"/tmp/harmless2/{d.name}", str(wt)).replace(f"/tmp/harmless/{d.name}", str(wt))
        (wt / holds).write_text(src)
        r = subprocess.run(["/venv/bin/python", "-W", "ignore", holds], cwd=wt, capture_output=True, text=True, timeout=1800,
                           env=dict(os.environ, PYTHONPATH=str(wt)))
        return f"{d.name}/{patch.name if patch else 'unchanged'}: {holds} exit={r.returncode}" + ("" if r.returncode == 0 else " " + (r.stdout + r.stderr)[-200:].replace("\n", " | "))
    finally:
        subprocess.run(["git", "-C", "/repo", "worktree", "remove", "--force", str(wt)])


items = []
for d in sorted((VERIF / "harmless").glob("C??")):
    if (d / holds).exists():
        items.append((d, None))
        items += [(d, p) for p in sorted(d.glob(glob))]
bad = 0
with ThreadPoolExecutor(jobs) as ex:
    for line in ex.map(run, items):
        print(line, flush=True)
        bad += "exit=0" not in line
print(f"{len(items)} runs, {bad} not ok")
sys.exit(1 if bad else 0)
