#!/usr/bin/env python3
"""tools/seed_meta.py <dir> <property> <needs> <caught_by> [note]  — write seeded/<dir>/meta.json"""
import json, sys, subprocess
from pathlib import Path
d, prop, needs, caught = sys.argv[1:5]
note = sys.argv[5] if len(sys.argv) > 5 else ""
out = Path("/verif/seeded") / d
meta = {"breaks_property": prop, "needs_to_manifest": needs,
        "confirmed": "demo.py exits 0 on the unchanged tree and 1 with patch.diff applied (tools/collect_seed.sh, fresh scratch worktree); "
                     "the sub-agent that wrote it ran the repository tests of the touched area with the change applied (all passed)",
        "checks_run": "python3 tools/try_patch.py seeded/%s/patch.diff <properties>" % d,
        "caught_by": caught, "note": note}
(out / "meta.json").write_text(json.dumps(meta, indent=1))
print(out / "meta.json")
