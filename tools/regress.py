#!/usr/bin/env python3
"""tools/regress.py [--jobs N] [--only seeded|harmless] — the regression of the checks themselves:
  * every seeded property-breaking change under seeded/<id>/patch.diff must make the quick check of the property it breaks
    exit 1 with a VIOLATION line;
  * every behaviour-preserving change under harmless/<Cxx>/harmlessN.diff should leave the quick checks of the properties
    anchored in the files it touches at exit 0 (a VIOLATION ... no-failing-input-found there is the accepted cost of a
    correspondence that no longer matches; a VIOLATION with a counterexample is a false alarm).
Each patch is applied in its own scratch worktree of /repo (tools/try_patch.py); /repo itself is never touched.
Writes .work/regress.json and prints one line per (patch, property)."""
import concurrent.futures as cf
import json, re, subprocess, sys
from pathlib import Path
VERIF = Path(__file__).resolve().parents[1]
jobs = int(sys.argv[sys.argv.index("--jobs") + 1]) if "--jobs" in sys.argv else 6
only = sys.argv[sys.argv.index("--only") + 1] if "--only" in sys.argv else None
props = [json.loads(l) for l in open(VERIF / "properties.jsonl")]


def anchored(files):
    return [p["id"] for p in props if any(any(f.endswith(a) or a.endswith(f) for a in p["anchors"]["files"]) for f in files)]


tasks = []
if only in (None, "seeded"):
    for d in sorted((VERIF / "seeded").glob("C*")):
        meta = json.loads((d / "meta.json").read_text())
        tasks.append(("seeded", d.name, d / "patch.diff", [meta["breaks_property"]]))
if only in (None, "harmless"):
    for d in sorted((VERIF / "harmless").glob("C??")):
        for patch in sorted(d.glob("harmless*.diff")):
            files = re.findall(r"^\+\+\+ b/(\S+)", patch.read_text(), re.M)
            tasks.append(("harmless", f"{d.name}/{patch.stem}", patch, sorted(set(anchored(files)) | {d.name})))


def run(t):
    kind, name, patch, pids = t
    r = subprocess.run(["python3", "tools/try_patch.py", str(patch)] + pids, cwd=VERIF, capture_output=True, text=True)
    out = []
    for l in r.stdout.split("\n"):
        m = re.match(r"(C\d\d): exit=(\d+) (.*)", l)
        if m:
            pid, rc, rest = m.group(1), int(m.group(2)), m.group(3)
            how = "counterexample" if "_counterexample_" in rest else "no-failing-input-found" if "no-failing-input-found" in rest else ""
            out.append({"kind": kind, "patch": name, "property": pid, "exit": rc, "how": how})
    if not out:
        out.append({"kind": kind, "patch": name, "property": "?", "exit": -1, "how": (r.stderr or r.stdout)[-200:]})
    return out


prev = []
if "--rerun-exit2" in sys.argv:
    # only what ended in a machinery error (exit 2, e.g. the Lean build was being changed underneath) in the previous run
    prev = json.loads((VERIF / ".work" / "regress.json").read_text())
    again = {(o["kind"], o["patch"]) for o in prev if o["exit"] not in (0, 1)}
    tasks = [t for t in tasks if (t[0], t[1]) in again]
    prev = [o for o in prev if (o["kind"], o["patch"]) not in again]
res = list(prev)
with cf.ThreadPoolExecutor(jobs) as ex:
    for out in ex.map(run, tasks):
        for o in out:
            if o["kind"] == "seeded":
                tag = "CAUGHT" if o["exit"] == 1 else "MISSED"
            else:
                tag = "quiet " if o["exit"] == 0 else ("FALSE-COUNTEREXAMPLE" if o["how"] == "counterexample" else "alarm(no-failing-input)")
            o["verdict"] = tag.strip()
            print(f"{tag:8s} {o['kind']:8s} {o['patch']:16s} {o['property']} exit={o['exit']} {o['how']}", flush=True)
            res.append(o)
(VERIF / ".work").mkdir(exist_ok=True)
(VERIF / ".work" / "regress.json").write_text(json.dumps(res, indent=1))
bad = [o for o in res if o["verdict"] in ("MISSED", "FALSE-COUNTEREXAMPLE") or o["exit"] not in (0, 1)]
print(f"{len(res)} runs, {len(bad)} need attention")
sys.exit(1 if bad else 0)
