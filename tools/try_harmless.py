#!/usr/bin/env python3
"""tools/try_harmless.py <dir-with-Cxx/harmlessN.diff> [Cxx ...] — apply each behaviour-preserving patch to a scratch worktree and run the
quick checks of every property anchored in a file the patch touches; a check that exits non-zero here is a false alarm (or a
'no-failing-input-found' report) to be examined."""
import json, os, re, subprocess, sys
from pathlib import Path
VERIF = Path(__file__).resolve().parents[1]
root = Path(sys.argv[1])
only = sys.argv[2:]
props = [json.loads(l) for l in open(VERIF / "properties.jsonl")]
def anchored(files):
    out = []
    for p in props:
        if any(any(f.endswith(a) or a.endswith(f) for a in p["anchors"]["files"]) for f in files):
            out.append(p["id"])
    return out
for d in sorted(root.glob("C??")):
    if only and d.name not in only:
        continue
    for patch in sorted(d.glob("harmless*.diff")):
        files = re.findall(r"^\+\+\+ b/(\S+)", patch.read_text(), re.M)
        pids = sorted(set(anchored(files)) | {d.name})
        r = subprocess.run(["python3", "tools/try_patch.py", str(patch)] + pids, cwd=VERIF, capture_output=True, text=True)
        for l in r.stdout.split("\n"):
            if re.match(r"C\d\d: exit=", l):
                tag = "ok  " if " exit=0" in l else "ALARM"
                print(f"{tag} {d.name}/{patch.name} {l[:230]}", flush=True)
        if r.returncode:
            print(f"ERR  {d.name}/{patch.name}: {r.stderr.strip()[-300:]}", flush=True)
