#!/bin/bash
# tools/sweep.sh <tier> <seed...> : run every claimed check for each seed on the current tree; print non-zero exits
cd /verif
TIER=$1; shift
for s in "$@"; do
  for p in $(python3 -c "import json;print(' '.join(c['property_id'] for c in json.load(open('MANIFEST.json'))['checks']))"); do
    out=$(VERIF_SEED=$s timeout 7000 /venv/bin/python harness/run.py --property $p --tier $TIER 2>&1); rc=$?
    echo "seed=$s $p rc=$rc $(echo "$out" | grep -c '^VIOLATION') violations :: $(echo "$out" | tail -1 | cut -c1-170)"
  done
done
