#!/usr/bin/env python3
"""Regenerates MANIFEST.json from the claim table below (kept in one place so it stays valid)."""
import json
import os
from pathlib import Path

VERIF = Path(__file__).resolve().parents[1]
ids = [json.loads(l)["id"] for l in open(VERIF / "properties.jsonl")]

TB = ("Trusted: Lean 4.33 kernel with axioms propext/Classical.choice/Quot.sound only (audited per theorem on every run); "
      "the hand-written model is tied to the code by the correspondence harness (Python, /verif/harness) which runs model and real code "
      "on the same inputs and draws; ")

CLAIMS = {
 "C01": ("For every list of randbelow draws and arbitrary build callbacks, the model of the fast generator emits exactly colsum_k/size_k "
         "motif records per topology, each built from size_k stubs by the callback, with every vertex occupying exactly jds[v][k] slots, all "
         "vertices < N and jds carried through (fast_motif_count, fast_group_size, fast_build_applied, fast_slots, fast_vertices_in_range, "
         "fast_jds_carried, fast_edges_are_callback_results). The custom-motif generator is modelled executably (pop-based) and compared with the "
         "code; its slot theorem is not yet proved (custom: jds carried, build applied, ids). Network/factory/main paths are tied by running all "
         "construction paths on the same draws.",
         TB + "CPython random.shuffle body executed for real on scripted randbelow; callbacks arbitrary; custom-generator slot counts are checked by the oracle only."),
 "C02": ("For every motif list and arbitrary callbacks the three columns have equal length and the zipped rows are, motif after motif, exactly the "
         "callback's edges tagged with the prescribed name and the motif's id (fast_rows, fast_id_group, custom_rows under the naming contract), ids are "
         "the running counter hence distinct (fast_ids_distinct, custom_ids); bare-edge, one-edge and two-edge motifs as corollaries.",
         TB + "naming callbacks return as many names as edges (contract NamesOk, hypothesis of custom_rows)."),
 "C03": ("Fisher-Yates as transcribed from CPython is a bijection between the n! valid draw sequences and the arrangements of a duplicate-free list "
         "(shuffle_bijective, each_arrangement_once, length_validDraws), commutes with relabelling (shuffle_map, shuffled_is_unlabelled), reaches every "
         "arrangement of any list (every_arrangement_reachable) and is a product bijection across topologies (product_bijective); hence exact uniformity "
         "given uniform independent randbelow. The correspondence enumerates the whole draw space of small sequences through the real generator.",
         TB + "uniformity and independence of randbelow are assumed (no theorem or test about the PRNG)."),
 "C20": ("Refinement theorem: for every operation history the DrawSet model's invariant holds and its members are exactly those of a plain set "
         "(run_refines; corollaries for len, iteration once each, membership, no-op re-insert, draws are members and surjective, absent removal raises). "
         "The model transcribes draw_set.py statement by statement and is executed against the real class on the same histories (state compared after every operation).",
         TB + "CPython random.choice body executed on scripted randbelow; uniformity of randbelow assumed."),
 "C04": ("Theorems about the model of both conversions (proved for every edge list with in-range vertices and parallel columns, zero-degree rows, self-loops and "
         "repeated pairs included): node set is exactly 0..N-1 and annotated (nodes_exact, node_annotated), an edge exists iff its pair occurs (edge_iff_pair_occurs, "
         "edge_keys_nodup), a pair that occurs once carries that row's name and id (attrs_of_unique_pair), both round trips (roundtrip_edgelist, roundtrip_jds, "
         "roundtrip_network) and the KeyError branch (reverse_keyerror).",
         TB + "networkx add_nodes_from/add_edges_from/set_node_attributes/set_edge_attributes semantics are re-defined in Model/Network.lean and compared on every case."),
 "C05": ("For every pick sequence, sizes and rectangular sequence the handshake patch preserves length, never removes, makes every column divisible, adds exactly "
         "(size - s mod size) mod size < size stubs per column, which is minimal among all pointwise-larger divisible sequences, is a no-op for size 1, consumes exactly "
         "that many picks, and the draw is handed the distribution's keys and weights aligned (length_preserved, never_removes, divisible_after, added_exact, added_lt_size, "
         "added_minimal, size_one_noop, picks_consumed, sample_call_aligned).",
         TB + "random.choices / random.randrange are assumed to draw as documented (only their arguments are checked); tuple-ness of entries is checked by the oracle on the real objects."),
 "C06": ("Value/support/normalisation theorems for every deterministic loader over exact rationals: empirical_freq, empirical_sums_one, marginal_direct_value/support/sums_one/"
         "nonneg/zero (error branch), sampled_calls_aligned + marginal_sampled_is_empirical, function_value/support, load_eq_direct_*. The many-samples limit of sampling "
         "mode is proved as a CONDITIONAL theorem (marginal_sampled_limit: if the column frequencies converge to the normalised marginals and the columns are asymptotically "
         "independent — the law-of-large-numbers facts about random.choices, which stay assumptions — every table entry converges to the product law on the inclusive box; "
         "the hypotheses are shown satisfiable by an example).",
         TB + "weights are exact rationals (the real code runs on an exact number type); random.choices assumed to draw in proportion to the weights."),
 "C07": ("validSplits enumerates exactly the joint degrees with edgesOf = k, each once (validSplits_sound/complete/nodup); for the split loader the mass of each degree class is "
         "fp k / S, within a class mass is proportional to the split weight, the table sums to 1 and its support is exact (split_class_mass, split_within_class, split_sums_one, "
         "split_support); delta loader: delta_off_target, delta_on_target, delta_target_outside_range, delta_sums_one; ZeroDivisionError branch characterised (resolve_error_iff).",
         TB + "weights are exact rationals (the real code runs on an exact number type)."),
 "C08": ("For every cover over vertices numbered contiguously from 0 or 1: reported sizes are exactly the occurring sizes ascending (motif_sizes_spec), no IndexError and the surviving "
         "columns are those sizes in order (cover_columns, coverJds_eq), entries are per-vertex clique counts (cover_counts), the table is their empirical distribution (cover_jdd), "
         "and column sums are size times the number of cliques of that size (cover_handshake) so the generators' handshake holds.",
         TB + "frequencies are recovered as exact rationals from the int/int floats."),
 "C13": ("For every annotated network (uniform tuple length, annotated end points) each matrix entry is exactly the fraction of that topology's edge ends with own excess a and partner excess b (ejk_value), hence symmetric, summing to 1 and with the stated row sums (ejk_symmetric, ejk_sums_one, ejk_row_sums); every one of any number of successive get_ejks() calls returns the first call's matrices (get_ejks_repeatable, get_ejks_state_independent; second_call_halves is the kernel-checked witness of the pinned behaviour); key halves are listed (excess_keys_cover, split_keys_spec); the overall-degree variant obeys the same law (overall_value/symmetric/sums_one).",
         TB + "float accumulations of 1/E and 0.5/E are mapped back to exact rationals with denominator 2E before comparison."),
 "C14": ("average_value, excess_value/support/sums_one/error_iff, invert_single_value, invert_of_excess and the main theorem invert_excess / invert_excess_nonneg: for every admissible common key and every list of distinct names the inversion returns P conditioned on k != 0; row_sums_are_excess / row_sums_over_matrix and, for ANY hand-made matrix with distinct 2T-tuple keys over the key list the code computes for itself, row_sums_any_matrix (Properties/C14Matrix.lean); jdd_from_network_value/sums_one. A proof-forced hypothesis (total mass of non-zero keys != 0) is shown necessary by a kernel-checked counterexample with a negative mass.",
         TB + "the static functions run on an exact rational number type; the common key picked by the code is passed to the model, the theorem shows the result does not depend on it."),
 "C18": ("kept_iff / kept_list_form (each edge's fate depends on its own draw only), phi_one_exact, phi_zero (for draws > 0), multiple_of_inv_N, empty_graph_raises, star_counts_kept "
         "(N*S-1 = number of retained edges on a star), on top of a proved specification of the executable reachability (Lemmas/Reach: mem_comp_iff, fuel |V| suffices).",
         TB + "random.random() assumed i.i.d. uniform; networkx component semantics re-defined in Model/Graph.lean and compared per case."),
 "C09": ("For the relational model (a step may pick ANY non-zero-score clique, so every tie-break of the heuristic is covered): an invariant (cover members are cliques of the input of size 2..m0, pairwise edge-disjoint, input edges = working graph + covered pairs) is proved for init and every step (inv_init, inv_step) and yields cover_cliques, cover_exact, cover_exact_count, cover_disjoint, working_graph_empty, progress, run_terminates/run_exists, isolated_maximal_intact, candidates_subset; maximal cliques are a brute-force definition with a proved specification (mem_maximalCliques_iff, lmc_spec).",
         TB + "nx.find_cliques is assumed to return exactly the maximal cliques (compared per instance through limited_maximal_cliques); the picks actually made by the code are replayed in the model, which checks each against its step relation."),
 "C10": ("For every simple graph, every size limit 0 or >= 2 and every clique list satisfying the contract of enumerate_all_cliques in ANY order: sortDesc is a stable descending sort, accepted cliques are cliques within the limit and pairwise edge-disjoint, every edge lies in exactly one of them and carries exactly its label (size = member count, members, id = position), all pairs of an accepted clique carry its label, ids are unique, the graph is unchanged, and the cover is greedy-maximal (greedy_maximal); order_irrelevant lifts all of it to every shuffle outcome.",
         TB + "nx.enumerate_all_cliques contract validated per instance against the brute-force allCliques of the model; the shuffle is the stdlib Fisher-Yates run on scripted draws."),
 "C15": ("automated_exact: for EVERY finite simple motif (no connectedness or size hypothesis), every root and every commutative ring (hence as an identity of polynomials in phi and the u's) the model of automated_equation equals the exact expectation over independent edge occupation of the product of u over the other vertices of the root's component; built from connectedSubgraphs_spec (the backtracking lists each connected vertex set containing the root exactly once, fuel |V| suffices, the size cut-off is irrelevant), edgeCombinations_spec and the finset identity Perc.exactE_eq_autoE. value_independent_of_history / history_values_exact: for every sequence of calls on one evaluator each value equals the fresh value (caches hold structure only); a kernel-checked counterexample shows why distinct names are required.",
         TB + "the real evaluator runs on exact polynomial arguments and is compared coefficient by coefficient; networkx set-level semantics re-defined in Model/Graph.lean."),
 "C16": ("FULL. omega_closed; nocg_spec and QQ_spec (the brute-force counters count exactly the edge subsets whose deletion / retention leaves the graph connected, all n, k, substrates); "
         "Q_eq_connCount: for EVERY n >= 1 and k the recursive counter Q(n,k), including its Cayley shortcut, equals the number of connected labelled graphs — from Qgen_eq_connCount (the "
         "Harary-Palmer classification of all graphs by the component of a fixed vertex, Lemmas/HararyPalmer.lean) and cayley (Cayley's formula for the brute-force counter, proved by a "
         "rooted-forest recursion, Lemmas/Cayley.lean); Q_eq_QQ (recursive = brute-force implementation, all n, k); cycle_exact: for EVERY n >= 3 the chordless-cycle closed form equals the "
         "automated equation on C_n; clique_exact: for EVERY tau >= 1 the clique closed form equals the automated equation on K_tau (automated_clique + Q_eq_connCount); by C15 both closed forms "
         "are the exact bond-percolation expectation over any commutative ring. The harness additionally compares the real functions as polynomial identities for tau <= 7, n <= 12 and Q rows to n = 14.",
         TB + "lru_cache assumed transparent; the equations run on exact polynomial arguments."),
 "C17": ("message_is_expectation (every update is the exact expectation of its motif, from C15), neighbour_product_is_other_motifs (under a consistent cover whose motifs pairwise share at most one vertex), theoretical_formula, range (result and every message in [0,1] for every sweep count), zero_at_zero (iterations >= 1; kernel-checked that 0 sweeps gives a non-zero value), monotone (for EVERY iteration count, by induction over the individual in-place updates using Perc.exactE_antitone), fixed_point_stable, history_independent. Over the reals (Properties/C17Limit.lean): sweep_continuous, limit_is_fixed_point / limit_table_fixed (IF the iteration from the uniform 0.5 start converges, its limit is a table fixed by the sweep, entry-wise and as a table), value_converges (the reported value converges to the value at that fixed point), cast_theoretical / rational_run_limit (the rational model is the real one), converges_at_zero. PARTIAL: that the iteration DOES converge within the default 25 sweeps (converges_full) is analysis with no general rate and is not proved; the harness compares 1-3 sweeps exactly and the default 25 sweeps in double precision to 1e-9. Label accessors (Properties/C17Label.lean on Model/LabelParse.lean: split / int / literal_eval on the documented grammar): topology_of_format, id_of_format, vertices_of_format, edges_of_format for every key, member list, edge list and id; fmtLabel_injective.",
         TB + "the model is handed the label strings stored in the graph and parses them with its model of the mixin's accessors, which is compared with the real accessors on every label, on other spellings and on malformed labels; int / literal_eval are modelled on the grammar of the documented labels only (signs, underscores, floats, strings, deeper nesting are outside); Python floats are outside the model except for the bit-exact comparison of the 25-sweep run to 1e-9."),
 "C19": ("About the real-number functions the code computes: expo_nonneg/expo_hasSum_one, pois_nonneg/pois_hasSum_one, both truncation loops terminate in the documented parameter range (and the zeta loop provably does not for alpha <= 0), zeta_tail_bound (0 < zeta - C <= K*tol), powerLaw_close / powerLaw_sum (relative error K*tol), polylog_tail_bound, cutoff_close / cutoff_sum (relative error tol/(1-z)); zetaLoop_spec / polylogLoop_spec tie the executable rational loops of Model/Distributions.lean to these definitions. PARTIAL by nature: floating-point rounding and numpy.exp are outside the model and are covered only numerically (60-digit reference, relative 1e-9 plus the proved bound).",
         TB + "numerical comparison with tolerances is used for this property only; for integer alpha the truncated normaliser and its stopping index are compared with the executable Lean model."),
 "C11": ("One-step theorems for the model of a proposal (corner lists validated as sets, suitability with the repaired membership clause, application of an accepted swap), lifted to every history by steps_invariant: vertex set and annotations untouched (nodes_preserved), WF preserved incl. no self-loop and no collapsed duplicate (wf_preserved, no_self_loop_created, incoming_vertex_outside_motif), edge_count_preserved, topology_degrees_preserved, suitable_applies (no 'edge already present' error). Motif shape: KNOWN FINDING, not repaired (DESIGN 0.2): known_finding_ids_exchanged is the kernel-checked witness that the code as written exchanges the motif ids of the swapped corners; fixed_step_preserves_shape proves that the intended assignment maps each motif's edge set by the substitution u0 -> v0, injective on the motif's vertices. The check prints KNOWN-FINDING for exactly that signature and reports any other shape violation. The whole of rewire() is modelled as well (Model/Rewire.lean: both while-loops, limits and counters, the drawable edge set driven by the same add/remove calls on the C20 model): rewire_steps derives the hypothesis of the one-step theorems from the loop's own tests, so rewire_invariants (vertices, annotations, edge count, topology degrees, simple graph) holds of what rewire() returns for every script of draws, any limits, both attribute assignments; rewire_sync (drawable set = edge set), rewire_no_internal_error, rewire_done_count (limit + 1 accepted swaps), rewire_count_accepts.",
         TB + "networkx edge-iteration order is not modelled (corner lists are validated inputs of the model), nor logging and the acceptance-ratio list; every swap_condition call of a run is captured with the graph before it and replayed in the model, and the whole loop is replayed from the recorded draws, get_all_edges results and per-proposal uniform numbers (trace, accepted count, way of ending, final graph compared); constructor defaults are checked by the harness only."),
 "C12": ("created_edges_allowed / created_edges_positive: an accepted proposal only creates pairings whose target entries exist and are non-zero (positive under a non-negative target) — for every topology, every corner size; ratio_is_metropolis (top/bottom is the product of created weights over removed weights and exceeds the uniform draw), numerator_ne_zero, no_divide_by_zero (under 'existing edges keep non-zero weight'; a kernel-checked witness shows the hypothesis is needed), detailed_balance. Lifted to the whole function (Properties/C12Loop.lean on the loop model Model/Rewire.lean): rewire_created_edges_allowed / rewire_created_edges_positive — every entry of the edge table rewire() returns is an entry of the input's table or joins a pairing with non-zero (positive, under a non-negative target) target weight, for every script of draws, any limits, both attribute assignments. PARTIAL: approaches_target_full (distance to a full-support target decreases) is a statement about a random process and is not proved.",
         TB + "the uniform draw is injected; target weights are exact rationals; convergence is not decided."),
}

NOT_YET = "not yet built in this revision (model, theorems and correspondence check are planned in DESIGN.md §6; the technique applies)"


def check(pid):
    text, note = CLAIMS[pid]
    return {
        "property_id": pid,
        "quick_cmd": f"/venv/bin/python harness/run.py --property {pid} --tier quick",
        "thorough_cmd": f"/venv/bin/python harness/run.py --property {pid} --tier thorough",
        "evidence_file": f"evidence/{pid}.json",
        "replay_cmd_template": f"/venv/bin/python harness/run.py --property {pid} --replay {{path}}",
        "engine": "lean4-model+correspondence",
        "level_claimed": {"category": "proof", "text": text, "design_ref": f"DESIGN.md §6 {pid}"},
        "level_note": note,
        "technique": "Lean 4 machine-checked theorems about a hand-written executable model + differential correspondence check of model vs real code",
    }


m = {
    "version": 1,
    "setup_cmd": "cd lean && lake build",
    "hooks": {"guard": "GCMPY_VERIF",
              "enable": "no hooks: the harness observes the real code in-process by standing in for the public functions of the `random` module (harness/core/rng.py, every use is read as uniform / weighted / permutation / float events) and by wrapping two public methods when they exist (EECC.compute_scores, MarkovChainMonteCarloRewiring.swap_condition); nothing is added to /repo",
              "baseline_off_cmd": "cd /repo && /venv/bin/python -m pytest -ra -q -p no:cacheprovider --timeout=900 --continue-on-collection-errors",
              "source_commits": [], "add_only": True},
    "engines": [{"name": "lean4-model+correspondence", "path": "lean/ + harness/", "serves_properties": sorted(CLAIMS),
                 "kind_free_text": "Lean 4 model and theorems (lean/GcmpyModel), native line-protocol driver, Python correspondence harness with scripted randomness and exact arithmetic"}],
    "checks": [check(p) for p in ids if p in CLAIMS],
    "notes": "Properties move from not_applicable to checks as their model, theorems and correspondence land. Known findings: known_findings.json.",
    "not_applicable": [{"property_id": p, "reason": NOT_YET} for p in ids if p not in CLAIMS],
}
json.dump(m, open(VERIF / "MANIFEST.json", "w"), indent=1)
print("claimed:", sorted(CLAIMS))
