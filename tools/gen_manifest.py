#!/usr/bin/env python3
"""Regenerates MANIFEST.json from the claim table below (kept in one place so it stays valid)."""
import json
import os
from pathlib import Path

VERIF = Path(__file__).resolve().parents[1]
ids = [json.loads(l)["id"] for l in open(VERIF / "properties.jsonl")]

TB = ("Trusted: Lean 4.33 kernel with axioms propext/Classical.choice/Quot.sound only (audited per theorem on every run); "
      "the hand-written model is tied to the code by the correspondence harness (Python, /verif/harness) which runs model and real code "
      "on the same inputs and draws; ")

CLAIMS = {
 "C01": ("For every list of randbelow draws and arbitrary build callbacks, the model of the fast generator emits exactly colsum_k/size_k "
         "motif records per topology, each built from size_k stubs by the callback, with every vertex occupying exactly jds[v][k] slots, all "
         "vertices < N and jds carried through (fast_motif_count, fast_group_size, fast_build_applied, fast_slots, fast_vertices_in_range, "
         "fast_jds_carried, fast_edges_are_callback_results). The custom-motif generator is modelled executably (pop-based) and compared with the "
         "code; its slot theorem is not yet proved (custom: jds carried, build applied, ids). Network/factory/main paths are tied by running all "
         "construction paths on the same draws.",
         TB + "CPython random.shuffle body executed for real on scripted randbelow; callbacks arbitrary; custom-generator slot counts are checked by the oracle only."),
 "C02": ("For every motif list and arbitrary callbacks the three columns have equal length and the zipped rows are, motif after motif, exactly the "
         "callback's edges tagged with the prescribed name and the motif's id (fast_rows, fast_id_group, custom_rows under the naming contract), ids are "
         "the running counter hence distinct (fast_ids_distinct, custom_ids); bare-edge, one-edge and two-edge motifs as corollaries.",
         TB + "naming callbacks return as many names as edges (contract NamesOk, hypothesis of custom_rows)."),
 "C03": ("Fisher-Yates as transcribed from CPython is a bijection between the n! valid draw sequences and the arrangements of a duplicate-free list "
         "(shuffle_bijective, each_arrangement_once, length_validDraws), commutes with relabelling (shuffle_map, shuffled_is_unlabelled), reaches every "
         "arrangement of any list (every_arrangement_reachable) and is a product bijection across topologies (product_bijective); hence exact uniformity "
         "given uniform independent randbelow. The correspondence enumerates the whole draw space of small sequences through the real generator.",
         TB + "uniformity and independence of randbelow are assumed (no theorem or test about the PRNG)."),
 "C20": ("Refinement theorem: for every operation history the DrawSet model's invariant holds and its members are exactly those of a plain set "
         "(run_refines; corollaries for len, iteration once each, membership, no-op re-insert, draws are members and surjective, absent removal raises). "
         "The model transcribes draw_set.py statement by statement and is executed against the real class on the same histories (state compared after every operation).",
         TB + "CPython random.choice body executed on scripted randbelow; uniformity of randbelow assumed."),
 "C04": ("Theorems about the model of both conversions (proved for every edge list with in-range vertices and parallel columns, zero-degree rows, self-loops and "
         "repeated pairs included): node set is exactly 0..N-1 and annotated (nodes_exact, node_annotated), an edge exists iff its pair occurs (edge_iff_pair_occurs, "
         "edge_keys_nodup), a pair that occurs once carries that row's name and id (attrs_of_unique_pair), both round trips (roundtrip_edgelist, roundtrip_jds, "
         "roundtrip_network) and the KeyError branch (reverse_keyerror).",
         TB + "networkx add_nodes_from/add_edges_from/set_node_attributes/set_edge_attributes semantics are re-defined in Model/Network.lean and compared on every case."),
 "C05": ("For every pick sequence, sizes and rectangular sequence the handshake patch preserves length, never removes, makes every column divisible, adds exactly "
         "(size - s mod size) mod size < size stubs per column, which is minimal among all pointwise-larger divisible sequences, is a no-op for size 1, consumes exactly "
         "that many picks, and the draw is handed the distribution's keys and weights aligned (length_preserved, never_removes, divisible_after, added_exact, added_lt_size, "
         "added_minimal, size_one_noop, picks_consumed, sample_call_aligned).",
         TB + "random.choices / random.randrange are assumed to draw as documented (only their arguments are checked); tuple-ness of entries is checked by the oracle on the real objects."),
 "C06": ("Value/support/normalisation theorems for every deterministic loader over exact rationals: empirical_freq, empirical_sums_one, marginal_direct_value/support/sums_one/"
         "nonneg/zero (error branch), sampled_calls_aligned + marginal_sampled_is_empirical, function_value/support, load_eq_direct_*. PARTIAL: the many-samples limit of sampling "
         "mode is kept as the unproved statement marginal_sampled_limit_full (no executable model exhibits a limit).",
         TB + "weights are exact rationals (the real code runs on an exact number type); random.choices assumed to draw in proportion to the weights."),
 "C07": ("validSplits enumerates exactly the joint degrees with edgesOf = k, each once (validSplits_sound/complete/nodup); for the split loader the mass of each degree class is "
         "fp k / S, within a class mass is proportional to the split weight, the table sums to 1 and its support is exact (split_class_mass, split_within_class, split_sums_one, "
         "split_support); delta loader: delta_off_target, delta_on_target, delta_target_outside_range, delta_sums_one; ZeroDivisionError branch characterised (resolve_error_iff).",
         TB + "weights are exact rationals (the real code runs on an exact number type)."),
 "C08": ("For every cover over vertices numbered contiguously from 0 or 1: reported sizes are exactly the occurring sizes ascending (motif_sizes_spec), no IndexError and the surviving "
         "columns are those sizes in order (cover_columns, coverJds_eq), entries are per-vertex clique counts (cover_counts), the table is their empirical distribution (cover_jdd), "
         "and column sums are size times the number of cliques of that size (cover_handshake) so the generators' handshake holds.",
         TB + "frequencies are recovered as exact rationals from the int/int floats."),
 "C13": ("Model of the (repaired) extractor with its persistent counter; correspondence compares every matrix entry as an exact rational over 1-4 successive calls. Theorems (Properties/C13.lean) "
         "are listed in the evidence file on every run.",
         TB + "float accumulations are mapped back to exact rationals with denominator 2E."),
 "C14": ("Model of all static conversion functions over exact rationals, compared entry by entry with the real functions run on an exact number type, including the inversion with the code's "
         "own choice of common key. Theorems (Properties/C14.lean) are listed in the evidence file on every run.",
         TB + "the arbitrary common key is read from the code's own expression and passed to the model."),
 "C18": ("kept_iff / kept_list_form (each edge's fate depends on its own draw only), phi_one_exact, phi_zero (for draws > 0), multiple_of_inv_N, empty_graph_raises, star_counts_kept "
         "(N*S-1 = number of retained edges on a star), on top of a proved specification of the executable reachability (Lemmas/Reach: mem_comp_iff, fuel |V| suffices).",
         TB + "random.random() assumed i.i.d. uniform; networkx component semantics re-defined in Model/Graph.lean and compared per case."),
}

NOT_YET = "not yet built in this revision (model, theorems and correspondence check are planned in DESIGN.md §6; the technique applies)"


def check(pid):
    text, note = CLAIMS[pid]
    return {
        "property_id": pid,
        "quick_cmd": f"/venv/bin/python harness/run.py --property {pid} --tier quick",
        "thorough_cmd": f"/venv/bin/python harness/run.py --property {pid} --tier thorough",
        "evidence_file": f"evidence/{pid}.json",
        "replay_cmd_template": f"/venv/bin/python harness/run.py --property {pid} --replay {{path}}",
        "engine": "lean4-model+correspondence",
        "level_claimed": {"category": "proof", "text": text, "design_ref": f"DESIGN.md §6 {pid}"},
        "level_note": note,
        "technique": "Lean 4 machine-checked theorems about a hand-written executable model + differential correspondence check of model vs real code",
    }


m = {
    "version": 1,
    "setup_cmd": "cd lean && lake build",
    "hooks": {"guard": "GCMPY_VERIF",
              "enable": "no hooks: the harness observes the real code in-process by replacing module attributes (random.*, eecc.choice, mpcc.shuffle) and wrapping methods; nothing is compiled into /repo",
              "baseline_off_cmd": "cd /repo && /venv/bin/python -m pytest -ra -q -p no:cacheprovider --timeout=900 --continue-on-collection-errors",
              "source_commits": [], "add_only": True},
    "engines": [{"name": "lean4-model+correspondence", "path": "lean/ + harness/", "serves_properties": sorted(CLAIMS),
                 "kind_free_text": "Lean 4 model and theorems (lean/GcmpyModel), native line-protocol driver, Python correspondence harness with scripted randomness and exact arithmetic"}],
    "checks": [check(p) for p in ids if p in CLAIMS],
    "notes": "Properties move from not_applicable to checks as their model, theorems and correspondence land. Known findings: known_findings.json.",
    "not_applicable": [{"property_id": p, "reason": NOT_YET} for p in ids if p not in CLAIMS],
}
json.dump(m, open(VERIF / "MANIFEST.json", "w"), indent=1)
print("claimed:", sorted(CLAIMS))
