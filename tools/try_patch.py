#!/usr/bin/env python3
"""tools/try_patch.py <patch.diff> [Cxx ...]  — apply a seeded change to /repo, run the quick checks, undo it.
Prints one line per property: exit code and the VIOLATION / KNOWN-FINDING lines."""
import json
import subprocess
import sys
from pathlib import Path

VERIF = Path(__file__).resolve().parents[1]
patch = Path(sys.argv[1]).resolve()
props = sys.argv[2:] or [c["property_id"] for c in json.load(open(VERIF / "MANIFEST.json"))["checks"]]
assert subprocess.run(["git", "-C", "/repo", "status", "--porcelain"], capture_output=True, text=True).stdout.strip() == "", "/repo dirty"
subprocess.check_call(["git", "-C", "/repo", "apply", str(patch)])
try:
    for p in props:
        r = subprocess.run(["/venv/bin/python", "harness/run.py", "--property", p, "--tier", "quick"], cwd=VERIF,
                           capture_output=True, text=True)
        lines = [l for l in r.stdout.split("\n") if l.startswith(("VIOLATION", "KNOWN-FINDING"))]
        last = [l for l in r.stdout.strip().split("\n") if l.startswith(p)][-1:] or [r.stderr.strip().split("\n")[-1][:200]]
        print(f"{p}: exit={r.returncode} {' | '.join(l[:160] for l in lines)} :: {last[0][:200]}")
finally:
    subprocess.check_call(["git", "-C", "/repo", "checkout", "--", "."])
