#!/usr/bin/env python3
"""tools/try_patch.py <patch.diff> [Cxx ...]  — apply a seeded change to a scratch worktree of /repo and run the quick checks
against it (GCMPY_REPO), so /repo itself is never touched.  --in-repo applies it to /repo instead (and undoes it)."""
import json
import os
import subprocess
import sys
from pathlib import Path

VERIF = Path(__file__).resolve().parents[1]
args = [a for a in sys.argv[1:] if a != "--in-repo"]
in_repo = "--in-repo" in sys.argv
patch = Path(args[0]).resolve()
props = args[1:] or [c["property_id"] for c in json.load(open(VERIF / "MANIFEST.json"))["checks"]]
if in_repo:
    target = Path("/repo")
    assert subprocess.run(["git", "-C", "/repo", "status", "--porcelain"], capture_output=True, text=True).stdout.strip() == "", "/repo dirty"
else:
    target = Path(f"/tmp/trypatch_{os.getpid()}")
    subprocess.check_call(["git", "-C", "/repo", "worktree", "add", "-q", str(target), "HEAD"])
subprocess.check_call(["git", "-C", str(target), "apply", str(patch)])
try:
    env = dict(os.environ, GCMPY_REPO=str(target))
    for p in props:
        r = subprocess.run(["/venv/bin/python", "harness/run.py", "--property", p, "--tier", "quick"], cwd=VERIF,
                           capture_output=True, text=True, env=env)
        lines = [l for l in r.stdout.split("\n") if l.startswith(("VIOLATION", "KNOWN-FINDING"))]
        last = [l for l in r.stdout.strip().split("\n") if l.startswith(p)][-1:] or [r.stderr.strip().split("\n")[-1][:200]]
        print(f"{p}: exit={r.returncode} {' | '.join(l[:160] for l in lines)} :: {last[0][:200]}")
finally:
    if in_repo:
        subprocess.check_call(["git", "-C", "/repo", "checkout", "--", "."])
    else:
        subprocess.run(["git", "-C", "/repo", "worktree", "remove", "--force", str(target)])
