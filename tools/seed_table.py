#!/usr/bin/env python3
"""tools/seed_table.py — rewrite DESIGN.md §0.7 (table of seeded changes) from seeded/*/meta.json"""
import json, glob, os
V = os.path.dirname(os.path.dirname(os.path.abspath(__file__)))
rows = []
for d in sorted(glob.glob(V + "/seeded/C*")):
    m = json.load(open(d + "/meta.json"))
    rows.append((os.path.basename(d), m["breaks_property"], m["needs_to_manifest"], m["caught_by"]))
missed = [r[0] for r in rows if "MISSED" in r[3] or "strengthen" in r[3].lower()]
out = ["| seeded change | breaks | needs, in order to manifest | caught by |", "|---|---|---|---|"]
for r in rows:
    out.append("| `seeded/%s` | %s | %s | %s |" % tuple(x.replace("|", "/").replace("\n", " ") for x in r))
s = open(V + "/DESIGN.md").read()
i = s.index("### 0.7 Seeded property-breaking changes")
j = s.index("### 0.8 Behaviour-preserving rewrites")
new = f'''### 0.7 Seeded property-breaking changes and the checks that catch them

{len(rows)} changes written by fresh sub-agents that saw only one property's text and a scratch worktree, in twelve rounds
(`seeded/Cxx`, `Cxxb` … `Cxxl`, the last one for eight properties only; `C20g` was dropped again: it makes the repository's own MCMC test fail in some runs). Round two was told what round one had done and asked for a different clause / site /
trigger; every later round was shown what all earlier ones need in order to manifest and was given a theme: round three the
**glue** (construction paths and entry points, parameter handling and defaults, helper modules such as the motif generators,
representation conversions, behaviour after several calls on one object); round four **boundaries and numerics**
(inclusive/exclusive ends, first / last / only element, N = 0 or 1, largest admissible parameters, int versus float
arithmetic and overflow, ordering and tie-breaking); round five **domain confusions** (degree vs excess degree, stubs vs
motifs vs edges, index vs id vs size, edges vs edge ends, ordered vs unordered pairs, probability vs complement, a formula
outside the case it was derived for); round six **names and labels, iteration order, error handling, repeated use**; round seven **types and containers, scale, copies**
(NumPy integers and arrays where Python ints / tuples / lists are usual, iterators for sequences, equal-but-distinct objects,
falsy labels, counts beyond 256 / 1024 / 10^6, in-place updates of aliased values); round eight **optimisation refactors, global and
shared state, API evolution** (too-eager early exits and hoisted values, class-level attributes shared between objects,
re-entrancy from callbacks, setters that do not invalidate, silent normalisation of legal input); round nine **refactor artefacts,
orientation and order asymmetries, partial failure** (a statement one indentation level off, similar names exchanged, `=` for `+=`,
`break` for `continue`, (u,v) vs (v,u), sorted vs given order, an early return that drops a case); round ten **language and library semantics, numerical
or combinatorial reformulation, docstring-driven fixes** (`round` vs `int`, negative slice starts, `list.remove`, truthiness of
names, `np.prod` over ints, `k*(1/N)` vs `k/N`, closed forms with a wrong singular branch); round eleven had **no theme** again (the agents were asked for
the most realistic, hardest-to-notice slip and for a clause of the statement that the ten earlier changes had left alone). Round
twelve (eight properties: C01 C04 C11 C12 C13 C14 C17 C20) was pointed at the code that §0.9 brought into the model — the control flow of `rewire()`,
how proposals reach `swap_condition`, the label accessors — and otherwise at entry points and call histories.
Each was confirmed here in a scratch worktree (compiles, the whole pinned test suite of 47 tests passes — `tools/seed_tests.py` —, `demo.py` exits 0 on the
unchanged tree and 1 with the change) and is kept as `seeded/<id>/{{patch.diff,demo.py,meta.json}}`. `tools/regress.py` applies
every one of them to a scratch worktree and runs the quick check of the property it breaks: **{len(rows)} of {len(rows)} exit 1 with
a VIOLATION line**, all but the C12 ones with a shrunk counter-example on the real code from the ordinary run (seed 0; for
`C12b`/`C12c`/`C12d` the correspondence breaks first and the failing-input search either finds the forbidden pairing or the
report ends `no-failing-input-found`, depending on the seed).
{len(missed)} of them were **missed** by the check as first built ({', '.join('`' + m + '`' for m in missed)}) and led to the
strengthenings named in the last column — mostly richer generators (inputs the first generator never produced: equal
columns, unused columns, tuple-valued callbacks, library-built cycles, large or shuffled clique sizes, mixed-topology motifs,
list annotations, multigraphs, exact zeros, parameters at the ends of their ranges; in round seven, where 16 of 20 were missed
at first, equivalent *representations* of the same input: NumPy-typed degrees, keys, bounds and annotations, array-valued
arguments, iterator-valued callbacks, separately created name / root objects, label 0, and a few large instances; in round eight (11 of 20 missed) *histories across objects and calls*: a second object of the
same class, a distribution / cover / target replaced or edited after construction, a builder that re-enters the generator,
evaluation in another order; in round nine only 4 of 20 were missed: multi-orbit custom motifs in C03, the dispatched sampled
loader in C06, a phi sweep on one evaluator in C15, a NaN member in C20; in round ten 5 of 20: callbacks with a varying edge count (C01/C02),
the sequence edited between the two conversions (C04), double-precision runs at large degrees (C07), integer count targets (C12),
the exact float quotient (C18); in round eleven 5 of 20: callbacks that reuse one list object (C02), 1-cliques (C08), the number
of accepted swaps at the end of a run (C12), the same motif with other neighbour values on one evaluator (C15), coded topology
keys in labels (C17); in round twelve 1 of 8: the member in the last slot of a set of more than 257 (C20)), twice a sharper observation (C03: motifs
as built, not only callback inputs; C13: the network must be untouched by the extraction).

''' + "\n".join(out) + "\n\n"
open(V + "/DESIGN.md", "w").write(s[:i] + new + s[j:])
print(len(rows), "rows;", len(missed), "missed at first")
