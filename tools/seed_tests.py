#!/usr/bin/env python3
"""tools/seed_tests.py [--jobs N] [dir ...]  — run the repository's pinned test suite (the tests listed as stable_pass in
/root/.vp/BASELINE.json) against every seeded change (and, with --harmless, every harmless patch) in a scratch worktree of /repo,
and record in .work/seed_tests.json which of them keep the whole pinned suite green.  /repo itself is never touched."""
import json
import os
import subprocess
import sys
import xml.etree.ElementTree as ET
from concurrent.futures import ThreadPoolExecutor
from pathlib import Path

VERIF = Path(__file__).resolve().parents[1]
BASE = json.load(open("/root/.vp/BASELINE.json"))
STABLE = set(BASE["stable_pass"])


def run(patch: Path):
    tag = f"{patch.parent.name}_{patch.stem}"
    wt = Path(f"/tmp/seedtests_{os.getpid()}_{tag}")
    subprocess.check_call(["git", "-C", "/repo", "worktree", "add", "-q", str(wt), "HEAD"])
    try:
        subprocess.check_call(["git", "-C", str(wt), "apply", str(patch)])
        xml = wt / "junit.xml"
        subprocess.run(["/venv/bin/python", "-m", "pytest", "-q", "-p", "no:cacheprovider", "--timeout=900",
                        "--continue-on-collection-errors", f"--junitxml={xml}"], cwd=wt, capture_output=True, text=True,
                       env=dict(os.environ, PYTHONPATH=str(wt)))
        passed = set()
        if xml.exists():
            for tc in ET.parse(xml).getroot().iter("testcase"):
                if not any(ch.tag in ("failure", "error", "skipped") for ch in tc):
                    passed.add(f"{tc.get('classname')}::{tc.get('name')}")
        missing = sorted(STABLE - passed)
        return str(patch.relative_to(VERIF)), missing
    finally:
        subprocess.run(["git", "-C", "/repo", "worktree", "remove", "--force", str(wt)])


def main():
    args = sys.argv[1:]
    jobs = 8
    if "--jobs" in args:
        i = args.index("--jobs")
        jobs = int(args[i + 1])
        del args[i:i + 2]
    harmless = "--harmless" in args
    args = [a for a in args if a != "--harmless"]
    if args:
        patches = [VERIF / "seeded" / a / "patch.diff" for a in args]
    elif harmless:
        patches = sorted((VERIF / "harmless").glob("*/harmless*.diff"))
    else:
        patches = sorted((VERIF / "seeded").glob("*/patch.diff"))
    out = {}
    with ThreadPoolExecutor(jobs) as ex:
        for name, missing in ex.map(run, patches):
            out[name] = missing
            print(f"{name}: {'all %d pinned tests pass' % len(STABLE) if not missing else 'NOT PASSING: ' + ', '.join(missing[:4])}", flush=True)
    res = VERIF / ".work" / ("harmless_tests.json" if harmless else "seed_tests.json")
    old = json.load(open(res)) if res.exists() else {}
    old.update(out)
    res.write_text(json.dumps(old, indent=1, sort_keys=True))
    bad = [k for k, v in out.items() if v]
    print(f"{len(out) - len(bad)} of {len(out)} keep the pinned suite green" + (f"; not: {bad}" if bad else ""))
    return 1 if bad else 0


if __name__ == "__main__":
    sys.exit(main())
