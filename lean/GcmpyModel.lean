import GcmpyModel.Model.DrawSet
import GcmpyModel.Lemmas.DrawSet
import GcmpyModel.Properties.C20
import GcmpyModel.Driver.Util
import GcmpyModel.Driver.C20
