import GcmpyModel.Driver.Util
import GcmpyModel.Driver.C20
import GcmpyModel.Driver.Gen
import GcmpyModel.Driver.C04
import GcmpyModel.Driver.C05
import GcmpyModel.Driver.Loaders
import GcmpyModel.Driver.C18
import GcmpyModel.Driver.Mix
import GcmpyModel.Driver.C15
import GcmpyModel.Driver.C16
import GcmpyModel.Driver.C17
import GcmpyModel.Driver.Covers
import GcmpyModel.Driver.C11
import GcmpyModel.Driver.C19
import GcmpyModel.Driver.C11Loop
/-! Line protocol: one JSON request per line on stdin, one JSON reply per line on stdout.
    The driver only *executes* the model's definitions; it is outside the proofs. -/
open Lean Gcmpy.Driver

def dispatch (j : Json) : R Json := do
  let op ← fieldAs String j "op"
  match op with
  | "c20" => C20.handle j
  | "gen" => Gen.handle j
  | "c04" => C04.handle j
  | "c05" => C05.handle j
  | "c06" => Loaders.c06 j
  | "c07" => Loaders.c07 j
  | "c08" => Loaders.c08 j
  | "c18" => C18.handle j
  | "c13" => Mix.c13 j
  | "c14" => Mix.c14 j
  | "c15" => C15.handle j
  | "c16" => C16.handle j
  | "c17" => C17.handle j
  | "c17_labels" => C17.labels j
  | "c09" => Covers.c09 j
  | "c10" => Covers.c10 j
  | "c11" => C11Loop.handle j
  | "c19" => C19.handle j
  | "ping" => pure (obj [("pong", Json.bool true)])
  | _ => throw s!"unknown op {op}"

partial def loop (h : IO.FS.Stream) (out : IO.FS.Stream) : IO Unit := do
  let line ← h.getLine
  if line.isEmpty then return ()
  if line.trimAscii.toString.isEmpty then loop h out else
  let reply := match Json.parse line with
    | .ok j => match dispatch j with
      | .ok r => r
      | .error e => obj [("error", Json.str e)]
    | .error e => obj [("error", Json.str s!"parse: {e}")]
  out.putStrLn reply.compress
  out.flush
  loop h out

def main : IO Unit := do
  loop (← IO.getStdin) (← IO.getStdout)
