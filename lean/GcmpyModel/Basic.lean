def hello := "world"
