import GcmpyModel.Lemmas.Mixing
/-!
# C13 — mixing-matrix extractors

Model: `GcmpyModel/Model/Mixing.lean` (`countEdgeTypes`, `getEjk`, `excessKeys`, `getEjks`,
`getEjksUnrepaired`, `callsFrom`, `overallEjk`, `splitKeys`) for
`gcmpy/tools/joint_excess_joint_degree.py` (repaired: the edge counter is reset in `count_edge_types`),
`gcmpy/tools/joint_excess_degree.py` and `get_excess_degree_keys` of
`gcmpy/tools/joint_excess_joint_degree_matrices.py`.  Values are exact rationals (core `Rat`).
All proofs live in `GcmpyModel/Lemmas/Mixing.lean` (`aux_*`); this file only states the properties.

Vocabulary (defined in `Lemmas/Mixing.lean`):
* `numE net name`      — number of edges of topology `name`;
* `ends net i name`    — the edge ends of topology `name`: every edge `(u, v)` of that topology contributes
                         `(excess u, excess v)` and `(excess v, excess u)` (own excess tuple, partner's);
* `Uniform net T`      — every annotated joint-degree tuple has length `T`;
* `Annotated net`      — both end points of every edge carry an annotation;
* `oEnds edges`        — overall-degree variant: `(deg u - 1, deg v - 1)` and `(deg v - 1, deg u - 1)` per edge.
Matrix keys are concatenations `a ++ b`; with tuples of one common length `T` the pair `(a, b)` is
recovered from the key, which is what the hypotheses `Uniform`/`Annotated`/`a.length = T` are for.
-/
namespace Gcmpy.Mixing
open Gcmpy Gcmpy.Loaders

variable {net : ANet} {T : Nat}

/-! ## 1. the edge counter -/

/-- `count_edge_types` (started from `{}`) counts the edges of every topology; absent topologies are absent -/
theorem count_edge_types (net : ANet) (name : String) :
    Dict.get (countEdgeTypes net []) name = if numE net name = 0 then none else some (numE net name) :=
  aux_count_edge_types net name

/-! ## 2. the entries of `get_ejk` -/

/-- entry `(a, b)` is exactly the fraction of that topology's edge ends whose own vertex has excess tuple
`a` and whose partner has excess tuple `b`; keys that are not such a pair are absent.
(`b.length = T` is not needed: a `b` of another length gives `none` on both sides.) -/
theorem ejk_value (hU : Uniform net T) (hA : Annotated net) (i : Nat) (name : String) (a b : JD)
    (ha : a.length = T) :
    Dict.get (getEjk net (countEdgeTypes net []) i name) (a ++ b) =
      if (a, b) ∈ ends net i name then
        some ((((ends net i name).count (a, b) : Nat) : Rat) / (2 * (numE net name : Rat)))
      else none :=
  aux_ejk_value hU hA i name a b ha

/-! ## 3. symmetry, normalisation, marginals, key uniqueness -/

theorem ejk_symmetric (hU : Uniform net T) (hA : Annotated net) (i : Nat) (name : String) (a b : JD)
    (ha : a.length = T) (hb : b.length = T) :
    Dict.get (getEjk net (countEdgeTypes net []) i name) (a ++ b) =
      Dict.get (getEjk net (countEdgeTypes net []) i name) (b ++ a) :=
  aux_ejk_symmetric hU hA i name a b ha hb

/-- the matrix of a topology that has at least one edge sums to one (no hypothesis on the annotation) -/
theorem ejk_sums_one (net : ANet) (i : Nat) (name : String) (hE : 0 < numE net name) :
    ((getEjk net (countEdgeTypes net []) i name).map (·.2)).sum = 1 :=
  aux_ejk_sums_one net i name hE

/-- row sum: the entries whose key starts with `a` (`Σ_b ejk[(a, b)]`) add up to the fraction of that
topology's edge ends whose own vertex has excess tuple `a` -/
theorem ejk_row_sums (hU : Uniform net T) (hA : Annotated net) (i : Nat) (name : String) (a : JD) :
    (((getEjk net (countEdgeTypes net []) i name).filter (fun p => p.1.take T = a)).map (·.2)).sum =
      ((((ends net i name).filter (fun q => q.1 = a)).length : Nat) : Rat) / (2 * (numE net name : Rat)) :=
  aux_ejk_row_sums hU hA i name a

/-- the association list modelling the matrix has one entry per key (whatever the counter) -/
theorem ejk_keys_nodup (net : ANet) (ne : List (String × Nat)) (i : Nat) (name : String) :
    (Dict.keys (getEjk net ne i name)).Nodup :=
  aux_ejk_keys_nodup net ne i name

/-- the keys of the matrix are exactly the concatenated edge ends (whatever the counter and annotation) -/
theorem ejk_keys (net : ANet) (ne : List (String × Nat)) (i : Nat) (name : String) (k : JD) :
    k ∈ Dict.keys (getEjk net ne i name) ↔ ∃ q ∈ ends net i name, k = q.1 ++ q.2 :=
  aux_ejk_keys net ne i name k

/-- there are `2·E` edge ends -/
theorem ends_length (net : ANet) (i : Nat) (name : String) : (ends net i name).length = 2 * numE net name :=
  length_ends net i name

/-! ## 4. repeatability of the repaired `get_ejks` -/

/-- `get_ejks` does not depend on the extractor state it is called in -/
theorem get_ejks_state_independent (net : ANet) (names : List String) (s s' : Ext) :
    getEjks net names s = getEjks net names s' :=
  getEjks_indep net names s s'

/-- every one of any number of successive calls on one extractor returns the matrices of the first call -/
theorem get_ejks_repeatable (net : ANet) (names : List String) (n : Nat) :
    ∀ m ∈ callsFrom net names n ⟨[]⟩, m = (getEjks net names ⟨[]⟩).2 :=
  aux_get_ejks_repeatable net names n ⟨[]⟩

/-- (and `callsFrom … n` does consist of `n` results) -/
theorem calls_length (net : ANet) (names : List String) (n : Nat) (s : Ext) :
    (callsFrom net names n s).length = n :=
  callsFrom_length net names n s

/-! ## 5. regression witness: the pinned (unrepaired) behaviour -/

/-- two vertices, one edge, one topology -/
def tiny : ANet := ⟨[(0, [1]), (1, [1])], [(0, 1, "t")]⟩

/-- without the reset the second call on the same extractor divides by an edge count of 2 instead of 1:
its matrix sums to `1/2` (the first call's matrix sums to `1`) -/
theorem second_call_halves :
    ((getEjksUnrepaired tiny ["t"] ⟨[]⟩).2.map fun m => (m.2.map (·.2)).sum) = [1] ∧
    ((getEjksUnrepaired tiny ["t"] (getEjksUnrepaired tiny ["t"] ⟨[]⟩).1).2.map
        fun m => (m.2.map (·.2)).sum) = [1 / 2] ∧
    (getEjksUnrepaired tiny ["t"] (getEjksUnrepaired tiny ["t"] ⟨[]⟩).1).2 = [("t", [([0, 0], 1 / 2)])] := by
  decide +kernel

/-- the repaired extractor on the same network: both calls return the matrix `{(0,0): 1}` -/
example : callsFrom tiny ["t"] 2 ⟨[]⟩ = [[("t", [([0, 0], 1)])], [("t", [([0, 0], 1)])]] := by
  decide +kernel

/-! ## 6. the pre-computed excess keys cover the matrix keys -/

/-- under annotation consistency (both end points of every edge of topology `name` have a positive
`i`-th joint-degree component) both halves of every key of `get_ejk(i, name)` are listed in
`resolve_excess_degree_keys` for index `i` -/
theorem excess_keys_cover (hA : Annotated net) (i : Nat) (name : String)
    (hC : ∀ e ∈ net.edges, e.2.2 = name →
      1 ≤ (jdOf net e.1).getD i 0 ∧ 1 ≤ (jdOf net e.2.1).getD i 0) :
    ∀ q ∈ ends net i name, q.1 ∈ excessKeys net i ∧ q.2 ∈ excessKeys net i :=
  aux_excess_keys_cover hA i name hC

/-! ## 7. overall-degree variant (`JointExcessDegree.get_ejk`)

No loop-freeness is needed for these statements about the model (a self-loop `(u, u)` contributes the end
`(deg u - 1, deg u - 1)` twice, as the Python code does). -/

theorem overall_value (edges : List (Nat × Nat)) (j k : Nat) :
    Dict.get (overallEjk edges) [j, k] =
      if (j, k) ∈ oEnds edges then
        some ((((oEnds edges).count (j, k) : Nat) : Rat) / (2 * (edges.length : Rat)))
      else none :=
  aux_overall_value edges j k

theorem overall_symmetric (edges : List (Nat × Nat)) (j k : Nat) :
    Dict.get (overallEjk edges) [j, k] = Dict.get (overallEjk edges) [k, j] :=
  aux_overall_symmetric edges j k

theorem overall_sums_one (edges : List (Nat × Nat)) (hE : 0 < edges.length) :
    ((overallEjk edges).map (·.2)).sum = 1 :=
  aux_overall_sums_one edges hE

theorem overall_keys_nodup (edges : List (Nat × Nat)) : (Dict.keys (overallEjk edges)).Nodup :=
  aux_overall_keys_nodup edges

theorem overall_ends_length (edges : List (Nat × Nat)) : (oEnds edges).length = 2 * edges.length :=
  length_oEndsIn _ _

/-! ## 8. `get_excess_degree_keys` -/

theorem split_keys_spec (ejk : Table) (h : JD) :
    h ∈ splitKeys ejk ↔
      ∃ p ∈ ejk, h = p.1.take (p.1.length / 2) ∨ h = p.1.drop (p.1.length / 2) :=
  aux_split_keys_spec ejk h

/-! ## 9. non-vacuity: a 4-vertex network with two topologies

Topology "a" is the triangle 0–1–2 (its edge 0–2 joins two vertices of equal excess tuple: a self-paired
class), topology "b" joins vertex 3 to 0 and 2. -/

def net4 : ANet :=
  ⟨[(0, [2, 1]), (1, [2, 0]), (2, [2, 1]), (3, [0, 2])],
   [(0, 1, "a"), (2, 3, "b"), (1, 2, "a"), (0, 3, "b"), (0, 2, "a")]⟩

example : Uniform net4 2 := by unfold Uniform; decide +kernel
example : Annotated net4 := by unfold Annotated; decide +kernel
example : ∀ e ∈ net4.edges, e.2.2 = "a" →
    1 ≤ (jdOf net4 e.1).getD 0 0 ∧ 1 ≤ (jdOf net4 e.2.1).getD 0 0 := by decide +kernel
example : ∀ e ∈ net4.edges, e.2.2 = "b" →
    1 ≤ (jdOf net4 e.1).getD 1 0 ∧ 1 ≤ (jdOf net4 e.2.1).getD 1 0 := by decide +kernel

example : numE net4 "a" = 3 ∧ numE net4 "b" = 2 ∧ numE net4 "c" = 0 := by decide +kernel

example : ends net4 0 "a" =
    [([1, 1], [1, 0]), ([1, 0], [1, 1]), ([1, 0], [1, 1]), ([1, 1], [1, 0]), ([1, 1], [1, 1]), ([1, 1], [1, 1])] := by
  decide +kernel

/-- the matrices, written out -/
example : (getEjks net4 ["a", "b"] ⟨[]⟩).1.numEdges = [("a", 3), ("b", 2)] ∧
    (getEjks net4 ["a", "b"] ⟨[]⟩).2 =
     [("a", [([1, 1, 1, 0], 1 / 3), ([1, 0, 1, 1], 1 / 3), ([1, 1, 1, 1], 1 / 3)]),
      ("b", [([2, 0, 0, 1], 1 / 2), ([0, 1, 2, 0], 1 / 2)])] := by
  decide +kernel

example : excessKeys net4 0 = [[1, 1], [1, 0]] ∧ excessKeys net4 1 = [[2, 0], [0, 1]] := by decide +kernel

example : splitKeys (getEjk net4 (countEdgeTypes net4 []) 0 "a") = [[1, 1], [1, 0]] := by decide +kernel

/-- overall-degree variant on the path 0–1–2 -/
example : overallEjk [(0, 1), (1, 2)] = [([0, 1], 1 / 2), ([1, 0], 1 / 2)] := by decide +kernel

example : oEnds [(0, 1), (1, 2)] = [(0, 1), (1, 0), (1, 0), (0, 1)] := by decide +kernel

end Gcmpy.Mixing
