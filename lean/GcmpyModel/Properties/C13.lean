import GcmpyModel.Model.Mixing
namespace Gcmpy.Mixing
theorem placeholder_c13 : True := trivial
end Gcmpy.Mixing
