import GcmpyModel.Model.MessagePassing
namespace Gcmpy.MessagePassing
theorem placeholder_c17 : True := trivial
end Gcmpy.MessagePassing
