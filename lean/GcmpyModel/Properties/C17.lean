import GcmpyModel.Lemmas.MessagePassing
/-!
# C17 — message passing on a motif cover: range, monotonicity, `φ = 0`, structure

Model: `GcmpyModel/Model/MessagePassing.lean` (`theoretical`, `sweep`, `newMessage`, … over `Rat`), modelling
`gcmpy/message_passing/message_passing.py`.  Helper lemmas and vocabulary: `GcmpyModel/Lemmas/MessagePassing.lean`.

Vocabulary (defined in the lemma file):
* `LabelsOk net`   : every label's own edge list is a simple graph and both end points of a labelled network edge
                     are vertices of that edge list;
* `InUnit H`       : all stored messages lie in `[0,1]`;
* `HLe H' H`       : same key list, pointwise `≤`;
* `Consistent net` : every network edge is an edge of its motif, `lab.verts` = vertices of `lab.edges`, every motif
                     edge is a network edge with that label, equal ids ⇒ equal labels;
* `ShareAtMostOne net` : two distinct motifs share at most one vertex.

Proved here: `message_is_expectation`, `range`, `monotone`, `zero_at_zero`, `theoretical_formula`,
`fixed_point_stable`, `history_independent`, `neighbour_product_is_other_motifs`.
NOT proved (statement kept as a `def … : Prop`): `converges_full`.
-/
namespace Gcmpy.MessagePassing
open Gcmpy Gcmpy.Graph Gcmpy.Automated

/-- **Each update is an exact expectation.**  (`message_is_expectation` of the lemma file, restated for an
update actually performed by a sweep on a network with well-formed labels.) -/
theorem sweep_update_is_expectation {net : Net} (h : LabelsOk net) (φ : Rat) (H : HMap Rat)
    {e : Nat × Nat × Label} (he : e ∈ net.edges) :
    newMessage net φ H e.1 e.2.2 =
        Automated.exactE ⟨motifNodes e.2.2.edges, e.2.2.edges⟩ φ
          (fun j => prodOver net H j ((neighbours net j).filter fun l => l ∉ e.2.2.verts) [] 1) e.1 ∧
    newMessage net φ H e.2.1 e.2.2 =
        Automated.exactE ⟨motifNodes e.2.2.edges, e.2.2.edges⟩ φ
          (fun j => prodOver net H j ((neighbours net j).filter fun l => l ∉ e.2.2.verts) [] 1) e.2.1 :=
  ⟨message_is_expectation net φ H (h e he).1 (h e he).2.1,
   message_is_expectation net φ H (h e he).1 (h e he).2.2⟩

/-- **Formula.**  Unfolding of `theoretical` on a non-empty vertex list: `1 - (Σ_i Π_{motifs of i} H[(i,id)]) / N`
on the table reached after `it` sweeps from the uniform start `1/2`. -/
theorem theoretical_formula {net : Net} (hN : net.nodes ≠ []) (it : Nat) (φ : Rat) :
    theoretical net it φ =
      some (1 - outerSum net (sweeps net φ it (initH net (1/2))) / (net.nodes.length : Rat)) := by
  unfold theoretical finalH
  rw [if_neg]
  simpa using hN

/-- **Range.**  For every occupation probability in `[0,1]` and EVERY number of sweeps the value returned by
`theoretical` is a number in `[0,1]`. -/
theorem range {net : Net} {φ : Rat} (h : LabelsOk net) (h0 : 0 ≤ φ) (h1 : φ ≤ 1) (hN : net.nodes ≠ [])
    (iterations : Nat) : ∃ v, theoretical net iterations φ = some v ∧ 0 ≤ v ∧ v ≤ 1 := by
  refine ⟨_, theoretical_formula hN iterations φ, ?_, ?_⟩
  all_goals
    have hb := outerSum_bounds net (inUnit_sweeps h h0 h1 iterations (inUnit_init net))
    have hpos := length_pos_rat hN
  · have : outerSum net (sweeps net φ iterations (initH net (1/2))) / (net.nodes.length : Rat) ≤ 1 :=
      (div_le_one hpos).2 hb.2
    linarith
  · have : 0 ≤ outerSum net (sweeps net φ iterations (initH net (1/2))) / (net.nodes.length : Rat) :=
      div_nonneg hb.1 hpos.le
    linarith

/-- the messages themselves stay in `[0,1]` for every number of sweeps -/
theorem messages_in_unit {net : Net} {φ : Rat} (h : LabelsOk net) (h0 : 0 ≤ φ) (h1 : φ ≤ 1) (iterations : Nat) :
    InUnit (finalH net iterations φ (1/2)) :=
  inUnit_sweeps h h0 h1 iterations (inUnit_init net)

/-- the messages are pointwise smaller at the larger occupation probability, for every number of sweeps -/
theorem messages_antitone {net : Net} {φ φ' : Rat} (h : LabelsOk net) (h0 : 0 ≤ φ) (hle : φ ≤ φ')
    (h1 : φ' ≤ 1) (iterations : Nat) :
    HLe (finalH net iterations φ' (1/2)) (finalH net iterations φ (1/2)) :=
  (rel_sweeps h h0 hle h1 iterations (rel_refl (inUnit_init net))).1

/-- **Monotone.**  For EVERY number of sweeps `theoretical` is non-decreasing in the occupation probability. -/
theorem monotone {net : Net} {φ φ' : Rat} (h : LabelsOk net) (h0 : 0 ≤ φ) (hle : φ ≤ φ') (h1 : φ' ≤ 1)
    (hN : net.nodes ≠ []) (iterations : Nat) :
    ∃ v v', theoretical net iterations φ = some v ∧ theoretical net iterations φ' = some v' ∧ v ≤ v' := by
  refine ⟨_, _, theoretical_formula hN iterations φ, theoretical_formula hN iterations φ', ?_⟩
  have hr := rel_sweeps h h0 hle h1 iterations (rel_refl (inUnit_init net))
  have hS := outerSum_mono net hr
  have hpos := length_pos_rat hN
  have := div_le_div_of_nonneg_right hS hpos.le
  linarith

/-- **Zero at zero.**  With no occupied edge and at least one sweep the giant-component fraction is exactly `0`.
(The consistency hypothesis of the design is not needed: `LabelsOk` is enough, because `outerSum` only reads the
keys `(end point, id)` of labelled network edges and a sweep rewrites each of them to `1`.) -/
theorem zero_at_zero {net : Net} (h : LabelsOk net) (hN : net.nodes ≠ []) {iterations : Nat}
    (hi : 1 ≤ iterations) : theoretical net iterations 0 = some 0 := by
  rw [theoretical_formula hN, outerSum_of_ones net (fun k hk => sweeps_zero_ones h hi _ k hk),
    div_self (length_pos_rat hN).ne', sub_self]

/-- the form asked for in the design (with the unused consistency hypothesis) -/
theorem zero_at_zero_consistent {net : Net} (_hc : Consistent net) (h : LabelsOk net) (hN : net.nodes ≠ [])
    {iterations : Nat} (hi : 1 ≤ iterations) : theoretical net iterations 0 = some 0 :=
  zero_at_zero h hN hi

/-- after at least one sweep at `φ = 0` every message that `outerSum` reads is `1` -/
theorem messages_at_zero {net : Net} (h : LabelsOk net) {iterations : Nat} (hi : 1 ≤ iterations)
    {e : Nat × Nat × Label} (he : e ∈ net.edges) :
    readH (finalH net iterations (0 : Rat) (1/2)) (e.1, e.2.2.id) = 1 ∧
    readH (finalH net iterations (0 : Rat) (1/2)) (e.2.1, e.2.2.id) = 1 := by
  unfold finalH
  exact ⟨sweeps_zero_ones h hi _ _ ⟨e, he, Or.inl rfl⟩, sweeps_zero_ones h hi _ _ ⟨e, he, Or.inr rfl⟩⟩

/-! ### structure -/

/-- a table fixed by one sweep is fixed by any number of sweeps -/
theorem fixed_point_stable {net : Net} {φ : Rat} {H : HMap Rat} (hfix : sweep net φ H = H) :
    ∀ n, sweeps net φ n H = H := by
  intro n
  induction n with
  | zero => rfl
  | succ n ih => rw [sweeps, hfix, ih]

/-- **History independence.**  `theoretical` is a function of `(net, iterations, φ)` only: the answer to a query
does not depend on the queries made before it.  (Trivial for the pure model.  That the Python *object* — which
keeps `_H_tau`, `_phi` and the evaluator caches between calls — behaves like this function is carried by the
correspondence harness, and by `Properties/C15Cache.lean` for the evaluator caches.) -/
theorem history_independent (net : Net) (iterations : Nat) (before : List Rat) (φ : Rat) :
    ((before ++ [φ]).map (theoretical net iterations)).getLast? = some (theoretical net iterations φ) := by
  simp

/-- a batch of queries can be answered in any order -/
theorem history_independent_perm (net : Net) (iterations : Nat) {qs qs' : List Rat} (hp : qs.Perm qs') :
    (qs.map fun φ => (φ, theoretical net iterations φ)).Perm
      (qs'.map fun φ => (φ, theoretical net iterations φ)) :=
  hp.map _

/-- **The neighbour product ranges over the other motifs of `j`.**  On a consistent network whose motifs
pairwise share at most one vertex, for a member `j` of the motif of the network edge `e`, the product
`calculate_H_tau` forms from `j`'s neighbours outside the motif is `∏ H[(j, id)]` over the ids of the motifs
containing `j` other than this one (`mem_motifIdsAt`: `id ∈ motifIdsAt net j ↔ ∃ e' ∈ net.edges,
j ∈ e'.2.2.verts ∧ e'.2.2.id = id`). -/
theorem neighbour_product_is_other_motifs {net : Net} (hc : Consistent net) (h : LabelsOk net)
    (hd : ShareAtMostOne net) (H : HMap Rat) {e : Nat × Nat × Label} (he : e ∈ net.edges) {j : Nat}
    (hj : j ∈ e.2.2.verts) :
    prodOver net H j ((neighbours net j).filter fun l => l ∉ e.2.2.verts) [] 1
      = ∏ id ∈ (motifIdsAt net j).toFinset.erase e.2.2.id, readH H (j, id) :=
  prodOver_other_motifs hc h hd H he hj

/-! ### not proved -/

/-- NOT PROVED (analysis, outside the scope of the model-level proofs): the iterate after `iterations` sweeps
(25 by default in the repository) is within `ε` of a table fixed by `sweep`.  No rate of convergence is known
for the Gauss–Seidel iteration in general (at the percolation threshold it is arbitrarily slow), so this is
listed as an open statement only; over `Rat` a fixed point need not even exist (it is in general algebraic). -/
def converges_full : Prop :=
  ∀ (net : Net) (φ ε : Rat), LabelsOk net → Consistent net → ShareAtMostOne net → 0 ≤ φ → φ ≤ 1 → 0 < ε →
    ∃ Hstar : HMap Rat, sweep net φ Hstar = Hstar ∧
      ∀ k, |readH (finalH net 25 φ (1/2)) k - readH Hstar k| ≤ ε

/-! ### examples (kernel-checked evaluations) -/

def triA : Label := ⟨[0, 1, 2], [(0, 1), (1, 2), (0, 2)], 0⟩
def triB : Label := ⟨[2, 3, 4], [(2, 3), (3, 4), (2, 4)], 1⟩
/-- two triangles sharing the vertex `2` -/
def bowtie : Net :=
  ⟨[0, 1, 2, 3, 4], [(0, 1, triA), (1, 2, triA), (0, 2, triA), (2, 3, triB), (3, 4, triB), (2, 4, triB)]⟩

/-- a 4-cycle covered by its four edges (2-cliques) -/
def ring4 : Net :=
  ⟨[0, 1, 2, 3], [(0, 1, ⟨[0, 1], [(0, 1)], 0⟩), (1, 2, ⟨[1, 2], [(1, 2)], 1⟩),
                  (2, 3, ⟨[2, 3], [(2, 3)], 2⟩), (3, 0, ⟨[3, 0], [(3, 0)], 3⟩)]⟩

example : LabelsOk bowtie := by
  simp only [LabelsOk, Automated.Simple]; decide
example : Consistent bowtie := by
  apply consistent_of_bounded <;> decide
example : ShareAtMostOne bowtie := by
  apply shareAtMostOne_of_bounded; decide
example : LabelsOk ring4 := by
  simp only [LabelsOk, Automated.Simple]; decide
example : Consistent ring4 := by
  apply consistent_of_bounded <;> decide
example : ShareAtMostOne ring4 := by
  apply shareAtMostOne_of_bounded; decide

/-- one sweep at `φ = 1/2` on the bow-tie -/
example : theoretical bowtie 1 (1/2) = some (1/8) := by decide +kernel
/-- the messages after that sweep (in-place updates: the later ones already see the earlier ones) -/
example : finalH bowtie 1 (1/2 : Rat) (1/2)
    = [((0, 0), 11/16), ((1, 0), 11/16), ((2, 0), 1), ((2, 1), 1), ((3, 1), 1), ((4, 1), 1)] := by
  decide +kernel
/-- no sweep: the uniform start `1/2` is returned (`zero_at_zero` needs `1 ≤ iterations`) -/
example : theoretical bowtie 0 0 = some (11/20) := by decide +kernel
example : theoretical bowtie 1 0 = some 0 := by decide +kernel
/-- the 4-cycle of edge motifs, two sweeps, at two probabilities (instances of `range` and `monotone`) -/
example : theoretical ring4 2 (1/2) = some (411/4096) := by decide +kernel
example : theoretical ring4 2 (3/4) = some (2576385/8388608) := by decide +kernel
/-- the empty network: Python divides by zero -/
example : theoretical ⟨[], []⟩ 25 (1/2) = none := by decide +kernel
/-- the other motifs of the shared vertex `2`, seen from triangle `A`, are `{B}` -/
example (H : HMap Rat) :
    prodOver bowtie H 2 ((neighbours bowtie 2).filter fun l => l ∉ triA.verts) [] 1 = readH H (2, 1) := by
  have := neighbour_product_is_other_motifs (net := bowtie) (by apply consistent_of_bounded <;> decide)
    (by simp only [LabelsOk, Automated.Simple]; decide) (by apply shareAtMostOne_of_bounded; decide) H
    (e := (0, 1, triA)) (by decide) (j := 2) (by decide)
  rw [this]
  have hs : (motifIdsAt bowtie 2).toFinset.erase triA.id = {1} := by decide
  rw [show ((0, 1, triA) : Nat × Nat × Label).2.2.id = triA.id from rfl, hs, Finset.prod_singleton]

end Gcmpy.MessagePassing

#print axioms Gcmpy.MessagePassing.motifNodes_wf
#print axioms Gcmpy.MessagePassing.message_is_expectation
#print axioms Gcmpy.MessagePassing.range
#print axioms Gcmpy.MessagePassing.monotone
#print axioms Gcmpy.MessagePassing.zero_at_zero
#print axioms Gcmpy.MessagePassing.theoretical_formula
#print axioms Gcmpy.MessagePassing.fixed_point_stable
#print axioms Gcmpy.MessagePassing.history_independent
#print axioms Gcmpy.MessagePassing.neighbour_product_is_other_motifs
