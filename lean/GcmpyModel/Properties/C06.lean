import GcmpyModel.Lemmas.Loaders
import GcmpyModel.Lemmas.LoadersLimit
/-!
# C06 — manual, empirical, marginal and function joint-degree loaders

Model: `GcmpyModel/Model/Loaders.lean` (`manual`, `counter`, `empirical`, `product`, `rangeAB`,
`marginalWeight`, `normalise`, `marginalDirect`, `sampledCalls`, `transpose`, `marginalSampled`,
`functionLoader`).  Weights are exact rationals (core `Rat`); callables are arbitrary functions.
All proofs live in `GcmpyModel/Lemmas/Loaders.lean` (`aux_*`) and `GcmpyModel/Lemmas/LoadersLimit.lean`
(limit algebra); this file only states the properties.

Everything is proved.  The sampling-mode limit `marginal_sampled_limit_full` is proved
(`marginal_sampled_limit`) as a CONDITIONAL statement: its hypotheses (a) and (b) are the
law-of-large-numbers facts about `random.choices` (marginal frequencies converge, columns are
asymptotically independent); they hold almost surely for i.i.d. draws but remain assumptions here —
no probability is modelled.  What is proved is the deterministic step from (a), (b) to the entry-wise
convergence of the sampled table.
-/
namespace Gcmpy.Loaders
open Gcmpy

/-! ## 1. manual loader -/

/-- `JointDegreeManual`: the table is the given dictionary -/
theorem manual_id (d : Table) : manual d = d := rfl

/-! ## 2. `Counter` and the empirical loader -/

/-- `Counter(jds)[k]` is the number of occurrences of `k`; absent keys are absent -/
theorem get_counter (jds : List JD) (k : JD) :
    Dict.get (counter jds) k = if k ∈ jds then some (jds.count k) else none :=
  aux_get_counter jds k

/-- the association list modelling the `Counter` has one entry per key -/
theorem counter_keys_nodup (jds : List JD) : (Dict.keys (counter jds)).Nodup :=
  aux_counter_keys_nodup jds

/-- `convert_jds_to_jdd`: `jdd[k] = count(k) / len(jds)` exactly on the keys that occur -/
theorem empirical_freq (jds : List JD) (k : JD) :
    Dict.get (empirical jds) k =
      if k ∈ jds then some ((jds.count k : Rat) / (jds.length : Rat)) else none :=
  aux_empirical_freq jds k

theorem empirical_nonneg (jds : List JD) : ∀ p ∈ empirical jds, 0 ≤ p.2 :=
  aux_empirical_nonneg jds

theorem empirical_sums_one (jds : List JD) (h : jds ≠ []) : ((empirical jds).map (·.2)).sum = 1 :=
  aux_empirical_sums_one jds h

theorem empirical_support (jds : List JD) (k : JD) : k ∈ (empirical jds).map (·.1) ↔ k ∈ jds :=
  aux_empirical_support jds k

/-- the empirical table has one entry per key (so it is a faithful `dict`) -/
theorem empirical_keys_nodup (jds : List JD) : ((empirical jds).map (·.1)).Nodup :=
  aux_empirical_keys_nodup jds

/-! ## 3. ranges and `itertools.product` -/

theorem mem_rangeAB (a b x : Nat) : x ∈ rangeAB a b ↔ a ≤ x ∧ x < b := aux_mem_rangeAB a b x

theorem mem_product (ks : List (List Nat)) (jd : JD) :
    jd ∈ product ks ↔ List.Forall₂ (fun x l => x ∈ l) jd ks :=
  aux_mem_product ks jd

theorem product_nodup (ks : List (List Nat)) (h : ∀ l ∈ ks, l.Nodup) : (product ks).Nodup :=
  aux_product_nodup ks h

/-! ## 4. marginal loader, direct mode

Keys are `product (bounds.map fun (lo, hi) => rangeAB lo hi)` — the EXCLUSIVE ranges
`range(kmin, kmax)` — and the normalising total is
`Z = ((product (bounds.map fun (lo, hi) => rangeAB lo hi)).map (marginalWeight fs)).sum`. -/

/-- `evaluate_prob_of_joint_degree` is the product of the marginals (a missing callable, which
    would be an `IndexError` in Python, is modelled by the zero function) -/
theorem marginalWeight_eq_prod (fs : List (Nat → Rat)) (k : JD) :
    marginalWeight fs k = (k.zipIdx.map fun (d, i) => (fs.getD i (fun _ => 0)) d).prod :=
  aux_marginalWeight_eq_prod fs k

/-- the keys of the table are exactly the product of the exclusive ranges, in that order -/
theorem marginal_direct_keys (fs : List (Nat → Rat)) (bounds : List (Nat × Nat)) (t : Table)
    (h : marginalDirect fs bounds = .ok t) :
    t.map (·.1) = product (bounds.map fun (lo, hi) => rangeAB lo hi) :=
  marginalDirect_keys h

/-- keys = one degree per topology, each in `[kmin, kmax)`: all inside the bounds, `kmax` excluded -/
theorem marginal_direct_support (fs : List (Nat → Rat)) (bounds : List (Nat × Nat)) (t : Table)
    (h : marginalDirect fs bounds = .ok t) (k : JD) :
    k ∈ t.map (·.1) ↔
      (k.length = bounds.length ∧ ∀ i (h : i < k.length),
        (bounds.getD i (0, 0)).1 ≤ k[i] ∧ k[i] < (bounds.getD i (0, 0)).2) := by
  rw [marginalDirect_keys h]; exact mem_directKeys bounds k

/-- the table has one entry per key -/
theorem marginal_direct_keys_nodup (fs : List (Nat → Rat)) (bounds : List (Nat × Nat)) (t : Table)
    (h : marginalDirect fs bounds = .ok t) : (t.map (·.1)).Nodup := by
  rw [marginalDirect_keys h]; exact directKeys_nodup bounds

/-- `jdd[k] = Π fᵢ(kᵢ) / Z` for every key -/
theorem marginal_direct_value (fs : List (Nat → Rat)) (bounds : List (Nat × Nat)) (t : Table)
    (h : marginalDirect fs bounds = .ok t) (k : JD) (hk : k ∈ t.map (·.1)) :
    Dict.get t k = some (marginalWeight fs k /
      ((product (bounds.map fun (lo, hi) => rangeAB lo hi)).map (marginalWeight fs)).sum) := by
  rw [marginalDirect_keys h] at hk; exact aux_marginal_direct_value h k hk

theorem marginal_direct_sums_one (fs : List (Nat → Rat)) (bounds : List (Nat × Nat)) (t : Table)
    (h : marginalDirect fs bounds = .ok t) (hne : t ≠ []) : (t.map (·.2)).sum = 1 :=
  aux_marginal_direct_sums_one h hne

theorem marginal_direct_nonneg (fs : List (Nat → Rat)) (bounds : List (Nat × Nat)) (t : Table)
    (h : marginalDirect fs bounds = .ok t) (hf : ∀ f ∈ fs, ∀ x, 0 ≤ f x) : ∀ p ∈ t, 0 ≤ p.2 :=
  aux_marginal_direct_nonneg h hf

/-- `ZeroDivisionError` exactly when there is at least one key and the total weight is zero -/
theorem marginal_direct_zero (fs : List (Nat → Rat)) (bounds : List (Nat × Nat)) :
    marginalDirect fs bounds = .error .zeroDivision ↔
      (product (bounds.map fun (lo, hi) => rangeAB lo hi) ≠ [] ∧
       ((product (bounds.map fun (lo, hi) => rangeAB lo hi)).map (marginalWeight fs)).sum = 0) :=
  aux_marginal_direct_zero fs bounds

/-- with no key at all (some `kmin ≥ kmax`) the table is empty and nothing is raised -/
theorem marginal_direct_empty (fs : List (Nat → Rat)) (bounds : List (Nat × Nat))
    (h : product (bounds.map fun (lo, hi) => rangeAB lo hi) = []) :
    marginalDirect fs bounds = .ok [] := by
  have h' : directKeys bounds = [] := h
  rw [marginalDirect_eq, if_pos h']

/-! ## 5. marginal loader, sampling mode -/

/-- `create_jdd_by_sampling` is the frequency table of the zipped per-dimension samples -/
theorem marginal_sampled_is_empirical (cols : List (List Nat)) :
    marginalSampled cols = empirical (transpose cols) := rfl

theorem sampled_calls_length (fs : List (Nat → Rat)) (bounds : List (Nat × Nat)) (n : Nat) :
    (sampledCalls fs bounds n).length = bounds.length :=
  sampledCalls_length fs bounds n

/-- the `i`-th `random.choices` call samples dimension `i` over its INCLUSIVE range
    `range(kmin, kmax + 1)` with the weights of its own marginal `fs[i]`, `n` times -/
theorem sampled_calls_aligned (fs : List (Nat → Rat)) (bounds : List (Nat × Nat)) (n i : Nat)
    (h : i < bounds.length) :
    (sampledCalls fs bounds n)[i]'(by rw [sampledCalls_length]; exact h) =
      (rangeAB bounds[i].1 (bounds[i].2 + 1),
       (rangeAB bounds[i].1 (bounds[i].2 + 1)).map (fs.getD i (fun _ => 0)),
       n) :=
  aux_sampled_calls_aligned fs bounds n i h

/-- Statement of the law-of-large-numbers step ("in the limit of many samples") of the sampling
mode; proved below as `marginal_sampled_limit`.  `cols n` are the per-dimension sample columns at
sample size `n`.
If (a) every column's frequencies converge to its normalised marginal on the inclusive range and
(b) the columns are asymptotically independent (joint row frequency minus product of column
frequencies tends to 0) — both of which hold almost surely for the i.i.d. draws of `random.choices`,
a probabilistic fact outside any executable model and therefore kept as HYPOTHESES — then every entry
of the sampled table converges to the product of the normalised marginals on the INCLUSIVE box (and
to 0 off the box).  Corner cases: with no dimension at all (`bounds = []`) hypothesis (b) is
unsatisfiable (the sampled table is empty, so the frequency of the key `[]` is `0`, never close to
the empty product `1`), so the statement holds vacuously there; `n = 0` is harmless (`0 / 0 = 0` on
both sides and only large `n` matter). -/
def marginal_sampled_limit_full : Prop :=
  ∀ (fs : List (Nat → Rat)) (bounds : List (Nat × Nat)) (cols : Nat → List (List Nat)),
    -- admissible weights for `random.choices`: non-negative with a positive total per dimension
    (∀ call ∈ sampledCalls fs bounds 0, (∀ w ∈ call.2.1, 0 ≤ w) ∧ 0 < call.2.1.sum) →
    -- shape: one column per dimension, `n` samples each
    (∀ n, (cols n).length = bounds.length ∧ ∀ c ∈ cols n, c.length = n) →
    -- (a) marginal frequencies converge
    (∀ i, i < bounds.length → ∀ x : Nat, ∀ ε : Rat, 0 < ε → ∃ N, ∀ n, N ≤ n →
      |((((cols n).getD i []).count x : Nat) : Rat) / (n : Rat)
        - (if x ∈ ((sampledCalls fs bounds 0).getD i ([], [], 0)).1
           then (fs.getD i (fun _ => 0)) x / ((sampledCalls fs bounds 0).getD i ([], [], 0)).2.1.sum
           else 0)| < ε) →
    -- (b) asymptotic independence of the columns
    (∀ k : JD, k.length = bounds.length → ∀ ε : Rat, 0 < ε → ∃ N, ∀ n, N ≤ n →
      |(((transpose (cols n)).count k : Nat) : Rat) / (n : Rat)
        - (k.zipIdx.map fun (d, i) => ((((cols n).getD i []).count d : Nat) : Rat) / (n : Rat)).prod| < ε) →
    -- conclusion: the table converges entry-wise to the product law on the inclusive box
    ∀ k : JD, ∀ ε : Rat, 0 < ε → ∃ N, ∀ n, N ≤ n →
      |(Dict.get (marginalSampled (cols n)) k).getD 0
        - (if k.length = bounds.length then
            (k.zipIdx.map fun (d, i) =>
              if d ∈ ((sampledCalls fs bounds 0).getD i ([], [], 0)).1
              then (fs.getD i (fun _ => 0)) d / ((sampledCalls fs bounds 0).getD i ([], [], 0)).2.1.sum
              else 0).prod
           else 0)| < ε

/-- PROVED (conditional on (a), (b)): the deterministic limit algebra of the sampling mode.
For every `n` the table entry at `k` is `count k (transpose (cols n)) / n` (`0` for a key of the
wrong arity); by (b) it is eventually within `ε/2` of the product of the column frequencies, and by
(a) that product — finitely many factors in `[0,1]` — is eventually within `ε/2` of the product of
the normalised marginals.  Hypotheses (a) and (b) are the law-of-large-numbers facts about
`random.choices`; they are assumed, not proved. -/
theorem marginal_sampled_limit : marginal_sampled_limit_full := by
  intro fs bounds cols hadm hshape ha hb k ε hε
  by_cases hk : k.length = bounds.length
  · rw [if_pos hk]
    obtain ⟨N1, h1⟩ := hb k hk (ε / 2) (by positivity)
    -- the product of the column frequencies converges to the product of the limits
    have hprod := prod_eventually_close k.zipIdx
      (fun n p => ((((cols n).getD p.2 []).count p.1 : Nat) : Rat) / (n : Rat))
      (fun p => if p.1 ∈ ((sampledCalls fs bounds 0).getD p.2 ([], [], 0)).1
        then (fs.getD p.2 (fun _ => 0)) p.1 / ((sampledCalls fs bounds 0).getD p.2 ([], [], 0)).2.1.sum
        else 0)
      (fun n p _ => column_freq_mem_unit (cols n) n (hshape n).2 p.2 p.1)
      (fun p hp => limit_factor_mem_unit fs bounds hadm p.2
        (by have := (List.mem_zipIdx' (x := p.1) (i := p.2) hp).1; omega) p.1)
      (fun p hp => ha p.2
        (by have := (List.mem_zipIdx' (x := p.1) (i := p.2) hp).1; omega) p.1)
    obtain ⟨N2, h2⟩ := hprod (ε / 2) (by positivity)
    refine ⟨max N1 N2, fun n hn => ?_⟩
    have e1 := h1 n (le_trans (le_max_left _ _) hn)
    have e2 := h2 n (le_trans (le_max_right _ _) hn)
    rw [marginalSampled_getD (cols n) n (hshape n).2 k]
    have tri : ∀ x y z : Rat, |x - y| < ε / 2 → |y - z| < ε / 2 → |x - z| < ε := by
      intro x y z hxy hyz
      have := abs_sub_le x y z
      linarith
    exact tri _ _ _ e1 e2
  · rw [if_neg hk]
    refine ⟨0, fun n _ => ?_⟩
    rw [marginalSampled_getD_of_length_ne (cols n) k (by rw [(hshape n).1]; exact hk)]
    simpa using hε

/-- the hypotheses of `marginal_sampled_limit` are satisfiable by a non-trivial family of columns:
    one dimension with the single admissible degree `3`, every sample equal to `3` -/
example : ∃ (fs : List (Nat → Rat)) (bounds : List (Nat × Nat)) (cols : Nat → List (List Nat)),
    bounds ≠ [] ∧ (∀ n, cols n = [List.replicate n 3]) ∧
    (∀ call ∈ sampledCalls fs bounds 0, (∀ w ∈ call.2.1, 0 ≤ w) ∧ 0 < call.2.1.sum) ∧
    (∀ n, (cols n).length = bounds.length ∧ ∀ c ∈ cols n, c.length = n) ∧
    (∀ i, i < bounds.length → ∀ x : Nat, ∀ ε : Rat, 0 < ε → ∃ N, ∀ n, N ≤ n →
      |((((cols n).getD i []).count x : Nat) : Rat) / (n : Rat)
        - (if x ∈ ((sampledCalls fs bounds 0).getD i ([], [], 0)).1
           then (fs.getD i (fun _ => 0)) x / ((sampledCalls fs bounds 0).getD i ([], [], 0)).2.1.sum
           else 0)| < ε) ∧
    (∀ k : JD, k.length = bounds.length → ∀ ε : Rat, 0 < ε → ∃ N, ∀ n, N ≤ n →
      |(((transpose (cols n)).count k : Nat) : Rat) / (n : Rat)
        - (k.zipIdx.map fun (d, i) => ((((cols n).getD i []).count d : Nat) : Rat) / (n : Rat)).prod| < ε) := by
  refine ⟨[fun _ => 1], [(3, 3)], fun n => [List.replicate n 3], by simp, fun _ => rfl, ?_, ?_, ?_, ?_⟩
  · intro call hc
    have hs : sampledCalls [fun _ => (1 : Rat)] [(3, 3)] 0 = [([3], [1], 0)] := by decide +kernel
    rw [hs, List.mem_singleton] at hc
    subst hc
    simp
  · intro n; simp
  · intro i hi x ε hε
    have hi0 : i = 0 := by simpa using hi
    subst hi0
    have hs : sampledCalls [fun _ => (1 : Rat)] [(3, 3)] 0 = [([3], [1], 0)] := by decide +kernel
    refine ⟨1, fun n hn => ?_⟩
    have hn0 : (n : Rat) ≠ 0 := by exact_mod_cast (by omega : n ≠ 0)
    rw [hs]
    by_cases hx : x = 3
    · subst hx; simpa [List.count_replicate, div_self hn0] using hε
    · have hx' : ¬ 3 = x := fun e => hx e.symm
      simpa [List.count_replicate, hx, hx'] using hε
  · intro k hk ε hε
    refine ⟨0, fun n _ => ?_⟩
    obtain ⟨d, rfl⟩ : ∃ d, k = [d] := by
      match k, hk with
      | [d], _ => exact ⟨d, rfl⟩
    have hT : transpose [List.replicate n 3] = List.replicate n [3] := by
      have : transpose [List.replicate n 3] = (List.range n).map fun _ => [3] := by
        simp only [transpose, List.length_replicate]
        apply List.map_congr_left
        intro r hr
        have hr' : r < n := List.mem_range.1 hr
        simp [List.getD_eq_getElem?_getD, hr']
      rw [this]; simp
    rw [hT]
    by_cases hd : d = 3
    · subst hd; simpa [List.count_replicate] using hε
    · have hd' : ¬ 3 = d := fun e => hd e.symm
      simpa [List.count_replicate, hd, hd'] using hε

/-- the zero-dimension corner (`bounds = []`, hence no column): hypothesis (b) at the key `[]` cannot
    hold — the sampled table is empty, so the row frequency is `0` while the empty product is `1` —
    which is why `marginal_sampled_limit_full` holds (vacuously) there although the table entry `0`
    does not tend to the empty product `1` -/
example (cols : Nat → List (List Nat)) (hshape : ∀ n, (cols n).length = ([] : List (Nat × Nat)).length) :
    ¬ ∃ N, ∀ n, N ≤ n →
      |(((transpose (cols n)).count ([] : JD) : Nat) : Rat) / (n : Rat)
        - ((([] : JD).zipIdx.map fun (d, i) =>
            ((((cols n).getD i []).count d : Nat) : Rat) / (n : Rat)).prod)| < 1 := by
  rintro ⟨N, h⟩
  have h0 := h N le_rfl
  have hc : cols N = [] := List.eq_nil_of_length_eq_zero (hshape N)
  rw [hc] at h0
  simp [transpose] at h0

example : (Dict.get (marginalSampled []) []).getD 0 = 0 := by decide +kernel

/-! ## 6. function loader -/

/-- keys = the whole INCLUSIVE box `[kmin, kmax]` per topology -/
theorem function_support (fp : JD → Rat) (bounds : List (Nat × Nat)) (k : JD) :
    k ∈ (functionLoader fp bounds).map (·.1) ↔
      (k.length = bounds.length ∧ ∀ i (h : i < k.length),
        (bounds.getD i (0, 0)).1 ≤ k[i] ∧ k[i] ≤ (bounds.getD i (0, 0)).2) :=
  aux_function_support fp bounds k

/-- every entry is the callable's value, not normalised -/
theorem function_value (fp : JD → Rat) (bounds : List (Nat × Nat)) (p : JD × Rat)
    (h : p ∈ functionLoader fp bounds) : p.2 = fp p.1 :=
  aux_function_value fp bounds p h

theorem function_keys_nodup (fp : JD → Rat) (bounds : List (Nat × Nat)) :
    ((functionLoader fp bounds).map (·.1)).Nodup :=
  functionLoader_keys_nodup fp bounds

/-- lookup form of `function_value` -/
theorem function_get (fp : JD → Rat) (bounds : List (Nat × Nat)) (k : JD)
    (hk : k ∈ (functionLoader fp bounds).map (·.1)) :
    Dict.get (functionLoader fp bounds) k = some (fp k) :=
  aux_function_get fp bounds k hk

/-! ## 7. `load_joint_degree` = direct construction

`JointDegreeDistribution.load_joint_degree` builds the loader (whose `__init__` already calls
`create_jdd()`) and then calls `create_jdd()` once more.  For the manual loader `create_jdd` leaves the
stored table alone; for the other deterministic loaders it recomputes the table from the constructor
parameters only, ignoring the table already stored.  The model's loaders are pure functions of those
parameters, so "create again on top of the constructed state" gives the same table.  The second
`create_jdd()` is written as a function of the previously stored table. -/

theorem load_eq_direct_manual (d : Table) : manual (manual d) = manual d := rfl

theorem load_eq_direct_empirical (jds : List JD) :
    (fun _stored : Table => empirical jds) (empirical jds) = empirical jds := rfl

theorem load_eq_direct_marginal (fs : List (Nat → Rat)) (bounds : List (Nat × Nat)) :
    (fun _stored : Except Err Table => marginalDirect fs bounds) (marginalDirect fs bounds)
      = marginalDirect fs bounds := rfl

theorem load_eq_direct_function (fp : JD → Rat) (bounds : List (Nat × Nat)) :
    (fun _stored : Table => functionLoader fp bounds) (functionLoader fp bounds)
      = functionLoader fp bounds := rfl

/-! ## 8. non-vacuity -/

example : empirical [[1, 0], [1, 0], [0, 2]] = [([1, 0], 2 / 3), ([0, 2], 1 / 3)] := by
  decide +kernel

/-- two topologies, bounds `(0,2)` and `(1,3)`: keys `{0,1} × {1,2}` (upper bounds excluded) -/
example :
    marginalDirect [fun k => if k = 0 then 1 else 3, fun k => (k : Rat)] [(0, 2), (1, 3)]
      = .ok [([0, 1], 1 / 12), ([0, 2], 1 / 6), ([1, 1], 1 / 4), ([1, 2], 1 / 2)] := by
  decide +kernel

example : marginalDirect [fun _ => 0] [(0, 2)] = .error .zeroDivision := by decide +kernel

example : marginalDirect [fun _ => 1, fun _ => 1] [(0, 2), (3, 3)] = .ok [] := by decide +kernel

/-- the function loader covers the inclusive box and does not normalise -/
example :
    functionLoader (fun k => (k.sum : Rat) / 2) [(0, 1), (2, 3)]
      = [([0, 2], 1), ([0, 3], 3 / 2), ([1, 2], 3 / 2), ([1, 3], 2)] := by
  decide +kernel

/-- sampling mode asks for the inclusive ranges -/
example :
    sampledCalls [fun k => (k : Rat), fun _ => 1 / 2] [(0, 2), (1, 2)] 5
      = [([0, 1, 2], [0, 1, 2], 5), ([1, 2], [1 / 2, 1 / 2], 5)] := by
  decide +kernel

example : marginalSampled [[0, 1, 0, 2], [1, 1, 1, 2]]
    = [([0, 1], 1 / 2), ([1, 1], 1 / 4), ([2, 2], 1 / 4)] := by
  decide +kernel

end Gcmpy.Loaders
