import GcmpyModel.Model.SplitDegree
import GcmpyModel.Model.Cover
namespace Gcmpy.Loaders
theorem placeholder_C06 : True := trivial
end Gcmpy.Loaders
