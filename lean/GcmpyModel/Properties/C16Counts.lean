import GcmpyModel.Properties.C16
import GcmpyModel.Lemmas.HararyPalmer
/-
Property C16, counting part: the Harary–Palmer table counts connected labelled graphs, for EVERY `n` and `k`.

* `Qgen_eq_connCount`          `Qgen n k` (the recursion of `Q(n, k)` without the Cayley shortcut) is the number of
                               connected labelled graphs on `n` vertices with `k` edges (`connCount`, brute force);
                               this is `Qgen_eq_connCount_full` of `Properties/C16.lean`.
* `Q_eq_connCount_le12`        hence `Q n k = connCount n k` for all `n ≤ 12` (where `Q_eq_Qgen` is a kernel table);
* `Q_eq_connCount_iff_cayley`  and for all `n`: `Q = connCount` everywhere IFF Cayley's formula holds for `connCount`
                               (`connCount n (n-1) = n^(n-2)`); Cayley's formula itself is proved in `Properties/C16Cayley.lean` (`cayley`).
Ingredients (`Lemmas/HararyPalmer.lean`): `Qgen_rec` (the memo table computes the recursion), `hp_identity`
(classification of all graphs by the component of a fixed vertex), `cc_map` (relabelling invariance),
`conn_card_ge` (a connected graph has at least `n-1` edges, from Mathlib's spanning-tree theorem).
-/

open Finset BigOperators

namespace Gcmpy.ClosedForms
open Gcmpy Gcmpy.Graph Gcmpy.Automated Gcmpy.HP

theorem completeGraph_edges_toFinset (n : Nat) :
    (completeGraph n).edges.toFinset = pairs (Finset.range n) := by
  ext ⟨a, b⟩
  rw [List.mem_toFinset, mem_completeGraph_edges, mem_pairs]
  simp only [Finset.mem_range]
  omega

/-- the list-level brute-force count is the finset-level count on the vertex set `{0, …, n-1}` -/
theorem connCount_eq_cc (n k : Nat) (hn : 1 ≤ n) : connCount n k = cc (Finset.range n) k := by
  classical
  unfold connCount cc
  have hnd := completeGraph_edges_nodup n
  have hne : List.range n ≠ [] := by
    intro h; have := congrArg List.length h; simp at this; omega
  have key := sum_filter_sublists_eq (R := Nat) (completeGraph n).edges hnd
    (fun A => decide (A.length = k ∧ connected A (List.range n) = true))
    (fun A' => A'.card = k ∧ Conn (Finset.range n) A') (fun _ => 1) (fun _ => 1)
    (by
      intro A hA
      have hAnd : A.Nodup := hA.nodup hnd
      rw [decide_eq_true_iff, List.toFinset_card_of_nodup hAnd, connected_iff (completeGraph_wf n hA) hne]
      apply and_congr Iff.rfl
      unfold Conn
      simp only [List.mem_range, Finset.mem_range, percReach_iff])
    (fun _ _ => rfl)
  rw [List.map_const', List.sum_replicate, smul_eq_mul, mul_one] at key
  rw [key, ← Finset.card_eq_sum_ones, completeGraph_edges_toFinset]
  congr 1
  ext A
  simp only [Finset.mem_filter, Finset.mem_powerset, Finset.mem_powersetCard]
  tauto

theorem connCount_eq_ccN (n k : Nat) (hn : 1 ≤ n) : connCount n k = ccN n k := by
  rw [connCount_eq_cc n k hn, cc_eq_ccN, Finset.card_range]


/-- **C16, counts.** The shortcut-free Harary–Palmer table is the number of connected labelled graphs, all `n ≥ 1`,
all `k`. -/
theorem Qgen_eq_connCount : Qgen_eq_connCount_full := by
  intro n k hn
  rw [Qgen_eq_ccN n hn k, connCount_eq_ccN n k hn]

theorem Qgen_eq_connCount' (n k : Nat) (hn : 1 ≤ n) : Qgen n k = (connCount n k : Int) :=
  Qgen_eq_connCount n k hn

/-- … and equals the repository's brute-force `QQ(n, k)` on its domain -/
theorem Qgen_eq_QQ (n k : Nat) (hn : 1 ≤ n) (hk : k ≤ n * (n - 1) / 2) : Qgen n k = (QQ n k : Int) := by
  rw [QQ_spec n k hk, Qgen_eq_connCount n k hn]

/-- `Q(n, k)` (with the Cayley shortcut) is the number of connected labelled graphs for every `n ≤ 12`, every `k` -/
theorem Q_eq_connCount_le12 (n k : Nat) (hn : 1 ≤ n) (h12 : n ≤ 12) : Q n k = (connCount n k : Int) := by
  rw [Q_eq_Qgen n k hn h12, Qgen_eq_connCount n k hn]

/-- given the main theorem, the two remaining open statements of `Properties/C16.lean` are equivalent -/
theorem Q_eq_connCount_iff_Q_eq_Qgen : Q_eq_connCount_full ↔ Q_eq_Qgen_full := by
  constructor
  · intro h n k hn; rw [h n k hn, Qgen_eq_connCount n k hn]
  · intro h n k hn; rw [h n k hn, Qgen_eq_connCount n k hn]

/-- Cayley's formula, stated for the brute-force count (NOT proved; absent from Mathlib) -/
def cayley_connCount : Prop := ∀ n, 1 ≤ n → connCount n (n - 1) = n ^ (n - 2)

theorem qEntry_eq_qEntryGen (rows : List (List Int)) (n k : Nat)
    (h : k = n - 1 → qEntryGen rows n k = ((n ^ (n - 2) : Nat) : Int)) :
    qEntry rows n k = qEntryGen rows n k := by
  by_cases hk : k = n - 1
  · rw [h hk]
    unfold qEntry
    subst hk
    by_cases h0 : n - 1 < n - 1 ∨ n - 1 > n * (n - 1) / 2
    · have h1 : qEntryGen rows n (n - 1) = 0 := by unfold qEntryGen; simp only [h0, if_true]
      rw [← h rfl, h1]; simp only [h0, if_true]
    · simp only [h0, if_false, if_true]
  · unfold qEntry qEntryGen
    simp only [hk, if_false]

/-- under Cayley's formula the two memo tables coincide -/
theorem qTable_eq_qTableGen_of_cayley (hc : cayley_connCount) : ∀ n, qTable n = qTableGen n
  | 0 => rfl
  | n+1 => by
    rw [qTable_succ, qTableGen_succ, qTable_eq_qTableGen_of_cayley hc n]
    congr 2
    unfold qRow
    rw [Nat.add_sub_cancel]
    apply List.map_congr_left
    intro k _
    apply qEntry_eq_qEntryGen
    intro hk
    rw [← Qgen_succ_eq_qEntryGen, Qgen_eq_connCount (n + 1) k (by omega), hk, hc (n + 1) (by omega)]

/-- **`Q = connCount` for all `n`, `k` is equivalent to Cayley's formula** (for the brute-force count of trees):
the only thing `Q` adds to the proved recursion is the shortcut `n^(n-2)` -/
theorem Q_eq_connCount_iff_cayley : Q_eq_connCount_full ↔ cayley_connCount := by
  constructor
  · intro h n hn
    have h1 := h n (n - 1) hn
    rw [Q_trees n hn] at h1
    exact_mod_cast h1.symm
  · intro hc n k hn
    rw [← Qgen_eq_connCount n k hn]
    unfold Q Qgen
    rw [if_neg (by omega), qTable_eq_qTableGen_of_cayley hc]

/-- consequence of the main theorem: `Qgen` takes natural-number values … -/
theorem Qgen_nonneg (n k : Nat) (hn : 1 ≤ n) : 0 ≤ Qgen n k := by
  rw [Qgen_eq_connCount n k hn]; exact Int.natCast_nonneg _

/-- … and never exceeds the number of all graphs with `k` edges -/
theorem Qgen_le_choose (n k : Nat) (hn : 1 ≤ n) : Qgen n k ≤ ((n.choose 2).choose k : Int) := by
  rw [Qgen_eq_ccN n hn k, ccN_rec_nat n k hn]
  push_cast
  have : (0 : Int) ≤ ∑ m ∈ Finset.range (n - 1), ((n - 1).choose m : Int) *
      ∑ p ∈ Finset.range (k + 1), (((n - 1 - m).choose 2).choose p : Int) * (ccN (m + 1) (k - p) : Int) := by
    positivity
  linarith

end Gcmpy.ClosedForms
