import GcmpyModel.Model.Handshake
namespace Gcmpy.Handshake
theorem placeholder_c05 : True := trivial
end Gcmpy.Handshake
