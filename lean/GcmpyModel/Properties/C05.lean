import GcmpyModel.Lemmas.Handshake
/-!
# C05 — the handshaking-lemma repair (`JointDegree.handshaking_lemma`, `sample_jds_from_jdd`)

`handshake sizes jds picks` is the repaired joint degree sequence, `picks` the successive
`randrange(0, N)` results (an exhausted list yields 0, which is in range because `N ≥ 1`; no
"enough picks" hypothesis is needed).  `deg jds v i` is entry `i` of row `v`, `Rect jds T` says that
every row has length `T`.  Standing hypotheses (each theorem lists only the ones it uses):

* `hR : Rect jds T`, `hN : jds ≠ []`         — a non-empty sequence of `T`-tuples,
* `hp : ∀ p ∈ picks, p < jds.length`         — picks are `randrange(0, N)` results,
* `hs : ∀ i < T, 0 < sizes.getD i 0`         — positive motif sizes (size 0 raises in Python).

All statements hold for every `sizes`, `jds`, `picks`.
-/
namespace Gcmpy.Handshake
open Gcmpy.Generate

section
variable (sizes : List Nat) (T : Nat) (jds : List (List Nat)) (picks : List Nat)

/-- 1a. the number of vertices is unchanged -/
theorem length_preserved (hR : Rect jds T) (hN : jds ≠ []) (hp : ∀ p ∈ picks, p < jds.length) :
    (handshake sizes jds picks).length = jds.length :=
  (handshake_spec sizes T jds picks hR hN hp).1

/-- 1b. every row keeps its length -/
theorem rect_preserved (hR : Rect jds T) (hN : jds ≠ []) (hp : ∀ p ∈ picks, p < jds.length) :
    Rect (handshake sizes jds picks) T :=
  (handshake_spec sizes T jds picks hR hN hp).2.1

/-- 2. stubs are only ever added -/
theorem never_removes (hR : Rect jds T) (hN : jds ≠ []) (hp : ∀ p ∈ picks, p < jds.length) :
    ∀ v i, deg jds v i ≤ deg (handshake sizes jds picks) v i :=
  (handshake_spec sizes T jds picks hR hN hp).2.2.1

/-- 3. column `i` receives exactly `(size − ntop mod size) mod size` stubs, `ntop` the ORIGINAL column sum -/
theorem added_exact (hR : Rect jds T) (hN : jds ≠ []) (hp : ∀ p ∈ picks, p < jds.length)
    (hs : ∀ i < T, 0 < sizes.getD i 0) :
    ∀ i < T, colSum (handshake sizes jds picks) i =
      colSum jds i + (sizes.getD i 0 - colSum jds i % sizes.getD i 0) % sizes.getD i 0 := by
  intro i hi
  rw [(handshake_spec sizes T jds picks hR hN hp).2.2.2 i hi, need_eq _ _ (hs i hi)]

/-- 4. afterwards every column sum is divisible by its motif size -/
theorem divisible_after (hR : Rect jds T) (hN : jds ≠ []) (hp : ∀ p ∈ picks, p < jds.length)
    (hs : ∀ i < T, 0 < sizes.getD i 0) :
    ∀ i < T, sizes.getD i 0 ∣ colSum (handshake sizes jds picks) i := by
  intro i hi
  rw [(handshake_spec sizes T jds picks hR hN hp).2.2.2 i hi]
  exact dvd_add_need _ _ (hs i hi)

/-- 5. fewer than `size` stubs are added to a column -/
theorem added_lt_size (hR : Rect jds T) (hN : jds ≠ []) (hp : ∀ p ∈ picks, p < jds.length)
    (hs : ∀ i < T, 0 < sizes.getD i 0) :
    ∀ i < T, colSum (handshake sizes jds picks) i - colSum jds i < sizes.getD i 0 := by
  intro i hi
  rw [(handshake_spec sizes T jds picks hR hN hp).2.2.2 i hi, Nat.add_sub_cancel_left]
  exact need_lt _ _ (hs i hi)

/-- 6. minimality: any pointwise-larger sequence of the same shape with divisible column sums has at
    least as many stubs in every column -/
theorem added_minimal (hR : Rect jds T) (hN : jds ≠ []) (hp : ∀ p ∈ picks, p < jds.length)
    (hs : ∀ i < T, 0 < sizes.getD i 0) :
    ∀ (jds' : List (List Nat)), (∀ v i, deg jds v i ≤ deg jds' v i) → jds'.length = jds.length →
      Rect jds' T → (∀ i < T, sizes.getD i 0 ∣ colSum jds' i) →
      ∀ i < T, colSum (handshake sizes jds picks) i ≤ colSum jds' i := by
  intro jds' hle hlen _ hdvd i hi
  rw [(handshake_spec sizes T jds picks hR hN hp).2.2.2 i hi]
  exact add_need_le _ _ _ (hs i hi) (colSum_mono jds jds' hlen hle i) (hdvd i hi)

/-- 7b. column sums already divisible: nothing changes (for any picks) -/
theorem already_divisible_noop (hR : Rect jds T) (hN : jds ≠ [])
    (hd : ∀ i < T, sizes.getD i 0 ∣ colSum jds i) : handshake sizes jds picks = jds := by
  apply handshake_noop
  rw [ncols_of_rect jds T hR hN]; exact hd

/-- 7a. all motifs are single edges' worth (`size = 1`): nothing changes -/
theorem size_one_noop (hR : Rect jds T) (hN : jds ≠ [])
    (h1 : ∀ i < T, sizes.getD i 0 = 1) : handshake sizes jds picks = jds :=
  already_divisible_noop sizes T jds picks hR hN fun i hi => by rw [h1 i hi]; exact Nat.one_dvd _

/-- 8. the picks left over are the input picks minus the first `picksUsed` (no hypotheses needed) -/
theorem picks_consumed :
    (patchAll sizes ((List.range (ncols jds)).map fun i => (colSum jds i, i)) jds picks).2 =
      picks.drop (picksUsed sizes jds) := by
  rw [patchAll_snd, picksUsed, List.map_map]
  rfl

end

/-- 9. the keys and weights handed to `random.choices` are the distribution's items, in the same order,
    and `k = N` -/
theorem sample_call_aligned {κ ω : Type} (jdd : List (κ × ω)) (N : Nat) (ks : List κ) (ws : List ω) (k : Nat)
    (h : sampleCall jdd N = (ks, ws, k)) : ks.zip ws = jdd ∧ k = N ∧ ks.length = ws.length := by
  unfold sampleCall at h
  simp only [Prod.mk.injEq] at h
  rcases h with ⟨rfl, rfl, rfl⟩
  refine ⟨?_, rfl, by simp⟩
  induction jdd with
  | nil => rfl
  | cons a t ih => simp [ih]

/-! ### non-vacuity -/

/-- sizes (2, 3), column sums (3, 4): one stub goes to column 0 (vertex 2), two to column 1 (vertices 0, 1) -/
example : handshake [2, 3] [[1, 2], [0, 2], [2, 0]] [2, 0, 1] = [[1, 3], [0, 3], [3, 0]] := by decide

/-- the same with no picks left: every stub goes to vertex 0 -/
example : handshake [2, 3] [[1, 2], [0, 2], [2, 0]] [] = [[2, 4], [0, 2], [2, 0]] := by decide

/-- three picks are consumed, the fourth is handed back -/
example : picksUsed [2, 3] [[1, 2], [0, 2], [2, 0]] = 3 ∧
    (patchAll [2, 3] ((List.range 2).map fun i => (colSum [[1, 2], [0, 2], [2, 0]] i, i))
      [[1, 2], [0, 2], [2, 0]] [2, 0, 1, 1]).2 = [1] := by decide

/-- the hypotheses of the theorems are satisfiable (by the instance above) -/
example : Rect [[1, 2], [0, 2], [2, 0]] 2 ∧ [[1, 2], [0, 2], [2, 0]] ≠ ([] : List (List Nat)) ∧
    (∀ p ∈ [2, 0, 1], p < [[1, 2], [0, 2], [2, 0]].length) ∧ (∀ i < 2, 0 < [2, 3].getD i 0) := by
  refine ⟨?_, by decide, by decide, by decide⟩
  unfold Rect; decide

/-- and the conclusions are not trivial there: both column sums change and become divisible -/
example : colSum [[1, 2], [0, 2], [2, 0]] 0 = 3 ∧ colSum [[1, 2], [0, 2], [2, 0]] 1 = 4 ∧
    colSum (handshake [2, 3] [[1, 2], [0, 2], [2, 0]] [2, 0, 1]) 0 = 4 ∧
    colSum (handshake [2, 3] [[1, 2], [0, 2], [2, 0]] [2, 0, 1]) 1 = 6 := by decide

end Gcmpy.Handshake
