import GcmpyModel.Lemmas.Generate
/-!
# C01 — generated graphs realise exactly the requested joint degree sequence

All statements hold for **every** list of `randbelow` draws (valid or not): `draws` is universally
quantified, which is "for every outcome of the random shuffles".  `build` is an arbitrary callback.
-/
namespace Gcmpy.Generate

/-- the handshake condition for topology `k` -/
def Handshake (sizes : List Nat) (jds : List (List Nat)) (k : Nat) : Prop :=
  0 < sizes.getD k 0 ∧ sizes.getD k 0 ∣ colSum jds k

/-- `jds[v][k]` (0 outside the sequence) -/
def deg (jds : List (List Nat)) (v k : Nat) : Nat := (jds.getD v []).getD k 0

variable {β : Type} (sizes : List Nat) (build : Nat → List Nat → β) (jds : List (List Nat)) (draws : List (List Nat))

/-- exactly `sum_v jds[v][k] / size_k` motif instances of topology `k` … -/
theorem fast_motif_count (k : Nat) (hk : k < ncols jds) (H : Handshake sizes jds k) :
    ((motifsFast sizes build (shuffled jds draws)).filter (fun m => m.top = k)).length
      = colSum jds k / sizes.getD k 0 := by
  have hl : ((shuffled jds draws).getD k []).length = colSum jds k := by
    rw [(shuffled_getD_perm jds draws k hk).length_eq, length_stubs]
  have := (chunks_of_dvd _ H.1 ((shuffled jds draws).getD k []) (by rw [hl]; exact H.2)).1
  rw [← motifsFast_top sizes build, List.length_map] at this
  rw [this, hl]

/-- … each built from exactly `size_k` drawn stubs … -/
theorem fast_group_size (m : Motif β) (hm : m ∈ motifsFast sizes build (shuffled jds draws))
    (H : Handshake sizes jds m.top) : m.verts.length = sizes.getD m.top 0 := by
  have hk : m.top < ncols jds := by
    have := motifsFast_top_lt sizes build _ m hm; rwa [length_shuffled] at this
  have hl : ((shuffled jds draws).getD m.top []).length = colSum jds m.top := by
    rw [(shuffled_getD_perm jds draws m.top hk).length_eq, length_stubs]
  exact (chunks_of_dvd _ H.1 _ (by rw [hl]; exact H.2)).2 _ (motifsFast_mem_chunks sizes build _ m hm)

/-- … by applying that topology's build callback to them. -/
theorem fast_build_applied (m : Motif β) (hm : m ∈ motifsFast sizes build (shuffled jds draws)) :
    m.built = build m.top m.verts := motifsFast_built sizes build _ m hm

/-- every vertex `v` occupies exactly `jds[v][k]` stub slots among the topology-`k` motifs -/
theorem fast_slots (k : Nat) (hk : k < ncols jds) (hs : 0 < sizes.getD k 0) (v : Nat) :
    (((motifsFast sizes build (shuffled jds draws)).filter (fun m => m.top = k)).flatMap (·.verts)).count v
      = if v < jds.length then deg jds v k else 0 := by
  rw [List.flatMap_def, motifsFast_top, chunks_flatten _ hs, (shuffled_getD_perm jds draws k hk).count_eq,
    count_stubs]
  rfl

/-- no vertex outside `0..N-1` ever appears -/
theorem fast_vertices_in_range (m : Motif β) (hm : m ∈ motifsFast sizes build (shuffled jds draws))
    (v : Nat) (hv : v ∈ m.verts) : v < jds.length := by
  have hk : m.top < ncols jds := by
    have := motifsFast_top_lt sizes build _ m hm; rwa [length_shuffled] at this
  have h1 := mem_chunks_subset _ _ _ (motifsFast_mem_chunks sizes build _ m hm) v hv
  exact mem_stubs_lt jds m.top v ((shuffled_getD_perm jds draws m.top hk).mem_iff.1 h1)

/-- the joint degree sequence is carried through unchanged -/
theorem fast_jds_carried {ν : Type} (b : Nat → List Nat → List (Nat × Nat)) (names : Nat → ν) :
    (genFast sizes b names jds draws).jointDegrees = jds := rfl

theorem custom_jds_carried (orbits : List (List Nat)) (b : Nat → List Nat → Built) (names : Nat → Named)
    (el : EdgeList Cell) (h : genCustom sizes orbits b names jds draws = some el) : el.jointDegrees = jds := by
  unfold genCustom at h
  cases hm : motifsCustom sizes orbits b (shuffled jds draws) with
  | none => simp [hm] at h
  | some ms => simp [hm] at h; rw [← h]; rfl

/-- the edges emitted are exactly the callback results, motif after motif (nothing dropped or duplicated) -/
theorem fast_edges_are_callback_results {ν : Type} (b : Nat → List Nat → List (Nat × Nat)) (names : Nat → ν) :
    (genFast sizes b names jds draws).edges
      = (motifsFast sizes b (shuffled jds draws)).flatMap (fun m => b m.top m.verts) := by
  unfold genFast edgeListFast
  simp only
  have : ∀ (ms : List (Motif (List (Nat × Nat)))), (∀ m ∈ ms, m.built = b m.top m.verts) →
      ms.flatMap (fun m => m.built) = ms.flatMap (fun m => b m.top m.verts) := by
    intro ms
    induction ms with
    | nil => intro _; rfl
    | cons a t ih =>
      intro h
      simp only [List.flatMap_cons]
      rw [h a (List.mem_cons_self ..), ih (fun m hm => h m (List.mem_cons_of_mem _ hm))]
  exact this _ (fun m hm => motifsFast_built sizes b _ m hm)

/-! Non-vacuity: a concrete sequence with zero-degree vertices meets the hypotheses. -/
example : Handshake [2, 3] [[1, 0], [1, 3], [2, 0], [0, 0]] 0 ∧ Handshake [2, 3] [[1, 0], [1, 3], [2, 0], [0, 0]] 1
    ∧ (1 : Nat) < ncols [[1, 0], [1, 3], [2, 0], [0, 0]] := by
  refine ⟨⟨by decide, ⟨2, by decide⟩⟩, ⟨by decide, ⟨1, by decide⟩⟩, by decide⟩
example : (motifsFast [2, 3] (fun _ vs => vs.length) (shuffled [[1, 0], [1, 3], [2, 0], [0, 0]] [[3, 0, 1], [1, 0]])).map
    (fun m => (m.top, m.id, m.verts)) = [(0, 0, [2, 1]), (0, 1, [0, 2]), (1, 2, [1, 1, 1])] := by decide +kernel

end Gcmpy.Generate
