import GcmpyModel.Lemmas.GenerateCustom
import GcmpyModel.Properties.C01
/-!
# C01 (custom-motif generator) — the generated motifs realise exactly the joint degree sequence

`σ = shuffled jds draws`; `draws` is universally quantified ("for every outcome of the shuffles"), `build` is an
arbitrary callback.  `runCustomT` is the tagged refinement of the model (Lemmas/GenerateCustom.lean): it returns
the popped chunks as `(orbit column, chunk)` pairs, grouped per motif instance as `(motif type, tagged chunks)`,
together with the final (leftover) partitions; `custom_tagged_records` says that forgetting the tags gives exactly
the model's `motifsCustom`.
-/
namespace Gcmpy.Generate

/-- The custom handshake condition.  Every orbit list is non-empty with all indices valid columns, and for every
    column `i`: the orbit size is positive, divides the number of stubs, and the number of chunks equals the
    number of times column `i` gets popped (`num_motifs` of each motif type times multiplicity of `i` in it). -/
structure HC (sizes : List Nat) (orbitLists : List (List Nat)) (jds : List (List Nat)) : Prop where
  orbits_ne : ∀ orbits ∈ orbitLists, orbits ≠ []
  orbits_lt : ∀ orbits ∈ orbitLists, ∀ i ∈ orbits, i < ncols jds
  size_pos : ∀ i, i < ncols jds → 0 < sizes.getD i 0
  size_dvd : ∀ i, i < ncols jds → sizes.getD i 0 ∣ colSum jds i
  balance : ∀ i, i < ncols jds → colSum jds i / sizes.getD i 0 =
    (orbitLists.map fun orbits =>
      (colSum jds (orbits.headD 0) / sizes.getD (orbits.headD 0) 0) * orbits.count i).sum

variable {β : Type} (sizes : List Nat) (orbitLists : List (List Nat)) (build : Nat → List Nat → β)
  (jds : List (List Nat)) (draws : List (List Nat))

/-! ### the tagged refinement is the model -/

/-- forgetting the tags of the refinement gives exactly the model's records; each record's `verts` is the
    concatenation of its tagged chunks, whose tags are the motif type's orbit list, in orbit order -/
theorem custom_tagged_records (σ : List (List Nat)) (gs : List (Nat × Tagged)) (fin : List (List (List Nat)))
    (h : runCustomT sizes orbitLists σ = some (gs, fin)) :
    motifsCustom sizes orbitLists build σ = some (recordsOf build gs) ∧
    (recordsOf build gs).map (fun m => (m.top, m.verts)) = gs.map (fun g => (g.1, untag g.2)) ∧
    (recordsOf build gs).map (·.id) = List.range gs.length ∧
    ∀ g ∈ gs, g.1 < orbitLists.length ∧ g.2.map (·.1) = orbitLists.getD g.1 [] := by
  refine ⟨by rw [motifsCustom_eq_T, h]; rfl, recordsOf_proj build gs, recordsOf_ids build gs, fun g hg => ?_⟩
  have := (drawAllT_inv h).2.1 g hg
  simpa using this.2

/-- conversely every successful run of the model is the untagged image of a tagged run -/
theorem custom_run_of_some (σ : List (List Nat)) (ms : List (Motif β))
    (h : motifsCustom sizes orbitLists build σ = some ms) :
    ∃ gs fin, runCustomT sizes orbitLists σ = some (gs, fin) ∧ ms = recordsOf build gs := by
  rw [motifsCustom_eq_T] at h
  cases hr : runCustomT sizes orbitLists σ with
  | none => simp [hr] at h
  | some r =>
    rcases r with ⟨gs, fin⟩
    simp only [hr, Option.map_some, Option.some.injEq] at h
    exact ⟨gs, fin, rfl, h.symm⟩

/-! ### statements that need no handshake hypothesis -/

/-- exact conservation: the initial partition of column `i` is the final one followed by the chunks popped from
    column `i`, latest pop first -/
theorem custom_conservation_eq (σ : List (List Nat)) (gs : List (Nat × Tagged)) (fin : List (List (List Nat)))
    (h : runCustomT sizes orbitLists σ = some (gs, fin)) (i : Nat) :
    (partitions sizes σ).getD i [] = fin.getD i [] ++ (popped i (allTagged gs)).reverse :=
  (drawAllT_inv h).1.2 i

/-- conservation (no `HC`): the stubs in the initial partition of column `i` are, as a multiset, the leftover
    stubs of column `i` plus the stubs in the chunks popped from column `i` -/
theorem custom_conservation (σ : List (List Nat)) (gs : List (Nat × Tagged)) (fin : List (List (List Nat)))
    (h : runCustomT sizes orbitLists σ = some (gs, fin)) (i : Nat) :
    ((partitions sizes σ).getD i []).flatten.Perm
      ((fin.getD i []).flatten ++ (popped i (allTagged gs)).flatten) := by
  rw [custom_conservation_eq sizes orbitLists σ gs fin h i, List.flatten_append]
  exact List.Perm.append_left _ (List.reverse_perm _).flatten

/-- conservation in terms of the joint degree sequence: for a column with positive orbit size, the stub list
    (vertex `v` repeated `jds[v][i]` times) is a permutation of leftover ++ popped -/
theorem custom_conservation_stubs (gs : List (Nat × Tagged)) (fin : List (List (List Nat)))
    (h : runCustomT sizes orbitLists (shuffled jds draws) = some (gs, fin))
    (i : Nat) (hi : i < ncols jds) (hs : 0 < sizes.getD i 0) :
    (stubs jds i).Perm ((fin.getD i []).flatten ++ (popped i (allTagged gs)).flatten) := by
  have := custom_conservation sizes orbitLists _ gs fin h i
  rw [partitions_getD, chunks_flatten _ hs] at this
  exact (shuffled_getD_perm jds draws i hi).symm.trans this

/-- (e) no vertex outside `0..N-1` ever appears, whenever the generator does not raise -/
theorem custom_vertices_in_range (ms : List (Motif β))
    (h : motifsCustom sizes orbitLists build (shuffled jds draws) = some ms)
    (m : Motif β) (hm : m ∈ ms) (v : Nat) (hv : v ∈ m.verts) : v < jds.length := by
  rcases custom_run_of_some sizes orbitLists build _ ms h with ⟨gs, fin, hr, rfl⟩
  rcases mem_recordsOf hm with ⟨g, hg, _, hverts, _⟩
  rw [hverts] at hv
  rcases mem_untag hv with ⟨i, c, hic, hvc⟩
  have hc := (drawAllT_inv hr).1.mem (mem_allTagged hg hic)
  rcases mem_partitions_getD hc with ⟨hi, hc'⟩
  rw [length_shuffled] at hi
  have h1 := mem_chunks_subset _ _ _ hc' v hvc
  exact mem_stubs_lt jds i v ((shuffled_getD_perm jds draws i hi).mem_iff.1 h1)

/-- the build callback of the motif type is what is applied to the drawn vertices -/
theorem custom_build_applied (σ : List (List Nat)) (ms : List (Motif β))
    (h : motifsCustom sizes orbitLists build σ = some ms) (m : Motif β) (hm : m ∈ ms) :
    m.built = build m.top m.verts := by
  rcases custom_run_of_some sizes orbitLists build _ ms h with ⟨gs, fin, _, rfl⟩
  rcases mem_recordsOf hm with ⟨g, _, h1, h2, h3⟩
  rw [h1, h2, h3]

/-! ### statements under the custom handshake hypothesis -/

section HC
variable {sizes orbitLists jds}

theorem HC.head_lt (H : HC sizes orbitLists jds) (orbits : List Nat) (ho : orbits ∈ orbitLists) :
    orbits.headD 0 < ncols jds := by
  have hne := H.orbits_ne orbits ho
  cases orbits with
  | nil => exact absurd rfl hne
  | cons kk os => exact H.orbits_lt _ ho kk (List.mem_cons_self ..)

theorem length_shuffled_getD (k : Nat) (hk : k < ncols jds) :
    ((shuffled jds draws).getD k []).length = colSum jds k := by
  rw [(shuffled_getD_perm jds draws k hk).length_eq, length_stubs]

theorem HC.numMotifs_eq (H : HC sizes orbitLists jds) (orbits : List Nat) (ho : orbits ∈ orbitLists) :
    numMotifs sizes (shuffled jds draws) orbits
      = colSum jds (orbits.headD 0) / sizes.getD (orbits.headD 0) 0 := by
  unfold numMotifs
  rw [length_shuffled_getD draws _ (H.head_lt orbits ho)]

/-- the total demand on column `i` is exactly its number of chunks -/
theorem HC.demand_eq (H : HC sizes orbitLists jds) (i : Nat) (hi : i < ncols jds) :
    demand sizes (shuffled jds draws) orbitLists i = ((partitions sizes (shuffled jds draws)).getD i []).length := by
  have hl := length_shuffled_getD draws i hi
  rw [partitions_getD, (chunks_of_dvd _ (H.size_pos i hi) _ (by rw [hl]; exact H.size_dvd i hi)).1, hl,
    H.balance i hi]
  unfold demand
  congr 1
  apply List.map_congr_left
  intro orbits ho
  rw [H.numMotifs_eq draws orbits ho]

theorem HC.demand_le (H : HC sizes orbitLists jds) (i : Nat) :
    demand sizes (shuffled jds draws) orbitLists i ≤ ((partitions sizes (shuffled jds draws)).getD i []).length := by
  rcases Nat.lt_or_ge i (ncols jds) with hi | hi
  · exact Nat.le_of_eq (H.demand_eq draws i hi)
  · -- no orbit list mentions a column outside the sequence
    have : demand sizes (shuffled jds draws) orbitLists i = 0 := by
      unfold demand
      apply List.sum_eq_zero_iff_forall_eq_nat.2
      intro x hx
      rcases List.mem_map.1 hx with ⟨orbits, ho, rfl⟩
      have : orbits.count i = 0 := List.count_eq_zero.2 (fun hm => by
        have := H.orbits_lt orbits ho i hm; omega)
      simp [this]
    omega

/-- the tagged run succeeds -/
theorem HC.run_ok (H : HC sizes orbitLists jds) :
    ∃ gs fin, runCustomT sizes orbitLists (shuffled jds draws) = some (gs, fin) := by
  have := drawAllT_ok sizes (shuffled jds draws) orbitLists 0 (partitions sizes (shuffled jds draws))
    (fun orbits ho => ⟨H.orbits_ne orbits ho, by rw [length_shuffled]; exact H.head_lt orbits ho,
      H.size_pos _ (H.head_lt orbits ho)⟩)
    (H.demand_le draws)
  rcases this with ⟨⟨gs, fin⟩, h⟩
  exact ⟨gs, fin, h⟩

/-- (a) the generator does not raise -/
theorem custom_no_error (H : HC sizes orbitLists jds) :
    ∃ ms, motifsCustom sizes orbitLists build (shuffled jds draws) = some ms := by
  rcases H.run_ok draws with ⟨gs, fin, h⟩
  exact ⟨_, (custom_tagged_records sizes orbitLists build _ gs fin h).1⟩

/-- (b) exactly `colSum jds kk / sizes[kk]` records of motif type `j`, `kk` the first orbit of type `j` -/
theorem custom_motif_count (H : HC sizes orbitLists jds) (ms : List (Motif β))
    (h : motifsCustom sizes orbitLists build (shuffled jds draws) = some ms) (j : Nat) (hj : j < orbitLists.length) :
    (ms.filter (fun m => m.top = j)).length
      = colSum jds ((orbitLists.getD j []).headD 0) / sizes.getD ((orbitLists.getD j []).headD 0) 0 := by
  rcases custom_run_of_some sizes orbitLists build _ ms h with ⟨gs, fin, hr, rfl⟩
  rw [recordsOf_count_top, (drawAllT_inv hr).2.2 j]
  have ho : orbitLists.getD j [] ∈ orbitLists := by
    rw [List.getD_eq_getElem?_getD, List.getElem?_eq_getElem hj]; exact List.getElem_mem hj
  have : 0 ≤ j ∧ j < 0 + orbitLists.length := by omega
  rw [if_pos this, Nat.sub_zero, H.numMotifs_eq draws _ ho]

/-- (c) a record of type `j` is built from `Σ_{i ∈ orbitLists[j]} sizes[i]` drawn stubs -/
theorem custom_group_size (H : HC sizes orbitLists jds) (ms : List (Motif β))
    (h : motifsCustom sizes orbitLists build (shuffled jds draws) = some ms) (m : Motif β) (hm : m ∈ ms) :
    m.verts.length = ((orbitLists.getD m.top []).map fun i => sizes.getD i 0).sum := by
  rcases custom_run_of_some sizes orbitLists build _ ms h with ⟨gs, fin, hr, rfl⟩
  rcases mem_recordsOf hm with ⟨g, hg, htop, hverts, _⟩
  have hinv := drawAllT_inv hr
  have htags : g.2.map (·.1) = orbitLists.getD g.1 [] := by simpa using (hinv.2.1 g hg).2.2
  rw [hverts, htop, ← htags, length_untag, List.map_map]
  congr 1
  apply List.map_congr_left
  rintro ⟨i, c⟩ hic
  have hc := hinv.1.mem (mem_allTagged hg hic)
  rcases mem_partitions_getD hc with ⟨hi, hc'⟩
  rw [length_shuffled] at hi
  have hl := length_shuffled_getD draws i hi
  exact (chunks_of_dvd _ (H.size_pos i hi) _ (by rw [hl]; exact H.size_dvd i hi)).2 c hc'

/-- (f) every stub is used: all partitions are empty at the end -/
theorem custom_leftover_none (H : HC sizes orbitLists jds) (gs : List (Nat × Tagged)) (fin : List (List (List Nat)))
    (h : runCustomT sizes orbitLists (shuffled jds draws) = some (gs, fin)) :
    fin.length = ncols jds ∧ ∀ p ∈ fin, p = [] := by
  have hinv := (drawAllT_inv h).1
  have hlen : fin.length = ncols jds := by rw [hinv.1, length_partitions, length_shuffled]
  refine ⟨hlen, fun p hp => ?_⟩
  rcases List.getElem_of_mem hp with ⟨i, hi, rfl⟩
  have e := hinv.length i
  rw [drawAllT_popped_length h i, H.demand_eq draws i (hlen ▸ hi)] at e
  have : (fin.getD i []).length = 0 := by omega
  rw [List.getD_eq_getElem?_getD, List.getElem?_eq_getElem hi] at this
  exact List.length_eq_zero_iff.1 this

/-- (d) the generator does not raise, its records are the untagged image of the tagged run, each record's `verts`
    is the concatenation of its tagged chunks (tags = the type's orbit list, in orbit order), and every vertex
    `v` occupies exactly `jds[v][i]` slots in the chunks popped from orbit column `i` over all records -/
theorem custom_slots (H : HC sizes orbitLists jds) :
    ∃ gs fin, runCustomT sizes orbitLists (shuffled jds draws) = some (gs, fin) ∧
      motifsCustom sizes orbitLists build (shuffled jds draws) = some (recordsOf build gs) ∧
      (recordsOf build gs).map (fun m => (m.top, m.verts)) = gs.map (fun g => (g.1, untag g.2)) ∧
      (∀ g ∈ gs, g.2.map (·.1) = orbitLists.getD g.1 []) ∧
      ∀ i, i < ncols jds → ∀ v,
        ((popped i (allTagged gs)).flatten).count v = if v < jds.length then deg jds v i else 0 := by
  rcases H.run_ok draws with ⟨gs, fin, h⟩
  have ht := custom_tagged_records sizes orbitLists build _ gs fin h
  refine ⟨gs, fin, h, ht.1, ht.2.1, fun g hg => (ht.2.2.2 g hg).2, fun i hi v => ?_⟩
  have hp := custom_conservation_stubs sizes orbitLists jds draws gs fin h i hi (H.size_pos i hi)
  have hfin : fin.getD i [] = [] := by
    have hf := custom_leftover_none draws H gs fin h
    rw [List.getD_eq_getElem?_getD, List.getElem?_eq_getElem (hf.1 ▸ hi)]
    exact hf.2 _ (List.getElem_mem _)
  rw [hfin, List.flatten_nil, List.nil_append] at hp
  rw [← hp.count_eq, count_stubs]
  rfl

end HC

/-! ### non-vacuity: a concrete two-type, three-column configuration -/

/-- motif type 0 uses orbit columns 0 and 1 (two stubs each), type 1 uses column 2 (one stub) -/
example : HC [2, 2, 1] [[0, 1], [2]] [[1, 2, 1], [1, 0, 0], [2, 1, 1], [0, 1, 0]] := by
  refine ⟨by decide, by decide, by decide, ?_, by decide⟩
  intro i hi
  have hi' : i < 3 := hi
  rcases i with _ | _ | _ | i
  · exact ⟨2, by decide⟩
  · exact ⟨2, by decide⟩
  · exact ⟨2, by decide⟩
  · omega

example : (motifsCustom [2, 2, 1] [[0, 1], [2]] (fun _ vs => vs.length)
      (shuffled [[1, 2, 1], [1, 0, 0], [2, 1, 1], [0, 1, 0]] [[2, 0, 1], [1, 1, 0], [0]])).map
      (fun ms => ms.map fun m => (m.top, m.id, m.verts))
    = some [(0, 0, [0, 2, 3, 0]), (0, 1, [2, 1, 2, 0]), (1, 2, [0]), (1, 3, [2])] := by decide +kernel

/-- the tagged run of the same configuration: chunks are popped from the END of each column's partition list,
    and nothing is left over -/
example : (runCustomT [2, 2, 1] [[0, 1], [2]]
      (shuffled [[1, 2, 1], [1, 0, 0], [2, 1, 1], [0, 1, 0]] [[2, 0, 1], [1, 1, 0], [0]])).map (·.1)
    = some [(0, [(0, [0, 2]), (1, [3, 0])]), (0, [(0, [2, 1]), (1, [2, 0])]), (1, [(2, [0])]), (1, [(2, [2])])] := by
  decide +kernel
example : (runCustomT [2, 2, 1] [[0, 1], [2]]
      (shuffled [[1, 2, 1], [1, 0, 0], [2, 1, 1], [0, 1, 0]] [[2, 0, 1], [1, 1, 0], [0]])).map (·.2)
    = some [[], [], []] := by decide +kernel

/-- sharpness of the `balance` clause: column 0 has two chunks but column 1 only one, so the second instance of
    motif type 0 pops from an empty list (IndexError) -/
example : motifsCustom [2, 2] [[0, 1]] (fun _ vs => vs.length) (shuffled [[2, 1], [2, 1]] []) = none := by
  decide +kernel

end Gcmpy.Generate
