import GcmpyModel.Lemmas.AutomatedExact
/-!
# C15 — the automated equation is the exact bond-percolation expectation

Model: `GcmpyModel/Model/Automated.lean` (`automatedEquation`, generic over the number type).
Vocabulary and glue lemmas: `GcmpyModel/Lemmas/AutomatedExact.lean`; structural specifications
(`connectedSubgraphs_spec`, `edgeCombinations_spec`, `inner_spec`): `GcmpyModel/Lemmas/ConnectedSubgraphs.lean`;
the finset-level percolation identity `Perc.exactE_eq_autoE`: `GcmpyModel/Lemmas/Percolation.lean`.

* `Simple es`  : the edge list is duplicate free, has no self-loop and lists every undirected edge once;
* `exactE G p u root` : `Σ_{A ⊆ edges} p^|A| (1-p)^(|E|-|A|) Π_{v ∈ comp_A(root), v ≠ root} u v`, the expectation over
  independent occupation of each motif edge, written with the model's own `sublists` and executable `comp`.
-/
namespace Gcmpy.Automated
open Gcmpy Gcmpy.Graph

/-- **C15.** On a well-formed simple motif (any size, connected or not) and over any commutative ring, the value
computed by `automated_equation` — sum over the connected vertex sets `c ∋ root`, over the edge subsets whose
removal keeps `c` connected, of `p^kept (1-p)^removed (1-p)^interface Π_{v ∈ c, v ≠ root} u v` — is exactly the
bond-percolation expectation of `Π u` over the root's open component. -/
theorem automated_exact {R : Type} [CommRing R] (G : Motif) (hwf : WFGraph G.edges G.nodes)
    (hs : Simple G.edges) {root : Nat} (hr : root ∈ G.nodes) (p : R) (u : Nat → R) :
    automatedEquation G p u root = exactE G p u root := by
  rw [exactE_eq_percAutoE G hwf hs.1 hr, percAutoE_eq_automatedEquation G hwf hs hr]

/-- at `p = 0` nothing is occupied: the value is `1` -/
theorem automated_at_zero {R : Type} [CommRing R] (G : Motif) (hwf : WFGraph G.edges G.nodes)
    (hs : Simple G.edges) {root : Nat} (hr : root ∈ G.nodes) (u : Nat → R) :
    automatedEquation G (0 : R) u root = 1 := by
  rw [automated_exact G hwf hs hr, exactE_eq_percExactE G hwf hs.1 hr, Perc.exactE_at_zero]

/-- the finset form of the specification: the model's value is `Σ_{A ⊆ E} wt(A) Π_{v ∈ C_A(root) \ root} u v` -/
theorem automated_exact_finset {R : Type} [CommRing R] (G : Motif) (hwf : WFGraph G.edges G.nodes)
    (hs : Simple G.edges) {root : Nat} (hr : root ∈ G.nodes) (p : R) (u : Nat → R) :
    automatedEquation G p u root = Perc.exactE G.nodes.toFinset G.edges.toFinset p u root := by
  rw [automated_exact G hwf hs hr, exactE_eq_percExactE G hwf hs.1 hr]

/-! ### non-vacuity: kernel-checked evaluations of both sides -/

def triangle : Motif := ⟨[0, 1, 2], [(0, 1), (1, 2), (0, 2)]⟩
def cycle4 : Motif := ⟨[0, 1, 2, 3], [(0, 1), (1, 2), (2, 3), (3, 0)]⟩

example : WFGraph triangle.edges triangle.nodes := by unfold WFGraph triangle; decide
example : Simple triangle.edges := by unfold Simple triangle; decide
example : WFGraph cycle4.edges cycle4.nodes := by unfold WFGraph cycle4; decide
example : Simple cycle4.edges := by unfold Simple cycle4; decide

/-- path 0-1-2 plus the isolated vertex 3 (a disconnected motif), rooted at the middle of the path -/
def pathIso : Motif := ⟨[0, 1, 2, 3], [(0, 1), (1, 2)]⟩
example : WFGraph pathIso.edges pathIso.nodes := by unfold WFGraph pathIso; decide
example : Simple pathIso.edges := by unfold Simple pathIso; decide

/-- triangle, `p = 3`, `u v = v + 3` over `ℤ`: both sides evaluate to the same number -/
example : automatedEquation triangle (3 : Int) (fun v => (v : Int) + 3) 0 = -428 := by decide +kernel
example : exactE triangle (3 : Int) (fun v => (v : Int) + 3) 0 = -428 := by decide +kernel
/-- 4-cycle -/
example : automatedEquation cycle4 (3 : Int) (fun v => (v : Int) + 3) 0 = -13412 := by decide +kernel
example : exactE cycle4 (3 : Int) (fun v => (v : Int) + 3) 0 = -13412 := by decide +kernel
/-- a disconnected motif -/
example : automatedEquation pathIso (3 : Int) (fun v => (v : Int) + 3) 1 = 91 := by decide +kernel
example : exactE pathIso (3 : Int) (fun v => (v : Int) + 3) 1 = 91 := by decide +kernel
/-- 4-cycle at a genuine probability, over `ℚ` -/
example : automatedEquation cycle4 (1/3 : Rat) (fun v => 1 / ((v : Rat) + 2)) 0 = 289 / 540 := by decide +kernel
example : exactE cycle4 (1/3 : Rat) (fun v => 1 / ((v : Rat) + 2)) 0 = 289 / 540 := by decide +kernel

/-- the hypothesis `Simple` is needed: listing the edge `0-1` in both orientations makes the model count
the root's neighbour once (`len(G.neighbors)`) while two independent edges lead to it -/
example : automatedEquation ⟨[0, 1], [(0, 1), (1, 0)]⟩ (2 : Int) (fun _ => 5) 0
    ≠ exactE ⟨[0, 1], [(0, 1), (1, 0)]⟩ (2 : Int) (fun _ => 5) 0 := by decide +kernel

end Gcmpy.Automated

#print axioms Gcmpy.Automated.automated_exact
#print axioms Gcmpy.Automated.automated_at_zero
