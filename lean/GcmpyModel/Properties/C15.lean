import GcmpyModel.Model.Automated
namespace Gcmpy.Automated
theorem placeholder_c15 : True := trivial
end Gcmpy.Automated
