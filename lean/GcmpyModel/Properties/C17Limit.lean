import GcmpyModel.Properties.C17
import GcmpyModel.Lemmas.MessagePassingLimit
/-!
# C17 (limit) — if the message-passing iteration converges, its limit is a fixed point of the sweep

Model: `GcmpyModel/Model/MessagePassing.lean` instantiated at the real numbers.  Lemmas:
`GcmpyModel/Lemmas/MessagePassingLimit.lean`.

`Properties/C17.lean` keeps `converges_full` (the iterate after 25 sweeps is close to a fixed point) as an open
statement: no rate of convergence exists in general.  What IS a theorem is the other half of "the algorithm
returns the fixed point of the message equations":

* `sweep_continuous`     : one Gauss–Seidel sweep is a continuous map of the table entries (each new message is a
                           polynomial in `φ` and the current entries) and looks at its table only through `readH`;
* `limit_is_fixed_point` : if the iterates `sweeps net φ n H₀` converge entry-wise to `L`, every table reading `L`
                           is fixed (entry-wise) by one sweep, hence by any number of sweeps;
* `limit_table_reads_limit`, `limit_table_reads_limit_of_edgeKeys` : such a table exists — the table with the keys of
                           `sweep net φ H₀` (of `H₀` itself, if `H₀` has all edge keys) and the entries `L`;
* `limit_table_fixed`    : with duplicate-free keys the limit table is fixed by the sweep as a TABLE;
* `value_converges`      : the reported value `1 - outerSum / N` converges to the value computed from the limit table;
* `uniform_start_limit`  : all of the above for the uniform start `initH net (1/2)` of the repository;
* `converges_at_zero`, `converges_of_fixed` : the convergence hypothesis is satisfiable (at `φ = 0` on every network
                           with well-formed labels, from every start; and from every fixed point);
* `cast_*`               : the real run from a rational start at a rational `φ` is the cast of the rational run
                           (`theoretical` of the model), so the statements apply to the numbers the model computes.

Nothing is assumed about the network for the limit statements (no `LabelsOk`, no `Consistent`): continuity is proved
directly on the `foldl` structure of `automatedEquation`.
-/
namespace Gcmpy.MessagePassing
open Gcmpy Gcmpy.Graph Gcmpy.Automated Filter

/-- the iterates from `H₀` converge entry-wise to `L` -/
def ConvergesTo (net : Net) (φ : ℝ) (H₀ : HMap ℝ) (L : Nat × Nat → ℝ) : Prop :=
  ∀ k, Tendsto (fun n => readH (sweeps net φ n H₀) k) atTop (nhds (L k))

/-- `theoretical` on a non-empty vertex list, over the reals -/
noncomputable def theoreticalReal (net : Net) (iterations : Nat) (φ : ℝ) : ℝ :=
  1 - outerSum net (finalH net iterations φ (1/2)) / (net.nodes.length : ℝ)

/-- **One sweep is continuous in the table entries and depends on the table only through them.**  If two tables
read the same, so do their sweeps; if the entries of a family of tables converge (along any filter) to those of `H`,
the entries of the swept tables converge to those of the swept `H`. -/
theorem sweep_continuous (net : Net) (φ : ℝ) :
    (∀ H' H : HMap ℝ, (∀ k, readH H' k = readH H k) →
      ∀ k, readH (sweep net φ H') k = readH (sweep net φ H) k) ∧
    (∀ {ι : Type} (F : Filter ι) (Hn : ι → HMap ℝ) (H : HMap ℝ),
      (∀ k, Tendsto (fun n => readH (Hn n) k) F (nhds (readH H k))) →
      ∀ k, Tendsto (fun n => readH (sweep net φ (Hn n)) k) F (nhds (readH (sweep net φ H) k))) :=
  ⟨fun _ _ h => sameRead_sweep net φ h, fun _ _ _ h => tendstoH_sweep net φ h⟩

/-- the convergence hypothesis says that the iterates converge, as tables, to any table reading `L` -/
theorem tendstoH_of_converges {net : Net} {φ : ℝ} {H₀ : HMap ℝ} {L : Nat × Nat → ℝ}
    (hconv : ConvergesTo net φ H₀ L) {Hstar : HMap ℝ} (hstar : ∀ k, readH Hstar k = L k) :
    TendstoH atTop (fun n => sweeps net φ n H₀) Hstar :=
  fun k => (hstar k).symm ▸ hconv k

/-- **The limit is a fixed point.**  If the iterates from `H₀` converge entry-wise to `L`, then any table `Hstar`
reading `L` is reproduced by one sweep: `H*[k] = (sweep H*)[k]` for every key. -/
theorem limit_is_fixed_point {net : Net} {φ : ℝ} {H₀ : HMap ℝ} {L : Nat × Nat → ℝ}
    (hconv : ConvergesTo net φ H₀ L) {Hstar : HMap ℝ} (hstar : ∀ k, readH Hstar k = L k) :
    ∀ k, readH (sweep net φ Hstar) k = readH Hstar k := by
  intro k
  -- `a (n+1) = sweep (a n)` tends to `sweep Hstar` by continuity …
  have h1 : Tendsto (fun n => readH (sweeps net φ (n + 1) H₀) k) atTop (nhds (readH (sweep net φ Hstar) k)) := by
    have := tendstoH_sweep net φ (tendstoH_of_converges hconv hstar) k
    simpa only [← sweeps_succ'] using this
  -- … and to `L k`, being a tail of the sequence
  have h2 : Tendsto (fun n => readH (sweeps net φ (n + 1) H₀) k) atTop (nhds (L k)) :=
    (tendsto_add_atTop_iff_nat (f := fun n => readH (sweeps net φ n H₀) k) 1).2 (hconv k)
  rw [hstar k]
  exact tendsto_nhds_unique h1 h2

/-- … and by any number of sweeps -/
theorem limit_is_stable {net : Net} {φ : ℝ} {H₀ : HMap ℝ} {L : Nat × Nat → ℝ}
    (hconv : ConvergesTo net φ H₀ L) {Hstar : HMap ℝ} (hstar : ∀ k, readH Hstar k = L k) :
    ∀ m k, readH (sweeps net φ m Hstar) k = readH Hstar k :=
  sameRead_sweeps_of_fixed net φ (limit_is_fixed_point hconv hstar)

/-- the limit vanishes off the key list (a missing key reads `0` in every iterate) -/
theorem limit_zero_off_keys {net : Net} {φ : ℝ} {H₀ : HMap ℝ} {L : Nat × Nat → ℝ}
    (hkeys : EdgeKeysIn net H₀) (hconv : ConvergesTo net φ H₀ L) {k : Nat × Nat} (hk : k ∉ Dict.keys H₀) :
    L k = 0 := by
  have h0 : (fun n => readH (sweeps net φ n H₀) k) = fun _ => (0 : ℝ) := by
    funext n
    exact readH_of_not_mem_keys _ (by rw [keys_sweeps net φ hkeys n]; exact hk)
  have := hconv k
  rw [h0] at this
  exact tendsto_nhds_unique this tendsto_const_nhds

/-- **The limit table** (`H₀` has every edge key, as the uniform start has): the table with the key list of `H₀`
and the entries `L` reads `L` at EVERY key. -/
theorem limit_table_reads_limit_of_edgeKeys {net : Net} {φ : ℝ} {H₀ : HMap ℝ} {L : Nat × Nat → ℝ}
    (hkeys : EdgeKeysIn net H₀) (hconv : ConvergesTo net φ H₀ L) :
    ∀ k, readH (limitTable H₀ L) k = L k := by
  intro k
  by_cases hk : k ∈ Dict.keys H₀
  · exact readH_limitTable_of_mem H₀ L hk
  · rw [limit_zero_off_keys hkeys hconv hk]
    exact readH_of_not_mem_keys _ (by rw [keys_limitTable]; exact hk)

theorem converges_shift {net : Net} {φ : ℝ} {H₀ : HMap ℝ} {L : Nat × Nat → ℝ}
    (hconv : ConvergesTo net φ H₀ L) (m : Nat) : ConvergesTo net φ (sweeps net φ m H₀) L := by
  intro k
  have := (tendsto_add_atTop_iff_nat (f := fun n => readH (sweeps net φ n H₀) k) m).2 (hconv k)
  simpa only [Nat.add_comm _ m, sweeps_add] using this

/-- **The limit table**, any start: after the first sweep the key list no longer changes; the table with the key
list of `sweep net φ H₀` and the entries `L` reads `L` at every key. -/
theorem limit_table_reads_limit {net : Net} {φ : ℝ} {H₀ : HMap ℝ} {L : Nat × Nat → ℝ}
    (hconv : ConvergesTo net φ H₀ L) :
    ∀ k, readH (limitTable (sweep net φ H₀) L) k = L k :=
  limit_table_reads_limit_of_edgeKeys (edgeKeysIn_sweep net φ H₀) (converges_shift hconv 1)

/-- **The limit table is a fixed point as a table** when the start has all edge keys, once each:
`sweep net φ H* = H*`, hence `sweeps net φ m H* = H*` for every `m`. -/
theorem limit_table_fixed {net : Net} {φ : ℝ} {H₀ : HMap ℝ} {L : Nat × Nat → ℝ}
    (hkeys : EdgeKeysIn net H₀) (hnd : (Dict.keys H₀).Nodup) (hconv : ConvergesTo net φ H₀ L) :
    sweep net φ (limitTable H₀ L) = limitTable H₀ L ∧ ∀ m, sweeps net φ m (limitTable H₀ L) = limitTable H₀ L := by
  have hk : EdgeKeysIn net (limitTable H₀ L) := fun k hk => by rw [keys_limitTable]; exact hkeys k hk
  have hfix : sweep net φ (limitTable H₀ L) = limitTable H₀ L :=
    table_ext (keys_sweep_of_edgeKeys net φ hk) (by rw [keys_limitTable]; exact hnd)
      (fun k _ => limit_is_fixed_point hconv (limit_table_reads_limit_of_edgeKeys hkeys hconv) k)
  exact ⟨hfix, fixed_point_stable_gen net φ hfix⟩

/-- **The reported value converges to the value of the limit table.** -/
theorem value_converges {net : Net} {φ : ℝ} {H₀ : HMap ℝ} {L : Nat × Nat → ℝ}
    (hconv : ConvergesTo net φ H₀ L) {Hstar : HMap ℝ} (hstar : ∀ k, readH Hstar k = L k) :
    Tendsto (fun n => outerSum net (sweeps net φ n H₀)) atTop (nhds (outerSum net Hstar)) ∧
    Tendsto (fun n => 1 - outerSum net (sweeps net φ n H₀) / (net.nodes.length : ℝ)) atTop
      (nhds (1 - outerSum net Hstar / (net.nodes.length : ℝ))) := by
  have h := tendsto_outerSum net (tendstoH_of_converges hconv hstar)
  exact ⟨h, (h.div_const _).const_sub 1⟩

/-- the value of the limit does not depend on the table chosen to hold it -/
theorem value_well_defined (net : Net) {H H' : HMap ℝ} (h : ∀ k, readH H k = readH H' k) :
    outerSum net H = outerSum net H' :=
  outerSum_congr net h

/-- **Summary, any start `H₀`.**  If the iterates converge entry-wise to `L`, then `H* :=` (keys of
`sweep net φ H₀`, entries `L`) reads `L`, is reproduced entry-wise by one sweep and by any number of sweeps, and the
reported values converge to the value computed from `H*`. -/
theorem message_passing_limit {net : Net} {φ : ℝ} {H₀ : HMap ℝ} {L : Nat × Nat → ℝ}
    (hconv : ConvergesTo net φ H₀ L) :
    (∀ k, readH (limitTable (sweep net φ H₀) L) k = L k) ∧
    (∀ k, readH (sweep net φ (limitTable (sweep net φ H₀) L)) k = readH (limitTable (sweep net φ H₀) L) k) ∧
    (∀ m k, readH (sweeps net φ m (limitTable (sweep net φ H₀) L)) k = readH (limitTable (sweep net φ H₀) L) k) ∧
    Tendsto (fun n => 1 - outerSum net (sweeps net φ n H₀) / (net.nodes.length : ℝ)) atTop
      (nhds (1 - outerSum net (limitTable (sweep net φ H₀) L) / (net.nodes.length : ℝ))) :=
  ⟨limit_table_reads_limit hconv, limit_is_fixed_point hconv (limit_table_reads_limit hconv),
   limit_is_stable hconv (limit_table_reads_limit hconv), (value_converges hconv (limit_table_reads_limit hconv)).2⟩

/-- **The uniform start of the repository.**  On a network whose labelled edges have both end points among the
listed members of their motif (part of `Consistent net`), if the iterates from `initH net (1/2)` converge entry-wise
to `L`, then the table `H*` with the keys of the start and the entries `L`
* reads `L` at every key,
* is a fixed point of the sweep — as a table — and of any number of sweeps, and
* `theoreticalReal net n φ` converges to `1 - outerSum net H* / N`. -/
theorem uniform_start_limit {net : Net} (hv : EndsInVerts net) {φ : ℝ} {L : Nat × Nat → ℝ}
    (hconv : ConvergesTo net φ (initH net (1/2)) L) :
    Dict.keys (limitTable (initH net (1/2 : ℝ)) L) = Dict.keys (initH net (1/2 : ℝ)) ∧
    (∀ k, readH (limitTable (initH net (1/2 : ℝ)) L) k = L k) ∧
    sweep net φ (limitTable (initH net (1/2 : ℝ)) L) = limitTable (initH net (1/2 : ℝ)) L ∧
    (∀ m, sweeps net φ m (limitTable (initH net (1/2 : ℝ)) L) = limitTable (initH net (1/2 : ℝ)) L) ∧
    Tendsto (fun n => theoreticalReal net n φ) atTop
      (nhds (1 - outerSum net (limitTable (initH net (1/2 : ℝ)) L) / (net.nodes.length : ℝ))) := by
  have hkeys : EdgeKeysIn net (initH net (1/2 : ℝ)) := edgeKeysIn_initH hv _
  have hfix := limit_table_fixed hkeys (keys_initH_nodup net _) hconv
  exact ⟨keys_limitTable _ _, limit_table_reads_limit_of_edgeKeys hkeys hconv, hfix.1, hfix.2,
    (value_converges hconv (limit_table_reads_limit_of_edgeKeys hkeys hconv)).2⟩

theorem uniform_start_limit_consistent {net : Net} (hc : Consistent net) {φ : ℝ} {L : Nat × Nat → ℝ}
    (hconv : ConvergesTo net φ (initH net (1/2)) L) :
    sweep net φ (limitTable (initH net (1/2 : ℝ)) L) = limitTable (initH net (1/2 : ℝ)) L ∧
    Tendsto (fun n => theoreticalReal net n φ) atTop
      (nhds (1 - outerSum net (limitTable (initH net (1/2 : ℝ)) L) / (net.nodes.length : ℝ))) :=
  have h := uniform_start_limit (endsInVerts_of_consistent hc) hconv
  ⟨h.2.2.1, h.2.2.2.2⟩

/-! ### the real run from rational data is the rational run of the model -/

/-- the table of the real run at a rational `φ` is the entry-wise cast of the table of the rational run -/
theorem cast_finalH (net : Net) (iterations : Nat) (φ : ℚ) :
    finalH net iterations (φ : ℝ) (1/2) = mapH (Rat.castHom ℝ) (finalH net iterations φ (1/2)) := by
  unfold finalH
  have hhalf : (1/2 : ℝ) = Rat.castHom ℝ (1/2) := by simp
  rw [hhalf, initH_mapH]
  exact sweeps_mapH (Rat.castHom ℝ) net φ iterations _

theorem cast_readH_finalH (net : Net) (iterations : Nat) (φ : ℚ) (k : Nat × Nat) :
    readH (finalH net iterations (φ : ℝ) (1/2)) k = ((readH (finalH net iterations φ (1/2)) k : ℚ) : ℝ) := by
  rw [cast_finalH, readH_mapH]
  rfl

/-- `theoreticalReal` at a rational `φ` is the cast of the model's `theoretical` -/
theorem cast_theoretical {net : Net} (hN : net.nodes ≠ []) (iterations : Nat) (φ : ℚ) :
    (theoretical net iterations φ).map (fun v : ℚ => (v : ℝ)) = some (theoreticalReal net iterations (φ : ℝ)) := by
  rw [theoretical_formula hN, Option.map_some]
  unfold theoreticalReal
  rw [cast_finalH, outerSum_mapH]
  simp [finalH]

/-- **The statement for the numbers the model computes.**  Rational `φ`, uniform start, end points listed as members
(part of `Consistent net`), non-empty vertex list.  If every entry of the rational tables `finalH net n φ (1/2)`
converges in `ℝ`, to `L k` say, then the real table `H*` with the keys of the start and the entries `L` is a fixed
point of the real sweep, and the values `theoretical net n φ` returned by the model converge to
`1 - outerSum net H* / N`. -/
theorem rational_run_limit {net : Net} (hv : EndsInVerts net) (hN : net.nodes ≠ []) {φ : ℚ} {L : Nat × Nat → ℝ}
    (hconv : ∀ k, Tendsto (fun n => ((readH (finalH net n φ (1/2)) k : ℚ) : ℝ)) atTop (nhds (L k))) :
    sweep net (φ : ℝ) (limitTable (initH net (1/2 : ℝ)) L) = limitTable (initH net (1/2 : ℝ)) L ∧
    (∀ k, readH (limitTable (initH net (1/2 : ℝ)) L) k = L k) ∧
    ∃ v : Nat → ℚ, (∀ n, theoretical net n φ = some (v n)) ∧
      Tendsto (fun n => ((v n : ℚ) : ℝ)) atTop
        (nhds (1 - outerSum net (limitTable (initH net (1/2 : ℝ)) L) / (net.nodes.length : ℝ))) := by
  have hconv' : ConvergesTo net (φ : ℝ) (initH net (1/2)) L := by
    intro k
    have := hconv k
    simp only [← cast_readH_finalH] at this
    exact this
  have h := uniform_start_limit hv hconv'
  refine ⟨h.2.2.1, h.2.1, fun n => 1 - outerSum net (finalH net n φ (1/2)) / (net.nodes.length : ℚ),
    fun n => theoretical_formula hN n φ, ?_⟩
  have hcast : ∀ n, ((1 - outerSum net (finalH net n φ (1/2)) / (net.nodes.length : ℚ) : ℚ) : ℝ)
      = theoreticalReal net n (φ : ℝ) := by
    intro n
    have := cast_theoretical hN n φ
    rw [theoretical_formula hN, Option.map_some, Option.some.injEq] at this
    exact this
  simp only [hcast]
  exact h.2.2.2.2

/-! ### the hypothesis is satisfiable -/

/-- from a table that one sweep reproduces, the iteration is constant: it converges to that table -/
theorem converges_of_fixed {net : Net} {φ : ℝ} {H : HMap ℝ} (hfix : ∀ k, readH (sweep net φ H) k = readH H k) :
    ConvergesTo net φ H (readH H) := by
  intro k
  have : (fun n => readH (sweeps net φ n H) k) = fun _ => readH H k :=
    funext fun n => sameRead_sweeps_of_fixed net φ hfix n k
  rw [this]
  exact tendsto_const_nhds

open Classical in
/-- **At `φ = 0` the iteration converges on every network with well-formed labels, from every start**: after one
sweep every edge key reads `1` and nothing changes any more. -/
theorem converges_at_zero {net : Net} (h : LabelsOk net) (H₀ : HMap ℝ) :
    ConvergesTo net 0 H₀ (fun k => if EdgeKey net k then 1 else readH H₀ k) := by
  intro k
  apply (tendsto_add_atTop_iff_nat (f := fun n => readH (sweeps net (0 : ℝ) n H₀) k) 1).1
  have : (fun n => readH (sweeps net (0 : ℝ) (n + 1) H₀) k) = fun _ => if EdgeKey net k then 1 else readH H₀ k := by
    funext n
    by_cases hk : EdgeKey net k
    · rw [if_pos hk]; exact (sweeps_zero_read h H₀ k n).1 hk
    · rw [if_neg hk]; exact (sweeps_zero_read h H₀ k n).2 hk
  rw [this]
  exact tendsto_const_nhds

/-- … and the reported value is `0` from the first sweep on (`zero_at_zero` of `Properties/C17.lean`, over `ℝ` and
from any start), so its limit is `0` -/
theorem limit_value_at_zero {net : Net} (h : LabelsOk net) (hN : net.nodes ≠ []) (H₀ : HMap ℝ) :
    Tendsto (fun n => 1 - outerSum net (sweeps net (0 : ℝ) n H₀) / (net.nodes.length : ℝ)) atTop (nhds 0) := by
  apply (tendsto_add_atTop_iff_nat
    (f := fun n => 1 - outerSum net (sweeps net (0 : ℝ) n H₀) / (net.nodes.length : ℝ)) 1).1
  have hpos : (net.nodes.length : ℝ) ≠ 0 := by
    have : 0 < net.nodes.length := List.length_pos_iff.2 hN
    exact_mod_cast this.ne'
  have : (fun n => 1 - outerSum net (sweeps net (0 : ℝ) (n + 1) H₀) / (net.nodes.length : ℝ)) = fun _ => 0 := by
    funext n
    rw [outerSum_of_ones_gen net (fun k hk => (sweeps_zero_read h H₀ k n).1 hk), div_self hpos, sub_self]
  rw [this]
  exact tendsto_const_nhds

/-- a single edge `0 — 1` covered by itself -/
def edge1 : Net := ⟨[0, 1], [(0, 1, ⟨[0, 1], [(0, 1)], 0⟩)]⟩

example : LabelsOk edge1 := by
  simp only [LabelsOk, Automated.Simple]; decide

example : EndsInVerts edge1 := by
  simp only [EndsInVerts]; decide

/-- the convergence hypothesis holds on the single edge at `φ = 0` from the uniform start … -/
example : ∃ L, ConvergesTo edge1 0 (initH edge1 (1/2)) L :=
  ⟨_, converges_at_zero (by simp only [LabelsOk, Automated.Simple]; decide) _⟩

/-- … so `uniform_start_limit` applies there: its limit table is a fixed point of the sweep -/
example : ∃ Hstar : HMap ℝ, Dict.keys Hstar = Dict.keys (initH edge1 (1/2 : ℝ)) ∧ sweep edge1 0 Hstar = Hstar :=
  have h := uniform_start_limit (net := edge1) (by simp only [EndsInVerts]; decide)
    (converges_at_zero (by simp only [LabelsOk, Automated.Simple]; decide) _)
  ⟨_, h.1, h.2.2.1⟩

/-- the edge-key hypothesis of `limit_table_reads_limit_of_edgeKeys` / `limit_table_fixed` cannot be dropped: from
the EMPTY start the table "keys of `H₀`, entries `L`" is empty, and the empty table is not reproduced by a sweep
(which creates the edge keys).  For a start without all edge keys use the keys of `sweep net φ H₀`
(`message_passing_limit`). -/
example (L : Nat × Nat → ℝ) :
    ¬ ∀ k, readH (sweep edge1 (0 : ℝ) (limitTable [] L)) k = readH (limitTable ([] : HMap ℝ) L) k := by
  intro h
  have h1 := (sweep_zero_read (R := ℝ) (net := edge1) (by simp only [LabelsOk, Automated.Simple]; decide)
    (limitTable [] L) (0, 0)).1 ⟨_, List.mem_cons_self, Or.inl rfl⟩
  have h2 := h (0, 0)
  rw [h1] at h2
  simp [limitTable, readH, Dict.get] at h2

/-- a path `0 — 1 — 2` covered by its two edges -/
def path3 : Net := ⟨[0, 1, 2], [(0, 1, ⟨[0, 1], [(0, 1)], 0⟩), (1, 2, ⟨[1, 2], [(1, 2)], 1⟩)]⟩

/-- on a tree the iteration is stationary after finitely many sweeps: here after two, at the table of ones -/
def onesPath3 : HMap ℚ := [((0, 0), 1), ((1, 0), 1), ((1, 1), 1), ((2, 1), 1)]

theorem path3_two_sweeps : sweeps path3 (1/2 : ℚ) 2 (initH path3 (1/2)) = onesPath3 := by decide +kernel
theorem path3_fixed : sweep path3 (1/2 : ℚ) onesPath3 = onesPath3 := by decide +kernel
/-- after ONE sweep the table is not yet the fixed point (the hypothesis below is not satisfied trivially) -/
example : sweeps path3 (1/2 : ℚ) 1 (initH path3 (1/2)) ≠ onesPath3 := by decide +kernel

/-- the convergence hypothesis at `φ = 1/2` on the path, over `ℝ`, from the uniform start (through the
transport of the rational run: `sweeps_mapH`) -/
theorem path3_converges :
    ConvergesTo path3 (1/2 : ℝ) (initH path3 (1/2)) (readH (mapH (Rat.castHom ℝ) onesPath3)) := by
  have hhalf : (1/2 : ℝ) = Rat.castHom ℝ (1/2) := by simp
  have h2 : sweeps path3 (1/2 : ℝ) 2 (initH path3 (1/2)) = mapH (Rat.castHom ℝ) onesPath3 := by
    rw [hhalf, initH_mapH, sweeps_mapH, path3_two_sweeps]
  have hfix : sweep path3 (1/2 : ℝ) (mapH (Rat.castHom ℝ) onesPath3) = mapH (Rat.castHom ℝ) onesPath3 := by
    rw [hhalf, sweep_mapH, path3_fixed]
  intro k
  apply (tendsto_add_atTop_iff_nat (f := fun n => readH (sweeps path3 (1/2 : ℝ) n (initH path3 (1/2))) k) 2).1
  have : (fun n => readH (sweeps path3 (1/2 : ℝ) (n + 2) (initH path3 (1/2))) k)
      = fun _ => readH (mapH (Rat.castHom ℝ) onesPath3) k := by
    funext n
    rw [Nat.add_comm, sweeps_add, h2, fixed_point_stable_gen path3 (1/2 : ℝ) hfix n]
  rw [this]
  exact tendsto_const_nhds

/-- … and the conclusion of `uniform_start_limit` there -/
example : ∃ Hstar : HMap ℝ, sweep path3 (1/2 : ℝ) Hstar = Hstar ∧
    Tendsto (fun n => theoreticalReal path3 n (1/2)) atTop
      (nhds (1 - outerSum path3 Hstar / (path3.nodes.length : ℝ))) :=
  have h := uniform_start_limit (net := path3) (by simp only [EndsInVerts]; decide) path3_converges
  ⟨_, h.2.2.1, h.2.2.2.2⟩

end Gcmpy.MessagePassing

