import GcmpyModel.Model.Distributions
namespace Gcmpy.Distributions
theorem placeholder_c19 : True := trivial
end Gcmpy.Distributions
