import GcmpyModel.Lemmas.Distributions
/-!
# C19 — the four degree distributions compute the named laws

Real-number model (definitions in `Lemmas/Distributions.lean`):

* `expo a k   = (1 - exp(-a)) * exp(-a*k)`        (`exponential.py`)
* `pois m k   = exp(-m) * m^k / k!`               (`poisson.py`)
* `zterm α k  = 1 / k^α`,  `lterm α z k = z^k / k^α` : the terms of the two `while 1` loops of
  `power_law.py` / `scale_free_cut_off.py`; `StopsAt term tol K` says the loop leaves at index `K`
  (first `k ≥ 1` with `term k < tol`, that term included) and `partialSum term K` is what it returns.
  All terms are non-negative, so the code's `abs(term)` is `term`.

Proved here:
1. `expo`, `pois` are non-negative and sum to exactly 1 over `k ≥ 0`.
2. both loops terminate on the documented parameter ranges (`α > 0`, resp. `α ≥ 0 ∧ 0 ≤ z < 1`).
3. the zeta loop's result `C` satisfies `0 < ζ(α) - C ≤ K·tol` for `α ≥ 2` (the constant proved is
   `K * tol`, not the weaker `2 * K * tol`), the polylog loop's `0 < Li_α(z) - C ≤ tol·z/(1-z)`.
4. consequently the code's `p(k) = k^{-α}/C` over-estimates the exact power law `k^{-α}/ζ(α)` by a
   relative error of at most `K·tol`, and the cut-off law by at most `tol/(1-z)`; the code's values
   sum to a number in `[1, 1 + K·tol]`, resp. `[1, 1 + tol/(1-z)]`.
5. the executable rational loops of `Model/Distributions.lean` (integer exponent) satisfy `StopsAt`
   and return `partialSum`.
-/
open Finset Filter Topology

namespace Gcmpy.Distributions

/-! ## 1. exponential -/

theorem expo_nonneg {a : ℝ} {k : ℕ} (ha : 0 < a) : 0 ≤ expo a k := by
  unfold expo
  have h : Real.exp (-a) < 1 := Real.exp_lt_one_iff.2 (by linarith)
  have h1 : 0 ≤ 1 - Real.exp (-a) := by linarith
  positivity

theorem expo_hasSum_one {a : ℝ} (ha : 0 < a) : HasSum (fun k : ℕ => expo a k) 1 := by
  have h0 : 0 ≤ Real.exp (-a) := (Real.exp_pos _).le
  have h1 : Real.exp (-a) < 1 := Real.exp_lt_one_iff.2 (by linarith)
  have h := (hasSum_geometric_of_lt_one h0 h1).mul_left (1 - Real.exp (-a))
  rw [mul_inv_cancel₀ (by linarith)] at h
  simpa only [expo_eq] using h

/-! ## 2. poisson -/

theorem pois_nonneg {m : ℝ} {k : ℕ} (hm : 0 < m) : 0 ≤ pois m k := by
  unfold pois; positivity

theorem pois_hasSum_one {m : ℝ} (_hm : 0 < m) : HasSum (fun k : ℕ => pois m k) 1 := by
  have h := (NormedSpace.expSeries_div_hasSum_exp (𝔸 := ℝ) m).mul_left (Real.exp (-m))
  rw [← Real.exp_eq_exp_ℝ, ← Real.exp_add, neg_add_cancel, Real.exp_zero] at h
  have e : (fun k : ℕ => pois m k)
      = fun k : ℕ => Real.exp (-m) * (m ^ k / (Nat.factorial k : ℝ)) := by
    funext k
    unfold pois
    rw [mul_div_assoc]
  rw [e]
  exact h

/-! ## 3. the two loops terminate -/

theorem zeta_loop_terminates {α tol : ℝ} (hα : 0 < α) (htol : 0 < tol) :
    ∃ K, StopsAt (zterm α) tol K :=
  stopsAt_of_exists (exists_zterm_lt hα htol)

theorem polylog_loop_terminates {α z tol : ℝ} (hα : 0 ≤ α) (hz0 : 0 ≤ z) (hz1 : z < 1)
    (htol : 0 < tol) : ∃ K, StopsAt (lterm α z) tol K :=
  stopsAt_of_exists (exists_lterm_lt hα hz0 hz1 htol)

/-- for `α ≤ 0` the zeta loop never stops once `tol ≤ 1` (so the documented range matters) -/
theorem zeta_loop_diverges {α tol : ℝ} (hα : α ≤ 0) (htol : tol ≤ 1) :
    ¬ ∃ K, StopsAt (zterm α) tol K := by
  rintro ⟨K, hK1, hlt, -⟩
  have hK : (1 : ℝ) ≤ K := by exact_mod_cast hK1
  have h1 : (K : ℝ) ^ α ≤ 1 := Real.rpow_le_one_of_one_le_of_nonpos hK hα
  have hpos : (0 : ℝ) < (K : ℝ) ^ α := Real.rpow_pos_of_pos (by linarith) _
  have : 1 ≤ zterm α K := by
    unfold zterm
    rw [le_div_iff₀ hpos]; linarith
  linarith

/-- the stopping index is unique: `StopsAt` determines the loop's result -/
theorem stopsAt_unique {term : ℕ → ℝ} {tol : ℝ} {K K' : ℕ} (h : StopsAt term tol K)
    (h' : StopsAt term tol K') : K = K' := h.unique h'

/-! ## 4. truncation error of the zeta loop -/

theorem zeta_tail_bound {α tol : ℝ} {K : ℕ} (hα : 2 ≤ α) (_htol : 0 < tol)
    (hK : StopsAt (zterm α) tol K) :
    0 < (∑' k : ℕ, zterm α (k + 1)) - partialSum (zterm α) K ∧
      (∑' k : ℕ, zterm α (k + 1)) - partialSum (zterm α) K ≤ K * tol := by
  have hKpos : (0 : ℝ) < K := by exact_mod_cast hK.1
  rw [tail_eq (summable_zterm_succ (by linarith))]
  refine ⟨zeta_tail_pos (by linarith) K, (zeta_tail_le hα hK.1).trans ?_⟩
  exact mul_le_mul_of_nonneg_left hK.2.1.le hKpos.le

/-- the strict version: the truncation error is `< K * tol` -/
theorem zeta_tail_bound_lt {α tol : ℝ} {K : ℕ} (hα : 2 ≤ α) (hK : StopsAt (zterm α) tol K) :
    (∑' k : ℕ, zterm α (k + 1)) - partialSum (zterm α) K < K * tol := by
  have hKpos : (0 : ℝ) < K := by exact_mod_cast hK.1
  rw [tail_eq (summable_zterm_succ (by linarith))]
  exact lt_of_le_of_lt (zeta_tail_le hα hK.1) (mul_lt_mul_of_pos_left hK.2.1 hKpos)

theorem zeta_partialSum_ge_one {α : ℝ} {K : ℕ} (hK : 1 ≤ K) : 1 ≤ partialSum (zterm α) K := by
  have := partialSum_ge_first (zterm_nonneg α) hK
  rwa [zterm_one] at this

/-! ## 5. `power_law(alpha)` is the zeta law up to a relative error `K * tol` -/

/-- `pow(k, -alpha)` is the loop's `k`-th term -/
theorem powerLaw_numerator (α : ℝ) (k : ℕ) : (k : ℝ) ^ (-α) = zterm α k := by
  unfold zterm
  rw [Real.rpow_neg (Nat.cast_nonneg k), one_div]

theorem powerLaw_nonneg (α : ℝ) (K k : ℕ) : 0 ≤ zterm α k / partialSum (zterm α) K := by
  refine div_nonneg (zterm_nonneg α k) ?_
  unfold partialSum
  exact Finset.sum_nonneg (fun i _ => zterm_nonneg α i)

theorem powerLaw_close {α tol : ℝ} {K : ℕ} (hα : 2 ≤ α) (htol : 0 < tol)
    (hK : StopsAt (zterm α) tol K) (k : ℕ) :
    zterm α k / (∑' i : ℕ, zterm α (i + 1)) ≤ zterm α k / partialSum (zterm α) K ∧
      zterm α k / partialSum (zterm α) K - zterm α k / (∑' i : ℕ, zterm α (i + 1))
        ≤ (K * tol) * (zterm α k / (∑' i : ℕ, zterm α (i + 1))) := by
  obtain ⟨h1, h2⟩ := zeta_tail_bound hα htol hK
  have := close_of_bounds (zterm_nonneg α k) one_pos (zeta_partialSum_ge_one hK.1)
    (by linarith) h2
  simpa only [div_one] using this

theorem powerLaw_sum {α tol : ℝ} {K : ℕ} (hα : 2 ≤ α) (htol : 0 < tol)
    (hK : StopsAt (zterm α) tol K) :
    1 ≤ ∑' k : ℕ, zterm α (k + 1) / partialSum (zterm α) K ∧
      ∑' k : ℕ, zterm α (k + 1) / partialSum (zterm α) K ≤ 1 + K * tol := by
  obtain ⟨h1, h2⟩ := zeta_tail_bound hα htol hK
  rw [tsum_div_const]
  have := ratio_bounds one_pos (zeta_partialSum_ge_one hK.1) (by linarith) h2
  simpa only [div_one] using this

/-- the code's values are summable (so `powerLaw_sum` is about a genuine sum) -/
theorem powerLaw_summable {α : ℝ} (hα : 2 ≤ α) (K : ℕ) :
    Summable (fun k : ℕ => zterm α (k + 1) / partialSum (zterm α) K) :=
  (summable_zterm_succ (by linarith)).div_const _

/-! ## 6. truncation error of the polylogarithm loop; `scale_free_cut_off` -/

theorem polylog_tail_bound {α z tol : ℝ} {K : ℕ} (hα : 0 ≤ α) (hz0 : 0 < z) (hz1 : z < 1)
    (hK : StopsAt (lterm α z) tol K) :
    0 < (∑' k : ℕ, lterm α z (k + 1)) - partialSum (lterm α z) K ∧
      (∑' k : ℕ, lterm α z (k + 1)) - partialSum (lterm α z) K ≤ tol * z / (1 - z) := by
  rw [tail_eq (summable_lterm_succ hα hz0.le hz1)]
  refine ⟨polylog_tail_pos hα hz0 hz1 K, (polylog_tail_le hα hz0.le hz1 hK.1).trans ?_⟩
  have h1z : 0 < 1 - z := by linarith
  rw [mul_div_assoc]
  exact mul_le_mul_of_nonneg_right hK.2.1.le (div_nonneg hz0.le h1z.le)

theorem polylog_partialSum_ge {α z : ℝ} {K : ℕ} (hz0 : 0 ≤ z) (hK : 1 ≤ K) :
    z ≤ partialSum (lterm α z) K := by
  have := partialSum_ge_first (lterm_nonneg α hz0) hK
  rwa [lterm_one] at this

/-- `pow(k, -alpha) * exp(-k / kappa)` is the loop's `k`-th term at `z = exp(-1/kappa)` -/
theorem cutoff_numerator (α κ : ℝ) (k : ℕ) :
    (k : ℝ) ^ (-α) * Real.exp (-(k : ℝ) / κ) = lterm α (Real.exp (-1 / κ)) k := by
  unfold lterm
  rw [Real.rpow_neg (Nat.cast_nonneg k), ← Real.exp_nat_mul, div_eq_mul_inv, mul_comm]
  congr 2
  ring

theorem cutoff_z_range {κ : ℝ} (hκ : 0 < κ) : 0 < Real.exp (-1 / κ) ∧ Real.exp (-1 / κ) < 1 :=
  ⟨Real.exp_pos _, Real.exp_lt_one_iff.2 (by rw [neg_div]; exact neg_neg_of_pos (by positivity))⟩

theorem cutoff_nonneg (α : ℝ) {z : ℝ} (hz0 : 0 ≤ z) (K k : ℕ) :
    0 ≤ lterm α z k / partialSum (lterm α z) K := by
  refine div_nonneg (lterm_nonneg α hz0 k) ?_
  unfold partialSum
  exact Finset.sum_nonneg (fun i _ => lterm_nonneg α hz0 i)

theorem cutoff_close {α z tol : ℝ} {K : ℕ} (hα : 0 ≤ α) (hz0 : 0 < z) (hz1 : z < 1)
    (hK : StopsAt (lterm α z) tol K) (k : ℕ) :
    lterm α z k / (∑' i : ℕ, lterm α z (i + 1)) ≤ lterm α z k / partialSum (lterm α z) K ∧
      lterm α z k / partialSum (lterm α z) K - lterm α z k / (∑' i : ℕ, lterm α z (i + 1))
        ≤ (tol / (1 - z)) * (lterm α z k / (∑' i : ℕ, lterm α z (i + 1))) := by
  obtain ⟨h1, h2⟩ := polylog_tail_bound hα hz0 hz1 hK
  have := close_of_bounds (lterm_nonneg α hz0.le k) hz0 (polylog_partialSum_ge hz0.le hK.1)
    (by linarith) h2
  have e : tol * z / (1 - z) / z = tol / (1 - z) := by field_simp
  rwa [e] at this

theorem cutoff_sum {α z tol : ℝ} {K : ℕ} (hα : 0 ≤ α) (hz0 : 0 < z) (hz1 : z < 1)
    (hK : StopsAt (lterm α z) tol K) :
    1 ≤ ∑' k : ℕ, lterm α z (k + 1) / partialSum (lterm α z) K ∧
      ∑' k : ℕ, lterm α z (k + 1) / partialSum (lterm α z) K ≤ 1 + tol / (1 - z) := by
  obtain ⟨h1, h2⟩ := polylog_tail_bound hα hz0 hz1 hK
  rw [tsum_div_const]
  have := ratio_bounds hz0 (polylog_partialSum_ge hz0.le hK.1) (by linarith) h2
  have e : tol * z / (1 - z) / z = tol / (1 - z) := by field_simp
  rwa [e] at this

theorem cutoff_summable {α z : ℝ} (hα : 0 ≤ α) (hz0 : 0 ≤ z) (hz1 : z < 1) (K : ℕ) :
    Summable (fun k : ℕ => lterm α z (k + 1) / partialSum (lterm α z) K) :=
  (summable_lterm_succ hα hz0 hz1).div_const _

/-! ## 7. the executable loops of `Model/Distributions.lean` -/

theorem zetaLoop_spec {s : ℕ} {tol l : ℚ} {fuel K : ℕ} (h : zetaTrunc s tol fuel = some (l, K)) :
    StopsAt (fun k => zterm (s : ℝ) k) (tol : ℝ) K ∧ (l : ℝ) = partialSum (zterm (s : ℝ)) K :=
  zetaLoop_inv s tol fuel 1 0 l K le_rfl (fun j h1 h2 => absurd h2 (by omega))
    (by simp [partialSum_zero]) h

theorem polylogLoop_spec {s : ℕ} {z tol l : ℚ} {fuel K : ℕ} (hz : 0 ≤ z)
    (h : polylogTrunc s z tol fuel = some (l, K)) :
    StopsAt (fun k => lterm (s : ℝ) (z : ℝ) k) (tol : ℝ) K ∧
      (l : ℝ) = partialSum (lterm (s : ℝ) (z : ℝ)) K :=
  polylogLoop_inv s z tol hz fuel 1 z 0 l K le_rfl (pow_one z).symm
    (fun j h1 h2 => absurd h2 (by omega)) (by simp [partialSum_zero]) h

/-- with enough fuel the executable zeta loop does return (it is not just vacuously specified) -/
example : zetaTrunc 2 (1 / 10) 10 = some (205 / 144, 4) := by decide +kernel

/-! ## examples: the hypotheses are satisfiable -/

example : StopsAt (zterm 2) (1 / 10) 4 := by
  have h := (zetaLoop_spec (s := 2) (tol := 1 / 10) (l := 205 / 144) (fuel := 10) (K := 4)
    (by decide +kernel)).1
  simpa using h

example : (0 : ℝ) < (∑' k : ℕ, zterm 2 (k + 1)) - partialSum (zterm 2) 4 ∧
    (∑' k : ℕ, zterm 2 (k + 1)) - partialSum (zterm 2) 4 ≤ 4 * (1 / 10) := by
  have hs : StopsAt (zterm 2) (1 / 10) 4 := by
    have h := (zetaLoop_spec (s := 2) (tol := 1 / 10) (l := 205 / 144) (fuel := 10) (K := 4)
      (by decide +kernel)).1
    simpa using h
  have := zeta_tail_bound (le_refl 2) (by norm_num) hs
  simpa using this

example : ∃ K, StopsAt (lterm 2 (Real.exp (-1 / 5))) (1 / 1000000) K :=
  polylog_loop_terminates (by norm_num) (cutoff_z_range (by norm_num)).1.le
    (cutoff_z_range (by norm_num)).2 (by norm_num)

end Gcmpy.Distributions
