import GcmpyModel.Lemmas.Generate
/-!
# C02 — edge-list columns stay parallel and motif identities are well formed

`rows el` zips the three columns.  The theorems say that, for every motif record in order, the rows it
contributes are exactly the edges its build callback returned, each tagged with the prescribed name and
with that record's id; ids are `0, 1, 2, …` in call order, hence pairwise distinct.
All statements are for every list of draws (`σ` arbitrary) and arbitrary callbacks.
-/
namespace Gcmpy.Generate

def rows {ν : Type} (el : EdgeList ν) : List ((Nat × Nat) × ν × Nat) := el.edges.zip (el.topologies.zip el.motifId)

theorem zip_replicate_right' {α β : Type} (l : List α) (x : β) : l.zip (List.replicate l.length x) = l.map (·, x) := by
  induction l with
  | nil => rfl
  | cons a t ih => simp [List.replicate_succ, ih]

/-! ### fast / network generator -/

section fast
variable {ν : Type} (names : Nat → ν) (ms : List (Motif (List (Nat × Nat)))) (jds : List (List Nat))

theorem fast_columns_parallel :
    (edgeListFast names ms jds).edges.length = (edgeListFast names ms jds).topologies.length ∧
    (edgeListFast names ms jds).edges.length = (edgeListFast names ms jds).motifId.length := by
  simp [edgeListFast, List.length_flatMap]

/-- the rows are, motif after motif, the callback's edges tagged with the topology's name and the motif's id -/
theorem fast_rows :
    rows (edgeListFast names ms jds) = ms.flatMap fun m => m.built.map fun e => (e, names m.top, m.id) := by
  unfold rows edgeListFast
  simp only
  induction ms with
  | nil => rfl
  | cons m t ih =>
    simp only [List.flatMap_cons]
    rw [List.zip_append (by simp), List.zip_append (by simp), ih]
    congr 1
    rw [List.zip_replicate', ← zip_replicate_right']

/-- distinct instances never share an id: ids are the running counter -/
theorem fast_ids_distinct {β : Type} (sizes : List Nat) (build : Nat → List Nat → β) (σ : List (List Nat)) :
    ((motifsFast sizes build σ).map (·.id)).Nodup := by
  rw [motifsFast_ids]; exact List.nodup_range

/-- the rows sharing motif `m`'s id are exactly the edges its build call returned (given distinct ids) -/
theorem fast_id_group (hnd : (ms.map (·.id)).Nodup) (m : Motif (List (Nat × Nat))) (hm : m ∈ ms) :
    ((rows (edgeListFast names ms jds)).filter (fun r => r.2.2 = m.id)) = m.built.map fun e => (e, names m.top, m.id) := by
  rw [fast_rows]
  induction ms with
  | nil => cases hm
  | cons a t ih =>
    simp only [List.map_cons, List.nodup_cons] at hnd
    simp only [List.flatMap_cons, List.filter_append]
    rcases List.mem_cons.1 hm with rfl | hm'
    · have h1 : (List.map (fun e => (e, names m.top, m.id)) m.built).filter (fun r => r.2.2 = m.id) =
          List.map (fun e => (e, names m.top, m.id)) m.built := by
        rw [List.filter_eq_self]; intro r hr; rcases List.mem_map.1 hr with ⟨e, _, rfl⟩; simp
      have h2 : (t.flatMap fun m' => m'.built.map fun e => (e, names m'.top, m'.id)).filter
          (fun r => r.2.2 = m.id) = [] := by
        rw [List.filter_eq_nil_iff]
        intro r hr
        rcases List.mem_flatMap.1 hr with ⟨m', hm', hr'⟩
        rcases List.mem_map.1 hr' with ⟨e, _, rfl⟩
        simp only [decide_eq_true_eq]
        intro heq
        exact hnd.1 (List.mem_map.2 ⟨m', hm', heq⟩)
      rw [h1, h2, List.append_nil]
    · have hne : a.id ≠ m.id := fun h => hnd.1 (List.mem_map.2 ⟨m, hm', h.symm⟩)
      have h1 : (List.map (fun e => (e, names a.top, a.id)) a.built).filter (fun r => r.2.2 = m.id) = [] := by
        rw [List.filter_eq_nil_iff]; intro r hr; rcases List.mem_map.1 hr with ⟨e, _, rfl⟩; simp [hne]
      rw [h1, List.nil_append]
      exact ih hnd.2 hm'

end fast

/-! ### custom-motif generator (repaired branch on the element type) -/

/-- the naming callback returns as many names as the build callback returns edges (one name for a bare edge) -/
def NamesOk (names : Nat → Named) (m : Motif Built) : Prop :=
  match m.built, names m.top with
  | .bare _ _, .single _ => True
  | .edges l, .many ns => ns.length = l.length
  | _, _ => False

/-- rows one motif must contribute: position `t` of the naming callback's result goes with edge `t` -/
def rowsOf (names : Nat → Named) (m : Motif Built) : List ((Nat × Nat) × Cell × Nat) :=
  match m.built, names m.top with
  | .bare a b, .single s => [((a, b), Cell.name s, m.id)]
  | .edges l, .many ns => l.zip ((ns.map Cell.name).zip (List.replicate l.length m.id))
  | _, _ => []

section custom
variable (names : Nat → Named) (jds : List (List Nat))

theorem custom_columns_parallel (ms : List (Motif Built)) (hok : ∀ m ∈ ms, NamesOk names m) :
    (edgeListCustom names ms jds).edges.length = (edgeListCustom names ms jds).topologies.length ∧
    (edgeListCustom names ms jds).edges.length = (edgeListCustom names ms jds).motifId.length := by
  unfold edgeListCustom
  simp only [List.length_flatMap]
  induction ms with
  | nil => simp
  | cons m t ih =>
    have h1 := hok m (List.mem_cons_self ..)
    have ih' := ih (fun m' hm' => hok m' (List.mem_cons_of_mem _ hm'))
    simp only [List.map_cons, List.sum_cons]
    unfold NamesOk at h1
    rcases hb : m.built with ⟨a, b⟩ | l <;> rcases hn : names m.top with s | ns <;> rw [hb, hn] at h1 <;>
      simp_all

theorem custom_rows (ms : List (Motif Built)) (hok : ∀ m ∈ ms, NamesOk names m) :
    rows (edgeListCustom names ms jds) = ms.flatMap (rowsOf names) := by
  unfold rows edgeListCustom
  simp only
  induction ms with
  | nil => rfl
  | cons m t ih =>
    have h1 := hok m (List.mem_cons_self ..)
    have ih' := ih (fun m' hm' => hok m' (List.mem_cons_of_mem _ hm'))
    simp only [List.flatMap_cons]
    obtain ⟨top, mid, verts, built⟩ := m
    unfold NamesOk at h1
    simp only at h1 ⊢
    cases built with
    | bare a b =>
      cases hn : names top with
      | single s =>
        rw [List.zip_append (by simp), List.zip_append (by simp), ih']
        simp [rowsOf, hn]
      | many ns => rw [hn] at h1; exact h1.elim
    | edges l =>
      cases hn : names top with
      | single s => rw [hn] at h1; exact h1.elim
      | many ns =>
        rw [hn] at h1
        simp only at h1
        rw [List.zip_append (by simp [h1]), List.zip_append (by simp [h1]), ih']
        simp [rowsOf, hn]

/-- ids of the custom generator are the running counter as well -/
theorem custom_ids (sizes : List Nat) (orbits : List (List Nat)) (build : Nat → List Nat → Built)
    (σ : List (List Nat)) (ms : List (Motif Built)) (h : motifsCustom sizes orbits build σ = some ms) :
    ms.map (·.id) = List.range ms.length := by
  unfold motifsCustom at h
  cases hd : drawAll sizes σ orbits 0 (partitions sizes σ) with
  | none => simp [hd] at h
  | some gs =>
    simp only [hd, Option.map_some, Option.some.injEq] at h
    subst h
    rw [List.map_map]
    have : ((fun m : Motif Built => m.id) ∘ fun (x : (Nat × List Nat) × Nat) =>
        match x with | ((j, vs), id) => (⟨j, id, vs, build j vs⟩ : Motif Built)) = Prod.snd := by
      funext ⟨⟨k, c⟩, id⟩; rfl
    rw [this, List.zipIdx_map_snd]; simp [List.range_eq_range']

theorem custom_built_is_callback_result (sizes : List Nat) (orbits : List (List Nat)) (build : Nat → List Nat → Built)
    (σ : List (List Nat)) (ms : List (Motif Built)) (h : motifsCustom sizes orbits build σ = some ms)
    (m : Motif Built) (hm : m ∈ ms) : m.built = build m.top m.verts := by
  unfold motifsCustom at h
  cases hd : drawAll sizes σ orbits 0 (partitions sizes σ) with
  | none => simp [hd] at h
  | some gs =>
    simp only [hd, Option.map_some, Option.some.injEq] at h
    subst h
    rcases List.mem_map.1 hm with ⟨⟨⟨k, c⟩, id⟩, _, rfl⟩
    rfl

/-- one bare edge: exactly one row, one id, the single name -/
theorem bare_edge_row (m : Motif Built) (a b : Nat) (s : String) (hb : m.built = .bare a b)
    (hn : names m.top = .single s) : rowsOf names m = [((a, b), Cell.name s, m.id)] := by
  unfold rowsOf; rw [hb, hn]

/-- a motif of exactly two edges contributes two rows with its two names and one shared id -/
theorem two_edge_rows (m : Motif Built) (e1 e2 : Nat × Nat) (n1 n2 : String) (hb : m.built = .edges [e1, e2])
    (hn : names m.top = .many [n1, n2]) :
    rowsOf names m = [(e1, Cell.name n1, m.id), (e2, Cell.name n2, m.id)] := by
  unfold rowsOf; rw [hb, hn]; rfl

theorem one_edge_rows (m : Motif Built) (e1 : Nat × Nat) (n1 : String) (hb : m.built = .edges [e1])
    (hn : names m.top = .many [n1]) : rowsOf names m = [(e1, Cell.name n1, m.id)] := by
  unfold rowsOf; rw [hb, hn]; rfl

end custom

/-! Non-vacuity: the suite's kind of configuration (bare 2-clique + triangle with per-edge names). -/
example :
    let names : Nat → Named := fun j => if j = 0 then .single "2-clique" else .many ["a", "b", "c"]
    let ms : List (Motif Built) := [⟨0, 0, [4, 7], .bare 4 7⟩, ⟨1, 1, [1, 2, 3], .edges [(1, 2), (1, 3), (2, 3)]⟩]
    (∀ m ∈ ms, NamesOk names m) ∧ (rows (edgeListCustom names ms [])).length = 4 := by
  refine ⟨?_, by decide⟩
  intro m hm
  simp only [List.mem_cons, List.mem_nil_iff, or_false] at hm
  rcases hm with rfl | rfl <;> simp [NamesOk]

end Gcmpy.Generate
