import GcmpyModel.Lemmas.AutomatedCache
import GcmpyModel.Properties.C15
/-!
# C15 (second sentence) — the value does not depend on what was evaluated earlier on the same evaluator

`γ name` is the motif that a name denotes ("distinctly named motifs": equal names denote equal graphs).
The caches hold structure only (connected vertex sets, edge-combination counts), never `p` or `u`.
-/
namespace Gcmpy.Automated
variable {R : Type} [Add R] [Sub R] [Mul R] [OfNat R 0] [OfNat R 1]

/-- one call on an evaluator whose cache entries are all correct returns the stateless value and keeps them correct -/
theorem evaluator_call_transparent {γ : String → Motif} {st : Caches} {G : Motif} {name : String}
    (p : R) (u : Nat → R) (root : Nat) (hv : Valid γ st) (hG : γ name = G) :
    (automatedEquationM st G name p u root).2 = automatedEquation G p u root ∧
      Valid γ (automatedEquationM st G name p u root).1 :=
  cache_transparent p u root hv hG

/-- **every history**: for any sequence of calls on one (initially fresh) evaluator, each value equals what a
    fresh evaluator returns for that call -/
theorem value_independent_of_history (γ : String → Motif) (calls : List (Call R)) :
    (runCalls γ Caches.empty calls).2 = calls.map fun c => automatedEquation (γ c.name) c.p c.u c.root :=
  calls_independent_of_history γ calls

/-- combined with `automated_exact`: every value in any history is the exact expectation -/
theorem history_values_exact {K : Type} [CommRing K] (γ : String → Motif)
    (hγ : ∀ n, Graph.WFGraph (γ n).edges (γ n).nodes ∧ Simple (γ n).edges) (calls : List (Call K))
    (hr : ∀ c ∈ calls, c.root ∈ (γ c.name).nodes) :
    (runCalls γ Caches.empty calls).2 = calls.map fun c => exactE (γ c.name) c.p c.u c.root := by
  rw [value_independent_of_history]
  apply List.map_congr_left
  intro c hc
  exact automated_exact (γ c.name) (hγ c.name).1 (hγ c.name).2 (hr c hc) c.p c.u

end Gcmpy.Automated
