import GcmpyModel.Properties.C16
import GcmpyModel.Lemmas.CliqueExact
/-
Property C16, clique part: the clique closed form is the exact bond-percolation generating function of the clique.

Proved here
* `connCount_eq_connFin`     the brute-force counter `connCount n k` (C16) is the finset cardinality `connFin n k` of
                             `Lemmas/CliqueExact.lean` (connected spanning edge subsets of `K_n` with `k` edges);
* `connCount_induced`        for every vertex set `S` of `K_τ`, the number of connected spanning edge subsets with `j` edges of
                             the subgraph induced on `S` is `connCount |S| j`;
* `automated_clique`         UNCONDITIONAL: `automated_equation` on `K_τ` rooted at `0` is
                             `Σ_κ e_κ(u 1, …, u (τ-1)) · Σ_j connCount (κ+1) j · φ^j (1-φ)^(κ(κ+1)/2 - j + (κ+1)(τ-κ-1))`;
* `automated_clique_exactE`  … which is (C15) the exact bond-percolation expectation `exactE` on `K_τ`;
* `clique_exact_of_counts`   CONDITIONAL: if the recursion `Q` counts connected labelled graphs (`Q_eq_connCount_full`, a purely
                             combinatorial statement, proved in `Properties/C16Cayley.lean`) then `clique_equation` IS the automated equation on
                             `K_τ` (`clique_exact_full`), for every `τ ≥ 1` and over every commutative ring;
* `clique_exact_small`       unconditional for `τ ≤ 5` (uses the kernel-checked table `Q_eq_connCount_small_all`).
-/
namespace Gcmpy.ClosedForms
open Gcmpy Gcmpy.Graph Gcmpy.Automated

/-- the brute-force counter of C16 is the finset-level count of connected spanning edge subsets of `K_n` -/
theorem connCount_eq_connFin (n k : Nat) (hn : 1 ≤ n) : connCount n k = connFin n k := by
  unfold connCount connFin
  have hnd := completeGraph_edges_nodup n
  have hne : List.range n ≠ [] := by
    intro h
    have := congrArg List.length h
    simp at this
    omega
  have key := sum_filter_sublists_eq (R := Nat) (completeGraph n).edges hnd
    (fun A => decide (A.length = k ∧ connected A (List.range n) = true))
    (fun F => F.card = k ∧ Conn (Finset.range n) F) (fun _ => 1) (fun _ => 1)
    (by
      intro A hA
      rw [decide_eq_true_iff, List.toFinset_card_of_nodup (hA.nodup hnd),
        connected_iff (completeGraph_wf n hA) hne]
      apply and_congr Iff.rfl
      constructor
      · intro h a ha b hb
        exact percReach_iff.2 (h a (List.mem_range.2 (Finset.mem_range.1 ha)) b
          (List.mem_range.2 (Finset.mem_range.1 hb)))
      · intro h a ha b hb
        exact percReach_iff.1 (h a (Finset.mem_range.2 (List.mem_range.1 ha)) b
          (Finset.mem_range.2 (List.mem_range.1 hb))))
    (fun _ _ => rfl)
  rw [Finset.card_eq_sum_ones]
  show _ = ∑ _A ∈ (completeGraph n).edges.toFinset.powerset.filter
    (fun F => F.card = k ∧ Conn (Finset.range n) F), 1
  rw [← key]
  simp

/-- **relabelling**: for every vertex set `S` of `K_τ`, the number of connected spanning edge subsets with `j` edges of the
subgraph induced on `S` is the number of connected labelled graphs on `|S|` vertices with `j` edges -/
theorem connCount_induced {tau : Nat} {S : Finset Nat} (hS : S ⊆ Finset.range tau) (hne : S.Nonempty) (j : Nat) :
    ((Perc.inner (KE tau) S).powerset.filter fun F => F.card = j ∧ Conn S F).card = connCount S.card j := by
  rw [card_conn_inner hS j, connCount_eq_connFin _ _ (Finset.card_pos.2 hne)]

section algebra
variable {R : Type} [CommRing R]

/-- **C16, clique, unconditional form.**  `automated_equation` on `K_τ` rooted at `0`: the root component has `κ+1` vertices
(`e_κ(u 1, …, u (τ-1))` accounts for which ones), `j` open edges forming one of the `connCount (κ+1) j` connected graphs on
them, and the remaining `κ(κ+1)/2 - j` inner edges and `(κ+1)(τ-κ-1)` boundary edges closed -/
theorem automated_clique (tau : Nat) (h : 1 ≤ tau) (φ : R) (u : Nat → R) :
    automatedEquation (completeGraph tau) φ u 0
      = ∑ κ ∈ Finset.range tau, esym ((List.range (tau - 1)).map fun i => u (i + 1)) κ *
          ∑ j ∈ Finset.range (κ * (κ + 1) / 2 + 1),
            (connCount (κ + 1) j : R) * φ ^ j * (1 - φ) ^ (κ * (κ + 1) / 2 - j + (κ + 1) * (tau - κ - 1)) := by
  rw [automated_clique_list h φ u]
  apply Finset.sum_congr rfl
  intro κ _
  rw [esym_spec]
  congr 1
  unfold cliquePoly
  apply Finset.sum_congr rfl
  intro j _
  rw [connCount_eq_connFin _ _ (by omega)]

/-- … and this is the exact bond-percolation expectation on `K_τ` (C15) -/
theorem automated_clique_exactE (tau : Nat) (h : 1 ≤ tau) (φ : R) (u : Nat → R) :
    exactE (completeGraph tau) φ u 0
      = ∑ κ ∈ Finset.range tau, esym ((List.range (tau - 1)).map fun i => u (i + 1)) κ *
          ∑ j ∈ Finset.range (κ * (κ + 1) / 2 + 1),
            (connCount (κ + 1) j : R) * φ ^ j * (1 - φ) ^ (κ * (κ + 1) / 2 - j + (κ + 1) * (tau - κ - 1)) := by
  have h0 : 0 ∈ (completeGraph tau).nodes := by
    show 0 ∈ List.range tau
    rw [List.mem_range]; omega
  have hwf : WFGraph (completeGraph tau).edges (completeGraph tau).nodes :=
    completeGraph_wf tau (List.Sublist.refl _)
  rw [← automated_clique tau h φ u, exactE_eq_percAutoE _ hwf (completeGraph_simple tau).1 h0,
    percAutoE_eq_automatedEquation _ hwf (completeGraph_simple tau) h0]

theorem half_succ (κ : Nat) : κ * (κ + 1) / 2 = κ * (κ - 1) / 2 + κ := by
  have : κ * (κ + 1) = κ * (κ - 1) + 2 * κ := by
    cases κ with
    | zero => rfl
    | succ k => simp only [Nat.add_sub_cancel]; ring
  rw [this, Nat.add_mul_div_left _ _ (by norm_num : 0 < 2)]

/-- the inner sum of `clique_expanded` (indexed by the number `m` of closed inner edges, `Q` as counter) is the inner sum of
`automated_clique` (indexed by the number `j` of open inner edges, `c` as counter), whenever `Q (κ+1) · = c` -/
theorem inner_sum_reindex (tau κ : Nat) (φ : R) (c : Nat → Nat) (hc : ∀ j, Q (κ + 1) j = (c j : Int)) :
    ∑ m ∈ Finset.range (κ * (κ - 1) / 2 + 1),
        ((Q (κ + 1) (κ * (κ + 1) / 2 - m) : Int) : R) * φ ^ (κ * (κ + 1) / 2 - m)
          * (1 - φ) ^ ((κ + 1) * (tau - κ - 1) + m)
      = ∑ j ∈ Finset.range (κ * (κ + 1) / 2 + 1),
          (c j : R) * φ ^ j * (1 - φ) ^ (κ * (κ + 1) / 2 - j + (κ + 1) * (tau - κ - 1)) := by
  have hcR : ∀ j, (c j : R) = ((Q (κ + 1) j : Int) : R) := fun j => by rw [hc j, Int.cast_natCast]
  rw [half_succ κ]
  generalize κ * (κ - 1) / 2 = M
  generalize (κ + 1) * (tau - κ - 1) = B
  rw [← Finset.sum_range_reflect (fun j => (c j : R) * φ ^ j * (1 - φ) ^ (M + κ - j + B)) (M + κ + 1)]
  have hsub : Finset.range (M + 1) ⊆ Finset.range (M + κ + 1) := by
    intro m hm
    rw [Finset.mem_range] at hm ⊢; omega
  rw [← Finset.sum_subset hsub]
  · apply Finset.sum_congr rfl
    intro m hm
    rw [Finset.mem_range] at hm
    have e1 : M + κ + 1 - 1 - m = M + κ - m := by omega
    have e2 : M + κ - (M + κ - m) + B = B + m := by omega
    rw [e1, e2, hcR]
  · intro m hm hm'
    rw [Finset.mem_range] at hm hm'
    have : Q (κ + 1) (M + κ + 1 - 1 - m) = 0 := Q_zero_below _ _ (by omega)
    rw [hcR, this]
    simp

/-- **C16, clique, conditional form.**  If the recursion `Q` counts connected labelled graphs (`Q_eq_connCount_full`), then for
every `τ ≥ 1` and over every commutative ring `clique_equation(τ, φ, [u 1, …, u (τ-1)])` equals `automated_equation` on the
clique `K_τ` rooted at `0` — hence, by C15 (`automated_exact`), the exact bond-percolation expectation of the product of `u`
over the other vertices of the root's open component. -/
theorem clique_exact_of_counts : Q_eq_connCount_full → clique_exact_full := by
  intro hQ R _ tau φ u htau
  rw [clique_expanded, automated_clique tau htau φ u]
  apply Finset.sum_congr rfl
  intro κ _
  congr 1
  exact inner_sum_reindex tau κ φ (connCount (κ + 1)) (fun j => hQ (κ + 1) j (by omega))

/-- only the rows `1 … τ` of `Q` are used -/
theorem clique_exact_of_counts_upto {R : Type} [CommRing R] (tau : Nat) (htau : 1 ≤ tau)
    (hQ : ∀ n k, 1 ≤ n → n ≤ tau → Q n k = (connCount n k : Int)) (φ : R) (u : Nat → R) :
    cliqueEquation tau φ ((List.range (tau - 1)).map fun i => u (i + 1))
      = automatedEquation (completeGraph tau) φ u 0 := by
  rw [clique_expanded, automated_clique tau htau φ u]
  apply Finset.sum_congr rfl
  intro κ hκ
  rw [Finset.mem_range] at hκ
  congr 1
  exact inner_sum_reindex tau κ φ (connCount (κ + 1)) (fun j => hQ (κ + 1) j (by omega) (by omega))

/-- **unconditional for `τ ≤ 5`** (the table `Q_eq_connCount_small_all` is kernel-checked against the definition) -/
theorem clique_exact_small {R : Type} [CommRing R] (tau : Nat) (h1 : 1 ≤ tau) (h5 : tau ≤ 5) (φ : R) (u : Nat → R) :
    cliqueEquation tau φ ((List.range (tau - 1)).map fun i => u (i + 1))
      = automatedEquation (completeGraph tau) φ u 0 :=
  clique_exact_of_counts_upto tau h1 (fun n k hn hn' => Q_eq_connCount_small_all n k hn (by omega)) φ u

/-- consequence (with C15): under `Q_eq_connCount_full` the closed form is the exact expectation `exactE` on `K_τ` -/
theorem clique_closed_eq_exactE (hQ : Q_eq_connCount_full) {R : Type} [CommRing R] (tau : Nat) (h : 1 ≤ tau)
    (φ : R) (u : Nat → R) :
    cliqueEquation tau φ ((List.range (tau - 1)).map fun i => u (i + 1)) = exactE (completeGraph tau) φ u 0 := by
  rw [clique_exact_of_counts hQ R tau φ u h, automated_clique_exactE tau h φ u, automated_clique tau h φ u]

end algebra

end Gcmpy.ClosedForms
