import GcmpyModel.Model.Rewire
import GcmpyModel.Lemmas.RewireTarget
/-!
# C12 (continued) — every edge of the graph `rewire()` returns that it did not start with joins an allowed pairing

`Properties/C12.lean` speaks about one call of `swap_condition`.  With the model of the whole loop (`Model/Rewire.lean`)
the sentence of the property itself — "every edge that rewiring creates joins two vertices whose joint-excess-degree
pair has positive weight in the target matrix of that edge's topology; a pairing that is absent from (or zero in) the
target is never created" — becomes a statement about what `rewire()` returns, for every script of draws, any limits and
both attribute assignments: each entry of the final edge table is an entry of the input's table, or is `AllowedEntry`:
its topology has an index and a matrix, and the matrix holds a non-zero (`rewire_created_edges_allowed`), under a
non-negative target positive (`rewire_created_edges_positive`), weight for the excess pair of its end points, in the
orientation in which the swap looked it up (the table key is normalised to `(min, max)` afterwards, so the orientation
is one of the two; the targets in use are symmetric).  Excess degrees are taken in the input network: vertex
annotations never change (`rewire_invariants`).
-/
namespace Gcmpy.Rewire
open Gcmpy Gcmpy.Graph Gcmpy.MCMC

-- vocabulary (`Lemmas/RewireTarget.lean`): `EntryWith ok G₀ names target p`, `AllowedEntry := EntryWith (· ≠ 0)`,
-- `PositiveEntry := EntryWith (0 < ·)`: the entry `p = ((a, b), ⟨topology, id⟩)` has a topology with an index and a matrix, and
-- the matrix holds a weight satisfying `ok` for the excess pair of `a` and `b` (taken in `G₀`) in one of the two orientations

variable (cfg : Cfg) (G : Net) (evs : List DrawEv) (rs : List (Option Rat))

theorem rewire_created_edges_allowed (hWF : WF G) :
    ∀ p ∈ (rewire cfg G evs rs).st.G.edges, p ∈ G.edges ∨ AllowedEntry G cfg.names cfg.target p :=
  Lemmas.rewire_created_edges_allowed cfg G evs rs hWF

theorem rewire_created_edges_positive (hWF : WF G)
    (hnn : ∀ t ejk, Dict.get cfg.target t = some ejk → ∀ x ∈ ejk, 0 ≤ x.2) :
    ∀ p ∈ (rewire cfg G evs rs).st.G.edges, p ∈ G.edges ∨ PositiveEntry G cfg.names cfg.target p :=
  Lemmas.rewire_created_edges_positive cfg G evs rs hWF hnn

end Gcmpy.Rewire
