import GcmpyModel.Lemmas.MPCC
/-!
C10 — `MPCC` (gcmpy/covers/mpcc.py) is a greedy, maximal-first, edge-disjoint clique cover, and every edge
ends up labelled with (size, members, id) of the unique accepted clique containing it.

Inputs of the model: the edge list of a simple graph (`Simple`), `max_size`, and the clique list `L` as it
is after `shuffle` — any list satisfying `EnumeratesUpTo`, the part of the contract `Enumerates` of `nx.enumerate_all_cliques`
that concerns cliques within the size limit (`enumerates_upTo`)
(`order_irrelevant`: the contract is invariant under permutation, so every theorem holds for every shuffle
outcome).  `cov = cover edges maxSize L` is the list of accepted cliques in acceptance order.
Vocabulary (`Simple`, `IsClique`, `Enumerates`, `EnumeratesUpTo`, `HasPair`) is defined in `Lemmas/MPCC.lean`.
Each theorem lists only the hypotheses it needs.
-/
namespace Gcmpy.MPCC
open Gcmpy Gcmpy.Graph Gcmpy.Generate

/-! ### 1. the sort -/

theorem sortDesc_perm (L : List (List Nat)) : (sortDesc L).Perm L := sortDesc_perm_lem L

theorem sortDesc_sorted (L : List (List Nat)) :
    (sortDesc L).Pairwise (fun a b => b.length ≤ a.length) := sortDesc_sorted_lem L

/-- stability: cliques of equal size keep their shuffled order -/
theorem sortDesc_stable (L : List (List Nat)) (k : Nat) :
    (sortDesc L).filter (fun c => c.length = k) = L.filter (fun c => c.length = k) := sortDesc_stable_lem L k

/-! ### 2. accepted cliques are listed cliques within the limit, in non-increasing size order -/

theorem cover_sublist {edges : List Edge} {maxSize : Nat} {L : List (List Nat)}
    (hL : EnumeratesUpTo edges maxSize L) :
    (∀ c ∈ cover edges maxSize L, c ∈ L ∧ IsClique edges c ∧ (maxSize > 0 → c.length ≤ maxSize)) ∧
    (cover edges maxSize L).Sublist (sortDesc L) ∧
    (cover edges maxSize L).Pairwise (fun a b => b.length ≤ a.length) := by
  have hsub : (cover edges maxSize L).Sublist (sortDesc L) := greedy_sublist _ _ _
  refine ⟨?_, hsub, (sortDesc_sorted_lem L).sublist hsub⟩
  intro c hc
  have hcL : c ∈ L := (mem_sortDesc L c).1 (hsub.subset hc)
  exact ⟨hcL, hL.1 c hcL, greedy_size _ _ _ c hc⟩

theorem cover_nodup {edges : List Edge} {maxSize : Nat} {L : List (List Nat)}
    (hL : EnumeratesUpTo edges maxSize L) : ∀ c ∈ cover edges maxSize L, c.Nodup :=
  fun c hc => ((cover_sublist hL).1 c hc).2.1.1

/-! ### 3. edge-disjointness -/

theorem cover_edge_disjoint {edges : List Edge} {maxSize : Nat} {L : List (List Nat)}
    (hL : EnumeratesUpTo edges maxSize L) :
    (cover edges maxSize L).Pairwise (fun c d => ∀ a b, HasPair c a b → ¬ HasPair d a b) :=
  greedy_disjoint _ _ _ (fun c hc => (hL.1 c ((mem_sortDesc L c).1 hc)).1)

/-! ### 6. maximal-first greedy (stated before 4, which is its 2-clique instance) -/

theorem greedy_maximal {edges : List Edge} {maxSize : Nat} {L : List (List Nat)}
    (hL : EnumeratesUpTo edges maxSize L) :
    ∀ c, IsClique edges c → 2 ≤ c.length → (maxSize = 0 ∨ c.length ≤ maxSize) →
      ∃ d ∈ cover edges maxSize L, c.length ≤ d.length ∧ ∃ a b, HasPair c a b ∧ HasPair d a b := by
  intro c hc hl hsz
  obtain ⟨d, hdL, hdc⟩ := hL.2 c hc hl hsz
  have hlen : d.length = c.length := hdc.length_eq
  have hn : ∀ c ∈ sortDesc L, c.Nodup := fun c hc => (hL.1 c ((mem_sortDesc L c).1 hc)).1
  have hdcl := hL.1 d hdL
  rcases greedy_maximal_aux maxSize (sortDesc L) edges hn (sortDesc_sorted_lem L) d
      ((mem_sortDesc L d).2 hdL) (by omega) with h | ⟨a, b, hab, h | ⟨d', hd', hl', hd'ab⟩⟩
  · obtain ⟨x, y, hxy⟩ : ∃ x y, HasPair c x y := by
      match c, hc, hl with
      | x :: y :: r, hc, _ =>
        refine ⟨x, y, by simp, by simp, ?_⟩
        intro e; subst e
        exact absurd hc.1 (by simp)
    exact ⟨d, h, by omega, x, y, hxy, (hasPair_perm hdc x y).2 hxy⟩
  · rw [hdcl.2 a hab.1 b hab.2.1 hab.2.2] at h
    exact absurd h (by simp)
  · exact ⟨d', hd', by omega, a, b, (hasPair_perm hdc a b).1 hab, hd'ab⟩

/-! ### 4. every edge is covered, by exactly one accepted clique -/

theorem every_edge_covered {edges : List Edge} {maxSize : Nat} {L : List (List Nat)}
    (hs : Simple edges) (hL : EnumeratesUpTo edges maxSize L) (hm : maxSize = 0 ∨ 2 ≤ maxSize) :
    ∀ e ∈ edges, ∃ c ∈ cover edges maxSize L, HasPair c e.1 e.2 := by
  intro e he
  have hne : e.1 ≠ e.2 := hs.2.1 e he
  have hcl : IsClique edges [e.1, e.2] := by
    refine ⟨by simp [hne], ?_⟩
    intro a ha b hb hab
    simp only [List.mem_cons, List.not_mem_nil, or_false] at ha hb
    rw [hasEdge_iff]
    rcases ha with rfl | rfl <;> rcases hb with rfl | rfl
    · exact absurd rfl hab
    · exact Or.inl he
    · exact Or.inr he
    · exact absurd rfl hab
  obtain ⟨d, hd, _, a, b, hab, hdab⟩ := greedy_maximal (maxSize := maxSize) hL [e.1, e.2] hcl
    (by simp) (by simp only [List.length_cons, List.length_nil]; omega)
  refine ⟨d, hd, ?_⟩
  obtain ⟨ha, hb, hne'⟩ := hab
  simp only [List.mem_cons, List.not_mem_nil, or_false] at ha hb
  rcases ha with rfl | rfl <;> rcases hb with rfl | rfl
  · exact absurd rfl hne'
  · exact hdab
  · exact hdab.symm
  · exact absurd rfl hne'

/-- exactly one position of the cover contains a given edge -/
theorem edge_in_exactly_one {edges : List Edge} {maxSize : Nat} {L : List (List Nat)}
    (hs : Simple edges) (hL : EnumeratesUpTo edges maxSize L) (hm : maxSize = 0 ∨ 2 ≤ maxSize) :
    ∀ e ∈ edges, ∃ (id : Nat) (c : List Nat), (cover edges maxSize L)[id]? = some c ∧ HasPair c e.1 e.2 ∧
      ∀ (id' : Nat) (c' : List Nat), (cover edges maxSize L)[id']? = some c' → HasPair c' e.1 e.2 → id' = id := by
  intro e he
  obtain ⟨c, hc, hce⟩ := every_edge_covered hs hL hm e he
  obtain ⟨id, hid⟩ := List.mem_iff_getElem?.1 hc
  refine ⟨id, c, hid, hce, ?_⟩
  intro id' c' hid' hc'e
  have hd := cover_edge_disjoint (maxSize := maxSize) hL
  rcases Nat.lt_trichotomy id' id with h | h | h
  · exact absurd hce (pairwise_getElem? hd hid' hid h _ _ hc'e)
  · exact h
  · exact absurd hc'e (pairwise_getElem? hd hid hid' h _ _ hce)

/-! ### 5. labels -/

/-- all pairs of an accepted clique carry its label (size = member count, members, id = position) -/
theorem label_complete {edges : List Edge} {maxSize : Nat} {L : List (List Nat)}
    (hL : EnumeratesUpTo edges maxSize L) {id : Nat} {c : List Nat}
    (hc : (cover edges maxSize L)[id]? = some c) :
    ∀ a b, HasPair c a b →
      Dict.get (labelMap (cover edges maxSize L)) (normE (a, b)) = some ⟨c.length, c, id⟩ :=
  fun _ _ hab => labelMap_complete _ (cover_nodup hL) (cover_edge_disjoint hL) hc hab

/-- each edge carries exactly the label of the one accepted clique containing it -/
theorem label_of_edge {edges : List Edge} {maxSize : Nat} {L : List (List Nat)}
    (hs : Simple edges) (hL : EnumeratesUpTo edges maxSize L) (hm : maxSize = 0 ∨ 2 ≤ maxSize) :
    ∀ e ∈ edges, ∃ (c : List Nat) (id : Nat), (cover edges maxSize L)[id]? = some c ∧ HasPair c e.1 e.2 ∧
      Dict.get (labelMap (cover edges maxSize L)) (normE e) = some ⟨c.length, c, id⟩ := by
  intro e he
  obtain ⟨id, c, hid, hce, _⟩ := edge_in_exactly_one hs hL hm e he
  exact ⟨c, id, hid, hce, label_complete hL hid e.1 e.2 hce⟩

/-- every stored label describes an accepted clique: `members` is the clique at position `id`, `size` its
    member count, and the labelled key is one of its pairs -/
theorem label_sound {edges : List Edge} {maxSize : Nat} {L : List (List Nat)}
    (hL : EnumeratesUpTo edges maxSize L) {k : Edge} {l : Lab}
    (h : Dict.get (labelMap (cover edges maxSize L)) k = some l) :
    (cover edges maxSize L)[l.id]? = some l.members ∧ l.size = l.members.length ∧
      ∃ a b, HasPair l.members a b ∧ k = normE (a, b) :=
  labelMap_sound _ (cover_nodup hL) h

/-- ids are positions in the cover: two stored labels with the same id are the same label (same members,
    same size), i.e. the id identifies the motif -/
theorem ids_unique {edges : List Edge} {maxSize : Nat} {L : List (List Nat)}
    (hL : EnumeratesUpTo edges maxSize L) {k k' : Edge} {l l' : Lab}
    (h : Dict.get (labelMap (cover edges maxSize L)) k = some l)
    (h' : Dict.get (labelMap (cover edges maxSize L)) k' = some l') (hid : l.id = l'.id) : l = l' := by
  obtain ⟨h1, h2, _⟩ := label_sound hL h
  obtain ⟨h1', h2', _⟩ := label_sound hL h'
  rw [hid, h1'] at h1
  have hm : l'.members = l.members := Option.some.inj h1
  cases l; cases l'
  simp only at hid hm h2 h2'
  simp only [Lab.mk.injEq]
  exact ⟨by rw [h2, h2', hm], hm.symm, hid⟩

/-- two edges carry the same id iff they lie in the same accepted clique (same position) -/
theorem same_id_iff_same_clique {edges : List Edge} {maxSize : Nat} {L : List (List Nat)}
    (hL : EnumeratesUpTo edges maxSize L) {id : Nat} {c : List Nat}
    (hc : (cover edges maxSize L)[id]? = some c) {k : Edge} {l : Lab}
    (h : Dict.get (labelMap (cover edges maxSize L)) k = some l) :
    l.id = id ↔ ∃ a b, HasPair c a b ∧ k = normE (a, b) := by
  constructor
  · intro hid
    obtain ⟨h1, _, h3⟩ := label_sound hL h
    rw [hid, hc] at h1
    rw [← Option.some.inj h1] at h3
    exact h3
  · rintro ⟨a, b, hab, rfl⟩
    rw [label_complete hL hc a b hab] at h
    rw [← Option.some.inj h]

theorem label_size_limit {edges : List Edge} {maxSize : Nat} {L : List (List Nat)}
    (hL : EnumeratesUpTo edges maxSize L) {k : Edge} {l : Lab}
    (h : Dict.get (labelMap (cover edges maxSize L)) k = some l) :
    2 ≤ l.size ∧ (maxSize > 0 → l.size ≤ maxSize) := by
  obtain ⟨h1, h2, a, b, hab, _⟩ := label_sound hL h
  have hmem : l.members ∈ cover edges maxSize L := List.mem_iff_getElem?.2 ⟨_, h1⟩
  have hcs := (cover_sublist hL).1 _ hmem
  refine ⟨?_, fun hm => h2 ▸ hcs.2.2 hm⟩
  rw [h2]
  match hl : l.members, hab with
  | [], hab => simp [HasPair] at hab
  | [x], hab =>
    obtain ⟨ha, hb, hne⟩ := hab
    simp only [List.mem_cons, List.not_mem_nil, or_false] at ha hb
    exact absurd (ha.trans hb.symm) hne
  | _ :: _ :: _, _ => simp

/-- the output lists exactly the input edges (normalised), in order -/
theorem mpcc_graph_unchanged (edges : List Edge) (maxSize : Nat) (L : List (List Nat)) :
    (mpcc edges maxSize L).map (·.1) = edges.map normE := by
  simp [mpcc]

/-- the output: every edge of the graph is labelled, with the label of the accepted clique containing it -/
theorem mpcc_output {edges : List Edge} {maxSize : Nat} {L : List (List Nat)}
    (hs : Simple edges) (hL : EnumeratesUpTo edges maxSize L) (hm : maxSize = 0 ∨ 2 ≤ maxSize) :
    ∀ x ∈ mpcc edges maxSize L, ∃ e ∈ edges, ∃ (c : List Nat) (id : Nat), x = (normE e, some ⟨c.length, c, id⟩) ∧
      (cover edges maxSize L)[id]? = some c ∧ HasPair c e.1 e.2 := by
  intro x hx
  simp only [mpcc, List.mem_map] at hx
  obtain ⟨e, he, rfl⟩ := hx
  obtain ⟨c, id, hid, hce, hl⟩ := label_of_edge hs hL hm e he
  exact ⟨e, he, c, id, by rw [hl], hid, hce⟩

/-! ### 7. the shuffle is irrelevant for all of the above -/

theorem order_irrelevant {edges : List Edge} {maxSize : Nat} {L L' : List (List Nat)}
    (hL : EnumeratesUpTo edges maxSize L) (hp : L'.Perm L) : EnumeratesUpTo edges maxSize L' :=
  ⟨fun c hc => hL.1 c (hp.mem_iff.1 hc),
   fun c hc hl hsz => let ⟨d, hd, hdc⟩ := hL.2 c hc hl hsz; ⟨d, hp.mem_iff.2 hd, hdc⟩⟩

/-- the full output of `nx.enumerate_all_cliques` satisfies the contract for every limit, and so does what is left of it
    after dropping the cliques above a positive limit (which the acceptance loop would skip) -/
theorem enumerates_upTo {edges : List Edge} {L : List (List Nat)} (hL : Enumerates edges L) (maxSize : Nat) :
    EnumeratesUpTo edges maxSize L ∧
    (0 < maxSize → EnumeratesUpTo edges maxSize (L.filter fun c => c.length ≤ maxSize)) := by
  refine ⟨hL.upTo maxSize, fun hpos => ⟨fun c hc => hL.1 c (List.mem_filter.1 hc).1, ?_⟩⟩
  intro c hc hl hsz
  obtain ⟨d, hd, hdc⟩ := hL.2 c hc hl
  refine ⟨d, List.mem_filter.2 ⟨hd, ?_⟩, hdc⟩
  have : d.length = c.length := hdc.length_eq
  simp only [decide_eq_true_eq]
  omega

/-- the brute-force enumeration used by the harness satisfies the contract -/
theorem allCliques_enumerates (es : List Edge) (nodes : List Nat) (hnod : nodes.Nodup)
    (hv : ∀ e ∈ es, e.1 ∈ nodes ∧ e.2 ∈ nodes) : Enumerates es (allCliques es nodes) :=
  allCliques_enumerates_lem es nodes hnod hv

/-! ### 8. examples -/

/-- two triangles `{0,1,2}`, `{1,2,3}` sharing the edge `1-2` -/
def twoTriangles : List Edge := [(0, 1), (0, 2), (1, 2), (1, 3), (2, 3)]

example : Simple twoTriangles := by decide

example : allCliques twoTriangles [0, 1, 2, 3] =
    [[3], [2], [2, 3], [1], [1, 3], [1, 2], [1, 2, 3], [0], [0, 2], [0, 1], [0, 1, 2]] := by decide

example : Enumerates twoTriangles (allCliques twoTriangles [0, 1, 2, 3]) :=
  allCliques_enumerates_lem _ _ (by decide) (by decide)

/-- maximal-first: the triangle listed first among the triangles wins the shared edge; the other triangle
    is then covered by its two remaining edges; singletons are accepted too and consume ids -/
example : cover twoTriangles 0 (allCliques twoTriangles [0, 1, 2, 3]) =
    [[1, 2, 3], [0, 2], [0, 1], [3], [2], [1], [0]] := by decide

example : mpcc twoTriangles 0 (allCliques twoTriangles [0, 1, 2, 3]) =
    [((0, 1), some ⟨2, [0, 1], 2⟩), ((0, 2), some ⟨2, [0, 2], 1⟩), ((1, 2), some ⟨3, [1, 2, 3], 0⟩),
     ((1, 3), some ⟨3, [1, 2, 3], 0⟩), ((2, 3), some ⟨3, [1, 2, 3], 0⟩)] := by decide

/-- a different shuffle outcome (the other triangle first) gives the mirror cover -/
example : cover twoTriangles 0 [[0], [0, 1, 2], [1, 2], [2, 3], [1, 2, 3], [0, 1], [1], [1, 3], [2], [0, 2], [3]] =
    [[0, 1, 2], [2, 3], [1, 3], [0], [1], [2], [3]] := by decide

/-- `max_size = 2`: triangles are disregarded, every edge is its own clique -/
example : mpcc twoTriangles 2 (allCliques twoTriangles [0, 1, 2, 3]) =
    [((0, 1), some ⟨2, [0, 1], 4⟩), ((0, 2), some ⟨2, [0, 2], 3⟩), ((1, 2), some ⟨2, [1, 2], 2⟩),
     ((1, 3), some ⟨2, [1, 3], 1⟩), ((2, 3), some ⟨2, [2, 3], 0⟩)] := by decide

/-- the hypothesis `maxSize = 0 ∨ 2 ≤ maxSize` of `every_edge_covered` is needed: with `max_size = 1`
    only singletons are accepted and no edge is labelled -/
example : mpcc twoTriangles 1 (allCliques twoTriangles [0, 1, 2, 3]) =
    [((0, 1), none), ((0, 2), none), ((1, 2), none), ((1, 3), none), ((2, 3), none)] := by decide

end Gcmpy.MPCC
