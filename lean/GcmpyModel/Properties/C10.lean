import GcmpyModel.Model.MPCC
namespace Gcmpy.MPCC
theorem placeholder_c10 : True := trivial
end Gcmpy.MPCC
