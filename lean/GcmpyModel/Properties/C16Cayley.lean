import GcmpyModel.Properties.C16Full
import GcmpyModel.Lemmas.Cayley
/-
Property C16, closed: **Cayley's formula** for the brute-force counter, and with it the unconditional versions of
everything `Properties/C16Full.lean` derived from it.

* `cayley`          `connCount n (n-1) = n^(n-2)` for every `n ≥ 1` — the shortcut `if k == n-1: return n**(n-2)` of the
                    Python `Q(n, k)` is correct;
* `Q_eq_connCount`  `Q n k` is the number of connected labelled graphs on `n` vertices with `k` edges, all `n ≥ 1`, `k`;
* `Q_eq_Qgen_all`   the table with the shortcut equals the shortcut-free Harary–Palmer table;
* `clique_exact`    the clique closed form is the automated equation on `K_τ` for every `τ ≥ 1`;
* `Q_eq_QQ`         the recursive counter agrees with the repository's brute-force counter `QQ` on its domain.

Proof of `cayley` (`Lemmas/Cayley.lean`): count spanning forests rooted at a vertex set `R` as edge sets with
`|S| - |R|` edges in which every vertex reaches `R` (`fc S R`); deleting one root and classifying by its neighbour set
gives `fc S R = ∑ J ⊆ S \ R, fc (S \ {r}) (R \ {r} ∪ J)` (`fc_rec`); induction with the binomial theorem gives
`fc S R * |S| = |R| * |S|^(|S| - |R|)` (`fc_formula`); `R = {r}` is Cayley's formula (`ccN_cayley`).
-/

namespace Gcmpy.ClosedForms
open Gcmpy Gcmpy.Graph Gcmpy.Automated Gcmpy.HP

/-- **Cayley's formula** for the brute-force count of connected graphs with `n - 1` edges -/
theorem cayley : cayley_connCount := by
  intro n hn
  rw [connCount_eq_ccN n (n - 1) hn, Gcmpy.Cayley.ccN_cayley n hn]

/-- `Q(n, k)` (recursion with the Cayley shortcut) is the number of connected labelled graphs, all `n ≥ 1`, all `k` -/
theorem Q_eq_connCount : Q_eq_connCount_full := Q_eq_connCount_of_cayley cayley

/-- the table with the Cayley shortcut equals the shortcut-free Harary–Palmer table, all `n ≥ 1`, all `k` -/
theorem Q_eq_Qgen_all : Q_eq_Qgen_full := Q_eq_connCount_iff_Q_eq_Qgen.1 Q_eq_connCount

/-- the clique closed form is the automated equation on `K_τ` (hence the exact percolation expectation), every `τ` -/
theorem clique_exact : clique_exact_full := clique_exact_of_cayley cayley

/-- `Q` agrees with the repository's brute-force counter `QQ` on its whole domain -/
theorem Q_eq_QQ (n k : Nat) (hn : 1 ≤ n) (hk : k ≤ n * (n - 1) / 2) : Q n k = (QQ n k : Int) :=
  Q_eq_QQ_of_cayley cayley n k hn hk

end Gcmpy.ClosedForms
