import GcmpyModel.Model.EECC
namespace Gcmpy.EECC
theorem placeholder_c09 : True := trivial
end Gcmpy.EECC
