import GcmpyModel.Lemmas.EECC
/-!
# C09 — EECC returns an edge-disjoint edge clique cover within the size bound

Model: `GcmpyModel/Model/EECC.lean` (`maximalCliques`, `lmc`, `scoreZero`, `removeAll`, `rescore`, `init`,
`step`, `run`, `candidates`) for `gcmpy/covers/eecc.py` (class `EECC`, repaired `limited_maximal_cliques`) and
`remove_edge` / `has_edges` of `gcmpy/network/network.py`.  The random tie-break of the heuristic is modelled
relationally: `step` accepts ANY member of the current non-zero-score list `C`, so every theorem below holds
for every sequence of picks (in particular for the code's `choice` among `candidates`, `candidates_subset`).
All proofs live in `GcmpyModel/Lemmas/EECC.lean` (`aux_*` and helper lemmas); this file only states the
properties.

Vocabulary (defined in `Lemmas/EECC.lean`):
* `Simple es`        — the edge list has no repeated edge, no self loop and no reversed duplicate;
* `NodesOf es nodes` — `nodes` is duplicate free and consists exactly of the end points (no isolated vertex);
* `HasPair c a b`    — `a ≠ b` are both members of `c` (the clique `c` contains the pair `{a,b}`);
* `EdgeIn g a b`     — `hasEdge g a b`: the undirected edge `{a,b}` is present in `g`;
* `IsCliqueOf g c`   — `c` is strictly ascending and every two distinct members are joined in `g`;
* `Inv edges nodes m0 s` — the loop invariant (structure with fields `ec_clique`, `ec_disjoint`, `cover`,
                       `excl`, `sub`, `c_clique`, `c_ne`).
-/
namespace Gcmpy.EECC
open Gcmpy Gcmpy.Graph Gcmpy.Generate Gcmpy.MPCC

variable {edges g : List Edge} {nodes : List Nat} {m0 : Nat}

/-! ## 1. the building blocks -/

/-- `maximalCliques` (the stand-in for `nx.find_cliques`) lists exactly the non-empty ascending cliques with
vertices in `nodes` that no further vertex of `nodes` extends (isolated vertices are singleton cliques) -/
theorem mem_maximalCliques_iff (hn : nodes.Nodup) (c : List Nat) :
    c ∈ maximalCliques g nodes ↔
      c ≠ [] ∧ IsCliqueOf g c ∧ (∀ v ∈ c, v ∈ nodes) ∧ ∀ v ∈ nodes, v ∉ c → ∃ y ∈ c, ¬ EdgeIn g v y :=
  aux_mem_maximalCliques_iff hn

/-- every edge between two nodes lies in a maximal clique -/
theorem edge_in_some_maximalClique (hn : nodes.Nodup) {a b : Nat} (he : EdgeIn g a b) (hab : a ≠ b)
    (ha : a ∈ nodes) (hb : b ∈ nodes) : ∃ d ∈ maximalCliques g nodes, HasPair d a b :=
  edge_in_some_maximal hn he hab ha hb

/-- `limited_maximal_cliques`: a maximal clique of at most `m0` vertices, or a sub-list with exactly `m0`
vertices of a larger one -/
theorem lmc_spec (c : List Nat) :
    c ∈ lmc g nodes m0 ↔
      ∃ d ∈ maximalCliques g nodes, (m0 < d.length ∧ c.Sublist d ∧ c.length = m0) ∨ (d.length ≤ m0 ∧ c = d) :=
  mem_lmc_iff

/-- every member of `lmc` is an ascending clique of `g` over `nodes` with at most `m0` vertices (and at least
one if `1 ≤ m0`) -/
theorem mem_lmc (hn : nodes.Nodup) {c : List Nat} (hc : c ∈ lmc g nodes m0) :
    IsCliqueOf g c ∧ c.length ≤ m0 ∧ (1 ≤ m0 → 1 ≤ c.length) ∧ ∀ v ∈ c, v ∈ nodes :=
  aux_mem_lmc hn hc

/-- `lmc` returns no clique twice (the repaired de-duplication) -/
theorem lmc_nodup (g : List Edge) (nodes : List Nat) (m0 : Nat) : (lmc g nodes m0).Nodup :=
  aux_lmc_nodup g nodes m0

/-- every edge lies in a member of `lmc` (in its maximal clique or, if that is larger than `m0`, in one of its
`m0`-subsets) -/
theorem edge_in_some_lmc (hn : nodes.Nodup) {a b : Nat} (he : EdgeIn g a b) (hab : a ≠ b) (ha : a ∈ nodes)
    (hb : b ∈ nodes) (hm : 2 ≤ m0) : ∃ c ∈ lmc g nodes m0, HasPair c a b :=
  aux_edge_in_some_lmc hn he hab ha hb hm

/-- `remove_edges_from(combinations(c, 2))`: exactly the pairs of `c` disappear (missing ones are ignored) -/
theorem removePairs_spec (hl : LoopFree g) (c : List Nat) (a b : Nat) :
    EdgeIn (removePairs g c) a b ↔ EdgeIn g a b ∧ ¬ HasPair c a b :=
  edgeIn_removePairs hl

theorem removeAll_spec (hl : LoopFree g) (EC : List (List Nat)) (a b : Nat) :
    EdgeIn (removeAll g EC) a b ↔ EdgeIn g a b ∧ ∀ c ∈ EC, ¬ HasPair c a b :=
  edgeIn_removeAll hl

/-- a score-0 member of a scored list `C ⊆ lmc g nodes m0` (the whole list, or the one filtered to order > 1)
shares no pair with any OTHER member — also when its score is 0 only because its order is 2 -/
theorem scoreZero_disjoint (hn : nodes.Nodup) {C : List (List Nat)} (hC : ∀ c ∈ C, c ∈ lmc g nodes m0)
    {c d : List Nat} (hc : c ∈ C) (hd : d ∈ C) (hne : c ≠ d) (hz : scoreZero C c = true) :
    ∀ a b, HasPair c a b → ¬ HasPair d a b :=
  aux_scoreZero_disjoint hn hC hc hd hne hz

/-! ## 2. the loop invariant -/

/-- the state after the first scoring round satisfies the invariant -/
theorem inv_init (hs : Simple edges) (hn : NodesOf edges nodes) (hm : 2 ≤ m0) :
    Inv edges nodes m0 (init edges nodes m0) :=
  aux_inv_init hs hn hm

/-- every allowed step preserves the invariant, whatever member of `C` is picked -/
theorem inv_step (hs : Simple edges) (hn : NodesOf edges nodes) (hm : 2 ≤ m0) {s s' : St} {pick : List Nat}
    (hi : Inv edges nodes m0 s) (hstep : step nodes m0 s pick = some s') : Inv edges nodes m0 s' :=
  aux_inv_step hs hn hm hi hstep

/-- the invariant holds at the end of every run -/
theorem inv_final (hs : Simple edges) (hn : NodesOf edges nodes) (hm : 2 ≤ m0) {picks : List (List Nat)}
    {s : St} (hr : run nodes m0 (init edges nodes m0) picks = some s) : Inv edges nodes m0 s :=
  inv_run hs hn hm picks _ s (aux_inv_init hs hn hm) hr

/-! ## 3. the properties of the returned cover (every pick sequence) -/

/-- every member of the cover is a clique of the input graph with `2 ≤ order ≤ m0` -/
theorem cover_cliques (hs : Simple edges) (hn : NodesOf edges nodes) (hm : 2 ≤ m0)
    {picks : List (List Nat)} {s : St} (hr : run nodes m0 (init edges nodes m0) picks = some s) :
    ∀ c ∈ s.EC, IsCliqueOf edges c ∧ 2 ≤ c.length ∧ c.length ≤ m0 :=
  (inv_final hs hn hm hr).ec_clique

/-- at exit `has_edges()` is false -/
theorem working_graph_empty {picks : List (List Nat)} {s0 s : St} (hr : run nodes m0 s0 picks = some s) :
    s.g = [] :=
  run_g_empty picks s0 s hr

/-- every input edge lies in a member of the cover … -/
theorem cover_exact (hs : Simple edges) (hn : NodesOf edges nodes) (hm : 2 ≤ m0)
    {picks : List (List Nat)} {s : St} (hr : run nodes m0 (init edges nodes m0) picks = some s) :
    ∀ e ∈ edges, ∃ c ∈ s.EC, HasPair c e.1 e.2 := by
  intro e he
  rcases ((inv_final hs hn hm hr).cover e.1 e.2).1 (edgeIn_of_mem he) with h | h
  · rw [working_graph_empty hr] at h
    exact absurd h (not_edgeIn_nil _ _)
  · exact h

/-- … the members are pairwise edge-disjoint (as positions of the list) … -/
theorem cover_disjoint (hs : Simple edges) (hn : NodesOf edges nodes) (hm : 2 ≤ m0)
    {picks : List (List Nat)} {s : St} (hr : run nodes m0 (init edges nodes m0) picks = some s) :
    s.EC.Pairwise (fun c d => ∀ a b, HasPair c a b → ¬ HasPair d a b) :=
  (inv_final hs hn hm hr).ec_disjoint

/-- … so exactly one member of the cover contains a given input edge (counting form) … -/
theorem cover_exact_count (hs : Simple edges) (hn : NodesOf edges nodes) (hm : 2 ≤ m0)
    {picks : List (List Nat)} {s : St} (hr : run nodes m0 (init edges nodes m0) picks = some s) :
    ∀ e ∈ edges, (s.EC.filter (fun c => e.1 ∈ c ∧ e.2 ∈ c)).length = 1 := by
  intro e he
  have hne : e.1 ≠ e.2 := hs.loopFree e he
  obtain ⟨c, hc, hp⟩ := cover_exact hs hn hm hr e he
  have h1 : 1 ≤ (s.EC.filter (fun c => e.1 ∈ c ∧ e.2 ∈ c)).length :=
    List.length_pos_of_mem (List.mem_filter.2 ⟨hc, by simpa using ⟨hp.1, hp.2.1⟩⟩)
  have h2 := filter_length_le_one (p := fun c => decide (e.1 ∈ c ∧ e.2 ∈ c)) (cover_disjoint hs hn hm hr)
    (fun x y hx hy hR => by
      simp only [decide_eq_true_eq] at hx hy
      exact hR e.1 e.2 ⟨hx.1, hx.2, hne⟩ ⟨hy.1, hy.2, hne⟩)
  omega

/-- … (element form: two members containing the same pair are equal, and no clique is listed twice) … -/
theorem cover_unique (hs : Simple edges) (hn : NodesOf edges nodes) (hm : 2 ≤ m0)
    {picks : List (List Nat)} {s : St} (hr : run nodes m0 (init edges nodes m0) picks = some s)
    {c d : List Nat} (hc : c ∈ s.EC) (hd : d ∈ s.EC) {a b : Nat} (hpc : HasPair c a b) (hpd : HasPair d a b) :
    c = d := by
  by_contra hne
  exact pairwise_forall_ne (R := fun c d => ∀ a b, HasPair c a b → ¬ HasPair d a b)
    (fun x y h a b hy hx => h a b hx hy) (cover_disjoint hs hn hm hr) c hc d hd hne a b hpc hpd

theorem cover_nodup (hs : Simple edges) (hn : NodesOf edges nodes) (hm : 2 ≤ m0)
    {picks : List (List Nat)} {s : St} (hr : run nodes m0 (init edges nodes m0) picks = some s) :
    s.EC.Nodup := by
  refine (cover_disjoint hs hn hm hr).imp_of_mem ?_
  intro c d hc _ hR hcd
  have hcl := cover_cliques hs hn hm hr c hc
  obtain ⟨a, b, hp⟩ := exists_hasPair_of_two_le hcl.1.1 hcl.2.1
  exact hR a b hp (hcd ▸ hp)

/-- … and conversely every pair of every member is an input edge (nothing but input edges is covered) -/
theorem cover_pairs_are_edges (hs : Simple edges) (hn : NodesOf edges nodes) (hm : 2 ≤ m0)
    {picks : List (List Nat)} {s : St} (hr : run nodes m0 (init edges nodes m0) picks = some s) :
    ∀ c ∈ s.EC, ∀ a b, HasPair c a b → EdgeIn edges a b :=
  fun c hc _ _ hp => (cover_cliques hs hn hm hr c hc).1.edgeIn hp

/-- while edges remain, `C` is non-empty (`min(r)` never sees an empty list) and EVERY allowed pick yields a
step that removes at least one edge -/
theorem progress {s : St} (hi : Inv edges nodes m0 s) (hne : s.g ≠ []) :
    s.C ≠ [] ∧ ∀ pick ∈ s.C, ∃ s', step nodes m0 s pick = some s' ∧ s'.g.length < s.g.length :=
  aux_progress hi hne

/-- hence `|E(g)|` iterations of fuel suffice: some pick sequence of at most that length finishes the loop -/
theorem run_terminates (hs : Simple edges) (hn : NodesOf edges nodes) (hm : 2 ≤ m0) {s : St}
    (hi : Inv edges nodes m0 s) :
    ∃ picks s', run nodes m0 s picks = some s' ∧ picks.length ≤ s.g.length :=
  aux_run_terminates hs hn hm hi

/-- in particular the heuristic has a complete run on every admissible input, of at most `|E|` iterations -/
theorem run_exists (hs : Simple edges) (hn : NodesOf edges nodes) (hm : 2 ≤ m0) :
    ∃ picks s, run nodes m0 (init edges nodes m0) picks = some s ∧ picks.length ≤ edges.length := by
  obtain ⟨picks, s, hr, hl⟩ := aux_run_terminates hs hn hm (aux_inv_init hs hn hm)
  exact ⟨picks, s, hr, Nat.le_trans hl (aux_inv_init hs hn hm).sub.length_le⟩

/-- a maximal clique of the input with at most `m0` vertices that shares no edge with any other maximal clique
is a member of the final cover (it has score 0 in `init`, and `EC` only grows); the hypothesis
`2 ≤ c.length` of the design statement is not needed -/
theorem isolated_maximal_intact (hn : NodesOf edges nodes) {picks : List (List Nat)} {s : St}
    (hr : run nodes m0 (init edges nodes m0) picks = some s) {c : List Nat}
    (hc : c ∈ maximalCliques edges nodes) (_h2 : 2 ≤ c.length) (hle : c.length ≤ m0)
    (hiso : ∀ d ∈ maximalCliques edges nodes, d ≠ c → ∀ a b, HasPair c a b → ¬ HasPair d a b) :
    c ∈ s.EC :=
  run_EC_mono picks _ s hr c (isolated_maximal_in_init hn.1 hc hle hiso)

/-- the heuristic's own candidate set (largest order among the minimum-score cliques, exact scores) is
allowed by the step relation -/
theorem candidates_subset (s : St) : ∀ c ∈ candidates s, c ∈ s.C :=
  aux_candidates_subset s

/-! ## 4. examples -/

/-- triangle `{1,2,3}` with the pendant edge `{3,4}` -/
def triPendant : List Edge := [(1, 2), (1, 3), (2, 3), (3, 4)]
/-- `K4` -/
def k4 : List Edge := [(1, 2), (1, 3), (1, 4), (2, 3), (2, 4), (3, 4)]
/-- two triangles sharing the edge `{2,3}` -/
def twoTri : List Edge := [(1, 2), (1, 3), (2, 3), (2, 4), (3, 4)]

example : Simple triPendant := by decide +kernel
example : Simple k4 := by decide +kernel
example : NodesOf triPendant [1, 2, 3, 4] :=
  ⟨by decide +kernel, fun v => by simp [triPendant]; omega⟩
example : NodesOf k4 [1, 2, 3, 4] :=
  ⟨by decide +kernel, fun v => by simp [k4]; omega⟩
example : ¬ Simple [(1, 2), (2, 1)] := by decide +kernel

example : maximalCliques triPendant [1, 2, 3, 4] = [[3, 4], [1, 2, 3]] := by decide +kernel
example : lmc triPendant [1, 2, 3, 4] 3 = [[1, 2, 3], [3, 4]] := by decide +kernel
example : lmc k4 [1, 2, 3, 4] 3 = [[1, 2, 3], [1, 2, 4], [1, 3, 4], [2, 3, 4]] := by decide +kernel

/-- triangle + pendant edge, `m0 = 3`: both maximal cliques have score 0, no iteration is needed -/
example : (run [1, 2, 3, 4] 3 (init triPendant [1, 2, 3, 4] 3) []).map (fun s => (s.g, s.EC, s.C)) =
    some ([], [[1, 2, 3], [3, 4]], []) := by decide +kernel
/-- the same graph with `m0 = 2`: the triangle is split into its three edges -/
example : (run [1, 2, 3, 4] 2 (init triPendant [1, 2, 3, 4] 2) []).map (·.EC) =
    some [[1, 2], [1, 3], [2, 3], [3, 4]] := by decide +kernel

/-- `K4`, `m0 = 3`: all four triangles overlap, nothing has score 0 and all four are candidates -/
example : (init k4 [1, 2, 3, 4] 3).g = k4 ∧ (init k4 [1, 2, 3, 4] 3).EC = [] ∧
    (init k4 [1, 2, 3, 4] 3).C = [[1, 2, 3], [1, 2, 4], [1, 3, 4], [2, 3, 4]] ∧
    candidates (init k4 [1, 2, 3, 4] 3) = [[1, 2, 3], [1, 2, 4], [1, 3, 4], [2, 3, 4]] := by decide +kernel
/-- two different picks give two different (both exact) covers -/
example : (run [1, 2, 3, 4] 3 (init k4 [1, 2, 3, 4] 3) [[1, 2, 3]]).map (fun s => (s.g, s.EC)) =
    some ([], [[1, 2, 3], [1, 4], [2, 4], [3, 4]]) := by decide +kernel
example : (run [1, 2, 3, 4] 3 (init k4 [1, 2, 3, 4] 3) [[2, 3, 4]]).map (fun s => (s.g, s.EC)) =
    some ([], [[2, 3, 4], [1, 2], [1, 3], [1, 4]]) := by decide +kernel
/-- a pick outside `C`, too few picks, and left-over picks are rejected -/
example : (run [1, 2, 3, 4] 3 (init k4 [1, 2, 3, 4] 3) [[1, 2]]).isNone = true := by decide +kernel
example : (run [1, 2, 3, 4] 3 (init k4 [1, 2, 3, 4] 3) []).isNone = true := by decide +kernel
example : (run [1, 2, 3, 4] 3 (init k4 [1, 2, 3, 4] 3) [[1, 2, 3], [1, 4]]).isNone = true := by
  decide +kernel

/-- two triangles sharing an edge: picking one leaves the other's two free edges -/
example : (run [1, 2, 3, 4] 3 (init twoTri [1, 2, 3, 4] 3) [[1, 2, 3]]).map (·.EC) =
    some [[1, 2, 3], [2, 4], [3, 4]] := by decide +kernel

/-- why the hypotheses are there: with `m0 = 0` the empty list is a member of `lmc` (so `1 ≤ c.length` in
`mem_lmc` needs `1 ≤ m0`), and an isolated vertex (excluded by `NodesOf`) puts a singleton into the cover in
`init` (later rounds drop singletons) -/
example : lmc [(1, 2)] [1, 2] 0 = [[]] := by decide +kernel
example : (init [(1, 2)] [1, 2, 3] 2).EC = [[1, 2], [3]] := by decide +kernel

end Gcmpy.EECC
