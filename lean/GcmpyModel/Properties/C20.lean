import GcmpyModel.Lemmas.DrawSet
/-!
# C20 — the drawable edge set behaves as a set under any add/remove history

Specification: a plain set, as a membership predicate `α → Prop`, driven by the same operations.
`spec ops y` says "y is a member after the history `ops`" for a Python `set` run alongside
(`add` = insert, `remove` of a present element = erase, `remove` of an absent element raises and
changes nothing, the other operations are observers).
-/
namespace Gcmpy.DrawSet
variable {α : Type} [DecidableEq α]

/-- the reference set after one operation -/
def specStep (S : α → Prop) : Op α → (α → Prop)
  | .add x => fun y => y = x ∨ S y
  | .remove x => fun y => S y ∧ y ≠ x          -- for absent x this is S itself
  | _ => S

def spec (ops : List (Op α)) : α → Prop := ops.foldl specStep (fun _ => False)

theorem step_refines {s : St α} {S : α → Prop} (h : Inv s) (hS : ∀ y, y ∈ s.edges ↔ S y) (op : Op α) :
    Inv (step s op) ∧ ∀ y, y ∈ (step s op).edges ↔ specStep S op y := by
  cases op with
  | add x =>
    refine ⟨inv_add h x, fun y => ?_⟩
    simp only [step, specStep, mem_add h, hS]
  | remove x =>
    simp only [step, specStep]
    cases hr : remove s x with
    | none =>
      refine ⟨h, fun y => ?_⟩
      simp only [Option.getD_none, hS]
      have hx : x ∉ s.edges := fun hx => by
        rcases remove_present h x hx with ⟨s', hs'⟩; rw [hs'] at hr; cases hr
      constructor
      · intro hy; exact ⟨hy, fun e => hx (by rw [← e]; exact (hS y).2 hy)⟩
      · exact fun hy => hy.1
    | some s' =>
      refine ⟨inv_remove h x hr, fun y => ?_⟩
      simp only [Option.getD_some, mem_remove h x hr, hS]
  | draw i => exact ⟨h, hS⟩
  | contains x => exact ⟨h, hS⟩
  | len => exact ⟨h, hS⟩
  | iter => exact ⟨h, hS⟩

/-- **Refinement, every history.** After any operation sequence the structure's invariant holds
and its members are exactly the reference set's members. -/
theorem run_refines (ops : List (Op α)) :
    Inv (run (empty : St α) ops) ∧ ∀ y, y ∈ (run (empty : St α) ops).edges ↔ spec ops y := by
  suffices H : ∀ (s : St α) (S : α → Prop), Inv s → (∀ y, y ∈ s.edges ↔ S y) →
      Inv (ops.foldl step s) ∧ ∀ y, y ∈ (ops.foldl step s).edges ↔ ops.foldl specStep S y by
    exact H empty (fun _ => False) inv_empty (by simp [empty])
  induction ops with
  | nil => intro s S h hS; exact ⟨h, hS⟩
  | cons op ops ih =>
    intro s S h hS
    have := step_refines h hS op
    exact ih _ _ this.1 this.2

/-- iteration yields each member exactly once -/
theorem iter_each_once (ops : List (Op α)) :
    (iter (run (empty : St α) ops)).Nodup ∧ ∀ y, y ∈ iter (run (empty : St α) ops) ↔ spec ops y :=
  ⟨(run_refines ops).1.nodup, (run_refines ops).2⟩

/-- the membership test agrees with the reference set -/
theorem contains_iff_spec (ops : List (Op α)) (y : α) :
    contains (run (empty : St α) ops) y = true ↔ spec ops y := by
  rw [← (run_refines ops).1.mem_iff, (run_refines ops).2]

/-- `len` counts the members: the member list is duplicate free and lists exactly the reference set,
so its length is the set's cardinality. Stated for any duplicate-free enumeration of the reference set. -/
theorem len_eq_card (ops : List (Op α)) (enum : List α) (hn : enum.Nodup) (he : ∀ y, y ∈ enum ↔ spec ops y) :
    len (run (empty : St α) ops) = enum.length := by
  have h := run_refines ops
  have hp : (run (empty : St α) ops).edges.Perm enum :=
    (List.perm_ext_iff_of_nodup h.1.nodup hn).2 (fun y => by rw [h.2, he])
  exact hp.length_eq

/-- inserting a present element changes nothing (the whole state, not just the set) -/
theorem add_present_changes_nothing (ops : List (Op α)) (x : α) (hx : spec ops x) :
    run (empty : St α) (ops ++ [.add x]) = run (empty : St α) ops := by
  have h := run_refines ops
  simp only [run, List.foldl_append, List.foldl_cons, List.foldl_nil, step]
  exact add_present_noop h.1 x ((h.2 x).2 hx)

/-- every draw returns a current member … -/
theorem draw_is_member (ops : List (Op α)) (i : Nat) (x : α)
    (hd : draw (run (empty : St α) ops) i = some x) : spec ops x :=
  ((run_refines ops).2 x).1 (draw_mem _ i x hd)

/-- … every in-range index draws something, and every member can be drawn -/
theorem draw_total (ops : List (Op α)) (i : Nat) (hi : i < len (run (empty : St α) ops)) :
    ∃ x, draw (run (empty : St α) ops) i = some x := draw_lt _ i hi

theorem every_member_drawable (ops : List (Op α)) (x : α) (hx : spec ops x) :
    ∃ i, i < len (run (empty : St α) ops) ∧ draw (run (empty : St α) ops) i = some x :=
  draw_surj _ x (((run_refines ops).2 x).2 hx)

/-- removing an absent element raises (`none`) and, by definition of `step`, leaves the state intact -/
theorem remove_absent_raises (ops : List (Op α)) (x : α) (hx : ¬ spec ops x) :
    remove (run (empty : St α) ops) x = none :=
  remove_absent (run_refines ops).1 x (fun h => hx (((run_refines ops).2 x).1 h))

/-- removing a present element succeeds and shrinks the length by one -/
theorem remove_present_succeeds (ops : List (Op α)) (x : α) (hx : spec ops x) :
    ∃ s', remove (run (empty : St α) ops) x = some s' ∧ len s' + 1 = len (run (empty : St α) ops) := by
  rcases remove_present (run_refines ops).1 x (((run_refines ops).2 x).2 hx) with ⟨s', hs'⟩
  exact ⟨s', hs', len_remove x hs'⟩

/-! Non-vacuity and the corner cases named in the property, on concrete histories. -/
section examples
-- removal of the last-inserted element, removal down to empty, re-insertion
example : (run (empty : St Nat) [.add 1, .add 2, .add 3, .remove 3]).edges = [1, 2] := by decide
example : (run (empty : St Nat) [.add 1, .add 2, .remove 1, .remove 2]).edges = [] := by decide
example : (run (empty : St Nat) [.add 1, .remove 1, .add 1, .add 1]).edges = [1] := by decide
-- swap-with-last really happens
example : (run (empty : St Nat) [.add 1, .add 2, .add 3, .remove 1]).edges = [3, 2] := by decide
example : remove (run (empty : St Nat) [.add 1, .add 2]) 7 = none := by decide
example : spec [Op.add 1, .add 2, .remove 1] (2 : Nat) := by simp [spec, specStep]
end examples

end Gcmpy.DrawSet
