import GcmpyModel.Model.Algebra
namespace Gcmpy.Algebra
theorem placeholder_c14 : True := trivial
end Gcmpy.Algebra
