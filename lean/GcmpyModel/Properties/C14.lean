import GcmpyModel.Lemmas.Algebra
/-!
# C14 — degree-distribution algebra

Model: `GcmpyModel/Model/Algebra.lean`; helper lemmas and vocabulary: `GcmpyModel/Lemmas/Algebra.lean`.

Vocabulary (defined in the lemma file), for a table `P : Table = List (JD × Rat)`:
* `Uniform P T`      every key is a `T`-tuple;  well formed = `Uniform P T` and `(Dict.keys P).Nodup`
* `mean P i`         `Σ_k k[i] · P(k)`                        (`k[i]` is `k.getD i 0`)
* `massPos P i`      `Z_i = Σ_{k[i] > 0} P(k)`
* `massAnyPos P`     `Z   = Σ_{k ≠ 0} P(k)`                   (`anyPos k` ↔ some component of `k` is positive)
* `bottomOf q i`     `Σ_k q(k) / (k[i] + 1)`                  (the constant of `invert_single`)
* `rowSum ejk ks a`  `Σ_{b ∈ ks} ejk(a ++ b)`                 (absent entries count 0)

Entries are addressed as members `kp ∈ P` (`kp.1` the key, `kp.2 = P(kp.1)` its mass).
-/
namespace Gcmpy.Algebra
open Gcmpy Gcmpy.Loaders

/-! ## 1. mean joint degree -/

/-- the mean joint degree is the `P`-weighted mean of every component -/
theorem average_value (P : Table) (T : Nat) (hne : P ≠ []) (hu : Uniform P T) :
    averages P = some ((List.range T).map fun i =>
      (P.map fun kp => ((kp.1.getD i 0 : Nat) : Rat) * kp.2).sum) :=
  averages_eq P T hne hu

/-- `IndexError` on the empty table -/
theorem average_empty : averages [] = none := rfl

/-! ## 2. excess distributions -/

/-- one excess table per topology -/
theorem excess_length {P : Table} {T : Nat} {qs : List Table} (hu : Uniform P T)
    (hn : (Dict.keys P).Nodup) (h : excessFromJdd P = some qs) : qs.length = T := by
  obtain ⟨_, rfl, _⟩ := excessFromJdd_some hu hn h
  simp

/-- the tables are, literally, `filter` + `map`s of the input -/
theorem excess_tables {P : Table} {T : Nat} {qs : List Table} (hu : Uniform P T)
    (hn : (Dict.keys P).Nodup) (h : excessFromJdd P = some qs) :
    qs = (List.range T).map fun i =>
      (P.filter fun kp => decide (kp.1.getD i 0 > 0)).map fun kp =>
        (kp.1.modify i (· - 1), (((kp.1.getD i 0 : Nat) : Rat) * kp.2) / mean P i) :=
  (excessFromJdd_some hu hn h).2.1

/-- `q_i(k - e_i) = k[i] · P(k) / ⟨k_i⟩` for every key `k` of `P` with `k[i] > 0` -/
theorem excess_value {P : Table} {T : Nat} {qs : List Table} (hu : Uniform P T)
    (hn : (Dict.keys P).Nodup) (h : excessFromJdd P = some qs) (i : Nat) (q : Table)
    (hq : qs[i]? = some q) (kp : JD × Rat) (hkp : kp ∈ P) (hpos : kp.1.getD i 0 > 0) :
    Dict.get q (kp.1.modify i (· - 1)) = some ((((kp.1.getD i 0 : Nat) : Rat) * kp.2) / mean P i) := by
  obtain ⟨_, rfl, _⟩ := excessFromJdd_some hu hn h
  obtain ⟨_, rfl⟩ := getElem?_map_range _ _ _ _ hq
  exact get_exTable P i hn kp hkp hpos

/-- … and the table has no other keys; its keys are distinct -/
theorem excess_support {P : Table} {T : Nat} {qs : List Table} (hu : Uniform P T)
    (hn : (Dict.keys P).Nodup) (h : excessFromJdd P = some qs) (i : Nat) (q : Table)
    (hq : qs[i]? = some q) :
    (Dict.keys q).Nodup ∧
    ∀ k', k' ∈ Dict.keys q ↔ ∃ k ∈ Dict.keys P, k.getD i 0 > 0 ∧ k' = k.modify i (· - 1) := by
  obtain ⟨_, rfl, _⟩ := excessFromJdd_some hu hn h
  obtain ⟨_, rfl⟩ := getElem?_map_range _ _ _ _ hq
  exact ⟨nodup_keys_exTable P i hn, mem_keys_exTable P i⟩

/-- every excess table with a non-zero mean is normalised -/
theorem excess_sums_one {P : Table} {T : Nat} {qs : List Table} (hu : Uniform P T)
    (hn : (Dict.keys P).Nodup) (h : excessFromJdd P = some qs) (i : Nat) (q : Table)
    (hq : qs[i]? = some q) (hm : mean P i ≠ 0) : (q.map (·.2)).sum = 1 := by
  obtain ⟨_, rfl, _⟩ := excessFromJdd_some hu hn h
  obtain ⟨_, rfl⟩ := getElem?_map_range _ _ _ _ hq
  exact sum_exTable P i hm

/-- the code raises exactly on the empty table (`IndexError`) or when some topology has mean 0 although a key
    with a positive component in it is present (`ZeroDivisionError`) -/
theorem excess_error_iff (P : Table) (T : Nat) (hu : Uniform P T) (hn : (Dict.keys P).Nodup) :
    excessFromJdd P = none ↔
      P = [] ∨ ∃ i, i < T ∧ mean P i = 0 ∧ ∃ k ∈ Dict.keys P, k.getD i 0 > 0 := by
  by_cases hne : P = []
  · subst hne; simp [excessFromJdd_nil]
  · rw [excessFromJdd_eq P T hne hu hn]
    simp only [hne, false_or, ← filter_posAt_ne_nil_iff]
    split
    · next h => simp only [true_iff]; exact h
    · next h => simp only [reduceCtorEq, false_iff]; exact h

/-! ## 6. joint degree distribution of a network -/

theorem jdd_from_network_value (jds : List JD) (k : JD) :
    Dict.get (jddFromNetwork jds) k =
      if k ∈ jds then some ((jds.count k : Rat) / (jds.length : Rat)) else none := by
  rw [jddFromNetwork_eq, get_accum]
  simp only [Dict.keys, List.map_nil, List.not_mem_nil, or_false, Dict.get, Option.getD_none, zero_add,
    mul_one_div]

theorem jdd_from_network_sums_one (jds : List JD) (h : jds ≠ []) :
    ((jddFromNetwork jds).map (·.2)).sum = 1 := by
  rw [jddFromNetwork_eq, sum_vals_accum]
  have : (jds.length : Rat) ≠ 0 := by
    have : jds.length ≠ 0 := by simpa using h
    exact_mod_cast this
  simp only [List.map_nil, List.sum_nil, zero_add]
  field_simp

theorem jdd_from_network_keys_nodup (jds : List JD) : (Dict.keys (jddFromNetwork jds)).Nodup := by
  rw [jddFromNetwork_eq]; exact nodup_keys_accum _ jds [] (by simp [Dict.keys])

/-- accumulating `1/n` agrees, entry by entry, with the loaders' `Counter`-based frequency table -/
theorem jdd_from_network_eq_empirical (jds : List JD) (k : JD) :
    Dict.get (jddFromNetwork jds) k = Dict.get (empirical jds) k := by
  rw [jdd_from_network_value, aux_empirical_freq]

/-! ## 5. row sums of the mixing matrices -/

/-- the `j`-th output is named like the `j`-th matrix and maps every listed first half `a` that occurs in
    the matrix to `Σ_b ejk(a ++ b)`; nothing else is a key -/
theorem row_sums_are_excess {ejks : List (String × Table)} {keys : List (String × List JD)}
    {qs : List (String × Table)} (h : excessFromEjk ejks keys = some qs) (j : Nat)
    (hj : j < ejks.length) (ks : List JD) (hk : Dict.get keys ejks[j].1 = some ks) (hnd : ks.Nodup) :
    ∃ q, qs[j]? = some (ejks[j].1, q) ∧
      (∀ a, a ∈ ks → (∃ b ∈ ks, a ++ b ∈ Dict.keys ejks[j].2) →
        Dict.get q a = some ((ks.map fun b => (Dict.get ejks[j].2 (a ++ b)).getD 0).sum)) ∧
      (∀ a, ¬ (a ∈ ks ∧ ∃ b ∈ ks, a ++ b ∈ Dict.keys ejks[j].2) → Dict.get q a = none) := by
  obtain ⟨_, hlen, hall⟩ := excessFromEjk_some h
  have hj' : j < qs.length := hlen ▸ hj
  obtain ⟨ks', hk', hq⟩ := hall j hj hj'
  rw [hk] at hk'
  have : ks' = ks := (Option.some.inj hk').symm
  subst this
  refine ⟨rowOuter ejks[j].2 ks' ks' [], ?_, ?_, ?_⟩
  · rw [List.getElem?_eq_getElem hj', hq]
  · intro a ha hb
    rw [get_rowTable _ _ _ hnd, if_pos ⟨ha, (hasRow_iff _ _ _).2 hb⟩]; rfl
  · intro a hno
    rw [get_rowTable _ _ _ hnd, if_neg]
    rintro ⟨ha, hb⟩
    exact hno ⟨ha, (hasRow_iff _ _ _).1 hb⟩

/-- when every matrix key is `a ++ b` with both halves listed and of one length `T` (and the matrix keys
    are distinct), that row sum is the sum of the matrix entries whose first half is `a`:
    the matrix is summed over its second index -/
theorem row_sums_over_matrix (ejk : Table) (ks : List JD) (T : Nat) (a : JD) (hnk : ks.Nodup)
    (hne : (Dict.keys ejk).Nodup) (hlen : ∀ k ∈ ks, k.length = T)
    (hform : ∀ k ∈ Dict.keys ejk, ∃ a' ∈ ks, ∃ b' ∈ ks, k = a' ++ b') (ha : a ∈ ks) :
    (ks.map fun b => (Dict.get ejk (a ++ b)).getD 0).sum =
      ((ejk.filter fun kv => decide (kv.1.take T = a)).map (·.2)).sum :=
  rowSum_eq_matrix ejk ks T a hnk hne hlen hform ha

/-- the length check of the code -/
theorem row_sums_length_error (ejks : List (String × Table)) (keys : List (String × List JD))
    (h : ejks.length ≠ keys.length) : excessFromEjk ejks keys = none := by
  rw [excessFromEjk_unfold, if_pos h]

/-! ## 3. inverting one excess distribution -/

/-- `invert_single` on a table with distinct keys and non-zero constant (hence non-empty):
    `P'(k + e_i) = (q(k) / (k[i] + 1)) / bottom`, and no other keys -/
theorem invert_single_value (q : Table) (i : Nat) (hn : (Dict.keys q).Nodup)
    (hb : bottomOf q i ≠ 0) :
    ∃ P', invertSingle q i = some P' ∧
      (∀ kq ∈ q, Dict.get P' (kq.1.modify i (· + 1)) =
        some ((kq.2 / (((kq.1.getD i 0 + 1 : Nat)) : Rat)) /
          (q.map fun kq => kq.2 / (((kq.1.getD i 0 + 1 : Nat)) : Rat)).sum)) ∧
      (Dict.keys P').Nodup ∧
      (∀ k', k' ∈ Dict.keys P' ↔ ∃ k ∈ Dict.keys q, k' = k.modify i (· + 1)) := by
  have hne : q ≠ [] := by rintro rfl; exact hb rfl
  refine ⟨invTable q i, ?_, ?_, nodup_keys_invTable q i hn, ?_⟩
  · rw [invertSingle_eq q i hn, if_neg hne, if_neg hb]
  · intro kq hkq; exact get_invTable q i hn kq hkq
  · intro k'
    rw [keys_invTable, List.mem_map]
    constructor
    · rintro ⟨k, hk, rfl⟩; exact ⟨k, hk, rfl⟩
    · rintro ⟨k, hk, rfl⟩; exact ⟨k, hk, rfl⟩

/-- the other two branches: `{}` for an empty table, `ZeroDivisionError` for a zero constant -/
theorem invert_single_branches (q : Table) (i : Nat) (hn : (Dict.keys q).Nodup) :
    (q = [] → invertSingle q i = some []) ∧
    (q ≠ [] → bottomOf q i = 0 → invertSingle q i = none) := by
  rw [invertSingle_eq q i hn]
  constructor
  · intro h; rw [if_pos h]
  · intro h hb; rw [if_neg h, if_pos hb]

/-- inverting the `i`-th excess table of `P` gives `P` conditioned on `k[i] > 0`:
    `P_i(k) = P(k) / Z_i` on the keys of `P` with `k[i] > 0`, and nothing else -/
theorem invert_of_excess {P : Table} {T : Nat} {qs : List Table} (hu : Uniform P T)
    (hn : (Dict.keys P).Nodup) (h : excessFromJdd P = some qs) (i : Nat) (q : Table)
    (hq : qs[i]? = some q) (hm : mean P i ≠ 0) (hz : massPos P i ≠ 0) :
    ∃ Pi, invertSingle q i = some Pi ∧
      (∀ kp ∈ P, kp.1.getD i 0 > 0 → Dict.get Pi kp.1 = some (kp.2 / massPos P i)) ∧
      (Dict.keys Pi).Nodup ∧
      (∀ k, k ∈ Dict.keys Pi ↔ k ∈ Dict.keys P ∧ k.getD i 0 > 0) := by
  obtain ⟨_, rfl, _⟩ := excessFromJdd_some hu hn h
  obtain ⟨_, rfl⟩ := getElem?_map_range _ _ _ _ hq
  refine ⟨restrictScale P (posAt i) (massPos P i), invertSingle_exTable P i hn hm hz, ?_,
    nodup_keys_restrictScale P _ _ hn, ?_⟩
  · intro kp hkp hpos
    rw [get_restrictScale, if_pos ((posAt_iff i kp.1).2 hpos), Dict.get_of_mem P hn kp hkp]; rfl
  · intro k
    rw [keys_restrictScale, List.mem_filter, posAt_iff]

/-! ## 4. the main theorem: excess tables determine `P` up to its mass at `0` -/

/-- Let `P` be well formed with `T ≥ 1` topologies, `names` any `T` pairwise distinct topology names, all
    means, all `Z_i` and `Z` non-zero.  For EVERY admissible common key (a key of `P` positive in every
    topology, with non-zero mass) the inversion of the excess tables of `P` succeeds and returns
    `P` conditioned on `k ≠ 0`: `R(k) = P(k) / Z` on the keys of `P` with a positive component, and nothing
    else; in particular `R` sums to one. -/
theorem invert_excess (P : Table) (T : Nat) (names : List String) (qs : List Table)
    (common : JD) (pc : Rat)
    (hu : Uniform P T) (hn : (Dict.keys P).Nodup) (hT : 0 < T)
    (hnames : names.Nodup) (hlen : names.length = T)
    (hq : excessFromJdd P = some qs)
    (hmean : ∀ i, i < T → mean P i ≠ 0) (hZi : ∀ i, i < T → massPos P i ≠ 0)
    (hZ : massAnyPos P ≠ 0)
    (hc : (common, pc) ∈ P) (hcpos : ∀ i, i < T → common.getD i 0 > 0) (hpc : pc ≠ 0) :
    ∃ R, jddFromExcess (names.zip qs) names common = some R ∧
      (∀ kp ∈ P, (∃ i, kp.1.getD i 0 > 0) → Dict.get R kp.1 = some (kp.2 / massAnyPos P)) ∧
      (Dict.keys R).Nodup ∧
      (∀ k, k ∈ Dict.keys R ↔ k ∈ Dict.keys P ∧ ∃ i, k.getD i 0 > 0) ∧
      (R.map (·.2)).sum = 1 := by
  obtain ⟨_, rfl, _⟩ := excessFromJdd_some hu hn hq
  obtain ⟨R, hR, hnd, hget⟩ := jddFromExcess_excess P T names common pc hu hn hT hnames hlen
    hmean hZi hZ hc hcpos hpc
  refine ⟨R, hR, ?_, hnd, ?_, ?_⟩
  · intro kp hkp hpos
    rw [hget, if_pos ((anyPos_iff' kp.1).2 hpos), Dict.get_of_mem P hn kp hkp]; rfl
  · intro k
    rw [← Dict.get_isSome_iff_mem_keys, hget, ← anyPos_iff', ← Dict.get_isSome_iff_mem_keys]
    cases anyPos k <;> cases Dict.get P k <;> simp
  · have hperm := Dict.perm_of_get_eq hnd (nodup_keys_restrictScale P anyPos (massAnyPos P) hn)
      (fun k => by rw [hget, get_restrictScale])
    rw [(hperm.map (·.2)).sum_eq, sum_restrictScale]
    exact div_self hZ

/-- the same with the natural sufficient condition: non-negative masses and some key `c`, positive in every
    topology, of positive mass.  The common key may be any admissible key, not necessarily `c`. -/
theorem invert_excess_nonneg (P : Table) (T : Nat) (names : List String) (qs : List Table)
    (common : JD) (pc : Rat) (c : JD) (pc' : Rat)
    (hu : Uniform P T) (hn : (Dict.keys P).Nodup) (hT : 0 < T)
    (hnames : names.Nodup) (hlen : names.length = T)
    (hq : excessFromJdd P = some qs)
    (hnn : ∀ kp ∈ P, 0 ≤ kp.2)
    (hc' : (c, pc') ∈ P) (hcpos' : ∀ i, i < T → c.getD i 0 > 0) (hpc' : 0 < pc')
    (hc : (common, pc) ∈ P) (hcpos : ∀ i, i < T → common.getD i 0 > 0) (hpc : pc ≠ 0) :
    ∃ R, jddFromExcess (names.zip qs) names common = some R ∧
      (∀ kp ∈ P, (∃ i, kp.1.getD i 0 > 0) → Dict.get R kp.1 = some (kp.2 / massAnyPos P)) ∧
      (Dict.keys R).Nodup ∧
      (∀ k, k ∈ Dict.keys R ↔ k ∈ Dict.keys P ∧ ∃ i, k.getD i 0 > 0) ∧
      (R.map (·.2)).sum = 1 :=
  invert_excess P T names qs common pc hu hn hT hnames hlen hq
    (fun i hi => ne_of_gt (mean_pos P i hnn c pc' hc' (hcpos' i hi) hpc'))
    (fun i hi => ne_of_gt (massPos_pos P i hnn c pc' hc' (hcpos' i hi) hpc'))
    (ne_of_gt (massAnyPos_pos P hnn c pc' hc' ((anyPos_iff' c).2 ⟨0, hcpos' 0 hT⟩) hpc'))
    hc hcpos hpc

/-! ## 7. non-vacuity -/

/-- a two-topology distribution with positive mass at `(0, 0)` -/
example : averages [([0, 0], 1 / 5), ([1, 0], 1 / 5), ([0, 2], 1 / 10), ([1, 1], 1 / 2)]
    = some [7 / 10, 7 / 10] := by decide +kernel

example : excessFromJdd [([0, 0], 1 / 5), ([1, 0], 1 / 5), ([0, 2], 1 / 10), ([1, 1], 1 / 2)]
    = some [[([0, 0], 2 / 7), ([0, 1], 5 / 7)], [([0, 1], 2 / 7), ([1, 0], 5 / 7)]] := by
  decide +kernel

/-- inversion returns `P` conditioned on `k ≠ 0` (`Z = 4/5`), with an arbitrary first name as reference:
    the pinned failure of the unrepaired code (a hard-wired reference topology name) is NOT modelled, the
    model uses `names.head?` -/
example :
    jddFromExcess
      (["a", "2-clique-blue"].zip [[([0, 0], 2 / 7), ([0, 1], 5 / 7)], [([0, 1], 2 / 7), ([1, 0], 5 / 7)]])
      ["a", "2-clique-blue"] [1, 1]
    = some [([1, 0], 1 / 4), ([1, 1], 5 / 8), ([0, 2], 1 / 8)] := by decide +kernel

example :
    jddFromExcess
      (["2-clique-blue", "a"].zip [[([0, 0], 2 / 7), ([0, 1], 5 / 7)], [([0, 1], 2 / 7), ([1, 0], 5 / 7)]])
      ["2-clique-blue", "a"] [1, 1]
    = some [([1, 0], 1 / 4), ([1, 1], 5 / 8), ([0, 2], 1 / 8)] := by decide +kernel

/-- the hypotheses of `invert_excess_nonneg` hold for that table -/
example : ∃ R, jddFromExcess (["a", "2-clique-blue"].zip
      [[([0, 0], 2 / 7), ([0, 1], 5 / 7)], [([0, 1], 2 / 7), ([1, 0], 5 / 7)]]) ["a", "2-clique-blue"] [1, 1]
      = some R ∧ (R.map (·.2)).sum = 1 := by
  obtain ⟨R, h, _, _, _, hs⟩ := invert_excess_nonneg
    [([0, 0], 1 / 5), ([1, 0], 1 / 5), ([0, 2], 1 / 10), ([1, 1], 1 / 2)] 2 ["a", "2-clique-blue"]
    [[([0, 0], 2 / 7), ([0, 1], 5 / 7)], [([0, 1], 2 / 7), ([1, 0], 5 / 7)]] [1, 1] (1 / 2) [1, 1] (1 / 2)
    (by unfold Uniform; decide +kernel) (by decide +kernel) (by decide) (by decide +kernel) rfl
    (by decide +kernel) (by decide +kernel)
    (by decide +kernel) (by decide +kernel) (by decide +kernel)
    (by decide +kernel) (by decide +kernel) (by decide +kernel)
  exact ⟨R, h, hs⟩

/-- `Z ≠ 0` cannot be dropped from `invert_excess` when masses may be negative: here all means and all `Z_i`
    are `-1`, `Z = 0`, and the final renormalisation divides by zero -/
example : jddFromExcess (["a", "b"].zip [[([0, 0], -1), ([0, 1], 2)], [([0, 0], -1), ([1, 0], 2)]])
    ["a", "b"] [1, 1] = none := by decide +kernel
example : excessFromJdd [([1, 0], 1), ([0, 1], 1), ([1, 1], -2)]
    = some [[([0, 0], -1), ([0, 1], 2)], [([0, 0], -1), ([1, 0], 2)]] := by decide +kernel

/-- error branches of `excessFromJdd`: a zero mean is harmless without positive components, fatal with -/
example : excessFromJdd [([0, 0], 1)] = some [[], []] := by decide +kernel
example : excessFromJdd [([1], 1), ([2], -1 / 2)] = none := by decide +kernel
example : excessFromJdd [] = none := rfl

example : invertSingle [([0, 0], 1 / 2), ([0, 1], 1 / 2)] 0 = some [([1, 0], 1 / 2), ([1, 1], 1 / 2)] := by
  decide +kernel
example : invertSingle [([0], 1), ([1], -2)] 0 = none := by decide +kernel

example : excessFromEjk [("t", [([0, 0, 0, 1], 1 / 4), ([0, 1, 0, 0], 1 / 4), ([0, 1, 0, 1], 1 / 2)])]
    [("t", [[0, 0], [0, 1]])] = some [("t", [([0, 0], 1 / 4), ([0, 1], 3 / 4)])] := by decide +kernel

example : jddFromNetwork [[1, 0], [1, 0], [0, 2]] = [([1, 0], 2 / 3), ([0, 2], 1 / 3)] := by
  decide +kernel

end Gcmpy.Algebra
