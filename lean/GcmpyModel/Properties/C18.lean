import GcmpyModel.Lemmas.Percolate
/-
C18 — `gcmpy/tools/bond_percolate.py` (model: `Model/Percolate.lean`).

Every edge is retained iff its own uniform draw is `≤ φ` (one draw per edge, in edge order); the result is
(size of the largest component of the retained graph) / N.  Reachability semantics of `lccSize`: Lemmas/Reach.
-/
namespace Gcmpy.Percolate
open Gcmpy.Graph

/-- 1. the fate of edge `t` depends on its own draw only: it survives the filter iff `draws[t] ≤ φ` -/
theorem kept_iff (es : List Edge) (φ : Rat) (draws : List Rat) (hl : draws.length = es.length)
    (t : Nat) (ht : t < es.length) :
    (es[t], draws[t]'(hl ▸ ht)) ∈ (es.zip draws).filter (fun p => ¬ (p.2 > φ)) ↔ draws[t]'(hl ▸ ht) ≤ φ := by
  have hmem : (es[t], draws[t]'(hl ▸ ht)) ∈ es.zip draws := by
    have hlt : t < (es.zip draws).length := by rw [List.length_zip]; omega
    have := List.getElem_mem hlt
    rwa [List.getElem_zip] at this
  simp only [List.mem_filter, hmem, true_and, gt_iff_lt, Rat.not_lt, decide_eq_true_eq]

/-- 1'. list form: the retained edges are those whose draw is `≤ φ`, in the original order -/
theorem kept_list_form (es : List Edge) (φ : Rat) (draws : List Rat) :
    kept es φ draws = ((es.zip draws).filter (fun p => decide (p.2 ≤ φ))).map (·.1) :=
  kept_eq es φ draws

/-- 2. `φ = 1`: every draw of `random.random()` is `< 1`, nothing is removed, the result is the
relative size of the largest component of the input graph -/
theorem phi_one_exact {es : List Edge} {nodes : List Nat} {draws : List Rat}
    (hl : draws.length = es.length) (hd : ∀ d ∈ draws, d < 1) (hne : nodes ≠ []) :
    percolate es nodes 1 draws = some ((lccSize es nodes : Rat) / nodes.length) := by
  unfold percolate
  rw [kept_all hl (fun d h => Rat.le_of_lt (hd d h))]
  simp [hne]

/-- 3. `φ = 0`: every edge is removed and the result is `1/N` — PROVIDED no draw is exactly `0.0`
(`random.random()` ranges over `[0,1)`; the draw `0.0` is not `> 0` and would keep its edge, hence the
hypothesis `0 < d`) -/
theorem phi_zero {es : List Edge} {nodes : List Nat} {draws : List Rat}
    (_hl : draws.length = es.length) (hd : ∀ d ∈ draws, 0 < d) (hne : nodes ≠ []) :
    percolate es nodes 0 draws = some (1 / (nodes.length : Rat)) := by
  unfold percolate
  rw [kept_none hd, lccSize_no_edges hne]
  simp [hne]

/-- 4. the result is `k/N` for an integer `1 ≤ k ≤ N` -/
theorem multiple_of_inv_N {es : List Edge} {nodes : List Nat} {φ : Rat} {draws : List Rat} {s : Rat}
    (h : WFGraph es nodes) (hne : nodes ≠ []) (hs : percolate es nodes φ draws = some s) :
    ∃ k : Nat, 1 ≤ k ∧ k ≤ nodes.length ∧ s = (k : Rat) / nodes.length := by
  unfold percolate at hs
  have hne' : nodes.isEmpty = false := by simpa using hne
  simp only [hne', Bool.false_eq_true, if_false, Option.some.injEq] at hs
  obtain ⟨h1, h2⟩ := lccSize_pos_le (wf_kept h φ draws) hne
  exact ⟨_, h1, h2, hs.symm⟩

/-- 5. the empty graph raises (`Gcc[0]` on an empty list) -/
theorem empty_graph_raises (es : List Edge) (φ : Rat) (draws : List Rat) :
    percolate es [] φ draws = none := rfl

/-- 5'. and that is the only failure -/
theorem percolate_isSome {es : List Edge} {nodes : List Nat} (φ : Rat) (draws : List Rat) (hne : nodes ≠ []) :
    (percolate es nodes φ draws).isSome = true := by
  unfold percolate
  simp [hne]

/-- 6. star with centre `c` and leaves `ls`: `N·S − 1` is the number of retained edges, i.e. the number of
draws `≤ φ` (Binomial(M, φ) under i.i.d. uniform draws) -/
theorem star_counts_kept {c : Nat} {ls : List Nat} {φ : Rat} {draws : List Rat}
    (hc : c ∉ ls) (hls : ls.Nodup) (hl : draws.length = (ls.map fun l => (c, l)).length) :
    lccSize (kept (ls.map fun l => (c, l)) φ draws) (c :: ls)
      = 1 + (draws.filter (fun d => decide (d ≤ φ))).length := by
  rw [List.length_map] at hl
  rw [kept_star, lccSize_star hc hls ((keptLeaves_sublist ls φ draws).nodup hls)
    (keptLeaves_sublist ls φ draws).subset, keptLeaves_length hl]

/-- 6'. the same through `percolate` -/
theorem star_percolate {c : Nat} {ls : List Nat} {φ : Rat} {draws : List Rat}
    (hc : c ∉ ls) (hls : ls.Nodup) (hl : draws.length = ls.length) :
    percolate (ls.map fun l => (c, l)) (c :: ls) φ draws
      = some (((1 + (draws.filter (fun d => decide (d ≤ φ))).length : Nat) : Rat) / ((ls.length + 1 : Nat) : Rat)) := by
  unfold percolate
  rw [star_counts_kept hc hls (by rw [List.length_map]; exact hl)]
  rfl

/-! ### non-vacuity -/

/-- 5 vertices, 3 edges, `φ = 6/10`: only `(0,1)` survives -/
example : percolate [(0,1), (1,2), (3,4)] [0,1,2,3,4] (6/10) [1/2, 9/10, 7/10] = some (2/5) := by
  decide +kernel

example : kept [(0,1), (1,2), (3,4)] (6/10) [1/2, 9/10, 7/10] = [(0,1)] := by decide +kernel

/-- same graph, all edges survive: components {0,1,2} and {3,4} -/
example : percolate [(0,1), (1,2), (3,4)] [0,1,2,3,4] (6/10) [1/2, 1/10, 3/10] = some (3/5) := by
  decide +kernel

example : WFGraph [(0,1), (1,2), (3,4)] [0,1,2,3,4] := by
  unfold WFGraph; decide

/-- the draw `0` keeps its edge at `φ = 0` -/
example : percolate [(0,1)] [0,1] 0 [0] = some 1 := by decide +kernel

/-- star with 4 leaves, 2 draws `≤ 1/2` -/
example : percolate [(0,1), (0,2), (0,3), (0,4)] [0,1,2,3,4] (1/2) [1/10, 9/10, 3/10, 8/10] = some (3/5) := by
  decide +kernel

example : lccSize (kept ([1,2,3,4].map fun l => (0, l)) (1/2) [1/10, 9/10, 3/10, 8/10]) (0 :: [1,2,3,4])
    = 1 + ([1/10, 9/10, 3/10, (8/10 : Rat)].filter (fun d => decide (d ≤ 1/2))).length := by
  decide +kernel

end Gcmpy.Percolate
