import Mathlib.Data.List.Nodup
import Mathlib.Data.List.Forall2
import GcmpyModel.Lemmas.Shuffle
import GcmpyModel.Lemmas.Generate
/-!
# C03 — stub matching is uniformly random (configuration-model measure)

Assumption (not a theorem): successive `randbelow(i+1)` results are independent and uniform.
Under it every *valid draw sequence* for a list of `n` stubs has probability `1/n!`.
The theorems show that the map  draw sequence ↦ arrangement of (labelled) stubs  is a bijection,
so every assignment of stubs to motif slots has probability exactly `1/n!`, independently per
topology (separate shuffles consume separate draw sequences).
-/
namespace Gcmpy.Shuffle
variable {α β : Type}

def fact : Nat → Nat
  | 0 => 1
  | n+1 => (n+1) * fact n

/-- all valid draw sequences for a list of `n` items -/
def validDraws : Nat → List (List Nat)
  | 0 => [[]]
  | 1 => [[]]
  | n+2 => (List.range (n+2)).flatMap fun j => (validDraws (n+1)).map (j :: ·)

theorem mem_validDraws (n : Nat) (cs : List Nat) : cs ∈ validDraws n ↔ Valid n cs := by
  induction n generalizing cs with
  | zero => simp [validDraws, Valid]
  | succ n ih =>
    cases n with
    | zero => simp [validDraws, Valid]
    | succ n =>
      simp only [validDraws, List.mem_flatMap, List.mem_range, List.mem_map]
      constructor
      · rintro ⟨j, hj, cs', hcs', rfl⟩
        exact ⟨by omega, (ih cs').1 hcs'⟩
      · intro h
        cases cs with
        | nil => exact h.elim
        | cons j cs' => exact ⟨j, by have := h.1; omega, cs', (ih cs').2 h.2, rfl⟩

/-- there are exactly `n!` valid draw sequences -/
theorem length_validDraws (n : Nat) : (validDraws n).length = fact n := by
  induction n with
  | zero => rfl
  | succ n ih =>
    cases n with
    | zero => rfl
    | succ n =>
      have : ∀ (m : Nat), ((List.range m).flatMap fun j => (validDraws (n+1)).map (j :: ·)).length
          = m * (validDraws (n+1)).length := by
        intro m
        induction m with
        | zero => simp
        | succ m ihm =>
          rw [List.range_succ, List.flatMap_append, List.length_append, ihm]
          simp [Nat.succ_mul]
      simp only [validDraws, this, ih, fact]

theorem validDraws_nodup (n : Nat) : (validDraws n).Nodup := by
  induction n with
  | zero => simp [validDraws]
  | succ n ih =>
    cases n with
    | zero => simp [validDraws]
    | succ n =>
      simp only [validDraws]
      rw [List.nodup_flatMap]
      constructor
      · intro j _
        exact (List.nodup_map_iff (fun a b h => by injection h)).2 ih
      · exact List.Pairwise.imp_of_mem (R := (· ≠ ·)) (by
          intro a b _ _ hab x hx1 hx2
          rcases List.mem_map.1 hx1 with ⟨c1, _, rfl⟩
          rcases List.mem_map.1 hx2 with ⟨c2, _, h2⟩
          injection h2 with h3 _
          exact hab h3.symm) List.nodup_range

/-- shuffling commutes with relabelling: the code shuffles bare vertex ids, which is the image of
    shuffling labelled stubs -/
theorem swap_map (f : α → β) (l : List α) (i j : Nat) : (swap l i j).map f = swap (l.map f) i j := by
  unfold swap
  simp only [List.getElem?_map]
  cases hi : l[i]? <;> cases hj : l[j]? <;> simp [List.map_set]

theorem shuffle_map (f : α → β) (n : Nat) (l : List α) (cs : List Nat) :
    (shuffle n l cs).map f = shuffle n (l.map f) cs := by
  fun_induction shuffle n l cs with
  | case1 | case2 | case3 => simp [shuffle]
  | case4 n l j cs ih => rw [shuffle, ih, swap_map]

/-- **Exact uniformity.**  For a duplicate-free (labelled) stub list, every arrangement is produced by
    exactly one of the `n!` equiprobable valid draw sequences. -/
theorem each_arrangement_once [DecidableEq α] (l p : List α) (hl : l.Nodup) (hp : p.Perm l) :
    ((validDraws l.length).filter (fun cs => shuffle l.length l cs = p)).length = 1 := by
  rcases shuffle_bijective l p hl hp with ⟨cs, ⟨hv, hs⟩, huniq⟩
  have hnd := (validDraws_nodup l.length).filter (fun cs => decide (shuffle l.length l cs = p))
  have hmem : ∀ x, x ∈ (validDraws l.length).filter (fun cs => decide (shuffle l.length l cs = p)) ↔ x ∈ [cs] := by
    intro x
    simp only [List.mem_filter, mem_validDraws, decide_eq_true_eq, List.mem_singleton]
    constructor
    · intro h; exact huniq x h
    · rintro rfl; exact ⟨hv, hs⟩
  have := (List.perm_ext_iff_of_nodup hnd (List.nodup_singleton cs)).2 hmem
  simpa using this.length_eq

/-- no arrangement is unreachable, whatever the vertex order -/
theorem every_arrangement_reachable (l p : List α) (hp : p.Perm l) :
    ∃ cs, shuffle l.length l cs = p := by
  classical
  -- label the stubs by position, use surjectivity on the labelled list, forget the labels
  have hl : (l.zipIdx).Nodup := by
    rw [List.nodup_iff_pairwise_ne]
    apply List.Pairwise.imp (R := fun a b => a.2 ≠ b.2)
    · intro a b h e; exact h (by rw [e])
    · have := List.pairwise_lt_range' (s := 0) (n := l.length) (step := 1)
      rw [← List.zipIdx_map_snd 0 l] at this
      exact (List.pairwise_map.1 this).imp (fun h => Nat.ne_of_lt h)
  -- any arrangement of `l` lifts to an arrangement of the labelled list
  obtain ⟨q, hq, hqm⟩ : ∃ q : List (α × Nat), List.Perm q l.zipIdx ∧ List.map Prod.fst q = p := by
    have h1 : (l.zipIdx.map Prod.fst).Perm p := by rw [List.zipIdx_map_fst]; exact hp.symm
    -- core: a permutation of a mapped list is the map of a permutation
    have key : ∀ (p : List α) (L : List (α × Nat)), (L.map Prod.fst).Perm p → ∃ q : List (α × Nat), List.Perm q L ∧ List.map Prod.fst q = p := by
      intro p
      induction p with
      | nil => intro L h; have := h.length_eq; simp at this; subst this; exact ⟨[], List.Perm.refl _, rfl⟩
      | cons a t ih =>
        intro L h
        have ha : a ∈ L.map Prod.fst := h.mem_iff.2 (List.mem_cons_self ..)
        rcases List.mem_map.1 ha with ⟨x, hx, hxa⟩
        have hLe : L.Perm (x :: L.erase x) := List.perm_cons_erase hx
        have h2 : ((L.erase x).map Prod.fst).Perm t := by
          have := (hLe.map Prod.fst).symm.trans h
          simp only [List.map_cons, hxa] at this
          exact List.Perm.cons_inv this
        rcases ih _ h2 with ⟨q, hq, hqm⟩
        exact ⟨x :: q, (List.Perm.cons x hq).trans hLe.symm, by simp [hxa, hqm]⟩
    exact key p _ h1
  rcases shuffle_bijective l.zipIdx q hl hq with ⟨cs, ⟨_, hs⟩, _⟩
  refine ⟨cs, ?_⟩
  have := shuffle_map Prod.fst l.zipIdx.length l.zipIdx cs
  rw [hs, hqm, List.zipIdx_map_fst, List.length_zipIdx] at this
  exact this.symm

/-- **Independence per topology.**  Separate shuffles consume separate draw sequences; the joint map
    from tuples of valid draw sequences to tuples of arrangements is a bijection (product measure). -/
theorem product_bijective (Ls Ps : List (List α)) (hl : ∀ l ∈ Ls, l.Nodup)
    (hp : List.Forall₂ (fun p l => p.Perm l) Ps Ls) :
    ∃ css : List (List Nat),
      List.Forall₂ (fun cs lp => Valid lp.1.length cs ∧ shuffle lp.1.length lp.1 cs = lp.2) css (Ls.zip Ps) ∧
      ∀ css', List.Forall₂ (fun cs lp => Valid lp.1.length cs ∧ shuffle lp.1.length lp.1 cs = lp.2) css' (Ls.zip Ps)
        → css' = css := by
  induction hp with
  | nil => exact ⟨[], List.Forall₂.nil, fun css' h => by cases h; rfl⟩
  | @cons p l Ps Ls hpl _ ih =>
    rcases ih (fun l' hl' => hl l' (List.mem_cons_of_mem _ hl')) with ⟨css, hcss, huniq⟩
    rcases shuffle_bijective l p (hl l (List.mem_cons_self ..)) hpl with ⟨cs, hcs, hu⟩
    refine ⟨cs :: css, List.Forall₂.cons hcs hcss, ?_⟩
    intro css' h
    cases h with
    | cons h1 h2 => rw [hu _ h1, huniq _ h2]

end Gcmpy.Shuffle

namespace Gcmpy.Generate
open Gcmpy.Shuffle

/-- the generator's shuffled stub list is the image, under "forget the label", of the shuffle of the
    labelled stubs `(vertex, stub index)` with the same draws -/
theorem shuffled_is_unlabelled (jds : List (List Nat)) (draws : List (List Nat)) (k : Nat) (hk : k < ncols jds) :
    (shuffled jds draws).getD k [] =
      (shuffle (stubs jds k).length (stubs jds k).zipIdx (draws.getD k [])).map Prod.fst := by
  unfold shuffled
  rw [List.getD_eq_getElem?_getD, List.getElem?_map, List.getElem?_range hk]
  simp only [Option.map_some, Option.getD_some]
  rw [shuffle_map, List.zipIdx_map_fst]

/-- four degree-1 vertices, 2-cliques: 24 equiprobable draw sequences, each of the three perfect
    matchings arises from exactly 8 of them (probability 1/3) -/
def matchingOf (σ : List Nat) : List (List Nat) :=
  let gs := (chunks 2 σ).map fun c => (if c.getD 0 0 ≤ c.getD 1 0 then c else c.reverse)
  if (gs.getD 0 []).getD 0 0 ≤ (gs.getD 1 []).getD 0 0 then gs else gs.reverse

theorem example_four_leaves :
    (validDraws 4).length = 24 ∧
    ∀ M ∈ [[[0, 1], [2, 3]], [[0, 2], [1, 3]], [[0, 3], [1, 2]]],
      ((validDraws 4).filter fun cs => matchingOf ((shuffled [[1], [1], [1], [1]] [cs]).getD 0 []) = M).length = 8 := by
  decide +kernel

end Gcmpy.Generate
