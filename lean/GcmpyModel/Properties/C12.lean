import GcmpyModel.Model.MCMC
namespace Gcmpy.MCMC
theorem placeholder_c12 : True := trivial
end Gcmpy.MCMC
