import Mathlib.Algebra.Order.Field.Basic
import Mathlib.Tactic.FieldSimp
import GcmpyModel.Lemmas.MCMC
/-!
# C12 — the acceptance test of the MCMC rewiring is a Metropolis test against the target matrices

Model: `swapCondition` (`swap_condition` with the uniform draw `r` as an argument), `numerator`, `denominator`.
Vocabulary (`Lemmas/MCMC.lean`): `createdWeights … (e0, e1)` = the two target entries looked up for the created
edges `(u0, v1)`, `(v0, u1)`; `createdW` their product; `edgeWeight … e` = the target entry of an existing oriented
edge; `removedW … (e0, e1)` the product of the two removed-edge entries.

Proved: `created_edges_allowed` (+ `created_edges_positive`), `ratio_is_metropolis`, `no_divide_by_zero`,
`detailed_balance`.  None of them needs the structural hypotheses of C11 — they hold for every call.
NOT proved (statement about a random process, kept visible): `approaches_target_full`.
-/
namespace Gcmpy.MCMC
open Gcmpy Gcmpy.Graph Gcmpy.Loaders

variable {G : Net} {names : List String} {target : Target} {u0 v0 : Nat} {e0s e1s : List Edge} {r : Rat}

/-- 9. an accepted swap only creates pairings that the target allows: for every pair `(e0, e1)` of the pairing,
    with `t` the topology of `e0`, `i` its index, `ejk` the target matrix of `t`, the entries of the two created
    edges `(u0, v1)` and `(v0, u1)` are present and non-zero -/
theorem created_edges_allowed (h : swapCondition G names target u0 v0 e0s e1s r = .accept) :
    ∃ ps, pairUp G e0s e1s = some ps ∧ ∀ p ∈ ps, ∃ a0 i ejk a b,
      attrOf G p.1.1 p.1.2 = some a0 ∧ topIndex names a0.top = some i ∧ Dict.get target a0.top = some ejk ∧
      Dict.get ejk (excessOf G u0 i ++ excessOf G p.2.2 i) = some a ∧
      Dict.get ejk (excessOf G v0 i ++ excessOf G p.1.2 i) = some b ∧ a ≠ 0 ∧ b ≠ 0 := by
  obtain ⟨ps, top, bottom, hps, htop, _, _, _⟩ := swapCondition_accept h
  refine ⟨ps, hps, ?_⟩
  intro p hp
  obtain ⟨a, b, hcw, ha, hb⟩ := (numerator_spec ps 1 top htop).1 p hp
  unfold createdWeights at hcw
  split at hcw
  · exact absurd hcw (by simp)
  · rename_i a0 h1
    split at hcw
    · rename_i i ejk h2 h3
      split at hcw
      · rename_i a' b' h4 h5
        simp only [Option.some.injEq, Prod.mk.injEq] at hcw
        obtain ⟨rfl, rfl⟩ := hcw
        exact ⟨a0, i, ejk, a', b', h1, h2, h3, h4, h5, ha, hb⟩
      · exact absurd hcw (by simp)
    · exact absurd hcw (by simp)

/-- 9'. with a non-negative target the created pairings have positive target weight -/
theorem created_edges_positive (h : swapCondition G names target u0 v0 e0s e1s r = .accept)
    (hnn : ∀ t ejk, Dict.get target t = some ejk → ∀ x ∈ ejk, 0 ≤ x.2) :
    ∃ ps, pairUp G e0s e1s = some ps ∧ ∀ p ∈ ps, ∃ a0 i ejk a b,
      attrOf G p.1.1 p.1.2 = some a0 ∧ topIndex names a0.top = some i ∧ Dict.get target a0.top = some ejk ∧
      Dict.get ejk (excessOf G u0 i ++ excessOf G p.2.2 i) = some a ∧
      Dict.get ejk (excessOf G v0 i ++ excessOf G p.1.2 i) = some b ∧ 0 < a ∧ 0 < b := by
  obtain ⟨ps, hps, hall⟩ := created_edges_allowed h
  refine ⟨ps, hps, ?_⟩
  intro p hp
  obtain ⟨a0, i, ejk, a, b, h1, h2, h3, h4, h5, ha, hb⟩ := hall p hp
  have ha' : 0 ≤ a := hnn _ _ h3 _ (Dict_mem_of_get _ _ _ h4)
  have hb' : 0 ≤ b := hnn _ _ h3 _ (Dict_mem_of_get _ _ _ h5)
  exact ⟨a0, i, ejk, a, b, h1, h2, h3, h4, h5, lt_of_le_of_ne ha' (Ne.symm ha), lt_of_le_of_ne hb' (Ne.symm hb)⟩

/-- 10. an accepted proposal passed the Metropolis test `r < top / bottom`, where `top` is the product over the
    pairing of the two created-edge weights and `bottom` the product over `zip e0s e1s` of the two removed-edge
    weights; every factor was actually found in the target, `top ≠ 0`, `bottom ≠ 0` -/
theorem ratio_is_metropolis (h : swapCondition G names target u0 v0 e0s e1s r = .accept) :
    ∃ ps top bottom, pairUp G e0s e1s = some ps ∧
      numerator G names target u0 v0 ps 1 = some top ∧
      denominator G names target (e0s.zip e1s) 1 = some bottom ∧
      bottom ≠ 0 ∧ top / bottom > r ∧
      top = (ps.map (createdW G names target u0 v0)).prod ∧
      bottom = ((e0s.zip e1s).map (removedW G names target)).prod ∧
      (∀ p ∈ ps, ∃ a b, createdWeights G names target u0 v0 p = some (a, b) ∧ a ≠ 0 ∧ b ≠ 0) ∧
      (∀ p ∈ e0s.zip e1s, ∃ a b, edgeWeight G names target p.1 = some a ∧ edgeWeight G names target p.2 = some b) := by
  obtain ⟨ps, top, bottom, hps, htop, hbot, hne, hgt⟩ := swapCondition_accept h
  obtain ⟨n1, n2⟩ := numerator_spec ps 1 top htop
  obtain ⟨d1, d2⟩ := denominator_spec (e0s.zip e1s) 1 bottom hbot
  rw [one_mul] at n2 d2
  exact ⟨ps, top, bottom, hps, htop, hbot, hne, hgt, n2, d2, n1, d1⟩

/-- 10'. the created-edge product of an evaluated numerator is never zero (`top == 0.0 → return False`) -/
theorem numerator_ne_zero {ps : List (Edge × Edge)} {top : Rat}
    (h : numerator G names target u0 v0 ps 1 = some top) : top ≠ 0 := by
  obtain ⟨n1, n2⟩ := numerator_spec ps 1 top h
  rw [n2, one_mul]
  apply prod_ne_zero_of_forall
  intro x hx
  obtain ⟨p, hp, rfl⟩ := List.mem_map.1 hx
  obtain ⟨a, b, hcw, ha, hb⟩ := n1 p hp
  simp only [createdW, hcw]
  exact mul_ne_zero ha hb

/-- 11. if no edge of the two corners has target weight `0` under its own oriented key, the division by zero
    of `swap_condition` is never raised -/
theorem no_divide_by_zero (hw : ∀ e ∈ e0s ++ e1s, edgeWeight G names target e ≠ some 0) :
    swapCondition G names target u0 v0 e0s e1s r ≠ .raiseDivZero := by
  intro h
  unfold swapCondition at h
  split at h
  · exact absurd h (by simp)
  · split at h
    · exact absurd h (by simp)
    · split at h
      · exact absurd h (by simp)
      · rename_i bottom hbot
        obtain ⟨d1, d2⟩ := denominator_spec (e0s.zip e1s) 1 bottom hbot
        have hne : bottom ≠ 0 := by
          rw [d2, one_mul]
          apply prod_ne_zero_of_forall
          intro x hx
          obtain ⟨p, hp, rfl⟩ := List.mem_map.1 hx
          obtain ⟨a, b, ha, hb⟩ := d1 p hp
          have hmem := List.of_mem_zip (show (p.1, p.2) ∈ e0s.zip e1s from hp)
          have ha0 : a ≠ 0 := fun h0 => hw p.1 (List.mem_append_left _ hmem.1) (h0 ▸ ha)
          have hb0 : b ≠ 0 := fun h0 => hw p.2 (List.mem_append_right _ hmem.2) (h0 ▸ hb)
          simp only [removedW, ha, hb, Option.getD_some]
          exact mul_ne_zero ha0 hb0
        simp only [hne, if_false] at h
        split at h <;> exact absurd h (by simp)

/-- 11'. the hypothesis in the form of the property: every corner edge has a non-zero target weight -/
theorem no_divide_by_zero' (hw : ∀ e ∈ e0s ++ e1s, ∃ w, edgeWeight G names target e = some w ∧ w ≠ 0) :
    swapCondition G names target u0 v0 e0s e1s r ≠ .raiseDivZero := by
  apply no_divide_by_zero
  intro e he h0
  obtain ⟨w, hw1, hw2⟩ := hw e he
  rw [hw1, Option.some.injEq] at h0
  exact hw2 h0

/-- 12. detailed balance of the Metropolis rule: with acceptance probability `min 1 (π'/π)` (which is the
    probability that a uniform `r ∈ [0,1)` satisfies `r < π'/π`) and a symmetric proposal, the flow `π → π'`
    equals the flow `π' → π` -/
theorem detailed_balance {K : Type} [Field K] [LinearOrder K] [IsStrictOrderedRing K] (p p' : K)
    (hp : 0 < p) (hp' : 0 < p') : p * min 1 (p' / p) = p' * min 1 (p / p') := by
  rcases le_total p p' with hle | hle
  · rw [min_eq_left ((one_le_div hp).2 hle), min_eq_right ((div_le_one hp').2 hle)]
    field_simp
  · rw [min_eq_right ((div_le_one hp).2 hle), min_eq_left ((one_le_div hp').2 hle)]
    field_simp

example (p p' : Rat) (hp : 0 < p) (hp' : 0 < p') : p * min 1 (p' / p) = p' * min 1 (p / p') :=
  detailed_balance p p' hp hp'

/-! ## non-vacuity -/

/-- two triangles whose vertices carry different joint degrees (excess `[1],[2],[2]` and `[3],[4],[4]`) -/
def mixedTriangles : Net :=
  { jd := [(0, [2]), (1, [3]), (2, [3]), (3, [4]), (4, [5]), (5, [5])],
    edges := [((0, 1), ⟨"t", 0⟩), ((0, 2), ⟨"t", 0⟩), ((1, 2), ⟨"t", 0⟩),
              ((3, 4), ⟨"t", 1⟩), ((3, 5), ⟨"t", 1⟩), ((4, 5), ⟨"t", 1⟩)] }

def mixedTarget : Target := [("t", [([1, 4], 1/2), ([3, 2], 1/2), ([1, 2], 1/4), ([3, 4], 1/4)])]

/-- an accepted proposal: `top = (1/2·1/2)² = 1/16`, `bottom = (1/4·1/4)² = 1/256`, ratio `16 > 1/2` -/
example : swapCondition mixedTriangles ["t"] mixedTarget 0 3 [(0, 1), (0, 2)] [(3, 4), (3, 5)] (1/2) = .accept := by
  decide +kernel
example : numerator mixedTriangles ["t"] mixedTarget 0 3 [((0, 1), (3, 5)), ((0, 2), (3, 4))] 1 = some (1/16) := by
  decide +kernel
example : denominator mixedTriangles ["t"] mixedTarget [((0, 1), (3, 4)), ((0, 2), (3, 5))] 1 = some (1/256) := by
  decide +kernel
/-- the hypothesis of `no_divide_by_zero` is needed: a present edge with target weight `0` raises -/
example : swapCondition mixedTriangles ["t"] [("t", [([1, 4], 1/2), ([3, 2], 1/2), ([1, 2], 0), ([3, 4], 1/4)])]
    0 3 [(0, 1), (0, 2)] [(3, 4), (3, 5)] (1/2) = .raiseDivZero := by
  decide +kernel
/-- a created pairing that is absent from the target is never manufactured -/
example : swapCondition mixedTriangles ["t"] [("t", [([3, 2], 1/2), ([1, 2], 1/4), ([3, 4], 1/4)])]
    0 3 [(0, 1), (0, 2)] [(3, 4), (3, 5)] 0 = .reject := by
  decide +kernel

/-! ## kept visible, NOT proved -/

/-- 13. NOT PROVED (a statement about the random process, and in this one-step form not even expected to hold for
    every state — Metropolis chains converge in distribution, not monotonically): for a target with full
    support, whatever finite proposal distribution `q` over suitable corner pairs is used, the expected L1 distance
    to the target after one proposal does not exceed the current one -/
def approaches_target_full : Prop :=
  ∀ (G : Net) (names : List String) (target : Target),
    WF G →
    (∀ t ejk, Dict.get target t = some ejk → ∀ x ∈ ejk, 0 < x.2) →
    ∀ q : List (Rat × (Nat × Nat × List Edge × List Edge)),
      (∀ x ∈ q, 0 ≤ x.1 ∧ Ok G x.2.1 x.2.2.1 x.2.2.2.1 x.2.2.2.2) → (q.map (·.1)).sum = 1 →
      (q.map fun x =>
        let a := acceptProb G names target x.2.1 x.2.2.1 x.2.2.2.1 x.2.2.2.2
        let G' := (applySwap G x.2.1 x.2.2.1 x.2.2.2.1 x.2.2.2.2).getD G
        x.1 * (a * distToTarget G' names target + (1 - a) * distToTarget G names target)).sum
      ≤ distToTarget G names target

end Gcmpy.MCMC
