import GcmpyModel.Model.MCMC
namespace Gcmpy.MCMC
theorem placeholder_c11 : True := trivial
end Gcmpy.MCMC
