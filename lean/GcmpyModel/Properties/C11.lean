import GcmpyModel.Lemmas.MCMC
/-!
# C11 — one accepted step of the MCMC rewiring keeps the network a GCM network of the same joint degrees

Model: `Model/MCMC.lean` (`applySwap` = the application loop of `rewire` on the proposals that `swap_condition`
stored, `suitable` = `is_edge_choice_suitable`).  Vocabulary (`Lemmas/MCMC.lean`): `WF`, `IsCorner`, `topDegree`,
`Ok G u0 v0 e0s e1s` (= `WF G ∧ IsCorner G u0 e0s ∧ IsCorner G v0 e1s ∧ suitable … = true`).

Proved here, for one step under `Ok`: `suitable_applies`, `nodes_preserved`, `wf_preserved` (with
`no_self_loop_created`), `edge_count_preserved`, `topology_degrees_preserved`; lifted to arbitrary histories
`Steps` in `steps_invariant`.  Motif shape: `known_finding_ids_exchanged` (the code AS WRITTEN exchanges the motif
ids of the new edges, so the edge set carrying one id is no longer a triangle) and `fixed_step_preserves_shape`
(the INTENDED assignment `applySwapFixed` maps every motif onto an isomorphic copy).

`defaults_admissible` (constructor defaults `search_limit = 25`, `convergence_limit = 10·|E|`) is not a statement
about the model; it is checked by the harness only.
-/
namespace Gcmpy.MCMC
open Gcmpy Gcmpy.Graph Gcmpy.Loaders

variable {G G' : Net} {u0 v0 : Nat} {e0s e1s : List Edge}

/-! ## one step -/

/-- 5. under `suitable`, the pairing succeeds and no "edge already present" error is raised -/
theorem suitable_applies (h : Ok G u0 v0 e0s e1s) : ∃ G', applySwap G u0 v0 e0s e1s = some G' := by
  obtain ⟨A, B, F⟩ := h.facts
  obtain ⟨ps, hps⟩ := F.pairUp_some
  exact ⟨_, F.applySwap_eq hps⟩

/-- the same for the intended attribute assignment -/
theorem suitable_applies_fixed (h : Ok G u0 v0 e0s e1s) : ∃ G', applySwapFixed G u0 v0 e0s e1s = some G' := by
  obtain ⟨A, B, F⟩ := h.facts
  obtain ⟨ps, hps⟩ := F.pairUp_some
  exact ⟨_, F.applySwapFixed_eq hps⟩

/-- 1. vertex set and joint-degree annotations are untouched -/
theorem nodes_preserved (h : Ok G u0 v0 e0s e1s) (ha : applySwap G u0 v0 e0s e1s = some G') : G'.jd = G.jd := by
  obtain ⟨A, B, ps, F, P, _, rfl⟩ := applySwap_shape h ha
  rfl

/-- 2. the result is again a simple graph with normalised, duplicate-free keys: no self-loop, no two proposals
    coincide, none coincides with an existing edge -/
theorem wf_preserved (h : Ok G u0 v0 e0s e1s) (ha : applySwap G u0 v0 e0s e1s = some G') : WF G' := by
  obtain ⟨A, B, ps, F, P, _, rfl⟩ := applySwap_shape h ha
  exact F.wf_after _ _ P

/-- 2'. in particular no self-loop is created -/
theorem no_self_loop_created (h : Ok G u0 v0 e0s e1s) (ha : applySwap G u0 v0 e0s e1s = some G') :
    ∀ p ∈ G'.edges, p.1.1 ≠ p.1.2 := (wf_preserved h ha).2.2

/-- 2''. the reason: the incoming vertex is not a vertex of the motif it joins, while the far end of every
    corner edge is -/
theorem incoming_vertex_outside_motif (h : Ok G u0 v0 e0s e1s) :
    ∃ A B, (u0 ∉ motifVertices G v0 B ∧ ∀ e ∈ e1s, e.2 ∈ motifVertices G v0 B) ∧
           (v0 ∉ motifVertices G u0 A ∧ ∀ e ∈ e0s, e.2 ∈ motifVertices G u0 A) := by
  obtain ⟨A, B, F⟩ := h.facts
  refine ⟨A, B, ⟨F.nu0, ?_⟩, ⟨F.nv0, ?_⟩⟩
  · intro e he
    obtain ⟨h1, a, ha, hm⟩ := F.e1 e he
    have := mem_motifVertices_of_attr ha
    rwa [h1, hm] at this
  · intro e he
    obtain ⟨h1, a, ha, hm⟩ := F.e0 e he
    have := mem_motifVertices_of_attr ha
    rwa [h1, hm] at this

/-- 3. the number of edges is preserved (the check at the end of the loop body of `rewire` never fires) -/
theorem edge_count_preserved (h : Ok G u0 v0 e0s e1s) (ha : applySwap G u0 v0 e0s e1s = some G') :
    G'.edges.length = G.edges.length := by
  obtain ⟨A, B, ps, F, P, _, rfl⟩ := applySwap_shape h ha
  exact F.length_after _ _ P

/-- 4. every vertex keeps its number of edges of every topology -/
theorem topology_degrees_preserved (h : Ok G u0 v0 e0s e1s) (ha : applySwap G u0 v0 e0s e1s = some G') :
    ∀ v t, topDegree G' v t = topDegree G v t := by
  obtain ⟨A, B, ps, F, P, _, rfl⟩ := applySwap_shape h ha
  intro v t
  exact F.degL_after _ _ P (fun _ _ => rfl) (F.top_snd P) v t

/-- 1–4 for the intended attribute assignment -/
theorem fixed_step_invariants (h : Ok G u0 v0 e0s e1s) (ha : applySwapFixed G u0 v0 e0s e1s = some G') :
    WF G' ∧ G'.jd = G.jd ∧ G'.edges.length = G.edges.length ∧ ∀ v t, topDegree G' v t = topDegree G v t := by
  obtain ⟨A, B, ps, F, P, _, rfl⟩ := applySwapFixed_shape h ha
  exact ⟨F.wf_after _ _ P, rfl, F.length_after _ _ P,
    fun v t => F.degL_after _ _ P (F.top_snd P) (fun _ _ => rfl) v t⟩

/-! ## motif shape under the intended assignment -/

/-- 7b. with the INTENDED assignment (`applySwapFixed`) a step maps every motif onto an isomorphic copy:
    the keys carrying the id `A` of the left corner afterwards are exactly the images `{σ a, σ b}` of the edges
    `{a, b}` that carried `A` before, where `σ` replaces `u0` by `v0`; symmetrically for `B` with `v0 ↦ u0`;
    the edge set of every other id is unchanged; and `σ` is injective on the vertices of the motif because the
    incoming vertex is not one of them (a triangle stays a triangle on three distinct vertices) -/
theorem fixed_step_preserves_shape (h : Ok G u0 v0 e0s e1s) (ha : applySwapFixed G u0 v0 e0s e1s = some G') :
    ∃ A B, (∀ e ∈ e0s, omid G e = some A) ∧ (∀ e ∈ e1s, omid G e = some B) ∧ A ≠ B ∧
      (∀ k, carries G' k A ↔ ∃ a b, omid G (a, b) = some A ∧ k = normE (subst1 u0 v0 a, subst1 u0 v0 b)) ∧
      (∀ k, carries G' k B ↔ ∃ a b, omid G (a, b) = some B ∧ k = normE (subst1 v0 u0 a, subst1 v0 u0 b)) ∧
      (∀ m, m ≠ A → m ≠ B → ∀ k, carries G' k m ↔ carries G k m) ∧
      (∀ x ∈ motifVertices G u0 A, ∀ y ∈ motifVertices G u0 A, subst1 u0 v0 x = subst1 u0 v0 y → x = y) ∧
      (∀ x ∈ motifVertices G v0 B, ∀ y ∈ motifVertices G v0 B, subst1 v0 u0 x = subst1 v0 u0 y → x = y) := by
  obtain ⟨A, B, ps, F, P, _, rfl⟩ := applySwapFixed_shape h ha
  have hAB : A ≠ B := F.ne
  refine ⟨A, B, fun e he => F.carries_e0 he, fun e he => F.carries_e1 he, hAB, ?_, ?_, ?_, ?_, ?_⟩
  · intro k
    rw [F.carries_afterFixed P k A,
      ← shape_side F.wf F.e0 F.full0 (fun k => mem_removed_iff (e0s := e0s) (e1s := e1s))
        (fun e he hc => hAB (carries_unique hc (F.carries_e1 he))) k]
    simp [hAB]
  · intro k
    rw [F.carries_afterFixed P k B,
      ← shape_side F.wf F.e1 F.full1 (fun k => (mem_removed_iff (e0s := e0s) (e1s := e1s)).trans Or.comm)
        (fun e he hc => hAB (carries_unique (F.carries_e0 he) hc)) k]
    simp [hAB.symm]
  · intro m hmA hmB k
    rw [F.carries_afterFixed P k m]
    simp only [hmA, hmB, false_and, or_false]
    constructor
    · exact fun h => h.1
    · intro hc
      refine ⟨hc, ?_⟩
      rw [mem_removed_iff]
      rintro (⟨e, he, rfl⟩ | ⟨e, he, rfl⟩)
      · exact hmA (carries_unique hc (F.carries_e0 he))
      · exact hmB (carries_unique hc (F.carries_e1 he))
  · intro x hx y hy hxy
    exact subst1_injOn u0 v0 (fun hv => F.nv0 (hv ▸ hx)) (fun hv => F.nv0 (hv ▸ hy)) hxy
  · intro x hx y hy hxy
    exact subst1_injOn v0 u0 (fun hv => F.nu0 (hv ▸ hx)) (fun hv => F.nu0 (hv ▸ hy)) hxy

/-! ## histories -/

/-- 6. histories of the chain: reflexive–transitive closure of "a proposal with real, suitable corners was
    evaluated with some uniform draw `r`; it was accepted and applied, or rejected (the state stutters)" -/
inductive Steps (names : List String) (target : Target) : Net → Net → Prop
  | refl (G : Net) : Steps names target G G
  | step {G G' G'' : Net} (u0 v0 : Nat) (e0s e1s : List Edge) (r : Rat) :
      Steps names target G G' → Ok G' u0 v0 e0s e1s →
      (stepNet G' names target u0 v0 e0s e1s r).2 = some G'' → Steps names target G G''

/-- after ANY number of accepted swaps the network is a simple graph on the same annotated vertices with the
    same number of edges and the same topology degrees at every vertex -/
theorem steps_invariant {names : List String} {target : Target} (hWF : WF G) (hs : Steps names target G G') :
    WF G' ∧ G'.jd = G.jd ∧ G'.edges.length = G.edges.length ∧ ∀ v t, topDegree G' v t = topDegree G v t := by
  induction hs with
  | refl => exact ⟨hWF, rfl, rfl, fun _ _ => rfl⟩
  | step u0 v0 e0s e1s r _ hok hstep ih =>
    obtain ⟨h1, h2, h3, h4⟩ := ih
    rcases stepNet_cases hstep with rfl | ha
    · exact ⟨h1, h2, h3, h4⟩
    · exact ⟨wf_preserved hok ha, (nodes_preserved hok ha).trans h2, (edge_count_preserved hok ha).trans h3,
        fun v t => (topology_degrees_preserved hok ha v t).trans (h4 v t)⟩

/-! ## non-vacuity: two triangles -/

/-- triangles `{0,1,2}` (motif id 0) and `{3,4,5}` (motif id 1), one topology `"t"` -/
def twoTriangles : Net :=
  { jd := [(0, [2]), (1, [2]), (2, [2]), (3, [2]), (4, [2]), (5, [2])],
    edges := [((0, 1), ⟨"t", 0⟩), ((0, 2), ⟨"t", 0⟩), ((1, 2), ⟨"t", 0⟩),
              ((3, 4), ⟨"t", 1⟩), ((3, 5), ⟨"t", 1⟩), ((4, 5), ⟨"t", 1⟩)] }

example : WF twoTriangles := by unfold WF; decide +kernel
example : IsCorner twoTriangles 0 [(0, 1), (0, 2)] :=
  ⟨by decide, by decide, 0, by decide +kernel, by decide +kernel⟩
example : IsCorner twoTriangles 3 [(3, 4), (3, 5)] :=
  ⟨by decide, by decide, 1, by decide +kernel, by decide +kernel⟩
example : suitable twoTriangles 0 3 [(0, 1), (0, 2)] [(3, 4), (3, 5)] = true := by decide +kernel

theorem twoTriangles_ok : Ok twoTriangles 0 3 [(0, 1), (0, 2)] [(3, 4), (3, 5)] :=
  ⟨by unfold WF; decide +kernel,
   ⟨by decide, by decide, 0, by decide +kernel, by decide +kernel⟩,
   ⟨by decide, by decide, 1, by decide +kernel, by decide +kernel⟩,
   by decide +kernel⟩

/-- 7a. KNOWN FINDING, the code as written: after the swap of the corners at `0` and `3`, motif id `0` sits on
    the edges `{(1,2), (0,5), (0,4)}` — a path, not a triangle (the ids of the new edges are exchanged) -/
theorem known_finding_ids_exchanged :
    (applySwap twoTriangles 0 3 [(0, 1), (0, 2)] [(3, 4), (3, 5)]).map
      (fun G' => (G'.edges.filter fun p => p.2.mid = 0).map (·.1)) = some [(1, 2), (0, 5), (0, 4)] := by
  decide +kernel

/-- with the intended assignment the same swap turns triangle `{0,1,2}` into triangle `{3,1,2}` -/
theorem fixed_keeps_triangle :
    (applySwapFixed twoTriangles 0 3 [(0, 1), (0, 2)] [(3, 4), (3, 5)]).map
      (fun G' => (G'.edges.filter fun p => p.2.mid = 0).map (·.1)) = some [(1, 2), (1, 3), (2, 3)] := by
  decide +kernel

end Gcmpy.MCMC
