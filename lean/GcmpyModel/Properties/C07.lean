import GcmpyModel.Lemmas.SplitDegree
/-!
Property C07: `JointDegreeSplitDegree` and `JointDegreeDelta`
(model: `GcmpyModel/Model/SplitDegree.lean`; helper lemmas: `GcmpyModel/Lemmas/SplitDegree.lean`).

Notation used in the statements (both defined in the lemma file):
  `splitTotal probs k`  = `W k` = `((validSplits k probs.length).map (splitWeight probs)).sum`
  `S` is written out as `((rangeAB lo hi).map fp).sum`.
-/
namespace Gcmpy.SplitDegree
open Gcmpy Gcmpy.Loaders

/-- `W k` spelled out -/
theorem splitTotal_eq (probs : List Rat) (k : Nat) :
    splitTotal probs k = ((validSplits k probs.length).map (splitWeight probs)).sum := rfl

/-! ## 1. the recursive generator enumerates exactly the admissible splits, each once -/

theorem validSplits_sound {k t : Nat} {jd : JD} (h : jd ∈ validSplits k t) :
    jd.length = t ∧ edgesOf jd = k :=
  validSplits_sound' k t jd h

theorem validSplits_complete {k t : Nat} {jd : JD} (ht : 1 ≤ t) (hl : jd.length = t)
    (he : edgesOf jd = k) : jd ∈ validSplits k t := by
  obtain ⟨n, rfl⟩ : ∃ n, t = n + 1 := ⟨t - 1, by omega⟩
  exact validSplits_complete' n k jd hl he

theorem validSplits_nodup (k t : Nat) : (validSplits k t).Nodup := validSplits_nodup' k t

theorem mem_validSplits_iff {k t : Nat} {jd : JD} (ht : 1 ≤ t) :
    jd ∈ validSplits k t ↔ jd.length = t ∧ edgesOf jd = k :=
  ⟨validSplits_sound, fun h => validSplits_complete ht h.1 h.2⟩

/-! ## 2. `resolve_degree` -/

/-- every split of `k` gets `w` times its weight normalised within the class -/
theorem resolve_get_split {probs : List Rat} {k : Nat} {w : Rat} {table table' : Table} {jd : JD}
    (h : resolve probs k w table = .ok table') (hjd : jd ∈ validSplits k probs.length) :
    Dict.get table' jd = some (w * (splitWeight probs jd / splitTotal probs k)) := by
  have ht : 1 ≤ probs.length := by
    rcases Nat.eq_zero_or_pos probs.length with h0 | h0
    · rw [h0] at hjd; simp [validSplits] at hjd
    · exact h0
  rw [resolve_eq _ _ _ _ ht] at h
  split at h
  · cases h
  · injection h with h
    rw [← h, get_foldl_set, if_pos hjd]

/-- entries of other degrees are untouched -/
theorem resolve_get_other {probs : List Rat} {k : Nat} {w : Rat} {table table' : Table} {jd : JD}
    (h : resolve probs k w table = .ok table') (hne : edgesOf jd ≠ k) :
    Dict.get table' jd = Dict.get table jd := by
  rcases Nat.eq_zero_or_pos probs.length with h0 | ht
  · simp only [resolve, h0, validSplits, List.isEmpty_nil, if_true] at h
    injection h with h; rw [h]
  · rw [resolve_eq _ _ _ _ ht] at h
    split at h
    · cases h
    · injection h with h
      rw [← h, get_foldl_set, if_neg]
      exact fun hm => hne (validSplits_sound hm).2

/-- on a table holding no split of `k` yet, the splits are appended in generator order -/
theorem resolve_keys {probs : List Rat} {k : Nat} {w : Rat} {table table' : Table}
    (ht : 1 ≤ probs.length) (hk : ∀ jd ∈ Dict.keys table, edgesOf jd ≠ k)
    (h : resolve probs k w table = .ok table') :
    Dict.keys table' = Dict.keys table ++ validSplits k probs.length := by
  obtain ⟨_, rfl⟩ := resolve_ok_append probs k w table table' ht hk h
  simp only [Dict.keys, List.map_append]
  rw [splitRows_keys]

/-- the `ZeroDivisionError` branch is taken exactly when the class total vanishes -/
theorem resolve_error_iff {probs : List Rat} {k : Nat} {w : Rat} {table : Table}
    (ht : 1 ≤ probs.length) :
    resolve probs k w table = .error .zeroDivision ↔ splitTotal probs k = 0 := by
  rw [resolve_eq _ _ _ _ ht]
  constructor
  · intro h; split at h
    · assumption
    · cases h
  · intro h; rw [if_pos h]

/-- `probs = [0, 1]`, odd `k`: every split uses at least one ordinary edge, all weights vanish -/
theorem resolve_zeroDivision_of_odd (k : Nat) (w : Rat) (table : Table) (hk : k % 2 = 1) :
    resolve [0, 1] k w table = .error .zeroDivision := by
  rw [resolve_error_iff (by simp), splitTotal_eq]
  apply List.sum_eq_zero
  intro x hx
  obtain ⟨jd, hjd, rfl⟩ := List.mem_map.1 hx
  simp only [List.length_cons, List.length_nil, validSplits, List.mem_flatMap, List.mem_range,
    List.mem_map, List.mem_singleton] at hjd
  obtain ⟨i, hi, row, rfl, rfl⟩ := hjd
  have h2 : i * 2 ≤ k := (Nat.le_div_iff_mul_le (by omega)).1 (by omega)
  have : k - i * 2 ≠ 0 := by omega
  simp [splitWeight, this]

/-! ## 3. the split-degree loader -/

section Split
variable {fp : Nat → Rat} {probs : List Rat} {lo hi : Nat} {T : Table}

/-- a successful run means no class total vanished -/
theorem split_ok_totals (ht : 1 ≤ probs.length) (h : splitDegree fp probs lo hi = .ok T)
    (k : Nat) (h1 : lo ≤ k) (h2 : k < hi) : splitTotal probs k ≠ 0 :=
  (splitDegree_ok ht h).1 k ((mem_rangeAB lo hi k).2 ⟨h1, h2⟩)

/-- the total mass of overall degree `k` is `fp k / S` -/
theorem split_class_mass (ht : 1 ≤ probs.length) (h : splitDegree fp probs lo hi = .ok T)
    (k : Nat) (h1 : lo ≤ k) (h2 : k < hi) :
    ((T.filter (fun p => edgesOf p.1 = k)).map (·.2)).sum = fp k / ((rangeAB lo hi).map fp).sum :=
  classes_mass (rangeAB_nodup lo hi) (fun k _ => splitRows_edges _ _ k) (split_hS ht h)
    (splitDegree_ok ht h).2 k ((mem_rangeAB lo hi k).2 ⟨h1, h2⟩)

/-- within one overall degree the mass is proportional to `splitWeight` -/
theorem split_within_class (ht : 1 ≤ probs.length) (h : splitDegree fp probs lo hi = .ok T)
    {jd : JD} {k : Nat} (he : edgesOf jd = k) (h1 : lo ≤ k) (h2 : k < hi)
    (hl : jd.length = probs.length) :
    Dict.get T jd = some (fp k * (splitWeight probs jd / splitTotal probs k)
      / ((rangeAB lo hi).map fp).sum) :=
  classes_get (rangeAB_nodup lo hi) (fun k _ => splitRows_edges _ _ k)
    (fun k _ => splitRows_nodup _ _ k) (split_hS ht h) (splitDegree_ok ht h).2 k
    ((mem_rangeAB lo hi k).2 ⟨h1, h2⟩) jd _
    (List.mem_map.2 ⟨jd, validSplits_complete ht hl he, rfl⟩)

theorem split_sums_one (h : splitDegree fp probs lo hi = .ok T) (hT : T ≠ []) :
    (T.map (·.2)).sum = 1 := by
  simp only [splitDegree, bind, Except.bind] at h
  split at h
  · cases h
  · exact normalise_sums_one h hT

/-- the keys are exactly the joint degrees of the right length whose edge count lies in the range -/
theorem split_support (ht : 1 ≤ probs.length) (h : splitDegree fp probs lo hi = .ok T) (jd : JD) :
    jd ∈ T.map (·.1) ↔ jd.length = probs.length ∧ lo ≤ edgesOf jd ∧ edgesOf jd < hi := by
  rw [classes_keys (split_hS ht h) (splitDegree_ok ht h).2, List.mem_flatMap]
  constructor
  · rintro ⟨k, hk, hjd⟩
    rw [splitRows_keys] at hjd
    obtain ⟨hl, rfl⟩ := validSplits_sound hjd
    exact ⟨hl, (mem_rangeAB lo hi _).1 hk⟩
  · rintro ⟨hl, hr⟩
    refine ⟨edgesOf jd, (mem_rangeAB lo hi _).2 hr, ?_⟩
    rw [splitRows_keys]
    exact validSplits_complete ht hl rfl

/-- the keys are distinct (the association list is a genuine dictionary) -/
theorem split_keys_nodup (ht : 1 ≤ probs.length) (h : splitDegree fp probs lo hi = .ok T) :
    (T.map (·.1)).Nodup := by
  rw [classes_keys (split_hS ht h) (splitDegree_ok ht h).2]
  have := keys_flatMap_nodup (fun k => splitRows probs (fp k) k) (rangeAB lo hi) (rangeAB_nodup lo hi)
    (fun k _ => splitRows_edges _ _ k) (fun k _ => splitRows_nodup _ _ k)
  simpa only [Dict.keys, List.map_flatMap] using this

end Split

/-! ## 4. the delta loader (`nTop = probs.length`) -/

section Delta
variable {fp : Nat → Rat} {probs : List Rat} {lo hi target : Nat} {T : Table}

theorem delta_ok_total (ht : 1 ≤ probs.length)
    (h : delta probs.length fp probs lo hi target = .ok T) (h1 : lo ≤ target) (h2 : target < hi) :
    splitTotal probs target ≠ 0 :=
  (delta_ok ht h).1 ((mem_rangeAB lo hi _).2 ⟨h1, h2⟩)

/-- a degree other than the target sits entirely on the pure key `(k, 0, …, 0)` -/
theorem delta_off_target (ht : 1 ≤ probs.length)
    (h : delta probs.length fp probs lo hi target = .ok T)
    {k : Nat} (h1 : lo ≤ k) (h2 : k < hi) (hk : k ≠ target) :
    Dict.get T (k :: List.replicate (probs.length - 1) 0) = some (fp k / ((rangeAB lo hi).map fp).sum)
    ∧ ∀ jd ∈ T.map (·.1), edgesOf jd = k → jd = k :: List.replicate (probs.length - 1) 0 := by
  constructor
  · exact classes_get (rangeAB_nodup lo hi) (fun k _ => deltaRows_edges _ _ _ _ k)
      (fun k _ => deltaRows_nodup _ _ _ _ k) (delta_hS ht h) (delta_ok ht h).2 k
      ((mem_rangeAB lo hi k).2 ⟨h1, h2⟩) _ _ (by simp [deltaRows, hk])
  · intro jd hjd he
    rw [classes_keys (delta_hS ht h) (delta_ok ht h).2, List.mem_flatMap] at hjd
    obtain ⟨k', _, hjd⟩ := hjd
    obtain ⟨p, hp, rfl⟩ := List.mem_map.1 hjd
    have := deltaRows_edges _ _ _ _ k' p hp
    rw [he] at this; subst this
    simpa [deltaRows, hk] using congrArg Prod.fst (show p = _ by simpa [deltaRows, hk] using hp)

/-- the target degree is split exactly as in the split-degree loader -/
theorem delta_on_target (ht : 1 ≤ probs.length)
    (h : delta probs.length fp probs lo hi target = .ok T)
    (h1 : lo ≤ target) (h2 : target < hi) {jd : JD} (hjd : jd ∈ validSplits target probs.length) :
    Dict.get T jd = some (fp target * (splitWeight probs jd / splitTotal probs target)
      / ((rangeAB lo hi).map fp).sum) :=
  classes_get (rangeAB_nodup lo hi) (fun k _ => deltaRows_edges _ _ _ _ k)
    (fun k _ => deltaRows_nodup _ _ _ _ k) (delta_hS ht h) (delta_ok ht h).2 target
    ((mem_rangeAB lo hi _).2 ⟨h1, h2⟩) jd _
    (by simp only [deltaRows, ne_eq, not_true_eq_false, if_false]
        exact List.mem_map.2 ⟨jd, hjd, rfl⟩)

/-- class masses, as for the split-degree loader -/
theorem delta_class_mass (ht : 1 ≤ probs.length)
    (h : delta probs.length fp probs lo hi target = .ok T) (k : Nat) (h1 : lo ≤ k) (h2 : k < hi) :
    ((T.filter (fun p => edgesOf p.1 = k)).map (·.2)).sum = fp k / ((rangeAB lo hi).map fp).sum :=
  classes_mass (rangeAB_nodup lo hi) (fun k _ => deltaRows_edges _ _ _ _ k) (delta_hS ht h)
    (delta_ok ht h).2 k ((mem_rangeAB lo hi k).2 ⟨h1, h2⟩)

/-- a target outside the degree range is never resolved: all keys are pure -/
theorem delta_target_outside_range (ht : 1 ≤ probs.length)
    (h : delta probs.length fp probs lo hi target = .ok T) (ho : target < lo ∨ hi ≤ target) (jd : JD) :
    jd ∈ T.map (·.1) ↔ ∃ k, lo ≤ k ∧ k < hi ∧ jd = k :: List.replicate (probs.length - 1) 0 := by
  rw [classes_keys (delta_hS ht h) (delta_ok ht h).2, List.mem_flatMap]
  constructor
  · rintro ⟨k, hk, hjd⟩
    have hr := (mem_rangeAB lo hi k).1 hk
    have hkt : k ≠ target := by omega
    exact ⟨k, hr.1, hr.2, by simpa [deltaRows, hkt] using hjd⟩
  · rintro ⟨k, h1, h2, rfl⟩
    have hkt : k ≠ target := by omega
    exact ⟨k, (mem_rangeAB lo hi k).2 ⟨h1, h2⟩, by simp [deltaRows, hkt]⟩

theorem delta_sums_one {nTop : Nat} (h : delta nTop fp probs lo hi target = .ok T) (hT : T ≠ []) :
    (T.map (·.2)).sum = 1 := by
  simp only [delta, bind, Except.bind] at h
  split at h
  · cases h
  · exact normalise_sums_one h hT

end Delta

/-! ## 5. non-vacuity -/

example : validSplits 5 2 = [[5, 0], [3, 1], [1, 2]] := by decide

example : splitDegree (fun k => (k : Rat)) [1/2, 1/3] 1 4 =
    .ok [([1, 0], 1/6), ([2, 0], 3/13), ([0, 1], 4/39), ([3, 0], 9/26), ([1, 1], 2/13)] := by
  decide +kernel

example : delta 2 (fun k => (k : Rat)) [1/2, 1/3] 1 4 2 =
    .ok [([1, 0], 1/6), ([2, 0], 3/13), ([0, 1], 4/39), ([3, 0], 1/2)] := by
  decide +kernel

example : delta 2 (fun k => (k : Rat)) [1/2, 1/3] 1 4 7 =
    .ok [([1, 0], 1/6), ([2, 0], 1/3), ([3, 0], 1/2)] := by
  decide +kernel

/-- the division-by-zero branch is reachable -/
example : resolve [0, 1] 3 1 [] = .error .zeroDivision := by decide +kernel

example : splitDegree (fun _ => 1) [0, 1] 1 2 = .error .zeroDivision := by decide +kernel

end Gcmpy.SplitDegree
