import GcmpyModel.Model.SplitDegree
import GcmpyModel.Model.Cover
namespace Gcmpy.Loaders
theorem placeholder_C07 : True := trivial
end Gcmpy.Loaders
