import GcmpyModel.Model.LabelParse
import GcmpyModel.Lemmas.LabelParse
/-!
# C17 (continued) — the cover-label parser reads back what the label format writes

Model: `Model/LabelParse.lean` (the four accessors of `message_passing_mixin.py`: `split('-')`, `int`, `literal_eval` on the
grammar of the documented labels).  For EVERY key, member list, edge list and motif id — numbers of any size, lists of any
length, the empty lists included — the label `f"{key}-{verts}-{edges}-{id}"` is read back exactly:

* `topology_of_format`, `id_of_format`, `vertices_of_format`, `edges_of_format`;
* `fmtLabel_injective`: two motifs with different (key, members, edges, id) never share a label.
Proofs: `Lemmas/LabelParse.lean`.  The correspondence check runs the real accessors and these on the same label strings
(Python `str` spelling, compact spelling, tuples, trailing commas, blanks; malformed labels).
-/
namespace Gcmpy.LabelParse

variable (key : Nat) (verts : List Nat) (edges : List Edge) (id : Nat)

theorem topology_of_format : motifTopology (fmtLabel key verts edges id) = some key :=
  Lemmas.topology_of_format key verts edges id

theorem id_of_format : motifID (fmtLabel key verts edges id) = some id :=
  Lemmas.id_of_format key verts edges id

theorem vertices_of_format : verticesInMotif (fmtLabel key verts edges id) = some verts :=
  Lemmas.vertices_of_format key verts edges id

theorem edges_of_format : edgesInMotif (fmtLabel key verts edges id) = some edges :=
  Lemmas.edges_of_format key verts edges id

theorem fmtLabel_injective {key' : Nat} {verts' : List Nat} {edges' : List Edge} {id' : Nat}
    (h : fmtLabel key verts edges id = fmtLabel key' verts' edges' id') :
    key = key' ∧ verts = verts' ∧ edges = edges' ∧ id = id' := by
  refine ⟨?_, ?_, ?_, ?_⟩
  · have := topology_of_format key verts edges id; rw [h, topology_of_format] at this; exact (Option.some.inj this).symm
  · have := vertices_of_format key verts edges id; rw [h, vertices_of_format] at this; exact (Option.some.inj this).symm
  · have := edges_of_format key verts edges id; rw [h, edges_of_format] at this; exact (Option.some.inj this).symm
  · have := id_of_format key verts edges id; rw [h, id_of_format] at this; exact (Option.some.inj this).symm

/-! ## non-vacuity and the spellings Python accepts besides its own -/

example : String.ofList (fmtLabel 3 [10, 2, 33] [(10, 2), (10, 33), (2, 33)] 1007)
    = "3-[10, 2, 33]-[(10, 2), (10, 33), (2, 33)]-1007" := by decide
example : verticesInMotif "4-(1,2,3 , 4 ,)-( [1,2],(2,3,), )-7".toList = some [1, 2, 3, 4] := by decide +kernel
example : edgesInMotif "4-(1,2,3 , 4 ,)-( [1,2],(2,3,), )-7".toList = some [(1, 2), (2, 3)] := by decide +kernel
example : verticesInMotif "4-[1,,2]-[]-7".toList = none := by decide +kernel
example : verticesInMotif "4".toList = none ∧ motifID "4".toList = some 4 := by decide

end Gcmpy.LabelParse
