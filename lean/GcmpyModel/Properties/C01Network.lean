import GcmpyModel.Properties.C01
import GcmpyModel.Properties.C02
import GcmpyModel.Properties.C04
import GcmpyModel.Properties.C05
import GcmpyModel.Properties.C08
/-!
# Compositions: the network variant of the generator (C01 ∘ C02 ∘ C04), C05 ∘ C01, C08 ∘ C01

Nothing new is modelled here: `genNetwork` is the composition of the two models that are already
there (`genFast`, `Network.toNetwork`), exactly as `GCMAlgorithmNetwork.random_clustered_graph` composes
the fast generator with `EdgeListToNetwork.convert`.  Every theorem below is obtained by chaining
theorems that were proved for the separate properties; `draws` (the outcomes of the shuffles) is
universally quantified everywhere.
-/
namespace Gcmpy.Generate
open Gcmpy

/-- the fast generator's `LightWeightEdgeList` as handed to `EdgeListToNetwork.convert` -/
def toEL (el : EdgeList String) : Network.EL :=
  { edges := el.edges, topologies := el.topologies, motifId := el.motifId, jointDegrees := el.jointDegrees }

/-- `GCMAlgorithmNetwork.random_clustered_graph` = fast generator, then `EdgeListToNetwork.convert` -/
def genNetwork (sizes : List Nat) (build : Nat → List Nat → List (Nat × Nat)) (names : Nat → String)
    (jds : List (List Nat)) (draws : List (List Nat)) : Network.Net :=
  let el := genFast sizes build names jds draws
  Network.toNetwork { edges := el.edges, topologies := el.topologies, motifId := el.motifId, jointDegrees := el.jointDegrees }

/-- a build callback only connects vertices it was given -/
def CallbackInRange (build : Nat → List Nat → List (Nat × Nat)) : Prop :=
  ∀ k vs, ∀ e ∈ build k vs, e.1 ∈ vs ∧ e.2 ∈ vs

section network
variable (sizes : List Nat) (build : Nat → List Nat → List (Nat × Nat)) (names : Nat → String)
  (jds : List (List Nat)) (draws : List (List Nat))

theorem genNetwork_eq :
    genNetwork sizes build names jds draws = Network.toNetwork (toEL (genFast sizes build names jds draws)) := rfl

/-- the generated edge rows are exactly the pairs returned by the motifs' build calls -/
theorem mem_genFast_edges (e : Nat × Nat) :
    e ∈ (genFast sizes build names jds draws).edges ↔
      ∃ m ∈ motifsFast sizes build (shuffled jds draws), e ∈ m.built := by
  unfold genFast edgeListFast
  simp only [List.mem_flatMap]

/-- C01 ⇒ hypothesis `InRange` of C04: every end point of a generated edge row is a vertex `< N` -/
theorem genFast_inRange (hb : CallbackInRange build) :
    Network.InRange (toEL (genFast sizes build names jds draws)) := by
  intro e he
  obtain ⟨m, hm, hem⟩ := (mem_genFast_edges sizes build names jds draws e).1 he
  rw [fast_build_applied sizes build jds draws m hm] at hem
  obtain ⟨h1, h2⟩ := hb m.top m.verts e hem
  exact ⟨fast_vertices_in_range sizes build jds draws m hm _ h1,
    fast_vertices_in_range sizes build jds draws m hm _ h2⟩

/-- C02 ⇒ hypothesis `Parallel` of C04 -/
theorem genFast_parallel : Network.Parallel (toEL (genFast sizes build names jds draws)) := by
  obtain ⟨h1, h2⟩ := fast_columns_parallel names (motifsFast sizes build (shuffled jds draws)) jds
  exact ⟨h1.symm, h2.symm⟩

/-- the network variant has exactly one node per entry of the joint degree sequence, `0 .. N-1` in that
    order, zero-degree vertices included — for every outcome of the shuffles -/
theorem network_nodes_exact (hb : CallbackInRange build) :
    (genNetwork sizes build names jds draws).nodes = List.range jds.length :=
  Network.nodes_exact _ (genFast_inRange sizes build names jds draws hb)

/-- … and every node carries its joint degree -/
theorem network_node_annotated (hb : CallbackInRange build) (v : Nat) (hv : v < jds.length) :
    Dict.get (genNetwork sizes build names jds draws).jd v = some jds[v] :=
  Network.node_annotated _ (genFast_inRange sizes build names jds draws hb) v hv

/-- an (undirected) edge exists in the network exactly when some motif's build call produced that pair -/
theorem network_edge_iff (k : Network.Key) :
    k ∈ (genNetwork sizes build names jds draws).edges.map (·.1) ↔
      ∃ m ∈ motifsFast sizes build (shuffled jds draws), ∃ e ∈ m.built, Network.norm e = k := by
  rw [genNetwork_eq, Network.edge_iff_pair_occurs]
  constructor
  · rintro ⟨e, he, hk⟩
    obtain ⟨m, hm, hem⟩ := (mem_genFast_edges sizes build names jds draws e).1 he
    exact ⟨m, hm, e, hem, hk⟩
  · rintro ⟨m, hm, e, hem, hk⟩
    exact ⟨e, (mem_genFast_edges sizes build names jds draws e).2 ⟨m, hm, hem⟩, hk⟩

/-- the same with the callback made explicit: the pair comes from `build m.top m.verts` -/
theorem network_edge_iff_callback (k : Network.Key) :
    k ∈ (genNetwork sizes build names jds draws).edges.map (·.1) ↔
      ∃ m ∈ motifsFast sizes build (shuffled jds draws), ∃ e ∈ build m.top m.verts, Network.norm e = k := by
  rw [network_edge_iff]
  constructor
  · rintro ⟨m, hm, e, hem, hk⟩
    exact ⟨m, hm, e, fast_build_applied sizes build jds draws m hm ▸ hem, hk⟩
  · rintro ⟨m, hm, e, hem, hk⟩
    exact ⟨m, hm, e, (fast_build_applied sizes build jds draws m hm).symm ▸ hem, hk⟩

/-- no undirected edge is stored twice, and every edge joins two of the `N` vertices -/
theorem network_edges_simple_keys : ((genNetwork sizes build names jds draws).edges.map (·.1)).Nodup :=
  Network.edge_keys_nodup _

theorem network_edge_endpoints (hb : CallbackInRange build) (k : Network.Key)
    (hk : k ∈ (genNetwork sizes build names jds draws).edges.map (·.1)) :
    k.1 ≤ k.2 ∧ k.2 < jds.length := by
  rw [genNetwork_eq, Network.edge_iff_pair_occurs] at hk
  obtain ⟨e, he, rfl⟩ := hk
  have := Network.norm_lt (genFast_inRange sizes build names jds draws hb e he)
  exact ⟨Network.norm_fst_le e, this.2⟩

/-- converting the generated network back succeeds and returns the joint degree sequence
    (and one row per undirected edge) -/
theorem network_roundtrip (hb : CallbackInRange build) :
    ∃ el', Network.toEdgeList (genNetwork sizes build names jds draws) = some el' ∧ el'.jointDegrees = jds := by
  obtain ⟨el', h1, h2, _⟩ := Network.roundtrip_jds _ (genFast_inRange sizes build names jds draws hb)
    (genFast_parallel sizes build names jds draws)
  exact ⟨el', h1, h2⟩

/-- … and converting that edge list forward again gives the same network -/
theorem network_roundtrip_network (hb : CallbackInRange build) :
    ∃ el', Network.toEdgeList (genNetwork sizes build names jds draws) = some el' ∧
      Network.toNetwork el' = genNetwork sizes build names jds draws :=
  Network.roundtrip_network _ (genFast_inRange sizes build names jds draws hb)
    (genFast_parallel sizes build names jds draws)

end network

/-! ### the shipped callbacks only connect vertices they were given -/

theorem mem_pairs (vs : List Nat) (e : Nat × Nat) (he : e ∈ pairs vs) : e.1 ∈ vs ∧ e.2 ∈ vs := by
  induction vs with
  | nil => cases he
  | cons x xs ih =>
    simp only [pairs, List.mem_append, List.mem_map] at he
    rcases he with ⟨y, hy, rfl⟩ | he
    · exact ⟨List.mem_cons_self, List.mem_cons_of_mem _ hy⟩
    · exact ⟨List.mem_cons_of_mem _ (ih he).1, List.mem_cons_of_mem _ (ih he).2⟩

theorem cliqueMotif_inRange : CallbackInRange (fun _ vs => cliqueMotif vs) :=
  fun _ vs e he => mem_pairs vs e he

theorem mem_cycleMotif (vs : List Nat) (es : List (Nat × Nat)) (h : cycleMotif vs = some es)
    (e : Nat × Nat) (he : e ∈ es) : e.1 ∈ vs ∧ e.2 ∈ vs := by
  unfold cycleMotif at h
  cases hh : vs.head? with
  | none => simp [hh] at h
  | some a =>
    cases hl : vs.getLast? with
    | none => simp [hh, hl] at h
    | some z =>
      simp only [hh, hl, Option.some.injEq] at h
      subst h
      rcases List.mem_append.1 he with he | he
      · have := List.of_mem_zip he
        exact ⟨this.1, List.mem_of_mem_tail this.2⟩
      · simp only [List.mem_singleton] at he
        subst he
        exact ⟨List.mem_of_head? hh, List.mem_of_getLast? hl⟩

theorem cycleMotif_inRange : CallbackInRange (fun _ vs => (cycleMotif vs).getD []) := by
  intro _ vs e he
  cases h : cycleMotif vs with
  | none => simp [h] at he
  | some es =>
    simp only [h, Option.getD_some] at he
    exact mem_cycleMotif vs es h e he

theorem diamondMotif_inRange : CallbackInRange (fun _ vs => (diamondMotif vs).getD []) := by
  intro _ vs e he
  cases h : diamondMotif vs with
  | none => simp [h] at he
  | some es =>
    simp only [h, Option.getD_some] at he
    unfold diamondMotif at h
    split at h
    · rename_i n0 n1 n2 n3
      cases hc : cycleMotif [n0, n1, n2, n3] with
      | none => simp [hc] at h
      | some cs =>
        simp only [hc, Option.map_some, Option.some.injEq] at h
        subst h
        rcases List.mem_append.1 he with he | he
        · exact mem_cycleMotif _ cs hc e he
        · simp only [List.mem_cons, List.not_mem_nil, or_false] at he
          rcases he with rfl | rfl <;> simp
    · cases h

/-! ### C05 ∘ C01: the sequence returned by `handshaking_lemma` meets C01's precondition -/

section handshake
variable (sizes : List Nat) (T : Nat) (jds : List (List Nat)) (picks : List Nat)

/-- for a non-empty sequence of `T`-tuples, in-range picks and positive sizes, the repaired sequence
    satisfies `Handshake` (the precondition of C01's counting theorems) in every column -/
theorem handshake_gives_handshake (hR : Gcmpy.Handshake.Rect jds T) (hN : jds ≠ [])
    (hp : ∀ p ∈ picks, p < jds.length) (hs : ∀ i < T, 0 < sizes.getD i 0) :
    ∀ k < T, Handshake sizes (Gcmpy.Handshake.handshake sizes jds picks) k :=
  fun k hk => ⟨hs k hk, Gcmpy.Handshake.divisible_after sizes T jds picks hR hN hp hs k hk⟩

/-- the repaired sequence still has `T` columns -/
theorem ncols_handshake (hR : Gcmpy.Handshake.Rect jds T) (hN : jds ≠ [])
    (hp : ∀ p ∈ picks, p < jds.length) :
    ncols (Gcmpy.Handshake.handshake sizes jds picks) = T := by
  apply Gcmpy.Handshake.ncols_of_rect _ T (Gcmpy.Handshake.rect_preserved sizes T jds picks hR hN hp)
  intro h
  have := Gcmpy.Handshake.length_preserved sizes T jds picks hR hN hp
  rw [h] at this
  exact hN (List.eq_nil_of_length_eq_zero this.symm)

/-- hence `fast_motif_count` applies after the repair: for every outcome of the shuffles the generator
    builds exactly `colSum / size` motifs of topology `k` -/
theorem handshake_then_motif_count {β : Type} (build : Nat → List Nat → β) (draws : List (List Nat))
    (hR : Gcmpy.Handshake.Rect jds T) (hN : jds ≠ [])
    (hp : ∀ p ∈ picks, p < jds.length) (hs : ∀ i < T, 0 < sizes.getD i 0) (k : Nat) (hk : k < T) :
    ((motifsFast sizes build (shuffled (Gcmpy.Handshake.handshake sizes jds picks) draws)).filter
        (fun m => m.top = k)).length
      = colSum (Gcmpy.Handshake.handshake sizes jds picks) k / sizes.getD k 0 :=
  fast_motif_count sizes build _ draws k (by rw [ncols_handshake sizes T jds picks hR hN hp]; exact hk)
    (handshake_gives_handshake sizes T jds picks hR hN hp hs k hk)

/-- the same count in terms of the ORIGINAL column sum `n` and size `s`: `(n + (s − n mod s) mod s) / s`,
    i.e. `⌈n / s⌉` motifs -/
theorem handshake_then_motif_count_original {β : Type} (build : Nat → List Nat → β) (draws : List (List Nat))
    (hR : Gcmpy.Handshake.Rect jds T) (hN : jds ≠ [])
    (hp : ∀ p ∈ picks, p < jds.length) (hs : ∀ i < T, 0 < sizes.getD i 0) (k : Nat) (hk : k < T) :
    ((motifsFast sizes build (shuffled (Gcmpy.Handshake.handshake sizes jds picks) draws)).filter
        (fun m => m.top = k)).length
      = (colSum jds k + (sizes.getD k 0 - colSum jds k % sizes.getD k 0) % sizes.getD k 0) / sizes.getD k 0 := by
  rw [handshake_then_motif_count sizes T jds picks build draws hR hN hp hs k hk,
    Gcmpy.Handshake.added_exact sizes T jds picks hR hN hp hs k hk]

/-- and every repaired group has exactly `size_k` stubs (no short last group) -/
theorem handshake_then_group_size {β : Type} (build : Nat → List Nat → β) (draws : List (List Nat))
    (hR : Gcmpy.Handshake.Rect jds T) (hN : jds ≠ [])
    (hp : ∀ p ∈ picks, p < jds.length) (hs : ∀ i < T, 0 < sizes.getD i 0) (m : Motif β)
    (hm : m ∈ motifsFast sizes build (shuffled (Gcmpy.Handshake.handshake sizes jds picks) draws)) :
    m.verts.length = sizes.getD m.top 0 := by
  have hk : m.top < T := by
    have := motifsFast_top_lt sizes build _ m hm
    rwa [length_shuffled, ncols_handshake sizes T jds picks hR hN hp] at this
  exact fast_group_size sizes build _ draws m hm (handshake_gives_handshake sizes T jds picks hR hN hp hs _ hk)

end handshake

/-! ### C08 ∘ C01: generating from a cover's own counts reproduces its clique-size profile -/

section cover
open Gcmpy.Cover
variable {cover : List (List Nat)} {z n : Nat} {jds : List (List Nat)}

/-- every reported motif size is positive (cliques of a contiguous cover are non-empty) -/
theorem cover_sizes_pos (h : Contiguous cover z n) {j : Nat} (hj : j < (motifSizes cover).length) :
    0 < (motifSizes cover).getD j 0 := by
  have hmem : (motifSizes cover).getD j 0 ∈ motifSizes cover := by
    simp [List.getD_eq_getElem?_getD, List.getElem?_eq_getElem hj]
  obtain ⟨c, hc, hlen⟩ := ((motif_sizes_spec cover).2 _).1 hmem
  rw [← hlen]
  exact (h.clique_ok c hc).1

/-- the cover's per-vertex counts satisfy C01's `Handshake` condition for the reported sizes -/
theorem cover_gives_handshake (h : Contiguous cover z n) (hj : coverJds cover = some jds) :
    ∀ j < (motifSizes cover).length, Handshake (motifSizes cover) jds j :=
  fun _ hjl => ⟨cover_sizes_pos h hjl, cover_handshake_dvd h hj hjl⟩

/-- one column per reported size -/
theorem cover_ncols (h : Contiguous cover z n) (hj : coverJds cover = some jds) :
    ncols jds = (motifSizes cover).length := by
  obtain ⟨jds', e, hl, hr⟩ := cover_columns h
  rw [hj] at e
  cases e
  apply Gcmpy.Handshake.ncols_of_rect _ _ hr
  intro h0
  rw [h0] at hl
  exact absurd hl.symm (Nat.ne_of_gt h.2.1)

/-- one vertex per vertex of the cover -/
theorem cover_length (h : Contiguous cover z n) (hj : coverJds cover = some jds) : jds.length = n := by
  obtain ⟨jds', e, hl, _⟩ := cover_columns h
  rw [hj] at e
  cases e
  exact hl

/-- THE PROFILE THEOREM (column `j` of the reported sizes): for every outcome of the shuffles and every
    build callback, the generator run on the cover's own counts with the reported sizes builds exactly as
    many motifs of the `j`-th size as the cover has cliques of that size -/
theorem cover_profile_reproduced_build {β : Type} (build : Nat → List Nat → β)
    (h : Contiguous cover z n) (hj : coverJds cover = some jds) (draws : List (List Nat))
    (j : Nat) (hjl : j < (motifSizes cover).length) :
    ((motifsFast (motifSizes cover) build (shuffled jds draws)).filter (fun m => m.top = j)).length
      = (cover.filter (fun c => c.length = (motifSizes cover).getD j 0)).length := by
  rw [fast_motif_count (motifSizes cover) build jds draws j (by rw [cover_ncols h hj]; exact hjl)
    (cover_gives_handshake h hj j hjl)]
  have := cover_handshake h hj hjl
  rw [show colSum jds j = (jds.map (·.getD j 0)).sum from rfl, this]
  exact Nat.mul_div_cancel_left _ (cover_sizes_pos h hjl)

/-- THE PROFILE THEOREM with clique motifs, for EVERY `j` (beyond the last column both sides are 0) -/
theorem cover_profile_reproduced (h : Contiguous cover z n) (hj : coverJds cover = some jds)
    (draws : List (List Nat)) (j : Nat) :
    ((motifsFast (motifSizes cover) (fun _ vs => cliqueMotif vs) (shuffled jds draws)).filter
        (fun m => m.top = j)).length
      = (cover.filter (fun c => c.length = (motifSizes cover).getD j 0)).length := by
  rcases Nat.lt_or_ge j (motifSizes cover).length with hjl | hjl
  · exact cover_profile_reproduced_build _ h hj draws j hjl
  · have h1 : (motifsFast (motifSizes cover) (fun _ vs => cliqueMotif vs) (shuffled jds draws)).filter
        (fun m => m.top = j) = [] := by
      rw [List.filter_eq_nil_iff]
      intro m hm
      have := motifsFast_top_lt _ _ _ m hm
      rw [length_shuffled, cover_ncols h hj] at this
      simp only [decide_eq_true_eq]
      omega
    have h2 : cover.filter (fun c => c.length = (motifSizes cover).getD j 0) = [] := by
      rw [List.filter_eq_nil_iff]
      intro c hc
      have := (h.clique_ok c hc).1
      simp only [List.getD_eq_getElem?_getD, List.getElem?_eq_none hjl, Option.getD_none, decide_eq_true_eq]
      omega
    rw [h1, h2]; rfl

/-- each generated clique has exactly the reported size, so it contributes `s(s-1)/2` pairs … -/
theorem cover_profile_group_size (h : Contiguous cover z n) (hj : coverJds cover = some jds)
    (draws : List (List Nat)) (m : Motif (List (Nat × Nat)))
    (hm : m ∈ motifsFast (motifSizes cover) (fun _ vs => cliqueMotif vs) (shuffled jds draws)) :
    m.verts.length = (motifSizes cover).getD m.top 0 ∧ m.built = cliqueMotif m.verts := by
  have hk : m.top < (motifSizes cover).length := by
    have := motifsFast_top_lt _ _ _ m hm
    rwa [length_shuffled, cover_ncols h hj] at this
  exact ⟨fast_group_size _ _ jds draws m hm (cover_gives_handshake h hj _ hk),
    fast_build_applied _ _ jds draws m hm⟩

/-- … and in the generated graph vertex `v` sits in exactly as many size-`s_j` cliques (slots) as it
    does in the cover (C08 `cover_counts` ∘ C01 `fast_slots`; 0-based covers: vertex `v` is row `v`) -/
theorem cover_membership_reproduced (h : Contiguous cover z n) (hj : coverJds cover = some jds)
    (draws : List (List Nat)) (j : Nat) (hjl : j < (motifSizes cover).length) (v : Nat) (hv1 : z ≤ v)
    (hv2 : v < z + n) :
    (((motifsFast (motifSizes cover) (fun _ vs => cliqueMotif vs) (shuffled jds draws)).filter
        (fun m => m.top = j)).flatMap (·.verts)).count (v - z)
      = cliqueCount cover ((motifSizes cover).getD j 0) v := by
  rw [fast_slots _ _ jds draws j (by rw [cover_ncols h hj]; exact hjl) (cover_sizes_pos h hjl),
    if_pos (by rw [cover_length h hj]; omega)]
  exact cover_counts h hj hv1 hv2 hjl

/-- the network variant on a cover's counts: one node per cover vertex, all annotated -/
theorem cover_network_nodes (h : Contiguous cover z n) (hj : coverJds cover = some jds)
    (names : Nat → String) (draws : List (List Nat)) :
    (genNetwork (motifSizes cover) (fun _ vs => cliqueMotif vs) names jds draws).nodes = List.range n := by
  rw [network_nodes_exact _ _ _ _ _ cliqueMotif_inRange, cover_length h hj]

end cover

/-! ### non-vacuity -/

/-- a small network-variant run written out: sizes (2, 3), vertex 3 has degree zero and is a node;
    the two 2-cliques `(2,1)`, `(0,2)` are stored under normalised keys; the 3-clique drew vertex 1 three
    times (`jds[1][1] = 3`), so its three pairs collapse into the single self-loop key `(1,1)` -/
example : genNetwork [2, 3] (fun _ vs => cliqueMotif vs) (fun k => if k = 0 then "2-clique" else "3-clique")
      [[1, 0], [1, 3], [2, 0], [0, 0]] [[3, 0, 1], [1, 0]] =
    { nodes := [0, 1, 2, 3],
      jd := [(0, [1, 0]), (1, [1, 3]), (2, [2, 0]), (3, [0, 0])],
      edges := [((1, 2), (some "2-clique", some 0)), ((0, 2), (some "2-clique", some 1)),
                ((1, 1), (some "3-clique", some 2))] } := by
  decide +kernel

/-- a proper run (no repeated stub inside a motif): a 2-clique and a triangle on 5 vertices, one isolated -/
example : genNetwork [2, 3] (fun _ vs => cliqueMotif vs) (fun k => if k = 0 then "2-clique" else "3-clique")
      [[1, 1], [0, 1], [1, 0], [0, 1], [0, 0]] [[1], [2, 0]] =
    { nodes := [0, 1, 2, 3, 4],
      jd := [(0, [1, 1]), (1, [0, 1]), (2, [1, 0]), (3, [0, 1]), (4, [0, 0])],
      edges := [((0, 2), (some "2-clique", some 0)), ((0, 1), (some "3-clique", some 1)),
                ((1, 3), (some "3-clique", some 1)), ((0, 3), (some "3-clique", some 1))] } := by
  decide +kernel

/-- the profile theorem on the C08 example cover (sizes {2, 5}, 1-based ids): one 5-clique, two 2-cliques -/
example : (Gcmpy.Cover.motifSizes [[1, 2, 3, 4, 5], [5, 6], [1, 6]] = [2, 5]) ∧
    ((motifsFast [2, 5] (fun _ vs => cliqueMotif vs)
      (shuffled [[1, 1], [0, 1], [0, 1], [0, 1], [1, 1], [2, 0]] [[2, 1, 0], [3, 0, 1, 0]])).map
        (fun m => (m.top, m.verts.length))) = [(0, 2), (0, 2), (1, 5)] := by
  decide +kernel

/-- the profile theorem instantiated (its hypotheses are satisfiable): for EVERY draws and every `j` -/
example (draws : List (List Nat)) (j : Nat) :
    ((motifsFast (Gcmpy.Cover.motifSizes [[1, 2, 3, 4, 5], [5, 6], [1, 6]]) (fun _ vs => cliqueMotif vs)
        (shuffled [[1, 1], [0, 1], [0, 1], [0, 1], [1, 1], [2, 0]] draws)).filter (fun m => m.top = j)).length
      = ([[1, 2, 3, 4, 5], [5, 6], [1, 6]].filter
          (fun c => c.length = (Gcmpy.Cover.motifSizes [[1, 2, 3, 4, 5], [5, 6], [1, 6]]).getD j 0)).length := by
  refine cover_profile_reproduced (z := 1) (n := 6) ⟨Or.inr rfl, by omega, by decide, by decide, ?_⟩
    (by decide +kernel) draws j
  intro v
  simp only [List.mem_cons, List.not_mem_nil, or_false, exists_eq_or_imp, exists_eq_left]
  omega

/-- the hypotheses of `handshake_gives_handshake` are satisfiable, and the conclusion is not trivial:
    column sums (3, 4) are not divisible by sizes (2, 3) before the repair -/
example : Gcmpy.Handshake.Rect [[1, 2], [0, 2], [2, 0]] 2 ∧ ¬ Handshake [2, 3] [[1, 2], [0, 2], [2, 0]] 0 ∧
    ¬ Handshake [2, 3] [[1, 2], [0, 2], [2, 0]] 1 ∧
    ((motifsFast [2, 3] (fun _ vs => cliqueMotif vs)
      (shuffled (Gcmpy.Handshake.handshake [2, 3] [[1, 2], [0, 2], [2, 0]] [2, 0, 1]) [[1, 0, 0], [3, 2, 1, 0, 0]])).map
        (fun m => (m.top, m.verts.length))) = [(0, 2), (0, 2), (1, 3), (1, 3)] := by
  refine ⟨by unfold Gcmpy.Handshake.Rect; decide, ?_, ?_, by decide +kernel⟩
  · rintro ⟨_, h⟩
    have : colSum [[1, 2], [0, 2], [2, 0]] 0 = 3 := by decide
    rw [this] at h
    revert h; decide
  · rintro ⟨_, h⟩
    have : colSum [[1, 2], [0, 2], [2, 0]] 1 = 4 := by decide
    rw [this] at h
    revert h; decide

end Gcmpy.Generate
