import GcmpyModel.Lemmas.NetworkIdentity
import GcmpyModel.Properties.C13
import GcmpyModel.Properties.C14
/-!
# C14, fourth sentence — composition with C13 on a network

"Summing a mixing matrix over its second index gives that topology's excess distribution, which for a
network-derived matrix equals the excess distribution computed from the network's empirical joint degree
distribution."

This file composes the proved models of
* `gcmpy/tools/joint_excess_joint_degree.py`      (`getEjk`, `getEjks`, `excessKeys`; property C13),
* `gcmpy/tools/joint_excess_from_ejk.py`          (`excessFromEjk`; property C14),
* `gcmpy/tools/joint_degree_distribution_from_network.py` (`jddFromNetwork`; property C14),
* `gcmpy/tools/joint_excess_from_jdd.py`          (`excessFromJdd`; property C14).
The proofs below use the theorems of `Properties/C13.lean` (`ejk_row_sums`, `ejk_keys`, `ejk_keys_nodup`,
`excess_keys_cover`) and `Properties/C14.lean` (`excess_length`, `excess_value`, `excess_support`,
`row_sums_are_excess`, `row_sums_over_matrix`) and the counting lemmas of `Lemmas/NetworkIdentity.lean`.

Vocabulary (defined in `Lemmas/NetworkIdentity.lean`):
* `incident net name v`   number of entries of the edge list of topology `name` with `v` as an end point;
* `nVert net i a`         number of vertices whose joint degree `k` has `k[i] ≥ 1` and `k - e_i = a`;
* `degSum net i`          `Σ_v jd(v)[i]`;
and here `matrixRowSum M T a = Σ_b M(a ++ b)` (the entries of `M` whose key starts with the `T`-tuple `a`).
-/
namespace Gcmpy.Algebra
open Gcmpy Gcmpy.Loaders Gcmpy.Mixing

/-- `Σ_b M(a ++ b)`: the sum of the entries of the matrix whose key has first half `a`
    (the left-hand side of `Gcmpy.Mixing.ejk_row_sums`) -/
def matrixRowSum (M : Table) (T : Nat) (a : JD) : Rat :=
  ((M.filter fun p => decide (p.1.take T = a)).map (·.2)).sum

/-- The setting: an annotated network over the `T` topologies `names`, looked at through topology number `i`
    (named `name`), which is CLEAN with constant `c`: every vertex `v` has exactly `c · jd(v)[i]` incident
    edges of that topology (`c = s - 1` for cliques of size `s`, `c = 2` for cycles, `c = 1` for 2-cliques).
    `edges_once` is part of the setting but is not used by the proofs (`incident` counts entries of the edge
    list, which is the number of incident edges when every edge is listed once). -/
structure CleanNetwork (net : ANet) (T : Nat) (names : List String) (i : Nat) (name : String) (c : Nat) :
    Prop where
  /-- there are `T` topologies … -/
  names_length : names.length = T
  /-- … with pairwise distinct names, -/
  names_nodup : names.Nodup
  /-- `name` is the `i`-th of them -/
  name_at : names[i]? = some name
  /-- every vertex is annotated exactly once -/
  vertices_once : (net.jd.map (·.1)).Nodup
  /-- every annotation is a `T`-tuple -/
  uniform : Mixing.Uniform net T
  /-- both end points of every edge are annotated -/
  annotated : Annotated net
  /-- no self-loops -/
  loop_free : ∀ e ∈ net.edges, e.1 ≠ e.2.1
  /-- every vertex pair is listed at most once (`G` is an `nx.Graph`) -/
  edges_once : (net.edges.map fun e => (min e.1 e.2.1, max e.1 e.2.1)).Nodup
  c_pos : 0 < c
  /-- the clean-network hypothesis for topology `i` -/
  clean : ∀ v ∈ net.jd.map (·.1), incident net name v = c * (jdOf net v).getD i 0

variable {net : ANet} {T : Nat} {names : List String} {i c : Nat} {name : String}

theorem CleanNetwork.index (h : CleanNetwork net T names i name c) : i < names.length := by
  have := h.name_at
  by_contra hc
  rw [List.getElem?_eq_none (by omega)] at this
  exact absurd this (by simp)

/-! ## 1. handshake and the value of a row sum -/

/-- handshake: every edge of the topology has two ends, and vertex `v` is the own end of `c · jd(v)[i]` -/
theorem two_E_eq (h : CleanNetwork net T names i name c) : 2 * numE net name = c * degSum net i :=
  two_numE_eq h.vertices_once h.annotated h.loop_free h.clean

/-- the number of edge ends of the topology whose own vertex has excess tuple `a`: each of the `nVert`
    vertices of joint degree `a + e_i` is the own end of `c · (a[i] + 1)` ends -/
theorem own_ends_count (h : CleanNetwork net T names i name c) (a : JD) :
    ((ends net i name).filter fun q => decide (q.1 = a)).length = nVert net i a * c * (a.getD i 0 + 1) :=
  count_own_ends h.vertices_once h.annotated h.loop_free h.clean a

/-- `Σ_b M(a ++ b) = #{v : jd(v)[i] ≥ 1, jd(v) - e_i = a} · c · (a[i] + 1) / (2E)` -/
theorem network_row_sum_value (h : CleanNetwork net T names i name c) (a : JD) :
    matrixRowSum (getEjk net (countEdgeTypes net []) i name) T a =
      ((nVert net i a : Rat) * (c : Rat) * ((a.getD i 0 : Rat) + 1)) / (2 * (numE net name : Rat)) := by
  unfold matrixRowSum
  rw [ejk_row_sums h.uniform h.annotated, own_ends_count h]
  push_cast
  rfl

/-! ## 2. the identity -/

/-- THE IDENTITY.  Let `P` be the empirical joint degree distribution of a clean network.  Whenever
    `get_joint_excess_distributions(P)` returns, its `i`-th table `q_i` is, entry by entry, the matrix
    `get_ejk(i, name)` of the same network summed over its second index:
    `q_i(a) = Σ_b e_i(a, b)` for every excess tuple `a` of a vertex with `jd[i] ≥ 1`, and neither has any
    other entry. -/
theorem network_consistency (h : CleanNetwork net T names i name c) {qs : List Table}
    (hq : excessFromJdd (jddFromNetwork (net.jd.map (·.2))) = some qs) :
    ∃ q, qs[i]? = some q ∧ ∀ a : JD,
      Dict.get q a =
        if a ∈ excessKeys net i then
          some (matrixRowSum (getEjk net (countEdgeTypes net []) i name) T a)
        else none := by
  have hiT : i < T := h.names_length ▸ h.index
  have hu : Uniform (jddFromNetwork (net.jd.map (·.2))) T := uniform_jdd _ T (by
    intro k hk
    obtain ⟨p, hp, rfl⟩ := List.mem_map.1 hk
    exact h.uniform p hp)
  have hn := nodup_keys_jdd (net.jd.map (·.2))
  have hlen := excess_length hu hn hq
  have hi' : i < qs.length := hlen ▸ hiT
  have hqi : qs[i]? = some qs[i] := List.getElem?_eq_getElem hi'
  refine ⟨qs[i], hqi, ?_⟩
  intro a
  split
  · next ha =>
    obtain ⟨k, hk, hpos, rfl⟩ := (mem_excessKeys_iff net i a).1 ha
    have hv := excess_value hu hn hq i qs[i] hqi _ (mem_jdd hk) hpos
    have hnpos : 0 < (net.jd.map (·.2)).length := List.length_pos_of_mem hk
    have hx : (((excess k i).getD i 0 : Nat) : Rat) + 1 = ((k.getD i 0 : Nat) : Rat) := by
      exact_mod_cast getD_excess hpos
    show Dict.get qs[i] (k.modify i (· - 1)) = _
    rw [hv, network_row_sum_value h, mean_jdd, nVert_eq_count net i k hpos, hx]
    congr 1
    exact excess_arith _ _ _ _ c _ hnpos h.c_pos (two_E_eq h)
  · next ha =>
    rw [Dict.get_eq_none_iff]
    intro hmem
    obtain ⟨_, hsupp⟩ := excess_support hu hn hq i qs[i] hqi
    obtain ⟨k, hk, hpos, rfl⟩ := (hsupp a).1 hmem
    exact ha ((mem_excessKeys_iff net i _).2 ⟨k, (mem_keys_jdd _ k).1 hk, hpos, rfl⟩)

/-- the common value, in which the constant `c` has cancelled:
    `q_i(a) = #{v : jd(v) = a + e_i} · (a[i] + 1) / Σ_v jd(v)[i]` -/
theorem network_excess_value (h : CleanNetwork net T names i name c) {qs : List Table}
    (hq : excessFromJdd (jddFromNetwork (net.jd.map (·.2))) = some qs) :
    ∃ q, qs[i]? = some q ∧ ∀ a : JD,
      Dict.get q a =
        if a ∈ excessKeys net i then
          some (((nVert net i a : Rat) * ((a.getD i 0 : Rat) + 1)) / (degSum net i : Rat))
        else none := by
  obtain ⟨q, hqi, hval⟩ := network_consistency h hq
  refine ⟨q, hqi, fun a => ?_⟩
  rw [hval a, network_row_sum_value h]
  have hE : (2 * (numE net name : Rat)) = (c : Rat) * (degSum net i : Rat) := by exact_mod_cast two_E_eq h
  have hc : (c : Rat) ≠ 0 := by exact_mod_cast (Nat.pos_iff_ne_zero.1 h.c_pos)
  have hr : (nVert net i a : Rat) * (c : Rat) * ((a.getD i 0 : Rat) + 1) =
      (c : Rat) * ((nVert net i a : Rat) * ((a.getD i 0 : Rat) + 1)) := by ring
  rw [hE, hr, mul_div_mul_left _ _ hc]

/-! ## 3. the same through the public function `get_excess_joint_distributions` -/

/-- `get_excess_joint_distributions(get_ejks(), resolve_excess_degree_keys)`: the `i`-th output is named
    `name` and holds exactly the row sums of the `i`-th matrix, one per pre-computed excess key -/
theorem public_row_sums (h : CleanNetwork net T names i name c) {r : List (String × Table)}
    (hr : excessFromEjk (getEjks net names ⟨[]⟩).2
            (names.zipIdx.map fun (nm, j) => (nm, excessKeys net j)) = some r) :
    ∃ q', r[i]? = some (name, q') ∧ ∀ a : JD,
      Dict.get q' a =
        if a ∈ excessKeys net i then
          some (matrixRowSum (getEjk net (countEdgeTypes net []) i name) T a)
        else none := by
  have hi := h.index
  have hname : names[i] = name := by
    have := h.name_at
    rw [List.getElem?_eq_getElem hi] at this
    exact Option.some.inj this
  have hlt : i < (getEjks net names ⟨[]⟩).2.length := by simp [getEjks, hi]
  have hej : (getEjks net names ⟨[]⟩).2[i] = (name, getEjk net (countEdgeTypes net []) i name) := by
    simp [getEjks, hname]
  have hkeys : (names.zipIdx.map fun (nm, j) => (nm, excessKeys net j)) =
      (names.zipIdx 0).map fun p => (p.1, (fun j => excessKeys net j) p.2) := by
    apply List.map_congr_left
    rintro ⟨nm, j⟩ _
    rfl
  have hk : Dict.get (names.zipIdx.map fun (nm, j) => (nm, excessKeys net j)) name =
      some (excessKeys net i) := by
    rw [hkeys, ← hname, get_zipIdx_map _ names h.names_nodup 0 i hi, Nat.zero_add]
  have hnd := nodup_excessKeys net i
  have hpos := clean_positive (i := i) h.annotated h.clean
  have hcover := excess_keys_cover h.annotated i name hpos
  obtain ⟨q', hq', hsome, hnone⟩ := row_sums_are_excess hr i hlt (excessKeys net i) (by rw [hej]; exact hk) hnd
  rw [hej] at hq' hsome hnone
  refine ⟨q', hq', fun a => ?_⟩
  split
  · next ha =>
    -- some edge end has own excess tuple `a`
    have hcount := own_ends_count h a
    have hpos' : 0 < ((ends net i name).filter fun q => decide (q.1 = a)).length := by
      rw [hcount]
      exact Nat.mul_pos (Nat.mul_pos ((nVert_pos_iff net i a).2 ha) h.c_pos) (Nat.succ_pos _)
    obtain ⟨e, he⟩ := List.exists_mem_of_length_pos hpos'
    rw [List.mem_filter] at he
    obtain ⟨he, hea⟩ := he
    have hea : e.1 = a := of_decide_eq_true hea
    have hrow : ∃ b ∈ excessKeys net i,
        a ++ b ∈ Dict.keys (getEjk net (countEdgeTypes net []) i name) :=
      ⟨e.2, (hcover e he).2, (ejk_keys net _ i name _).2 ⟨e, he, by rw [hea]⟩⟩
    rw [hsome a ha hrow]
    congr 1
    exact row_sums_over_matrix _ _ T a hnd (ejk_keys_nodup net _ i name)
      (fun k hk => length_of_mem_excessKeys h.uniform hk)
      (fun k hk => by
        obtain ⟨e', he', rfl⟩ := (ejk_keys net _ i name k).1 hk
        exact ⟨e'.1, (hcover e' he').1, e'.2, (hcover e' he').2, rfl⟩) ha
  · next ha => exact hnone a fun hc => ha hc.1

/-- THE IDENTITY through the public functions: the `i`-th excess distribution computed from the network's
    mixing matrices and the `i`-th excess distribution computed from its empirical joint degree distribution
    are the same table (same keys, same values) -/
theorem network_consistency_public (h : CleanNetwork net T names i name c) {qs : List Table}
    {r : List (String × Table)}
    (hq : excessFromJdd (jddFromNetwork (net.jd.map (·.2))) = some qs)
    (hr : excessFromEjk (getEjks net names ⟨[]⟩).2
            (names.zipIdx.map fun (nm, j) => (nm, excessKeys net j)) = some r) :
    ∃ q q', qs[i]? = some q ∧ r[i]? = some (name, q') ∧ ∀ a : JD, Dict.get q' a = Dict.get q a := by
  obtain ⟨q, hqi, hval⟩ := network_consistency h hq
  obtain ⟨q', hri, hval'⟩ := public_row_sums h hr
  exact ⟨q, q', hqi, hri, fun a => by rw [hval a, hval' a]⟩

/-! ## 3'. the hypotheses `… = some _` of the identity are satisfiable: both functions return -/

/-- `get_joint_excess_distributions` returns on the empirical distribution of any non-empty network with
    uniform annotations (no clean-network hypothesis needed) -/
theorem network_excess_defined (hU : Mixing.Uniform net T) (hne : net.jd ≠ []) :
    ∃ qs, excessFromJdd (jddFromNetwork (net.jd.map (·.2))) = some qs := by
  have hu : Uniform (jddFromNetwork (net.jd.map (·.2))) T := uniform_jdd _ T (by
    intro k hk
    obtain ⟨p, hp, rfl⟩ := List.mem_map.1 hk
    exact hU p hp)
  have hn := nodup_keys_jdd (net.jd.map (·.2))
  cases hq : excessFromJdd (jddFromNetwork (net.jd.map (·.2))) with
  | some qs => exact ⟨qs, rfl⟩
  | none =>
    exfalso
    rcases (excess_error_iff _ T hu hn).1 hq with h0 | ⟨j, _, hm, k, hk, hpos⟩
    · obtain ⟨p, hp⟩ := List.exists_mem_of_ne_nil _ hne
      have : p.2 ∈ Dict.keys (jddFromNetwork (net.jd.map (·.2))) :=
        (mem_keys_jdd _ _).2 (List.mem_map_of_mem hp)
      rw [h0] at this
      simp [Dict.keys] at this
    · have hk' := (mem_keys_jdd _ k).1 hk
      have hlen : 0 < (net.jd.map (·.2)).length := List.length_pos_of_mem hk'
      have hsum : 0 < ((net.jd.map (·.2)).map fun k => k.getD j 0).sum :=
        Nat.lt_of_lt_of_le hpos (le_sum_of_mem _ (fun k : JD => k.getD j 0) k hk')
      rw [mean_jdd] at hm
      have h1 : (0 : Rat) < ((((net.jd.map (·.2)).map fun k => k.getD j 0).sum : Nat) : Rat) := by
        exact_mod_cast hsum
      have h2 : (0 : Rat) < (((net.jd.map (·.2)).length : Nat) : Rat) := by exact_mod_cast hlen
      exact absurd hm (ne_of_gt (div_pos h1 h2))

/-- `get_excess_joint_distributions` returns on the matrices and excess keys of any network when the
    topology names are pairwise distinct -/
theorem public_row_sums_defined (net : ANet) (names : List String) (hn : names.Nodup) :
    ∃ r, excessFromEjk (getEjks net names ⟨[]⟩).2
      (names.zipIdx.map fun (nm, j) => (nm, excessKeys net j)) = some r := by
  have hkeys : (names.zipIdx.map fun (nm, j) => (nm, excessKeys net j)) =
      (names.zipIdx 0).map fun p => (p.1, (fun j => excessKeys net j) p.2) := by
    apply List.map_congr_left
    rintro ⟨nm, j⟩ _
    rfl
  rw [excessFromEjk_unfold, if_neg (by simp [getEjks])]
  refine ⟨_, mapM_some _ (fun ne => (ne.1, rowOuter ne.2
    ((Dict.get (names.zipIdx.map fun (nm, j) => (nm, excessKeys net j)) ne.1).getD [])
    ((Dict.get (names.zipIdx.map fun (nm, j) => (nm, excessKeys net j)) ne.1).getD []) [])) _ ?_⟩
  intro ne hne
  obtain ⟨j, hj, rfl⟩ := List.getElem_of_mem hne
  have hj' : j < names.length := by simpa [getEjks] using hj
  have h1 : ((getEjks net names ⟨[]⟩).2[j]).1 = names[j] := by simp [getEjks]
  have hget := get_zipIdx_map (fun j => excessKeys net j) names hn 0 j hj'
  rw [← hkeys, ← h1] at hget
  simp only [rowStep, hget, Option.bind_some, Option.getD_some]

/-! ## 4. non-vacuity: a triangle with a pendant 2-clique

Topology 0 (`"tri"`, `c = 2`) is the triangle 0–1–2, topology 1 (`"edge"`, `c = 1`) the 2-clique 2–3. -/

def triPendant : ANet :=
  ⟨[(0, [1, 0]), (1, [1, 0]), (2, [1, 1]), (3, [0, 1])],
   [(0, 1, "tri"), (1, 2, "tri"), (2, 3, "edge"), (0, 2, "tri")]⟩

theorem triPendant_clean_tri : CleanNetwork triPendant 2 ["tri", "edge"] 0 "tri" 2 :=
  ⟨by decide +kernel, by decide +kernel, by decide +kernel, by decide +kernel,
   by unfold Mixing.Uniform; decide +kernel, by unfold Annotated; decide +kernel,
   by decide +kernel, by decide +kernel, by decide +kernel, by decide +kernel⟩

theorem triPendant_clean_edge : CleanNetwork triPendant 2 ["tri", "edge"] 1 "edge" 1 :=
  ⟨by decide +kernel, by decide +kernel, by decide +kernel, by decide +kernel,
   by unfold Mixing.Uniform; decide +kernel, by unfold Annotated; decide +kernel,
   by decide +kernel, by decide +kernel, by decide +kernel, by decide +kernel⟩

/-- the empirical joint degree distribution and its excess distributions -/
example : jddFromNetwork (triPendant.jd.map (·.2)) = [([1, 0], 1 / 2), ([1, 1], 1 / 4), ([0, 1], 1 / 4)] := by
  decide +kernel

example : excessFromJdd (jddFromNetwork (triPendant.jd.map (·.2))) =
    some [[([0, 0], 2 / 3), ([0, 1], 1 / 3)], [([1, 0], 1 / 2), ([0, 0], 1 / 2)]] := by
  decide +kernel

/-- the mixing matrices and their row sums through the public function -/
example : (getEjks triPendant ["tri", "edge"] ⟨[]⟩).2 =
    [("tri", [([0, 0, 0, 0], 1 / 3), ([0, 0, 0, 1], 1 / 3), ([0, 1, 0, 0], 1 / 3)]),
     ("edge", [([1, 0, 0, 0], 1 / 2), ([0, 0, 1, 0], 1 / 2)])] := by
  decide +kernel

example : excessFromEjk (getEjks triPendant ["tri", "edge"] ⟨[]⟩).2
      (["tri", "edge"].zipIdx.map fun (nm, j) => (nm, excessKeys triPendant j)) =
    some [("tri", [([0, 0], 2 / 3), ([0, 1], 1 / 3)]), ("edge", [([1, 0], 1 / 2), ([0, 0], 1 / 2)])] := by
  decide +kernel

/-- both sides of the identity, evaluated: row sums of the matrices = excess tables of the empirical
    distribution, for both topologies and every candidate key -/
example : ∀ a ∈ [[0, 0], [0, 1], [1, 0], [1, 1], [2, 0], [0]],
    (matrixRowSum (getEjk triPendant (countEdgeTypes triPendant []) 0 "tri") 2 a,
     matrixRowSum (getEjk triPendant (countEdgeTypes triPendant []) 1 "edge") 2 a) =
    ((Dict.get [([0, 0], (2 / 3 : Rat)), ([0, 1], 1 / 3)] a).getD 0,
     (Dict.get [([1, 0], (1 / 2 : Rat)), ([0, 0], 1 / 2)] a).getD 0) := by
  decide +kernel

/-- the ingredients of item 1 on this network: `2E = c · Σ_v jd(v)[i]` reads `6 = 2 · 3` and `2 = 1 · 2` -/
example : numE triPendant "tri" = 3 ∧ degSum triPendant 0 = 3 ∧ numE triPendant "edge" = 1 ∧
    degSum triPendant 1 = 2 ∧ nVert triPendant 0 [0, 0] = 2 ∧ nVert triPendant 0 [0, 1] = 1 ∧
    nVert triPendant 1 [1, 0] = 1 ∧ nVert triPendant 1 [0, 0] = 1 := by
  decide +kernel

/-- the theorem, instantiated -/
example : ∃ q q', (excessFromJdd (jddFromNetwork (triPendant.jd.map (·.2)))).bind (·[0]?) = some q ∧
    (excessFromEjk (getEjks triPendant ["tri", "edge"] ⟨[]⟩).2
      (["tri", "edge"].zipIdx.map fun (nm, j) => (nm, excessKeys triPendant j))).bind (·[0]?) = some ("tri", q') ∧
    ∀ a : JD, Dict.get q' a = Dict.get q a := by
  have hq : excessFromJdd (jddFromNetwork (triPendant.jd.map (·.2))) =
      some [[([0, 0], 2 / 3), ([0, 1], 1 / 3)], [([1, 0], 1 / 2), ([0, 0], 1 / 2)]] := by decide +kernel
  have hr : excessFromEjk (getEjks triPendant ["tri", "edge"] ⟨[]⟩).2
      (["tri", "edge"].zipIdx.map fun (nm, j) => (nm, excessKeys triPendant j)) =
      some [("tri", [([0, 0], 2 / 3), ([0, 1], 1 / 3)]), ("edge", [([1, 0], 1 / 2), ([0, 0], 1 / 2)])] := by
    decide +kernel
  obtain ⟨q, q', h1, h2, h3⟩ := network_consistency_public triPendant_clean_tri hq hr
  exact ⟨q, q', by rw [hq]; exact h1, by rw [hr]; exact h2, h3⟩

/-- the clean-network hypothesis cannot be dropped: a triangle whose middle vertex is annotated with 2 -/
def dirty : ANet :=
  ⟨[(0, [1]), (1, [2]), (2, [1])], [(0, 1, "t"), (1, 2, "t"), (0, 2, "t")]⟩

/-- in `dirty` vertex 1 is annotated with `jd = 2` but has as many incident edges as vertices 0 and 2
    (annotated with 1): the row sums `{0: 2/3, 1: 1/3}` differ from the excess distribution `{0: 1/2, 1: 1/2}` -/
example : (matrixRowSum (getEjk dirty (countEdgeTypes dirty []) 0 "t") 1 [0],
           matrixRowSum (getEjk dirty (countEdgeTypes dirty []) 0 "t") 1 [1]) = (2 / 3, 1 / 3) ∧
    excessFromJdd (jddFromNetwork (dirty.jd.map (·.2))) = some [[([0], 1 / 2), ([1], 1 / 2)]] := by
  decide +kernel

end Gcmpy.Algebra
