import GcmpyModel.Lemmas.Network
/-!
# C04 — edge list <-> network conversion

Model: `GcmpyModel/Model/Network.lean` (`toNetwork`, `toEdgeList`).
The hypotheses `InRange` (every vertex of an edge row is `< N`, `N` = number of joint-degree rows)
and `Parallel` (the three columns have equal length) are defined in `GcmpyModel/Lemmas/Network.lean`,
where all proofs live (`aux_*`); this file only states the properties.
-/
namespace Gcmpy.Network
open Gcmpy

/-- T1: the node list is exactly `0 .. N-1` (zero-degree vertices included), in that order -/
theorem nodes_exact (el : EL) (h : InRange el) :
    (toNetwork el).nodes = List.range el.jointDegrees.length :=
  aux_nodes_exact el h

/-- T2: every vertex carries its joint degree -/
theorem node_annotated (el : EL) (h : InRange el) (v : Nat) (hv : v < el.jointDegrees.length) :
    Dict.get (toNetwork el).jd v = some (el.jointDegrees[v]) :=
  aux_node_annotated el h v hv

/-- T3a: the undirected edges of the network are exactly the normalised pairs of the edge rows -/
theorem edge_iff_pair_occurs (el : EL) (k : Key) :
    k ∈ (toNetwork el).edges.map (·.1) ↔ ∃ e ∈ el.edges, norm e = k :=
  aux_edge_iff_pair_occurs el k

/-- T3b: no undirected edge is stored twice -/
theorem edge_keys_nodup (el : EL) : ((toNetwork el).edges.map (·.1)).Nodup :=
  aux_edge_keys_nodup el

/-- T4: a pair that occurs in one row only carries that row's topology and motif id -/
theorem attrs_of_unique_pair (el : EL) (hp : Parallel el) (i : Nat) (hi : i < el.edges.length)
    (huniq : ∀ j, (hj : j < el.edges.length) → norm (el.edges[j]) = norm (el.edges[i]) → j = i) :
    Dict.get (toNetwork el).edges (norm el.edges[i]) =
      some (some (el.topologies[i]'(hp.1 ▸ hi)), some (el.motifId[i]'(hp.2 ▸ hi))) :=
  aux_attrs_of_unique_pair el hp i hi huniq

/-- T7: `KeyError` of the reverse conversion when the node labels are not `0 .. order-1` -/
theorem reverse_keyerror (net : Net) (n : Nat) (hn : n < net.nodes.length) (hnot : n ∉ net.nodes) :
    toEdgeList net = none :=
  aux_reverse_keyerror net n hn hnot

/-- T5b: the reverse conversion succeeds on every converted edge list (pairs may repeat); it returns
    the joint degrees unchanged and one row per undirected edge of the network -/
theorem roundtrip_jds (el : EL) (h : InRange el) (hp : Parallel el) :
    ∃ el', toEdgeList (toNetwork el) = some el' ∧ el'.jointDegrees = el.jointDegrees ∧
      el'.edges = (toNetwork el).edges.map (·.1) := by
  obtain ⟨tops, ids, _, _, heq⟩ := aux_roundtrip_some el h hp
  exact ⟨_, heq, rfl, rfl⟩

/-- T5: without repeated pairs the round trip returns the edge list itself, rows normalised -/
theorem roundtrip_edgelist (el : EL) (h : InRange el) (hp : Parallel el)
    (hn : (el.edges.map norm).Nodup) :
    toEdgeList (toNetwork el) =
      some { edges := el.edges.map norm, topologies := el.topologies, motifId := el.motifId,
             jointDegrees := el.jointDegrees } :=
  aux_roundtrip_edgelist el h hp hn

/-- T6: network -> edge list -> network is the identity on converted networks -/
theorem roundtrip_network (el : EL) (h : InRange el) (hp : Parallel el) :
    ∃ el', toEdgeList (toNetwork el) = some el' ∧ toNetwork el' = toNetwork el :=
  aux_roundtrip_network el h hp

/-! ## Non-vacuity: a concrete edge list with a zero-degree vertex (4), a pair repeated in both
orientations (`(0,1)`, `(1,0)`) and a self-loop (`(2,2)`) -/

def exEL : EL :=
  { edges := [(0, 1), (1, 0), (2, 2), (3, 1)], topologies := ["a", "b", "c", "d"],
    motifId := [10, 11, 12, 13], jointDegrees := [[1], [2], [1], [1], [0]] }

/-- the hypotheses of T1, T2, T5b, T6 hold; the pair-uniqueness hypothesis of T4 holds for rows 2, 3
    and fails for rows 0, 1; the no-repeated-pair hypothesis of T5 fails -/
example : InRange exEL ∧ Parallel exEL ∧ ¬ (exEL.edges.map norm).Nodup := by
  refine ⟨?_, ?_, ?_⟩ <;> simp [InRange, Parallel, exEL, norm]

/-- the converted network: vertex 4 is a node, the repeated pair is stored once with the attributes
    of its last row, the self-loop is an edge, keys are normalised -/
example : toNetwork exEL =
    { nodes := [0, 1, 2, 3, 4],
      jd := [(0, [1]), (1, [2]), (2, [1]), (3, [1]), (4, [0])],
      edges := [((0, 1), (some "b", some 11)), ((2, 2), (some "c", some 12)),
                ((1, 3), (some "d", some 13))] } := by
  decide +kernel

/-- the round trip succeeds, keeps the joint degrees and reproduces the network (T5b, T6) -/
example : toEdgeList (toNetwork exEL) =
      some { edges := [(0, 1), (2, 2), (1, 3)], topologies := ["b", "c", "d"], motifId := [11, 12, 13],
             jointDegrees := [[1], [2], [1], [1], [0]] } ∧
    (toEdgeList (toNetwork exEL)).map toNetwork = some (toNetwork exEL) := by
  decide +kernel

/-- T5 is not vacuous: dropping the repeated row gives an edge list with pairwise distinct pairs -/
example : let el : EL := { exEL with edges := [(1, 0), (2, 2), (3, 1)], topologies := ["b", "c", "d"],
                                       motifId := [11, 12, 13] }
    InRange el ∧ Parallel el ∧ (el.edges.map norm).Nodup := by
  refine ⟨?_, ?_, ?_⟩ <;> simp [InRange, Parallel, exEL, norm]

/-- T7 is not vacuous: a network whose two nodes are labelled 0 and 2 -/
example : toEdgeList { nodes := [0, 2], jd := [(0, []), (2, [])], edges := [] } = none := by
  decide +kernel

end Gcmpy.Network
