import GcmpyModel.Model.ClosedForms
namespace Gcmpy.ClosedForms
theorem placeholder_c16 : True := trivial
end Gcmpy.ClosedForms
