import GcmpyModel.Lemmas.ClosedForms
import GcmpyModel.Lemmas.CycleExact
/-
Property C16: the closed-form equations and the graph counts behind them
(`gcmpy/message_passing/number_connected_graphs.py`, `equations/clique_equation.py`,
`equations/chordless_cycle_equation.py`; model: `Model/ClosedForms.lean`).

Proved here
* `omega_closed`            the interface-edge count is `(κ+1)(τ-κ-1)`;
* `Q_eq_Qgen`               the Cayley shortcut agrees with the shortcut-free recursion for all `n ≤ 12`, all `k`;
* `Q_trees`, `Q_zero_outside`, `Q_zero_below` (all `n`), `Q_complete`, `Qgen_trees` (`n ≤ 12`);
* `nocg_spec`, `QQ_spec`    the brute-force counters count what they say (`QQ n k = connCount n k`, all `n`);
* `Q_eq_connCount_small`    `Q n k` is the number of connected labelled graphs for `n ≤ 5` and ALL `k`;
* `cycle_closed_form`, `clique_expanded`, `esym_spec`   the algebraic shape of the two closed-form equations;
* `cycle_exact`             the chordless-cycle closed form IS the automated equation on `C_n` (= by C15 the exact
                            bond-percolation expectation), every `n ≥ 3`, every commutative ring
                            (`cycleGraph` and the combinatorics of the cycle: `Lemmas/CycleExact.lean`).

The statements `Q_eq_connCount_full`, `Qgen_eq_connCount_full`, `Q_eq_Qgen_full`, `clique_exact_full` are kept here as
`Prop`s and PROVED in the continuation files `Properties/C16Counts.lean` (Harary–Palmer), `C16Clique.lean`, `C16Full.lean`
and `C16Cayley.lean` (Cayley's formula and the unconditional corollaries).
-/
namespace Gcmpy.ClosedForms
open Gcmpy Gcmpy.Graph Gcmpy.Automated

/-! ## 1. `omega` -/

/-- `omega(τ, κ)`: a component of `κ+1` vertices of a `τ`-clique has `(κ+1)(τ-κ-1)` interface edges -/
theorem omega_closed (tau kappa : Nat) (h : kappa < tau) :
    omega tau kappa = (kappa + 1) * (tau - kappa - 1) := by
  unfold omega
  obtain ⟨r, rfl⟩ : ∃ r, tau = kappa + 1 + r := ⟨tau - kappa - 1, by omega⟩
  have hr : kappa + 1 + r - kappa - 1 = r := by omega
  simp only [hr]
  have h1 := two_mul_sum_sub (kappa + 1 + r) r (by omega)
  have h2 := two_mul_pred_half r
  generalize ((List.range r).map fun v => kappa + 1 + r - (v + 1)).sum = S at h1 ⊢
  generalize r * (r - 1) / 2 = T at h2 ⊢
  cases r with
  | zero => simp at h1 ⊢; omega
  | succ r =>
    simp only [Nat.add_sub_cancel] at h2
    have : S = T + (kappa + 1) * (r + 1) := by nlinarith [h1, h2]
    omega


/-! ## 2. the Harary–Palmer table `Q` -/

/-- kernel evaluation of both memo tables up to 12 vertices (298 entries each; ~22 s) -/
theorem Q_eq_Qgen_table : qTable 12 = qTableGen 12 := by decide +kernel

/-- **the Cayley shortcut `n^(n-2)` agrees with the shortcut-free recursion**, all `n ≤ 12` and all `k` -/
theorem Q_eq_Qgen (n k : Nat) (h : 1 ≤ n) (h' : n ≤ 12) : Q n k = Qgen n k := by
  unfold Q Qgen
  rw [if_neg (by omega), ← qTable_getD_of_le (n := n) (m := 12) (by omega) h',
    ← qTableGen_getD_of_le (n := n) (m := 12) (by omega) h', Q_eq_Qgen_table]

/-- `Q n k = 0` above the number of edges of `K_n` (all `n`, including `n = 0`) -/
theorem Q_zero_outside (n k : Nat) (h : k > n * (n - 1) / 2) : Q n k = 0 := by
  cases n with
  | zero => unfold Q; simp at h ⊢; omega
  | succ n => rw [Q_succ_eq_qEntry]; exact qEntry_eq_zero_of_gt h

/-- `Q n k = 0` below the size of a spanning tree -/
theorem Q_zero_below (n k : Nat) (h : k + 1 < n) : Q n k = 0 := by
  obtain ⟨m, rfl⟩ : ∃ m, n = m + 1 := ⟨n - 1, by omega⟩
  rw [Q_succ_eq_qEntry]
  unfold qEntry
  have : k < m + 1 - 1 := by omega
  simp only [this, true_or, if_true]

/-- `Q n (n-1) = n^(n-2)` (Cayley), for every `n ≥ 1`: this is the model's shortcut branch -/
theorem Q_trees (n : Nat) (h : 1 ≤ n) : Q n (n - 1) = ((n ^ (n - 2) : Nat) : Int) := by
  obtain ⟨m, rfl⟩ : ∃ m, n = m + 1 := ⟨n - 1, by omega⟩
  rw [Q_succ_eq_qEntry, Nat.add_sub_cancel]
  unfold qEntry
  have hm : m ≤ (m + 1) * m / 2 := by
    rw [Nat.le_div_iff_mul_le (by norm_num)]
    rcases Nat.eq_zero_or_pos m with rfl | hp
    · simp
    · have := Nat.mul_le_mul_right m (show 2 ≤ m + 1 by omega); omega
  have h1 : ¬ (m < m ∨ m > (m + 1) * m / 2) := by omega
  simp only [Nat.add_sub_cancel, h1, if_false, if_true]

/-- the shortcut-free recursion reproduces Cayley's formula up to 12 vertices -/
theorem Qgen_trees (n : Nat) (h : 1 ≤ n) (h' : n ≤ 12) : Qgen n (n - 1) = ((n ^ (n - 2) : Nat) : Int) := by
  rw [← Q_eq_Qgen n _ h h', Q_trees n h]

theorem Q_complete_table : ∀ n, n ≤ 12 → 1 ≤ n → Q n (n * (n - 1) / 2) = 1 := by decide +kernel

/-- exactly one connected graph uses all edges -/
theorem Q_complete (n : Nat) (h : 1 ≤ n) (h' : n ≤ 12) : Q n (n * (n - 1) / 2) = 1 := Q_complete_table n h' h

/-! ## 3. counting specifications -/

/-- number of connected labelled graphs on `n` vertices with `k` edges, by definition: edge subsets of K_n -/
def connCount (n k : Nat) : Nat :=
  ((sublists (completeGraph n).edges).filter fun A => A.length = k ∧ connected A (List.range n)).length

/-- the same count, enumerating only the `k`-subsets (used for kernel evaluation) -/
def connCount' (n k : Nat) : Nat :=
  ((combinations k (completeGraph n).edges).filter fun A => connected A (List.range n)).length

theorem connCount_eq (n k : Nat) : connCount n k = connCount' n k := by
  unfold connCount connCount'
  rw [length_filter_combinations]

/-- **`number_of_connected_graphs(G, ak, i, k)`** is exactly the number of ways of deleting `k` edges from the
subgraph induced on `ak ∪ {i}` such that it stays connected -/
theorem nocg_spec (G : Motif) (ak : List Nat) (i k : Nat) :
    let N' := G.nodes.filter fun n => n = i ∨ n ∈ ak
    let E' := G.edges.filter fun e => e.1 ∈ N' ∧ e.2 ∈ N'
    numberOfConnectedGraphs G ak i k
      = ((sublists E').filter fun comb => comb.length = k ∧ connected (E'.filter (· ∉ comb)) N').length := by
  intro N' E'
  unfold numberOfConnectedGraphs
  exact length_filter_combinations k E' _

theorem QQ_spec (n k : Nat) (hk : k ≤ n * (n - 1) / 2) : QQ n k = connCount n k := by
  unfold QQ
  rw [nocg_spec]
  have hN : ((completeGraph n).nodes.filter fun v => v = 0 ∨ v ∈ (List.range n).filter (0 < ·)) = List.range n := by
    show ((List.range n).filter _) = _
    rw [List.filter_eq_self]
    intro v hv
    have := List.mem_range.1 hv
    simp only [List.mem_filter, List.mem_range, decide_eq_true_eq]
    omega
  simp only [hN]
  have hE : ((completeGraph n).edges.filter fun e => e.1 ∈ List.range n ∧ e.2 ∈ List.range n)
      = (completeGraph n).edges := by
    rw [List.filter_eq_self]
    rintro ⟨a, b⟩ he
    have := mem_completeGraph_edges.1 he
    simp only [List.mem_range, decide_eq_true_eq]; omega
  simp only [hE]
  have hnd := completeGraph_edges_nodup n
  have hlen := completeGraph_edges_length n
  unfold connCount
  rw [← length_filter_compl hnd (fun A => decide (A.length = k ∧ connected A (List.range n) = true))]
  congr 1
  apply List.filter_congr
  intro s hs
  have := length_filter_not_mem hnd (mem_sublists_iff.1 hs)
  rw [hlen] at this
  have e : s.length = n * (n - 1) / 2 - k ↔
      ((completeGraph n).edges.filter fun x => x ∉ s).length = k := by
    generalize n * (n - 1) / 2 = m at *
    omega
  apply decide_eq_decide.2
  rw [e]


/-- no graph on `n` vertices has more than `n(n-1)/2` edges -/
theorem connCount_zero_outside (n k : Nat) (h : k > n * (n - 1) / 2) : connCount n k = 0 := by
  unfold connCount
  rw [List.length_eq_zero_iff, List.filter_eq_nil_iff]
  intro A hA
  have := (mem_sublists_iff.1 hA).length_le
  rw [completeGraph_edges_length] at this
  simp only [decide_eq_true_eq, not_and]
  intro h'; omega

theorem Q_eq_connCount'_le4 :
    ∀ n, n ≤ 4 → 1 ≤ n → ∀ k, k ≤ n * (n - 1) / 2 → Q n k = (connCount' n k : Int) := by decide +kernel

theorem Q_eq_connCount'_5_lo : ∀ k, k ≤ 5 → Q 5 k = (connCount' 5 k : Int) := by decide +kernel

theorem Q_eq_connCount'_5_hi : ∀ k, k ≤ 4 → Q 5 (k + 6) = (connCount' 5 (k + 6) : Int) := by decide +kernel

/-- **`Q n k` is the number of connected labelled graphs with `n` vertices and `k` edges**, checked against the
definition (all `2^(n(n-1)/2)` edge subsets of `K_n`) for `n ≤ 5` -/
theorem Q_eq_connCount_small :
    ∀ n, 1 ≤ n → n ≤ 5 → ∀ k, k ≤ n * (n - 1) / 2 → Q n k = (connCount n k : Int) := by
  intro n h1 h5 k hk
  rw [connCount_eq]
  by_cases h4 : n ≤ 4
  · exact Q_eq_connCount'_le4 n h4 h1 k hk
  · obtain rfl : n = 5 := by omega
    by_cases hk5 : k ≤ 5
    · exact Q_eq_connCount'_5_lo k hk5
    · obtain ⟨j, rfl⟩ : ∃ j, k = j + 6 := ⟨k - 6, by omega⟩
      exact Q_eq_connCount'_5_hi j (by omega)

/-- … and for every `k` (both sides vanish above `n(n-1)/2`) -/
theorem Q_eq_connCount_small_all (n k : Nat) (h1 : 1 ≤ n) (h5 : n ≤ 5) : Q n k = (connCount n k : Int) := by
  by_cases hk : k ≤ n * (n - 1) / 2
  · exact Q_eq_connCount_small n h1 h5 k hk
  · rw [Q_zero_outside n k (by omega), connCount_zero_outside n k (by omega)]; rfl

/-- the recursion and the brute-force counter agree for `n ≤ 5` -/
theorem Q_eq_QQ_small (n k : Nat) (h1 : 1 ≤ n) (h5 : n ≤ 5) (hk : k ≤ n * (n - 1) / 2) : Q n k = (QQ n k : Int) := by
  rw [QQ_spec n k hk, Q_eq_connCount_small n h1 h5 k hk]

/-- PROVED for every `n`, `k` in `Properties/C16Cayley.lean` (`Q_eq_connCount`): the Harary–Palmer recursion
(`Qgen_eq_connCount`, `Properties/C16Counts.lean`) plus Cayley's formula for the brute-force counter (`cayley`) -/
def Q_eq_connCount_full : Prop := ∀ n k, 1 ≤ n → Q n k = (connCount n k : Int)
/-- PROVED for every `n`, `k` in `Properties/C16Counts.lean` (`Qgen_eq_connCount`, the Harary–Palmer classification of all
graphs by the component of a fixed vertex, `Lemmas/HararyPalmer.lean`) -/
def Qgen_eq_connCount_full : Prop := ∀ n k, 1 ≤ n → Qgen n k = (connCount n k : Int)
/-- PROVED for every `n`, `k` in `Properties/C16Cayley.lean` (`Q_eq_Qgen_all`); `Q_eq_Qgen` is the kernel-table instance -/
def Q_eq_Qgen_full : Prop := ∀ n k, 1 ≤ n → Q n k = Qgen n k

/-! ## 4. the chordless-cycle equation -/

section algebra
variable {R : Type} [CommRing R]

/-- `chordless_cycle_equation(n, u, φ)` in textbook form: the root's component is an arc of `s` vertices
(`s` positions, `s - 1` open edges, both boundary edges closed), or the whole cycle (all edges open, or exactly one
of the `n` edges closed) -/
theorem cycle_closed_form (n : Nat) (hn : 3 ≤ n) (u φ : R) :
    chordlessCycle n u φ
      = (∑ s ∈ Finset.Icc 1 (n - 1), (s : R) * (φ * u) ^ (s - 1) * (1 - φ) ^ 2)
        + u ^ (n - 1) * (φ ^ n + (n : R) * φ ^ (n - 1) * (1 - φ)) := by
  obtain ⟨m, rfl⟩ : ∃ m, n = m + 3 := ⟨n - 3, by omega⟩
  unfold chordlessCycle
  simp only [powN_eq_pow, List.foldl_map, Int.cast_natCast]
  rw [foldl_add_range (fun i => (((i + 1 + 1 : Nat) : R)) * (φ * u) ^ (i + 1) * (1 - φ) ^ 2)]
  have hI : Finset.Icc 1 (m + 3 - 1) = Finset.Ico 1 (m + 3) := by
    ext x; simp only [Finset.mem_Icc, Finset.mem_Ico]; omega
  rw [hI, Finset.sum_Ico_eq_sum_range]
  have : m + 3 - 1 = (m + 3 - 2) + 1 := by omega
  rw [this, Finset.sum_range_succ']
  have e : ∀ i, 1 + (i + 1) - 1 = i + 1 := fun i => by omega
  simp only [e, Nat.add_zero, Nat.sub_self, pow_zero]
  have e2 : ∑ i ∈ Finset.range (m + 3 - 2), ((1 + (i + 1) : Nat) : R) * (φ * u) ^ (i + 1) * (1 - φ) ^ 2
      = ∑ i ∈ Finset.range (m + 3 - 2), ((i + 1 + 1 : Nat) : R) * (φ * u) ^ (i + 1) * (1 - φ) ^ 2 := by
    apply Finset.sum_congr rfl; intro i _; congr 3; omega
  rw [e2]
  have : m + 3 - 2 + 1 = m + 2 := by omega
  rw [this]
  push_cast
  ring


/-! ## 5. the clique equation -/

/-- `esym Hs κ` is the elementary symmetric polynomial: the sum over the `κ`-element sublists of their products -/
theorem esym_spec (Hs : List R) (kappa : Nat) :
    esym Hs kappa = ((combinations kappa Hs).map List.prod).sum := by
  unfold esym
  rw [foldl_add_eq, zero_add]
  congr 1
  apply List.map_congr_left
  intro c _
  rw [foldl_mul_eq, one_mul]

theorem clique_expanded (tau : Nat) (φ : R) (Hs : List R) :
    cliqueEquation tau φ Hs
      = ∑ κ ∈ Finset.range tau, esym Hs κ *
          ∑ m ∈ Finset.range (κ * (κ - 1) / 2 + 1),
            ((Q (κ + 1) (κ * (κ + 1) / 2 - m) : Int) : R) * φ ^ (κ * (κ + 1) / 2 - m)
              * (1 - φ) ^ ((κ + 1) * (tau - κ - 1) + m) := by
  unfold cliqueEquation
  simp only [powN_eq_pow, foldl_add_range, zero_add]
  apply Finset.sum_congr rfl
  intro κ hκ
  rw [omega_closed tau κ (Finset.mem_range.1 hκ), Finset.mul_sum]
  apply Finset.sum_congr rfl
  intro m _
  ring
end algebra

/- `cycleGraph n`, the cycle `0 - 1 - … - (n-1) - 0`, is defined in `Lemmas/CycleExact.lean`. -/

/-- the clique closed form is the exact bond-percolation generating function of the clique (= the automated equation on
`K_τ` rooted at 0, `Hs` = the `u` of the other vertices).  PROVED for every `τ` in `Properties/C16Cayley.lean` (`clique_exact`), from `automated_clique`
(`Properties/C16Clique.lean`: the identity with `connCount` in place of `Q`) and `Q_eq_connCount`. -/
def clique_exact_full : Prop :=
  ∀ (R : Type) [CommRing R] (tau : Nat) (φ : R) (u : Nat → R), 1 ≤ tau →
    cliqueEquation tau φ ((List.range (tau - 1)).map fun i => u (i + 1))
      = automatedEquation (completeGraph tau) φ u 0

/-- the chordless-cycle closed form is the automated equation on `C_n` (all `u` equal); PROVED below (`cycle_exact`) -/
def cycle_exact_full : Prop :=
  ∀ (R : Type) [CommRing R] (n : Nat) (φ u : R), 3 ≤ n →
    chordlessCycle n u φ = automatedEquation (cycleGraph n) φ (fun _ => u) 0

/-- **C16, chordless cycle.** For every `n ≥ 3` and over every commutative ring, `chordless_cycle_equation(n, u, φ)`
equals `automated_equation` on the cycle `C_n` rooted at `0` with all `u` equal — hence, by C15 (`automated_exact`),
the exact bond-percolation expectation of `u^(|component of the root| - 1)` on `C_n`.
Proof: `cycle_closed_form` (textbook form of the closed form) and `automated_cycle` (`Lemmas/CycleExact.lean`: the
connected vertex sets containing the root are the arcs and the whole cycle; an arc's induced path has one connected
spanning edge subset and two boundary edges; the cycle's connected spanning edge subsets miss at most one edge). -/
theorem cycle_exact : cycle_exact_full := by
  intro R _ n φ u hn
  rw [cycle_closed_form n hn u φ, automated_cycle hn φ u]

/-- `cycle_exact`, unfolded -/
theorem cycle_exact' {R : Type} [CommRing R] (n : Nat) (hn : 3 ≤ n) (φ u : R) :
    chordlessCycle n u φ = automatedEquation (cycleGraph n) φ (fun _ => u) 0 :=
  cycle_exact R n φ u hn

/-- consequence (with C15): the closed form is the exact expectation `exactE` on `C_n` -/
theorem cycle_closed_eq_exactE {R : Type} [CommRing R] (n : Nat) (hn : 3 ≤ n) (φ u : R) :
    chordlessCycle n u φ = exactE (cycleGraph n) φ (fun _ => u) 0 := by
  have h0 : 0 ∈ (cycleGraph n).nodes := by
    show 0 ∈ List.range n
    rw [List.mem_range]; omega
  rw [cycle_exact' n hn, exactE_eq_percAutoE _ (cycleGraph_wf (by omega)) (cycleGraph_simple hn).1 h0,
    percAutoE_eq_automatedEquation _ (cycleGraph_wf (by omega)) (cycleGraph_simple hn) h0]

/-! ## 6. examples (kernel evaluation) -/

/-- the docstring test vector of `QQ(6, ·)`, reproduced by `Q` -/
example : (List.range 16).map (Q 6) = [0,0,0,0,0,1296,3660,5700,6165,4945,2997,1365,455,105,15,1] := by
  decide +kernel
example : (List.range 7).map (QQ 4) = [0, 0, 0, 16, 15, 6, 1] := by decide +kernel
example : (List.range 5).map (omega 5) = [4, 6, 6, 4, 0] := by decide +kernel
example : chordlessCycle 3 (2 : Int) 3 = -56 := by decide +kernel
/-- closed form = automated equation at an integer point (`φ = 5`, `u v = 3v + 2`), `K_4` and `C_5` -/
example : cliqueEquation 4 (5 : Int) [5, 8, 11]
    = automatedEquation (completeGraph 4) (5 : Int) (fun v => 3 * (v : Int) + 2) 0 := by
  decide +kernel
example : chordlessCycle 5 (7 : Int) 5 = automatedEquation (cycleGraph 5) (5 : Int) (fun _ => 7) 0 := by decide +kernel
/-- number of ways to delete one edge of a triangle and stay connected -/
example : numberOfConnectedGraphs ⟨[0,1,2,3], [(0,1),(1,2),(0,2),(2,3)]⟩ [1,2] 0 1 = 3 := by decide +kernel

end Gcmpy.ClosedForms
