import GcmpyModel.Model.Rewire
import GcmpyModel.Lemmas.Rewire
import GcmpyModel.Properties.C12
/-!
# C11 (continued) — the whole of `rewire()`: both while-loops, the drawable edge set, the counters

Model: `Model/Rewire.lean` (`rewire cfg G evs rs`: the loop of `MarkovChainMonteCarloRewiring.rewire()` under a script
of draws `evs` and uniform numbers `rs`, of ANY length).  The theorems of `Properties/C11.lean` speak about one step
under the hypothesis `Ok` (real corners, `is_edge_choice_suitable` said yes) and about histories `Steps` of such steps;
here it is proved that the loop of `rewire()` only ever makes such steps, so that the conclusions hold of whatever
`rewire()` returns, for every script, every pair of limits and both attribute assignments:

* `rewire_steps`       the graph held at the end is reachable from the input by `Steps` (code as written);
* `rewire_invariants`  same annotated vertices, same number of edges, same topology degree at every vertex, simple graph;
* `rewire_sync`        the drawable edge set (the C20 model, driven by the very `add`/`remove` calls of `rewire()`)
                       holds exactly the edges of the graph, at the end of every run;
* `rewire_no_internal_error`  on a well-formed input none of the internal errors can occur (KeyError on a drawn edge,
                       IndexError in the pairing, "already present", KeyError in `EdgeSet.remove`, edge-count test);
* `rewire_done_count`  a run that ends normally has accepted exactly `limit + 1` swaps (`while count <= limit`);
* `rewire_count_accepts` the counter equals the number of accepted proposals in the trace.
Proofs: `Lemmas/Rewire.lean`.
-/
namespace Gcmpy.Rewire
open Gcmpy Gcmpy.Graph Gcmpy.MCMC

variable (cfg : Cfg) (G : Net) (evs : List DrawEv) (rs : List (Option Rat))

theorem init_sync (hWF : WF G) : Sync (init G) := Lemmas.init_sync G hWF

theorem rewire_steps (hf : cfg.fixed = false) (hWF : WF G) :
    Steps cfg.names cfg.target G (rewire cfg G evs rs).st.G := Lemmas.rewire_steps cfg G evs rs hf hWF

theorem rewire_invariants (hWF : WF G) :
    WF (rewire cfg G evs rs).st.G ∧ (rewire cfg G evs rs).st.G.jd = G.jd ∧
    (rewire cfg G evs rs).st.G.edges.length = G.edges.length ∧
    ∀ v t, topDegree (rewire cfg G evs rs).st.G v t = topDegree G v t := Lemmas.rewire_invariants cfg G evs rs hWF

theorem rewire_sync (hWF : WF G) : Sync (rewire cfg G evs rs).st := Lemmas.rewire_sync cfg G evs rs hWF

theorem rewire_no_internal_error (hWF : WF G) :
    (rewire cfg G evs rs).outcome ∉
      [Outcome.keyError, .raisedIndex, .raisedEdgePresent, .raisedRemove, .raisedCount] :=
  Lemmas.rewire_no_internal_error cfg G evs rs hWF

theorem rewire_done_count (h : (rewire cfg G evs rs).outcome = .done) :
    (rewire cfg G evs rs).st.count = cfg.climit + 1 := Lemmas.rewire_done_count cfg G evs rs h

theorem rewire_count_accepts (hWF : WF G) :
    (rewire cfg G evs rs).st.count = ((rewire cfg G evs rs).trace.filter fun r => r.d = .accept).length :=
  Lemmas.rewire_count_accepts cfg G evs rs hWF

/-! ## non-vacuity: a complete run on the two triangles with heterogeneous joint degrees of `Properties/C12.lean`
(`mixedTriangles`, `mixedTarget`; limit 0: one accepted swap).  With all joint degrees equal every proposal "changes
nothing" and is rejected, hence the heterogeneous network. -/

def demoCfg : Cfg :=
  { names := ["t"], target := mixedTarget, climit := 0, slimit := 5, fixed := false }

/-- the intended attribute assignment, same script -/
def demoCfgFixed : Cfg := { demoCfg with fixed := true }

/-- the first draw is the edge `(0, 1)` (corner of triangle `{0,1,2}` at `0`), the second `(3, 4)` (corner of
    triangle `{3,4,5}` at `3`) -/
def demoEvs : List DrawEv :=
  [⟨(0, 1), [(0, 1), (0, 2)]⟩, ⟨(3, 4), [(3, 4), (3, 5)]⟩]

/-- the one uniform number consumed by the Metropolis test (ratio `16 > 1/2`) -/
def demoRs : List (Option Rat) := [some (1/2)]

example : WF mixedTriangles := by unfold WF; decide +kernel

/-- the run ends normally … -/
example : (rewire demoCfg mixedTriangles demoEvs demoRs).outcome = .done := by decide +kernel
/-- … after exactly one accepted swap (`limit + 1`) … -/
example : (rewire demoCfg mixedTriangles demoEvs demoRs).st.count = 1 := by decide +kernel
/-- … which is the only proposal of the trace: corners at `0` and `3`, the uniform number consumed, accepted … -/
example : (rewire demoCfg mixedTriangles demoEvs demoRs).trace.map (·.d) = [.accept] ∧
    (rewire demoCfg mixedTriangles demoEvs demoRs).trace.map (fun r => (r.u0, r.v0, r.r)) = [(0, 3, some (1/2))] ∧
    (rewire demoCfg mixedTriangles demoEvs demoRs).trace.map (fun r => (r.e0s, r.e1s)) =
      [([(0, 1), (0, 2)], [(3, 4), (3, 5)])] := by decide +kernel
/-- … the whole script was used … -/
example : ((rewire demoCfg mixedTriangles demoEvs demoRs).drawsLeft, (rewire demoCfg mixedTriangles demoEvs demoRs).rsLeft)
    = (0, 0) := by decide +kernel
/-- … the graph was rewired (the two corners were exchanged) … -/
example : (rewire demoCfg mixedTriangles demoEvs demoRs).st.G.edges.map (·.1) =
    [(1, 2), (4, 5), (0, 5), (1, 3), (0, 4), (2, 3)] := by decide +kernel
/-- … and the drawable set holds the same six edges -/
example : (rewire demoCfg mixedTriangles demoEvs demoRs).st.S.edges.length = 6 ∧
    ((rewire demoCfg mixedTriangles demoEvs demoRs).st.G.edges.map (·.1)).all
      (DrawSet.contains (rewire demoCfg mixedTriangles demoEvs demoRs).st.S) = true := by decide +kernel

/-- the same with the intended attribute assignment -/
example : (rewire demoCfgFixed mixedTriangles demoEvs demoRs).outcome = .done ∧
    (rewire demoCfgFixed mixedTriangles demoEvs demoRs).st.count = 1 ∧
    (rewire demoCfgFixed mixedTriangles demoEvs demoRs).trace.map (·.d) = [.accept] := by decide +kernel

/-- a script that is too short is reported as such (not as a normal end) -/
example : (rewire demoCfg mixedTriangles (demoEvs.take 1) demoRs).outcome = .exhausted := by decide +kernel

/-- on the homogeneous two triangles of `Properties/C11.lean` the same script is rejected ("changes nothing"):
    the loop goes on and the script runs out -/
example : (rewire { demoCfg with target := [("t", [([1, 1], 1)])] } twoTriangles demoEvs demoRs).outcome = .exhausted ∧
    (rewire { demoCfg with target := [("t", [([1, 1], 1)])] } twoTriangles demoEvs demoRs).trace.map (·.d) = [.reject] := by
  decide +kernel

/-- a proposal whose ratio is at least one (here `16`) is accepted whatever the uniform number: a script entry `none`
    ("no number drawn") is admissible, the run ends normally with one accepted swap and `r = none` in the trace -/
example : (rewire demoCfg mixedTriangles demoEvs [none]).outcome = .done ∧
    (rewire demoCfg mixedTriangles demoEvs [none]).st.count = 1 ∧
    (rewire demoCfg mixedTriangles demoEvs [none]).trace.map (fun r => (r.r, r.d)) = [(none, .accept)] ∧
    ratioOf mixedTriangles ["t"] mixedTarget 0 3 [(0, 1), (0, 2)] [(3, 4), (3, 5)] = some 16 := by decide +kernel

/-- the target with the weights exchanged: the same proposal has ratio `1/16 < 1` -/
def lowTarget : Target := [("t", [([1, 4], 1/4), ([3, 2], 1/4), ([1, 2], 1/2), ([3, 4], 1/2)])]

/-- when the ratio is below one the answer depends on the uniform number: a script entry `none` is reported as
    `missingUniform` (state untouched, nothing recorded), while a number below the ratio gives an accepted swap and a
    number above it a rejection -/
example : ratioOf mixedTriangles ["t"] lowTarget 0 3 [(0, 1), (0, 2)] [(3, 4), (3, 5)] = some (1/16) ∧
    (rewire { demoCfg with target := lowTarget } mixedTriangles demoEvs [none]).outcome = .missingUniform ∧
    (rewire { demoCfg with target := lowTarget } mixedTriangles demoEvs [none]).st.count = 0 ∧
    (rewire { demoCfg with target := lowTarget } mixedTriangles demoEvs [none]).trace.length = 0 ∧
    (rewire { demoCfg with target := lowTarget } mixedTriangles demoEvs [some (1/32)]).outcome = .done ∧
    (rewire { demoCfg with target := lowTarget } mixedTriangles demoEvs [some (1/32)]).trace.map (·.d) = [.accept] ∧
    (rewire { demoCfg with target := lowTarget } mixedTriangles demoEvs [some (1/2)]).trace.map (·.d) = [.reject] := by
  decide +kernel

end Gcmpy.Rewire
