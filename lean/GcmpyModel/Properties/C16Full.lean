import GcmpyModel.Properties.C16Clique
import GcmpyModel.Properties.C16Counts
/-
Property C16, assembled: the two closed forms and the counting recursion, with every hypothesis reduced to ONE statement —
Cayley's formula for the brute-force counter, `cayley_connCount` (PROVED in `Properties/C16Cayley.lean`, which states the
unconditional corollaries `Q_eq_connCount`, `Q_eq_Qgen_all`, `clique_exact`, `Q_eq_QQ`)
(`connCount n (n-1) = n^(n-2)`), which is exactly what the Python code's shortcut `if k == n-1: return n**(n-2)` assumes.

* `clique_exact_le12`      unconditional: for `1 ≤ τ ≤ 12` the clique closed form IS the automated equation on `K_τ`
                           (hence, by C15, the exact bond-percolation expectation), over every commutative ring;
* `clique_exact_of_cayley` for every `τ`, given Cayley's formula;
* `Q_eq_connCount_of_cayley`, `Q_eq_QQ_of_cayley`  the recursive counter agrees with the definition / the brute-force
                           counter for every `n`, `k`, given Cayley's formula (unconditional for `n ≤ 12`:
                           `Q_eq_connCount_le12`);
* `cycle_exact` (Properties/C16.lean) is unconditional for every `n ≥ 3`.
-/
namespace Gcmpy.ClosedForms
open Gcmpy Gcmpy.Graph Gcmpy.Automated

theorem clique_exact_le12 {R : Type} [CommRing R] (tau : Nat) (h1 : 1 ≤ tau) (h12 : tau ≤ 12) (φ : R) (u : Nat → R) :
    cliqueEquation tau φ ((List.range (tau - 1)).map fun i => u (i + 1))
      = automatedEquation (completeGraph tau) φ u 0 :=
  clique_exact_of_counts_upto tau h1 (fun n k hn hn' => Q_eq_connCount_le12 n k hn (by omega)) φ u

theorem Q_eq_connCount_of_cayley (hc : cayley_connCount) : Q_eq_connCount_full :=
  Q_eq_connCount_iff_cayley.2 hc

theorem clique_exact_of_cayley (hc : cayley_connCount) : clique_exact_full :=
  clique_exact_of_counts (Q_eq_connCount_of_cayley hc)

theorem Q_eq_QQ_of_cayley (hc : cayley_connCount) (n k : Nat) (hn : 1 ≤ n) (hk : k ≤ n * (n - 1) / 2) :
    Q n k = (QQ n k : Int) := by
  rw [QQ_spec n k hk, Q_eq_connCount_of_cayley hc n k hn]

/-- Cayley's formula holds for the brute-force counter up to 12 vertices (from the kernel table `Q_eq_Qgen` and
`Qgen_eq_connCount`) -/
theorem cayley_le12 (n : Nat) (h1 : 1 ≤ n) (h12 : n ≤ 12) : (connCount n (n - 1) : Int) = ((n ^ (n - 2) : Nat) : Int) := by
  rw [← Q_eq_connCount_le12 n (n - 1) h1 h12]
  exact Q_trees n h1

end Gcmpy.ClosedForms
