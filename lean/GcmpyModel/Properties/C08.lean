import GcmpyModel.Model.SplitDegree
import GcmpyModel.Model.Cover
namespace Gcmpy.Loaders
theorem placeholder_C08 : True := trivial
end Gcmpy.Loaders
