import GcmpyModel.Lemmas.Cover
/-!
Property C08: `JointDegreeCover` (repaired code) on a cover whose vertex ids are contiguous from 0 or 1.
`Contiguous`, `cliqueCount` are defined in `GcmpyModel/Lemmas/Cover.lean`.
-/
namespace Gcmpy.Cover
open Gcmpy Gcmpy.Loaders

variable {cover : List (List Nat)} {z n : Nat}

/-- 1a. the detected index base is the real one -/
theorem zeroIndex_eq (h : Contiguous cover z n) : zeroIndex cover = some z := zeroIndex_eq' h

/-- 1b. one counter row per vertex -/
theorem vertexIds_length (h : Contiguous cover z n) : (vertexIds cover).length = n :=
  vertexIds_length' h

/-- 2. the reported motif sizes are exactly the clique sizes that occur, ascending, without repeats
(holds for every cover) -/
theorem motif_sizes_spec (cover : List (List Nat)) :
    (motifSizes cover).Pairwise (· < ·) ∧
      ∀ s, s ∈ motifSizes cover ↔ ∃ c ∈ cover, c.length = s :=
  ⟨motifSizes_pairwise cover, fun _ => mem_motifSizes⟩

/-- 3. the counting loop raises no IndexError and entry (v, s-1) is the number of cliques of size s
containing v -/
theorem counts_before_drop (h : Contiguous cover z n) :
    ∃ jds0, countAll z cover (List.replicate n (List.replicate (largest cover) 0)) = some jds0 ∧
      jds0.length = n ∧ (∀ r ∈ jds0, r.length = largest cover) ∧
      ∀ v s, z ≤ v → v < z + n → 1 ≤ s → s ≤ largest cover →
        (jds0.getD (v - z) []).getD (s - 1) 0 = cliqueCount cover s v := by
  obtain ⟨jds0, e, s, f⟩ := counts_spec h
  exact ⟨jds0, e, s.1, s.mem_length, fun v s' hv _ hs _ => f v s' hv hs⟩

/-- 4. the loader succeeds; there is one row per vertex and one surviving column per occurring clique
size (`cover_counts` says that column `j` belongs to the `j`-th smallest occurring size) -/
theorem cover_columns (h : Contiguous cover z n) :
    ∃ jds, coverJds cover = some jds ∧ jds.length = n ∧
      ∀ r ∈ jds, r.length = (motifSizes cover).length := by
  obtain ⟨jds0, _, s, _, e⟩ := coverJds_eq h
  refine ⟨_, e, by simp [s.1], ?_⟩
  intro r hr
  obtain ⟨r0, _, rfl⟩ := List.mem_map.1 hr
  simp

/-- 5. row of vertex `v`, column of the `j`-th occurring size = number of cover cliques of that size
containing `v` -/
theorem cover_counts (h : Contiguous cover z n) {jds : List (List Nat)}
    (hj : coverJds cover = some jds) {v j : Nat} (hv1 : z ≤ v) (hv2 : v < z + n)
    (hjl : j < (motifSizes cover).length) :
    (jds.getD (v - z) []).getD j 0 = cliqueCount cover ((motifSizes cover).getD j 0) v := by
  obtain ⟨jds0, _, s, f, e⟩ := coverJds_eq h
  rw [e] at hj
  cases hj
  have hk : v - z < jds0.length := by rw [s.1]; omega
  have := entry_map_sizes jds0 (motifSizes cover) hk hjl
  simp only [entry] at this f
  rw [this, f]
  have hmem : (motifSizes cover).getD j 0 ∈ motifSizes cover := by
    simp [List.getD_eq_getElem?_getD, List.getElem?_eq_getElem hjl]
  obtain ⟨q, hq, hlen⟩ := mem_motifSizes.1 hmem
  have := (h.clique_ok q hq).1
  rw [show (motifSizes cover).getD j 0 - 1 + 1 = (motifSizes cover).getD j 0 by omega,
    show v - z + z = v by omega]

/-- 6. the distribution is the frequency table of the rows -/
theorem cover_jdd {jds : List (List Nat)} (hj : coverJds cover = some jds) :
    coverJdd cover = some (empirical jds) := by
  simp [coverJdd, hj]

/-- 7. handshake: the column of size `s` sums to `s ·` (number of cover cliques of size `s`) -/
theorem cover_handshake (h : Contiguous cover z n) {jds : List (List Nat)}
    (hj : coverJds cover = some jds) {j : Nat} (hjl : j < (motifSizes cover).length) :
    (jds.map (·.getD j 0)).sum =
      (motifSizes cover).getD j 0 *
        (cover.filter fun c => c.length = (motifSizes cover).getD j 0).length := by
  obtain ⟨jds0, _, s, f, e⟩ := coverJds_eq h
  rw [e] at hj
  cases hj
  rw [colsum_map_sizes jds0 (motifSizes cover) hjl, s.1]
  have hmem : (motifSizes cover).getD j 0 ∈ motifSizes cover := by
    simp [List.getD_eq_getElem?_getD, List.getElem?_eq_getElem hjl]
  obtain ⟨q, hq, hlen⟩ := mem_motifSizes.1 hmem
  have := (h.clique_ok q hq).1
  simp only [f]
  rw [show (motifSizes cover).getD j 0 - 1 + 1 = (motifSizes cover).getD j 0 by omega]
  exact sum_cliqueCount cover _ (fun q hq => (h.clique_ok q hq).2.2)

/-- 7'. in particular every column sum is divisible by its clique size -/
theorem cover_handshake_dvd (h : Contiguous cover z n) {jds : List (List Nat)}
    (hj : coverJds cover = some jds) {j : Nat} (hjl : j < (motifSizes cover).length) :
    (motifSizes cover).getD j 0 ∣ (jds.map (·.getD j 0)).sum :=
  ⟨_, cover_handshake h hj hjl⟩

/-- 4–7 in one statement -/
theorem cover_spec (h : Contiguous cover z n) :
    ∃ jds, coverJds cover = some jds ∧ coverJdd cover = some (empirical jds) ∧ jds.length = n ∧
      (∀ r ∈ jds, r.length = (motifSizes cover).length) ∧
      (∀ v j, z ≤ v → v < z + n → j < (motifSizes cover).length →
        (jds.getD (v - z) []).getD j 0 = cliqueCount cover ((motifSizes cover).getD j 0) v) ∧
      ∀ j, j < (motifSizes cover).length →
        (jds.map (·.getD j 0)).sum =
          (motifSizes cover).getD j 0 *
            (cover.filter fun c => c.length = (motifSizes cover).getD j 0).length := by
  obtain ⟨jds, e, hl, hr⟩ := cover_columns h
  exact ⟨jds, e, cover_jdd e, hl, hr, fun v j h1 h2 h3 => cover_counts h e h1 h2 h3,
    fun j hj => cover_handshake h e hj⟩

/-! ### non-vacuity -/

/-- sizes {2,5} (non-adjacent), ids 1..6 (1-based): columns are (size 2, size 5) -/
example : coverJds [[1, 2, 3, 4, 5], [5, 6], [1, 6]] =
    some [[1, 1], [0, 1], [0, 1], [0, 1], [1, 1], [2, 0]] := by decide +kernel

example : motifSizes [[1, 2, 3, 4, 5], [5, 6], [1, 6]] = [2, 5] := by decide

example : countAll 1 [[1, 2, 3, 4, 5], [5, 6], [1, 6]] (List.replicate 6 (List.replicate 5 0)) =
    some [[0, 1, 0, 0, 1], [0, 0, 0, 0, 1], [0, 0, 0, 0, 1], [0, 0, 0, 0, 1], [0, 1, 0, 0, 1],
      [0, 2, 0, 0, 0]] := by decide +kernel

example : Contiguous [[1, 2, 3, 4, 5], [5, 6], [1, 6]] 1 6 := by
  refine ⟨Or.inr rfl, by omega, by decide, by decide, ?_⟩
  intro v
  simp only [List.mem_cons, List.not_mem_nil, or_false, exists_eq_or_imp, exists_eq_left]
  omega

/-- 0-based ids, a vertex in two triangles -/
example : Contiguous [[0, 1, 2], [2, 3, 4], [0, 4]] 0 5 := by
  refine ⟨Or.inl rfl, by omega, by decide, by decide, ?_⟩
  intro v
  simp only [List.mem_cons, List.not_mem_nil, or_false, exists_eq_or_imp, exists_eq_left]
  omega

example : coverJds [[0, 1, 2], [2, 3, 4], [0, 4]] =
    some [[1, 1], [0, 1], [0, 2], [0, 1], [1, 1]] := by decide +kernel

/-- without contiguity the loader can raise: ids {1, 3} give two rows but row index 2 -/
example : coverJds [[1, 3]] = none := by decide +kernel

end Gcmpy.Cover
