import GcmpyModel.Properties.C14
import GcmpyModel.Properties.C13
import GcmpyModel.Lemmas.EECC
/-!
# C14 (continuation) — "summing a mixing matrix over its second index", for ALL mixing matrices

`row_sums_over_matrix` (C14) needs the key list `ks` handed to the row-sum routine to contain both halves of every
matrix key; `split_keys_spec` (C13) says that the key list the code computes for itself
(`JointExcessJointDegreeMatrices.get_excess_degree_keys`, modelled by `Mixing.splitKeys`) is exactly the set of those halves.
Together: for an arbitrary hand-made matrix — not symmetric, any subset of the ordered pairs stored — whose keys are
`2T`-tuples, the code's row sums are the matrix summed over its second index.  (This is the statement the harness
checks on its hand-made matrices, C14 kind "matrix".)
-/
namespace Gcmpy.Algebra
open Gcmpy Gcmpy.Loaders

theorem split_keys_nodup (ejk : Table) : (Mixing.splitKeys ejk).Nodup := by
  unfold Mixing.splitKeys
  exact Gcmpy.EECC.nodup_eraseDups _

/-- every half listed by `Mixing.splitKeys` of a matrix with `2T`-tuple keys is a `T`-tuple -/
theorem split_keys_length (ejk : Table) (T : Nat) (hT : ∀ k ∈ Dict.keys ejk, k.length = 2 * T)
    (h : JD) (hh : h ∈ Mixing.splitKeys ejk) : h.length = T := by
  obtain ⟨p, hp, hcase⟩ := (Mixing.split_keys_spec ejk h).1 hh
  have hk : p.1.length = 2 * T := hT p.1 (by unfold Dict.keys; exact List.mem_map_of_mem hp)
  rcases hcase with rfl | rfl
  · rw [List.length_take, hk]; omega
  · rw [List.length_drop, hk]; omega

/-- for ANY matrix with distinct `2T`-tuple keys, the row sum the code forms over its own key list is the sum of the
    matrix entries whose first half is `a` -/
theorem row_sums_any_matrix (ejk : Table) (T : Nat) (a : JD) (hne : (Dict.keys ejk).Nodup)
    (hT : ∀ k ∈ Dict.keys ejk, k.length = 2 * T) (ha : a ∈ Mixing.splitKeys ejk) :
    ((Mixing.splitKeys ejk).map fun b => (Dict.get ejk (a ++ b)).getD 0).sum =
      ((ejk.filter fun kv => decide (kv.1.take T = a)).map (·.2)).sum := by
  refine row_sums_over_matrix ejk (Mixing.splitKeys ejk) T a (split_keys_nodup ejk) hne
    (fun k hk => split_keys_length ejk T hT k hk) ?_ ha
  intro k hk
  unfold Dict.keys at hk
  obtain ⟨p, hp, rfl⟩ := List.mem_map.1 hk
  refine ⟨p.1.take (p.1.length / 2), ?_, p.1.drop (p.1.length / 2), ?_, (List.take_append_drop _ _).symm⟩
  · exact (Mixing.split_keys_spec ejk _).2 ⟨p, hp, Or.inl rfl⟩
  · exact (Mixing.split_keys_spec ejk _).2 ⟨p, hp, Or.inr rfl⟩

/-- non-vacuity: an asymmetric matrix storing one entry per unordered pair; the tuple `[2, 2]` occurs only as a second half -/
def upper : Table := [([0, 3, 0, 3], 1 / 4), ([0, 3, 2, 2], 1 / 2), ([1, 1, 0, 3], 1 / 4)]

example : Mixing.splitKeys upper = [[0, 3], [2, 2], [1, 1]] := by decide +kernel
example : ((Mixing.splitKeys upper).map fun b => (Dict.get upper ([0, 3] ++ b)).getD 0).sum = 3 / 4 := by decide +kernel
example : (Dict.keys upper).Nodup ∧ ∀ k ∈ Dict.keys upper, k.length = 2 * 2 := by decide +kernel

end Gcmpy.Algebra
