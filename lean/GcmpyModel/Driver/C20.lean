import GcmpyModel.Driver.Util
import GcmpyModel.Model.DrawSet
open Lean
namespace Gcmpy.Driver.C20
open Gcmpy.DrawSet Gcmpy.Driver

abbrev E := List Int

def stateJson (s : St E) (univ : List E) : Json :=
  obj [("edges", toJson s.edges),
       ("map", toJson (univ.filterMap (fun x => (s.map x).map (fun i => (x, i)))))]

/-- request: {"op":"c20","universe":[[..],..],"ops":[["add",e],["remove",e],["draw",i],["contains",e],["len"],["iter"]]}
    reply: per operation its result and the full state afterwards. -/
def handle (j : Json) : R Json := do
  let univ ← fieldAs (List E) j "universe"
  let ops ← fieldAs (Array Json) j "ops"
  let mut s : St E := empty
  let mut out : Array Json := #[]
  for o in ops do
    let a ← o.getArr?
    let name ← (a[0]!).getStr?
    let mut res : Json := Json.null
    match name with
    | "add" =>
      let e ← fromJson? (α := E) a[1]!
      s := add s e
    | "remove" =>
      let e ← fromJson? (α := E) a[1]!
      match remove s e with
      | none => res := Json.str "KeyError"
      | some s' => s := s'
    | "draw" =>
      let i ← fromJson? (α := Nat) a[1]!
      match draw s i with
      | none => res := Json.str "IndexError"
      | some x => res := toJson x
    | "contains" =>
      let e ← fromJson? (α := E) a[1]!
      res := toJson (contains s e)
    | "len" => res := toJson (len s)
    | "iter" => res := toJson (iter s)
    | _ => throw s!"bad op {name}"
    out := out.push (obj [("res", res), ("state", stateJson s univ)])
  return obj [("steps", Json.arr out)]

end Gcmpy.Driver.C20
