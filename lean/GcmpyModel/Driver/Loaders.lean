import GcmpyModel.Driver.Util
import GcmpyModel.Model.Loaders
import GcmpyModel.Model.SplitDegree
import GcmpyModel.Model.Cover
open Lean
namespace Gcmpy.Driver.Loaders
open Gcmpy.Loaders Gcmpy.Driver

def tableJson (t : Table) : Json := Json.arr (t.map fun (k, v) => Json.arr #[toJson k, ratJson v]).toArray

def exceptTable : Except Err Table → Json
  | .ok t => obj [("table", tableJson t)]
  | .error _ => obj [("exc", Json.str "ZeroDivisionError")]

/-- a callable Nat → Rat given as a finite table (0 elsewhere) -/
def natFun (j : Json) : R (Nat → Rat) := do
  let a ← j.getArr?
  let ps ← a.toList.mapM fun e => do
    let pr ← e.getArr?
    let k ← fromJson? (α := Nat) pr[0]!
    let v ← jsonRat pr[1]!
    pure (k, v)
  pure fun k => match ps.find? (·.1 = k) with | some p => p.2 | none => 0

def jdFun (j : Json) : R (JD → Rat) := do
  let a ← j.getArr?
  let ps ← a.toList.mapM fun e => do
    let pr ← e.getArr?
    let k ← fromJson? (α := List Nat) pr[0]!
    let v ← jsonRat pr[1]!
    pure (k, v)
  pure fun k => match ps.find? (·.1 = k) with | some p => p.2 | none => 0

def ratList (j : Json) : R (List Rat) := do (← j.getArr?).toList.mapM jsonRat

def c06 (j : Json) : R Json := do
  let kind ← fieldAs String j "kind"
  match kind with
  | "manual" =>
    let a ← (← field j "jdd").getArr?
    let t ← a.toList.mapM fun e => do
      let pr ← e.getArr?
      pure ((← fromJson? (α := List Nat) pr[0]!), (← jsonRat pr[1]!))
    pure <| obj [("table", tableJson (manual t))]
  | "empirical" =>
    let jds ← fieldAs (List (List Nat)) j "jds"
    pure <| obj [("table", tableJson (empirical jds))]
  | "marginal" =>
    let fsJ ← (← field j "fs").getArr?
    let fs ← fsJ.toList.mapM natFun
    let bounds ← fieldAs (List (Nat × Nat)) j "bounds"
    pure <| exceptTable (marginalDirect fs bounds)
  | "marginal_sampled" =>
    let fsJ ← (← field j "fs").getArr?
    let fs ← fsJ.toList.mapM natFun
    let bounds ← fieldAs (List (Nat × Nat)) j "bounds"
    let n ← fieldAs Nat j "n"
    let cols ← fieldAs (List (List Nat)) j "cols"
    let calls := sampledCalls fs bounds n
    pure <| obj [("table", tableJson (marginalSampled cols)),
                 ("calls", Json.arr (calls.map fun (ks, ws, k) =>
                    Json.arr #[toJson ks, Json.arr (ws.map ratJson).toArray, toJson k]).toArray)]
  | "function" =>
    let fp ← jdFun (← field j "fp")
    let bounds ← fieldAs (List (Nat × Nat)) j "bounds"
    pure <| obj [("table", tableJson (functionLoader fp bounds))]
  | _ => throw s!"bad kind {kind}"

def c07 (j : Json) : R Json := do
  let kind ← fieldAs String j "kind"
  let fp ← natFun (← field j "fp")
  let probs ← ratList (← field j "probs")
  let lo ← fieldAs Nat j "lo"
  let hi ← fieldAs Nat j "hi"
  match kind with
  | "split" => pure <| exceptTable (SplitDegree.splitDegree fp probs lo hi)
  | "delta" =>
    let target ← fieldAs Nat j "target"
    let ntop ← fieldAs Nat j "ntop"
    pure <| exceptTable (SplitDegree.delta ntop fp probs lo hi target)
  | "splits" =>
    pure <| obj [("splits", toJson (SplitDegree.validSplits lo probs.length))]
  | _ => throw s!"bad kind {kind}"

def c08 (j : Json) : R Json := do
  let cover ← fieldAs (List (List Nat)) j "cover"
  match Cover.coverJds cover with
  | none => pure <| obj [("exc", Json.str "raises"), ("motif_sizes", toJson (Cover.motifSizes cover))]
  | some jds => pure <| obj [("jds", toJson jds), ("motif_sizes", toJson (Cover.motifSizes cover)),
                             ("table", tableJson (empirical jds))]

end Gcmpy.Driver.Loaders
