import GcmpyModel.Driver.Mix
import GcmpyModel.Model.MCMC
open Lean
namespace Gcmpy.Driver.C11
open Gcmpy Gcmpy.MCMC Gcmpy.Graph Gcmpy.Driver Gcmpy.Driver.Mix Gcmpy.Driver.Loaders

def edgeKeyLt (a b : Edge × Attr) : Bool := a.1.1 < b.1.1 || (a.1.1 = b.1.1 && a.1.2 < b.1.2)

def netEdgesJson (G : Net) : Json :=
  Json.arr ((G.edges.toArray.qsort edgeKeyLt).map fun (e, a) => Json.arr #[toJson e.1, toJson e.2, Json.str a.top, toJson a.mid])

def parseNet (j : Json) : R Net := do
  let jd ← fieldAs (List (Nat × List Nat)) j "jd"
  let ea ← (← field j "edges").getArr?
  let edges ← ea.toList.mapM fun e => do
    let t ← e.getArr?
    let a ← fromJson? (α := Nat) t[0]!
    let b ← fromJson? (α := Nat) t[1]!
    pure (normE (a, b), ({ top := ← t[2]!.getStr?, mid := ← fromJson? (α := Nat) t[3]! } : Attr))
  pure { jd := jd, edges := edges }

def sameSet (a b : List Edge) : Bool := a.all (· ∈ b) && b.all (· ∈ a) && a.length = b.length

def decisionStr : Decision → String
  | .accept => "accept" | .reject => "reject" | .raiseDivZero => "raise-divide-by-zero" | .raiseIndex => "raise-index"

/-- {"op":"c11","jd":..,"edges":..,"names":[..],"target":[[name,table]..],
     "steps":[{"u0":..,"v0":..,"e0s":[[u0,u1]..],"e1s":[[v0,v1]..],"r":"p/q"}..]} -/
def handle (j : Json) : R Json := do
  let net ← parseNet j
  let names ← fieldAs (List String) j "names"
  let target ← parseNamed parseTable (← field j "target")
  let steps ← fieldAs (Array Json) j "steps"
  let mut G := net
  let mut out : Array Json := #[]
  let mut alive := true
  for s in steps do
    if alive then
      let u0 ← fieldAs Nat s "u0"
      let v0 ← fieldAs Nat s "v0"
      let e0s ← fieldAs (List (Nat × Nat)) s "e0s"
      let e1s ← fieldAs (List (Nat × Nat)) s "e1s"
      let r ← jsonRat (← field s "r")
      let m0 := (e0s.head?.bind fun e => attrOf G e.1 e.2).map (·.mid)
      let m1 := (e1s.head?.bind fun e => attrOf G e.1 e.2).map (·.mid)
      let cornerOk := match m0, m1 with
        | some a, some b => sameSet e0s (corner G u0 a) && sameSet e1s (corner G v0 b)
        | _, _ => false
      let suit := suitable G u0 v0 e0s e1s
      let (d, Gp) := stepNet G names target u0 v0 e0s e1s r
      -- if the implementation's observed result equals the INTENDED attribute assignment (known finding repaired),
      -- follow that one: both are accepted by the correspondence, the oracle tells them apart
      let implAfter : Option Json := (s.getObjVal? "after_impl").toOption
      let Gf := if d == .accept then applySwapFixed G u0 v0 e0s e1s else none
      let useFixed := match implAfter, Gf, Gp with
        | some ja, some gf, some gp => (netEdgesJson gf == ja) && !(netEdgesJson gp == ja)
        | some ja, some gf, none => netEdgesJson gf == ja
        | _, _, _ => false
      let G' := if useFixed then Gf else Gp
      match G' with
      | none =>
        out := out.push (obj [("corner_ok", toJson cornerOk), ("suitable", toJson suit), ("decision", Json.str (decisionStr d)),
                              ("after", Json.str "raise-edge-present")])
        alive := false
      | some G'' =>
        out := out.push (obj [("corner_ok", toJson cornerOk), ("suitable", toJson suit), ("decision", Json.str (decisionStr d)),
                              ("after", netEdgesJson G'')])
        G := G''
        if d == .raiseDivZero || d == .raiseIndex then alive := false
  pure <| obj [("steps", Json.arr out)]

end Gcmpy.Driver.C11
