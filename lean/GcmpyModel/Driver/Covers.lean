import GcmpyModel.Driver.Util
import GcmpyModel.Model.EECC
open Lean
namespace Gcmpy.Driver.Covers
open Gcmpy Gcmpy.Graph Gcmpy.MPCC Gcmpy.EECC Gcmpy.Driver

def sortLists (l : List (List Nat)) : List (List Nat) := l.foldr insertKey []

/-- {"op":"c10","edges":[[u,v]..],"nodes":[..],"max_size":k,"L":[[..]..]} -/
def c10 (j : Json) : R Json := do
  let edges ← fieldAs (List (Nat × Nat)) j "edges"
  let nodes ← fieldAs (List Nat) j "nodes"
  let maxSize ← fieldAs Nat j "max_size"
  let L ← fieldAs (List (List Nat)) j "L"
  let res := mpcc edges maxSize L
  let ac := allCliques edges nodes
  -- `EnumeratesUpTo`: only cliques, and every clique within the size limit is listed
  let contract := (ac.all fun c => (maxSize > 0 && c.length > maxSize) || L.any fun d => sortNat d = sortNat c)
    && (L.all fun d => ac.any fun c => sortNat d = sortNat c)
  pure <| obj [("labels", Json.arr (res.map fun (e, l) => Json.arr #[toJson e,
                  match l with | none => Json.null | some l => Json.arr #[toJson l.size, toJson l.members, toJson l.id]]).toArray),
               ("cover", toJson (cover edges maxSize L)), ("enumerate_all_cliques_contract", toJson contract)]

/-- {"op":"c09","edges":[[u,v]..],"nodes":[..],"m0":k,"picks":[[..]..]} -/
def c09 (j : Json) : R Json := do
  let edges ← fieldAs (List (Nat × Nat)) j "edges"
  let nodes ← fieldAs (List Nat) j "nodes"
  let m0 ← fieldAs Nat j "m0"
  let picks ← fieldAs (List (List Nat)) j "picks"
  let kind := fieldD String j "kind" "run"
  if kind = "lmc" then
    pure <| obj [("lmc", toJson (lmc edges nodes m0)), ("maximal", toJson (sortLists (maximalCliques edges nodes)))]
  else
    -- replay step by step, recording whether each pick was allowed and whether it was a heuristic candidate
    let mut s := init edges nodes m0
    let mut ok := true
    let mut inCand : List Bool := []
    let mut trace : List Json := [obj [("C", toJson s.C), ("EC", toJson s.EC), ("edges_left", toJson s.g.length)]]
    for p in picks do
      if ok then
        inCand := inCand ++ [decide (p ∈ candidates s)]
        match step nodes m0 s p with
        | none => ok := false
        | some s' =>
          s := s'
          trace := trace ++ [obj [("C", toJson s.C), ("EC_len", toJson s.EC.length), ("edges_left", toJson s.g.length)]]
    let finished := ok && s.g.isEmpty
    pure <| obj [("picks_allowed", toJson ok), ("finished", toJson finished), ("cover", toJson (sortLists s.EC)),
                 ("picks_in_candidates", toJson inCand), ("trace", Json.arr trace.toArray),
                 ("init_lmc", toJson (lmc edges nodes m0))]

end Gcmpy.Driver.Covers
