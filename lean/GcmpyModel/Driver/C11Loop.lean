import GcmpyModel.Driver.C11
import GcmpyModel.Model.Rewire
open Lean
namespace Gcmpy.Driver.C11Loop
open Gcmpy Gcmpy.MCMC Gcmpy.Rewire Gcmpy.Graph Gcmpy.Driver Gcmpy.Driver.Mix Gcmpy.Driver.C11

def outcomeStr : Outcome → String
  | .done => "done" | .exhausted => "exhausted" | .notMember => "draw-not-member" | .badCorner => "bad-corner"
  | .keyError => "raise-keyerror" | .raisedIndex => "raise-index" | .raisedDivZero => "raise-divide-by-zero"
  | .raisedEdgePresent => "raise-edge-present" | .raisedRemove => "raise-remove" | .raisedCount => "raise-edge-count"
  | .missingUniform => "missing-uniform"

def edgesJson (es : List Edge) : Json := Json.arr (es.toArray.map fun e => Json.arr #[toJson e.1, toJson e.2])

def resultJson (r : Result) : Json :=
  obj [("outcome", Json.str (outcomeStr r.outcome)),
       ("count", toJson r.st.count),
       ("draws_left", toJson r.drawsLeft),
       ("rs_left", toJson r.rsLeft),
       ("final", netEdgesJson r.st.G),
       ("set", edgesJson ((DrawSet.iter r.st.S).toArray.qsort (fun a b => a.1 < b.1 || (a.1 = b.1 && a.2 < b.2))).toList),
       ("trace", Json.arr (r.trace.toArray.map fun t =>
          obj [("u0", toJson t.u0), ("v0", toJson t.v0), ("e0s", edgesJson t.e0s), ("e1s", edgesJson t.e1s),
               ("used_r", toJson t.r.isSome), ("decision", Json.str (decisionStr t.d))]))]

/-- the whole-loop replay: network, names and target from the `c11` request `j`; limits and the script from its "loop" member
     {"climit":n,"slimit":n,"draws":[{"e":[a,b],"given":[[u,w]..]}..],"rs":["p/q" | null ..]}  (one entry per proposal)
    →  the run as coded and with the intended assignment -/
def loopReply (j l : Json) : R Json := do
  let net ← C11.parseNet j
  let names ← fieldAs (List String) j "names"
  let target ← parseNamed parseTable (← field j "target")
  let climit ← fieldAs Nat l "climit"
  let slimit ← fieldAs Nat l "slimit"
  let draws ← fieldAs (Array Json) l "draws"
  let evs ← draws.toList.mapM fun d => do
    let e ← fieldAs (Nat × Nat) d "e"
    let g ← fieldAs (List (Nat × Nat)) d "given"
    pure ({ e := e, given := g } : DrawEv)
  let rsj ← fieldAs (Array Json) l "rs"
  let rs ← rsj.toList.mapM fun r => if r.isNull then pure none else do pure (some (← jsonRat r))
  let run (fixed : Bool) : Result :=
    rewire { names := names, target := target, climit := climit, slimit := slimit, fixed := fixed } net evs rs
  pure <| obj [("coded", resultJson (run false)), ("fixed", resultJson (run true))]

/-- op "c11": the per-proposal replay of Driver/C11.lean, plus the whole-loop replay when the request has a "loop" member -/
def handle (j : Json) : R Json := do
  let a ← C11.handle j
  match j.getObjVal? "loop" with
  | .ok l => pure (a.setObjVal! "loop" (← loopReply j l))
  | .error _ => pure a

end Gcmpy.Driver.C11Loop
