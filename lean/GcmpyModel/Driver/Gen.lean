import GcmpyModel.Driver.Util
import GcmpyModel.Model.Generate
open Lean
namespace Gcmpy.Driver.Gen
open Gcmpy.Generate Gcmpy.Driver

/-- library of build callbacks that exist verbatim on both sides (harness/props/gen_common.py) -/
def shape (name : String) (vs : List Nat) : List (Nat × Nat) :=
  let g := fun i => vs.getD i 0
  match name with
  | "clique" => cliqueMotif vs
  | "simple" => (cliqueMotif vs).filter fun e => e.1 != e.2
  | "cycle" => (cycleMotif vs).getD []
  | "diamond" => (diamondMotif vs).getD []
  | "path" => vs.zip vs.tail
  | "star" => vs.tail.map fun y => (g 0, y)
  | "single" => [(g 0, g 1)]
  | "two" => [(g 0, g 1), (g 1, g 2)]
  | "diamond5" => [(g 0, g 1), (g 1, g 2), (g 2, g 3), (g 3, g 1), (g 0, g 2)]
  | "pentagon" => [(g 0, g 1), (g 1, g 2), (g 2, g 3), (g 3, g 4), (g 0, g 4), (g 1, g 3)]
  | _ => []

def builtOf (name : String) (vs : List Nat) : Built :=
  if name = "bare" then .bare (vs.getD 0 0) (vs.getD 1 0) else .edges (shape name vs)

def cellJson : Cell → Json
  | .name s => Json.str s
  | .tuple l => toJson l

def namedOf (j : Json) : R Named :=
  match j with
  | .str s => pure (.single s)
  | _ => do pure (.many (← fromJson? j))

def motifJson {β : Type} (m : Motif β) : Json :=
  obj [("top", toJson m.top), ("id", toJson m.id), ("verts", toJson m.verts)]

def handle (j : Json) : R Json := do
  let kind ← fieldAs String j "kind"
  let jds ← fieldAs (List (List Nat)) j "jds"
  let sizes ← fieldAs (List Nat) j "sizes"
  let draws ← fieldAs (List (List Nat)) j "draws"
  let builds ← fieldAs (Array String) j "builds"
  let σ := shuffled jds draws
  let valid := (List.range (ncols jds)).all fun k =>
    Shuffle.validB (stubs jds k).length (draws.getD k [])
  match kind with
  | "fast" =>
    let names ← fieldAs (Array String) j "names"
    let build := fun k vs => shape (builds.getD k "") vs
    let ms := motifsFast sizes build σ
    let el := edgeListFast (fun k => names.getD k "") ms jds
    pure <| obj [("edges", toJson el.edges), ("topologies", toJson el.topologies), ("motif_id", toJson el.motifId),
                 ("jds", toJson el.jointDegrees), ("motifs", toJson (ms.map motifJson)), ("shuffled", toJson σ),
                 ("draws_valid", toJson valid)]
  | "custom" =>
    let namesJ ← fieldAs (Array Json) j "names"
    let names ← namesJ.mapM namedOf
    let orbits ← fieldAs (List (List Nat)) j "orbits"
    let build := fun k vs => builtOf (builds.getD k "") vs
    match motifsCustom sizes orbits build σ with
    | none => pure <| obj [("exc", Json.str "IndexError"), ("shuffled", toJson σ), ("draws_valid", toJson valid)]
    | some ms =>
      let el := edgeListCustom (fun k => names.getD k (.single "")) ms jds
      pure <| obj [("edges", toJson el.edges), ("topologies", Json.arr (el.topologies.map cellJson).toArray),
                   ("motif_id", toJson el.motifId), ("jds", toJson el.jointDegrees),
                   ("motifs", toJson (ms.map motifJson)), ("shuffled", toJson σ), ("draws_valid", toJson valid)]
  | "many" =>
    -- the same configuration under many draw tuples (C03: whole draw space of a small sequence)
    let sub ← fieldAs String j "sub"
    let drawsList ← fieldAs (List (List (List Nat))) j "draws_list"
    let orbits := fieldD (List (List Nat)) j "orbits" []
    let outs := drawsList.map fun ds =>
      let σ' := shuffled jds ds
      if sub = "fast" then
        toJson ((motifsFast sizes (fun _ _ => ()) σ').map fun m => (m.top, m.verts))
      else
        match motifsCustom sizes orbits (fun _ _ => ()) σ' with
        | none => Json.str "IndexError"
        | some ms => toJson (ms.map fun m => (m.top, m.verts))
    pure <| obj [("outs", Json.arr outs.toArray)]
  | "shuffles" =>
    -- plain shuffles of range(n) under many draw lists
    let n ← fieldAs Nat j "n"
    pure <| obj [("results", toJson (draws.map fun cs => Shuffle.shuffle n (List.range n) cs))]
  | "shuffle" =>
    -- plain `random.shuffle` of range(n) (C03 exhaustive comparison)
    let n ← fieldAs Nat j "n"
    let cs := draws.getD 0 []
    pure <| obj [("result", toJson (Shuffle.shuffle n (List.range n) cs)), ("valid", toJson (Shuffle.validB n cs))]
  | _ => throw s!"bad kind {kind}"

end Gcmpy.Driver.Gen
