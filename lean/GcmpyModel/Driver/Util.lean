import Lean.Data.Json
/-! JSON helpers shared by the driver operations (not part of the model; no theorem mentions them). -/
open Lean
namespace Gcmpy.Driver

abbrev R := Except String

def field (j : Json) (k : String) : R Json := j.getObjVal? k
def fieldAs (α : Type) [FromJson α] (j : Json) (k : String) : R α := do fromJson? (← j.getObjVal? k)
def fieldD (α : Type) [FromJson α] (j : Json) (k : String) (d : α) : α :=
  match j.getObjVal? k with
  | .ok v => match fromJson? v with | .ok a => a | .error _ => d
  | .error _ => d

def obj (kvs : List (String × Json)) : Json := Json.mkObj kvs

/-- exact rationals travel as strings "p/q" (or "p") -/
def ratToString (q : Rat) : String :=
  if q.den = 1 then toString q.num else s!"{q.num}/{q.den}"

def parseRat (s : String) : R Rat :=
  match s.splitOn "/" with
  | [a] => match a.trimAscii.toString.toInt? with
    | some n => pure (n : Rat)
    | none => throw s!"bad rational {s}"
  | [a, b] => match a.trimAscii.toString.toInt?, b.trimAscii.toString.toNat? with
    | some n, some d => if d = 0 then throw s!"zero denominator {s}" else pure ((n : Rat) / (d : Rat))
    | _, _ => throw s!"bad rational {s}"
  | _ => throw s!"bad rational {s}"

def ratJson (q : Rat) : Json := Json.str (ratToString q)
def jsonRat (j : Json) : R Rat := do
  match j with
  | .str s => parseRat s
  | .num n => if n.exponent = 0 then pure (n.mantissa : Rat) else throw "non-integer number; send rationals as strings"
  | _ => throw "expected rational"

end Gcmpy.Driver
