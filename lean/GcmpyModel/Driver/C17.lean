import GcmpyModel.Driver.Util
import GcmpyModel.Model.MessagePassing
import GcmpyModel.Model.LabelParse
open Lean
namespace Gcmpy.Driver.C17
open Gcmpy Gcmpy.MessagePassing Gcmpy.Driver

def parseNet (j : Json) : R Net := do
  let nodes ← fieldAs (List Nat) j "nodes"
  let ea ← (← field j "edges").getArr?
  let edges ← ea.toList.mapM fun e => do
    let t ← e.getArr?
    let lab := t[2]!
    -- a cover label as the graph stores it (a string, read by the model of the mixin's parser) or already parsed
    let l : Label ← match lab.getStr? with
      | .ok s =>
        let cs := s.toList
        match LabelParse.verticesInMotif cs, LabelParse.edgesInMotif cs, LabelParse.motifID cs with
        | some vs, some es, some i => pure ({ verts := vs, edges := es, id := i } : Label)
        | _, _, _ => throw s!"cover label outside the modelled grammar: {s}"
      | .error _ =>
        pure ({ verts := ← fieldAs (List Nat) lab "verts", edges := ← fieldAs (List (Nat × Nat)) lab "edges",
                id := ← fieldAs Nat lab "id" } : Label)
    pure ((← fromJson? (α := Nat) t[0]!), (← fromJson? (α := Nat) t[1]!), l)
  pure { nodes := nodes, edges := edges }

def handle (j : Json) : R Json := do
  let net ← parseNet j
  let it ← fieldAs Nat j "iterations"
  let mode := fieldD String j "mode" "exact"
  if mode = "float" then
    let φ ← fieldAs Float j "phi"
    pure <| obj [("value_bits", toJson (theoreticalFloat net it φ).toBits.toNat)]
  else
    let φs ← (← (← field j "phis").getArr?).toList.mapM jsonRat
    let vals := φs.map fun φ => match theoretical net it φ with
      | none => Json.str "ZeroDivisionError"
      | some v => ratJson v
    let H := finalH net it (φs.headD 0) (1/2 : Rat)
    pure <| obj [("values", Json.arr vals.toArray),
                 ("H", Json.arr (H.map fun ((v, m), x) => Json.arr #[toJson v, toJson m, ratJson x]).toArray)]

/-- {"op":"c17_labels","labels":[str..]} → per label the four accessors of the mixin (null = the call raises) -/
def labels (j : Json) : R Json := do
  let ls ← fieldAs (List String) j "labels"
  let optJ {α : Type} (f : α → Json) : Option α → Json := fun o => match o with | none => Json.null | some x => f x
  pure <| obj [("parsed", Json.arr (ls.map fun s =>
    let cs := s.toList
    obj [("key", optJ toJson (LabelParse.motifTopology cs)), ("id", optJ toJson (LabelParse.motifID cs)),
         ("verts", optJ toJson (LabelParse.verticesInMotif cs)),
         ("edges", optJ (fun es => Json.arr (es.toArray.map fun e => Json.arr #[toJson e.1, toJson e.2]))
                     (LabelParse.edgesInMotif cs))]).toArray)]

end Gcmpy.Driver.C17
