import GcmpyModel.Driver.Util
import GcmpyModel.Model.MessagePassing
open Lean
namespace Gcmpy.Driver.C17
open Gcmpy Gcmpy.MessagePassing Gcmpy.Driver

def parseNet (j : Json) : R Net := do
  let nodes ← fieldAs (List Nat) j "nodes"
  let ea ← (← field j "edges").getArr?
  let edges ← ea.toList.mapM fun e => do
    let t ← e.getArr?
    let lab := t[2]!
    let l : Label := { verts := ← fieldAs (List Nat) lab "verts", edges := ← fieldAs (List (Nat × Nat)) lab "edges",
                       id := ← fieldAs Nat lab "id" }
    pure ((← fromJson? (α := Nat) t[0]!), (← fromJson? (α := Nat) t[1]!), l)
  pure { nodes := nodes, edges := edges }

def handle (j : Json) : R Json := do
  let net ← parseNet j
  let it ← fieldAs Nat j "iterations"
  let mode := fieldD String j "mode" "exact"
  if mode = "float" then
    let φ ← fieldAs Float j "phi"
    pure <| obj [("value_bits", toJson (theoreticalFloat net it φ).toBits.toNat)]
  else
    let φs ← (← (← field j "phis").getArr?).toList.mapM jsonRat
    let vals := φs.map fun φ => match theoretical net it φ with
      | none => Json.str "ZeroDivisionError"
      | some v => ratJson v
    let H := finalH net it (φs.headD 0) (1/2 : Rat)
    pure <| obj [("values", Json.arr vals.toArray),
                 ("H", Json.arr (H.map fun ((v, m), x) => Json.arr #[toJson v, toJson m, ratJson x]).toArray)]

end Gcmpy.Driver.C17
