import GcmpyModel.Driver.Util
import GcmpyModel.Model.Percolate
open Lean
namespace Gcmpy.Driver.C18
open Gcmpy.Percolate Gcmpy.Graph Gcmpy.Driver

/-- {"op":"c18","nodes":[..],"edges":[[u,v]..],"phi":"p/q","draws":["p/q",..]} -/
def handle (j : Json) : R Json := do
  let nodes ← fieldAs (List Nat) j "nodes"
  let edges ← fieldAs (List (Nat × Nat)) j "edges"
  let φ ← jsonRat (← field j "phi")
  let draws ← (← (← field j "draws").getArr?).toList.mapM jsonRat
  match percolate edges nodes φ draws with
  | none => pure <| obj [("exc", Json.str "IndexError")]
  | some s => pure <| obj [("S", ratJson s), ("kept", toJson (kept edges φ draws)),
                           ("lcc", toJson (lccSize (kept edges φ draws) nodes))]

end Gcmpy.Driver.C18
