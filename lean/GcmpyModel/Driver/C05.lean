import GcmpyModel.Driver.Util
import GcmpyModel.Model.Handshake
open Lean
namespace Gcmpy.Driver.C05
open Gcmpy.Handshake Gcmpy.Driver

/-- {"op":"c05","sizes":[..],"jds":[[..]],"picks":[..]} -/
def handle (j : Json) : R Json := do
  let sizes ← fieldAs (List Nat) j "sizes"
  let jds ← fieldAs (List (List Nat)) j "jds"
  let picks ← fieldAs (List Nat) j "picks"
  pure <| obj [("out", toJson (handshake sizes jds picks)), ("picks_used", toJson (picksUsed sizes jds))]

end Gcmpy.Driver.C05
