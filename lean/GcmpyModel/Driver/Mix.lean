import GcmpyModel.Driver.Loaders
import GcmpyModel.Model.Algebra
open Lean
namespace Gcmpy.Driver.Mix
open Gcmpy.Loaders Gcmpy.Mixing Gcmpy.Algebra Gcmpy.Driver Gcmpy.Driver.Loaders

def parseTable (j : Json) : R Table := do
  let a ← j.getArr?
  a.toList.mapM fun e => do
    let pr ← e.getArr?
    pure ((← fromJson? (α := List Nat) pr[0]!), (← jsonRat pr[1]!))

def parseNamed {α : Type} (f : Json → R α) (j : Json) : R (List (String × α)) := do
  let a ← j.getArr?
  a.toList.mapM fun e => do
    let pr ← e.getArr?
    pure ((← pr[0]!.getStr?), (← f pr[1]!))

def namedJson {α : Type} (f : α → Json) (l : List (String × α)) : Json :=
  Json.arr (l.map fun (n, x) => Json.arr #[Json.str n, f x]).toArray

def parseNet (j : Json) : R ANet := do
  let jd ← fieldAs (List (Nat × List Nat)) j "jd"
  let ea ← (← field j "edges").getArr?
  let edges ← ea.toList.mapM fun e => do
    let t ← e.getArr?
    pure ((← fromJson? (α := Nat) t[0]!), (← fromJson? (α := Nat) t[1]!), (← t[2]!.getStr?))
  pure { jd := jd, edges := edges }

def c13 (j : Json) : R Json := do
  let net ← parseNet j
  let names ← fieldAs (List String) j "names"
  let n ← fieldAs Nat j "calls"
  let calls := callsFrom net names n ⟨[]⟩
  pure <| obj [("calls", Json.arr (calls.map (namedJson tableJson)).toArray),
               ("excess_keys", namedJson toJson (names.zipIdx.map fun (nm, i) => (nm, excessKeys net i))),
               ("overall", tableJson (overallEjk (net.edges.map fun e => (e.1, e.2.1))))]

def optTables : Option (List Table) → Json
  | none => obj [("exc", Json.str "raises")]
  | some ts => obj [("tables", Json.arr (ts.map tableJson).toArray)]

def c14 (j : Json) : R Json := do
  let kind ← fieldAs String j "kind"
  match kind with
  | "averages" =>
    let jdd ← parseTable (← field j "jdd")
    pure <| match averages jdd with
      | none => obj [("exc", Json.str "raises")]
      | some a => obj [("averages", Json.arr (a.map ratJson).toArray)]
  | "excess_from_jdd" =>
    let jdd ← parseTable (← field j "jdd")
    pure <| optTables (excessFromJdd jdd)
  | "invert" =>
    let qks ← parseNamed parseTable (← field j "qks")
    let names ← fieldAs (List String) j "names"
    let common ← fieldAs (List Nat) j "common"
    pure <| match jddFromExcess qks names common with
      | none => obj [("exc", Json.str "raises")]
      | some t => obj [("table", tableJson t)]
  | "excess_from_ejk" =>
    let ejks ← parseNamed parseTable (← field j "ejks")
    let keys ← parseNamed (fun x => fromJson? (α := List (List Nat)) x) (← field j "keys")
    pure <| match excessFromEjk ejks keys with
      | none => obj [("exc", Json.str "raises")]
      | some q => obj [("qks", namedJson tableJson q)]
  | "split_keys" =>
    let ejk ← parseTable (← field j "ejk")
    pure <| obj [("keys", toJson (splitKeys ejk))]
  | "jdd_from_network" =>
    let jds ← fieldAs (List (List Nat)) j "jds"
    pure <| obj [("table", tableJson (jddFromNetwork jds))]
  | _ => throw s!"bad kind {kind}"

end Gcmpy.Driver.Mix
