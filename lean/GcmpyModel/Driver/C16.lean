import GcmpyModel.Driver.C15
import GcmpyModel.Model.ClosedForms
open Lean
namespace Gcmpy.Driver.C16
open Gcmpy Gcmpy.ClosedForms Gcmpy.Automated Gcmpy.Driver Gcmpy.Driver.C15

def handle (j : Json) : R Json := do
  let kind ← fieldAs String j "kind"
  match kind with
  | "clique" =>
    let tau ← fieldAs Nat j "tau"
    let hs := fieldD (List Nat) j "hs" (List.range (tau - 1))
    let v : Poly := cliqueEquation tau pvar (hs.map fun i => uvar i)
    pure <| obj [("poly", polyJson v)]
  | "cycle" =>
    let n ← fieldAs Nat j "n"
    let v : Poly := chordlessCycle n (uvar 0) pvar
    pure <| obj [("poly", polyJson v)]
  | "Qrow" =>
    let n ← fieldAs Nat j "n"
    pure <| obj [("row", toJson ((List.range (n * (n - 1) / 2 + 3)).map fun k => Q n k)),
                 ("gen", toJson ((List.range (n * (n - 1) / 2 + 3)).map fun k => Qgen n k))]
  | "QQ" =>
    let n ← fieldAs Nat j "n"
    pure <| obj [("row", toJson ((List.range (n * (n - 1) / 2 + 1)).map fun k => QQ n k))]
  | "nocg" =>
    let G ← parseMotif j
    let ak ← fieldAs (List Nat) j "ak"
    let i ← fieldAs Nat j "i"
    let k ← fieldAs Nat j "k"
    pure <| obj [("count", toJson (numberOfConnectedGraphs G ak i k))]
  | "omega" =>
    let tau ← fieldAs Nat j "tau"
    pure <| obj [("row", toJson ((List.range tau).map fun k => omega tau k))]
  | _ => throw s!"bad kind {kind}"

end Gcmpy.Driver.C16
