import GcmpyModel.Driver.Util
import GcmpyModel.Model.Network
open Lean
namespace Gcmpy.Driver.C04
open Gcmpy.Network Gcmpy.Driver

def optJ {α : Type} [ToJson α] : Option α → Json
  | none => Json.null
  | some a => toJson a

def netJson (n : Net) : Json :=
  obj [("nodes", toJson n.nodes), ("jd", toJson n.jd),
       ("edges", Json.arr (n.edges.map fun (k, (t, i)) => Json.arr #[toJson k, optJ t, optJ i]).toArray)]

def elJson (e : EL) : Json :=
  obj [("edges", toJson e.edges), ("topologies", toJson e.topologies), ("motif_id", toJson e.motifId),
       ("jds", toJson e.jointDegrees)]

def handle (j : Json) : R Json := do
  let el : EL := { edges := ← fieldAs (List (Nat × Nat)) j "edges",
                   topologies := ← fieldAs (List String) j "topologies",
                   motifId := ← fieldAs (List Nat) j "motif_id",
                   jointDegrees := ← fieldAs (List (List Nat)) j "jds" }
  let net := toNetwork el
  let back := toEdgeList net
  let again := back.map toNetwork
  pure <| obj [("net", netJson net),
               ("back", match back with | none => Json.str "KeyError" | some e => elJson e),
               ("again", match again with | none => Json.null | some n => netJson n)]

end Gcmpy.Driver.C04
