import GcmpyModel.Driver.Util
import GcmpyModel.Model.Distributions
open Lean
namespace Gcmpy.Driver.C19
open Gcmpy.Distributions Gcmpy.Driver

/-- a rational as a decimal string with `digits` digits after the point (truncated), for comparison with floats -/
def ratDecimal (q : Rat) (digits : Nat) : String :=
  let scaled := (q * ((10 ^ digits : Nat) : Rat)).floor
  toString scaled

def handle (j : Json) : R Json := do
  let kind ← fieldAs String j "kind"
  let s ← fieldAs Nat j "s"
  let tol : Rat := 1 / 1000000
  match kind with
  | "zeta" =>
    match zetaTrunc s tol 200000 with
    | none => pure <| obj [("exc", Json.str "no-termination")]
    | some (l, k) => pure <| obj [("K", toJson k), ("scaled_1e18", Json.str (ratDecimal l 18))]
  | "polylog" =>
    let z ← jsonRat (← field j "z")
    match polylogTrunc s z tol 200000 with
    | none => pure <| obj [("exc", Json.str "no-termination")]
    | some (l, k) => pure <| obj [("K", toJson k), ("scaled_1e18", Json.str (ratDecimal l 18))]
  | _ => throw s!"bad kind {kind}"

end Gcmpy.Driver.C19
