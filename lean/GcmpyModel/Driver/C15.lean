import GcmpyModel.Driver.Util
import GcmpyModel.Model.Poly
import GcmpyModel.Model.Automated
open Lean
namespace Gcmpy.Driver.C15
open Gcmpy Gcmpy.Automated Gcmpy.Graph Gcmpy.Driver

def polyJson (p : Poly) : Json :=
  Json.arr (p.terms.map fun (m, c) => Json.arr #[toJson m, ratJson c]).toArray

def sortNat (l : List Nat) : List Nat := (l.toArray.qsort (· < ·)).toList

def parseMotif (j : Json) : R Motif := do
  pure { nodes := ← fieldAs (List Nat) j "nodes", edges := ← fieldAs (List (Nat × Nat)) j "edges" }

/-- p = variable 0, u_v = variable v+1 -/
def pvar : Poly := Poly.var 0
def uvar (v : Nat) : Poly := Poly.var (v + 1)

def handle (j : Json) : R Json := do
  let kind := fieldD String j "kind" "one"
  match kind with
  | "one" =>
    let G ← parseMotif j
    let root ← fieldAs Nat j "root"
    let comps := connectedSubgraphs G root
    let val : Poly := automatedEquation G pvar uvar root
    pure <| obj [("poly", polyJson val),
                 ("components", toJson (comps.map sortNat)),
                 ("combos", toJson (comps.map fun c => (sortNat c, if c.length = 1 then [] else edgeCombinations (inner G c))))]
  | "seq" =>
    let calls ← fieldAs (Array Json) j "calls"
    let mut st : Caches := Caches.empty
    let mut out : Array Json := #[]
    for c in calls do
      let G ← parseMotif c
      let root ← fieldAs Nat c "root"
      let name ← fieldAs String c "name"
      let (st', v) := automatedEquationM (R := Poly) st G name pvar uvar root
      st := st'
      out := out.push (polyJson v)
    pure <| obj [("polys", Json.arr out), ("conn_cache_size", toJson st.conn.length), ("combo_cache_size", toJson st.combos.length)]
  | _ => throw s!"bad kind {kind}"

end Gcmpy.Driver.C15
