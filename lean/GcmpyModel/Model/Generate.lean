import GcmpyModel.Model.Shuffle
/-
Model of the generators:
  gcmpy/gcm_algorithm/gcm_algorithm_fast.py            (`genFast`)
  gcmpy/gcm_algorithm/gcm_algorithm_custom_motifs.py   (`genCustom`)
  gcmpy/gcm_algorithm/gcm_algorithm.py                 (`infinite_sequence` = running counter)
  gcmpy/motif_generators/{clique,cycle,diamond}_motif.py

Randomness: the shuffled stub lists are obtained from the stub lists by `Shuffle.shuffle` on explicit
`randbelow` draws (one draw list per topology).  Build / naming callbacks are parameters.
-/
namespace Gcmpy.Generate

/-- `sum` of column `k` of the joint degree sequence -/
def colSum (jds : List (List Nat)) (k : Nat) : Nat := (jds.map (fun r => r.getD k 0)).sum

/-- `zip(*jds)` has as many columns as the shortest row (none for an empty sequence) -/
def ncols : List (List Nat) → Nat
  | [] => 0
  | [r] => r.length
  | r :: rs => min r.length (ncols rs)

/-- `list(chain.from_iterable(starmap(repeat, enumerate(column k))))`:
    vertex `v` repeated `jds[v][k]` times, vertices in order. -/
def stubsFrom (v0 : Nat) : List (List Nat) → Nat → List Nat
  | [], _ => []
  | r :: rs, k => List.replicate (r.getD k 0) v0 ++ stubsFrom (v0 + 1) rs k

def stubs (jds : List (List Nat)) (k : Nat) : List Nat := stubsFrom 0 jds k

/-- `iteration_utilities.grouper(l, n)` / `partition(l, n)`: consecutive chunks of `n`, the last one
    possibly short.  (`n = 0` raises in Python; the model returns no chunk.) -/
def chunks (n : Nat) (l : List Nat) : List (List Nat) :=
  if _h : n = 0 ∨ l = [] then [] else l.take n :: chunks n (l.drop n)
termination_by l.length
decreasing_by
  have hn : 0 < n := by omega
  have hl : 0 < l.length := by
    cases l with
    | nil => simp at _h
    | cons _ _ => simp
  simp only [List.length_drop]; omega

/-- one motif instance: topology/motif-type index, id, the drawn stubs and what the callback returned -/
structure Motif (β : Type) where
  top   : Nat
  id    : Nat
  verts : List Nat
  built : β
deriving Repr

/-- the shuffled stub lists: `random.shuffle(k_list)` for each topology in order -/
def shuffled (jds : List (List Nat)) (draws : List (List Nat)) : List (List Nat) :=
  (List.range (ncols jds)).map fun k =>
    Shuffle.shuffle (stubs jds k).length (stubs jds k) (draws.getD k [])

/-! ### fast generator -/

/-- all (topology, group) pairs in generation order -/
def groups (sizes : List Nat) (σ : List (List Nat)) : List (Nat × List Nat) :=
  σ.zipIdx.flatMap fun (l, k) => (chunks (sizes.getD k 0) l).map fun c => (k, c)

/-- motif records of the fast generator: one build call per group, ids from the running counter -/
def motifsFast {β : Type} (sizes : List Nat) (build : Nat → List Nat → β) (σ : List (List Nat)) :
    List (Motif β) :=
  (groups sizes σ).zipIdx.map fun ((k, c), id) => ⟨k, id, c, build k c⟩

/-- the three parallel columns + joint degree sequence (`LightWeightEdgeList`) -/
structure EdgeList (ν : Type) where
  edges : List (Nat × Nat)
  topologies : List ν
  motifId : List Nat
  jointDegrees : List (List Nat)
deriving Repr

/-- the three `extend` calls of the fast generator, per motif -/
def edgeListFast {ν : Type} (names : Nat → ν) (ms : List (Motif (List (Nat × Nat)))) (jds : List (List Nat)) :
    EdgeList ν :=
  { edges := ms.flatMap fun m => m.built
    topologies := ms.flatMap fun m => List.replicate m.built.length (names m.top)
    motifId := ms.flatMap fun m => List.replicate m.built.length m.id
    jointDegrees := jds }

def genFast {ν : Type} (sizes : List Nat) (build : Nat → List Nat → List (Nat × Nat)) (names : Nat → ν)
    (jds : List (List Nat)) (draws : List (List Nat)) : EdgeList ν :=
  edgeListFast names (motifsFast sizes build (shuffled jds draws)) jds

/-! ### custom-motif generator -/

/-- what a build callback may return: a bare `(a, b)` pair or a sequence of edges -/
inductive Built where
  | bare (a b : Nat)
  | edges (l : List (Nat × Nat))
deriving Repr, DecidableEq

/-- what a naming callback may return: one name or a sequence of names -/
inductive Named where
  | single (s : String)
  | many (l : List String)
deriving Repr, DecidableEq

/-- a cell of the topology column (normally a name; a whole tuple if a bare edge's naming callback
    returned a tuple, because the code appends the return value as one element) -/
inductive Cell where
  | name (s : String)
  | tuple (l : List String)
deriving Repr, DecidableEq

/-- `partitions[index].pop()` for each orbit of the motif, concatenated; `none` = IndexError -/
def popOrbits : List (List (List Nat)) → List Nat → Option (List Nat × List (List (List Nat)))
  | parts, [] => some ([], parts)
  | parts, i :: is =>
    match parts[i]? with
    | none => none                                   -- IndexError: no such orbit column
    | some p =>
      match p.getLast? with
      | none => none                                 -- IndexError: pop from empty list
      | some c =>
        match popOrbits (parts.set i p.dropLast) is with
        | none => none
        | some (vs, parts') => some (c ++ vs, parts')

/-- the `for k in range(int(num_motifs))` loop of one motif type -/
def instances (orbits : List Nat) : Nat → List (List (List Nat)) →
    Option (List (List Nat) × List (List (List Nat)))
  | 0, parts => some ([], parts)
  | n+1, parts =>
    match popOrbits parts orbits with
    | none => none
    | some (vs, parts') =>
      match instances orbits n parts' with
      | none => none
      | some (rest, parts'') => some (vs :: rest, parts'')

/-- the outer `for j, motif_indexes in enumerate(self._motif_indices)` loop: drawn vertex lists per motif
    type, in order.  `kk = motif_indexes[0]` (IndexError for an empty orbit list),
    `num_motifs = len(stubs[kk]) / sizes[kk]` (ZeroDivisionError for size 0). -/
def drawAll (sizes : List Nat) (σ : List (List Nat)) :
    List (List Nat) → Nat → List (List (List Nat)) → Option (List (Nat × List Nat))
  | [], _, _ => some []
  | orbits :: rest, j, parts =>
    match orbits with
    | [] => none
    | kk :: _ =>
      match σ[kk]?, sizes[kk]? with
      | some l, some sz =>
        if sz = 0 then none else
        match instances orbits (l.length / sz) parts with
        | none => none
        | some (vss, parts') =>
          match drawAll sizes σ rest (j + 1) parts' with
          | none => none
          | some more => some (vss.map (fun vs => (j, vs)) ++ more)
      | _, _ => none

def partitions (sizes : List Nat) (σ : List (List Nat)) : List (List (List Nat)) :=
  σ.zipIdx.map fun (l, i) => chunks (sizes.getD i 0) l

def motifsCustom {β : Type} (sizes : List Nat) (orbitLists : List (List Nat)) (build : Nat → List Nat → β)
    (σ : List (List Nat)) : Option (List (Motif β)) :=
  (drawAll sizes σ orbitLists 0 (partitions sizes σ)).map fun gs =>
    gs.zipIdx.map fun ((j, vs), id) => ⟨j, id, vs, build j vs⟩

/-- the three columns, extended independently exactly as the code does -/
def edgeListCustom (names : Nat → Named) (ms : List (Motif Built)) (jds : List (List Nat)) : EdgeList Cell :=
  { edges := ms.flatMap fun m => match m.built with
      | .bare a b => [(a, b)]
      | .edges l => l
    topologies := ms.flatMap fun m => match m.built, names m.top with
      | .bare _ _, .single s => [Cell.name s]
      | .bare _ _, .many l => [Cell.tuple l]
      | .edges _, .single s => s.toList.map fun c => Cell.name (String.singleton c)
      | .edges _, .many ns => ns.map Cell.name
    motifId := ms.flatMap fun m => match m.built with
      | .bare _ _ => [m.id]
      | .edges l => List.replicate l.length m.id
    jointDegrees := jds }

def genCustom (sizes : List Nat) (orbitLists : List (List Nat)) (build : Nat → List Nat → Built)
    (names : Nat → Named) (jds : List (List Nat)) (draws : List (List Nat)) : Option (EdgeList Cell) :=
  (motifsCustom sizes orbitLists build (shuffled jds draws)).map fun ms => edgeListCustom names ms jds

/-! ### the shipped build callbacks -/

/-- `list(combinations(vertices, 2))` -/
def pairs : List Nat → List (Nat × Nat)
  | [] => []
  | x :: xs => xs.map (fun y => (x, y)) ++ pairs xs

def cliqueMotif (vs : List Nat) : List (Nat × Nat) := pairs vs

/-- `zip(a, b)` of the list with its tail, then `(vertices[0], vertices[-1])`; IndexError on `[]` -/
def cycleMotif (vs : List Nat) : Option (List (Nat × Nat)) :=
  match vs.head?, vs.getLast? with
  | some a, some z => some (vs.zip vs.tail ++ [(a, z)])
  | _, _ => none

/-- `n0, n1, n2, n3 = vertices` (ValueError unless exactly four) -/
def diamondMotif (vs : List Nat) : Option (List (Nat × Nat)) :=
  match vs with
  | [n0, n1, n2, n3] => (cycleMotif vs).map fun es => es ++ [(n0, n2), (n1, n3)]
  | _ => none

end Gcmpy.Generate
