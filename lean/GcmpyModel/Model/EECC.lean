import GcmpyModel.Model.MPCC
/-
Model of `gcmpy/covers/eecc.py` (class EECC; repaired `limited_maximal_cliques`) and the `remove_edge` /
`has_edges` / `find_cliques` helpers of `gcmpy/network/network.py`.

Relational treatment of the heuristic (DESIGN §3.3): a step may pick ANY member of the current list `C` of
non-zero-score cliques; the code's actual choice (`choice` among the largest minimum-score cliques, with
float scores) is an instance.  `nx.find_cliques` is replaced by the brute-force `maximalCliques`
(validated per instance by the harness, order and orientation ignored).
-/
namespace Gcmpy.EECC
open Gcmpy Gcmpy.Graph Gcmpy.Generate Gcmpy.MPCC

def insertSorted (x : Nat) : List Nat → List Nat
  | [] => [x]
  | y :: ys => if x ≤ y then x :: y :: ys else y :: insertSorted x ys

def sortNat (l : List Nat) : List Nat := l.foldr insertSorted []

def isClique (es : List Edge) (c : List Nat) : Bool := (pairs c).all fun e => hasEdge es e.1 e.2

/-- maximal cliques by brute force (each as an ascending list); isolated vertices are singleton cliques -/
def maximalCliques (es : List Edge) (nodes : List Nat) : List (List Nat) :=
  (sublists (sortNat nodes)).filter fun c =>
    c ≠ [] ∧ isClique es c ∧ nodes.all fun v => v ∈ c ∨ ¬ isClique es (v :: c)

/-- lexicographic `<` on vertex lists -/
def lexLt : List Nat → List Nat → Bool
  | [], [] => false
  | [], _ => true
  | _, [] => false
  | a :: as, b :: bs => if a < b then true else if b < a then false else lexLt as bs

/-- key `(-len(x), x)` -/
def keyLt (a b : List Nat) : Bool := if a.length ≠ b.length then a.length > b.length else lexLt a b

def insertKey (x : List Nat) : List (List Nat) → List (List Nat)
  | [] => [x]
  | y :: ys => if keyLt y x then y :: insertKey x ys else x :: y :: ys

/-- `limited_maximal_cliques`: maximal cliques of at most `m0` vertices kept, larger ones replaced by their
    sorted `m0`-subsets; de-duplicated; sorted by `(-len, vertices)` -/
def lmc (es : List Edge) (nodes : List Nat) (m0 : Nat) : List (List Nat) :=
  let raw := (maximalCliques es nodes).flatMap fun c => if c.length > m0 then combinations m0 c else [c]
  (raw.eraseDups).foldr insertKey []

/-- score 0: order ≤ 2, or no pair of `c` lies inside another member of `C` -/
def scoreZero (C : List (List Nat)) (c : List Nat) : Bool :=
  c.length ≤ 2 ∨ (pairs c).all fun e => ¬ C.any fun d => d ≠ c ∧ e.1 ∈ d ∧ e.2 ∈ d

/-- exact score `k / C(order, 2)` as numerator (number of overlapping pairs) — only for the candidate statistic -/
def overlapCount (C : List (List Nat)) (c : List Nat) : Nat :=
  if c.length ≤ 2 then 0 else ((pairs c).filter fun e => C.any fun d => d ≠ c ∧ e.1 ∈ d ∧ e.2 ∈ d).length

/-- remove every pair of every clique of `EC` from the working graph (missing edges are ignored) -/
def removeAll (g : List Edge) (EC : List (List Nat)) : List Edge := EC.foldl removePairs g

structure St where
  g  : List Edge               -- working graph
  EC : List (List Nat)         -- cover so far (append order)
  C  : List (List Nat)         -- cliques with non-zero score from the last scoring
deriving Repr

/-- `C = lmc(); compute_scores(...)`; score-0 cliques go to `EC`; all `EC` edges are removed again -/
def rescore (nodes : List Nat) (m0 : Nat) (dropSingletons : Bool) (g : List Edge) (EC : List (List Nat)) : St :=
  let C0 := lmc g nodes m0
  let C := if dropSingletons then C0.filter fun c => c.length > 1 else C0
  let zero := C.filter (scoreZero C)
  let EC' := EC ++ zero
  { g := removeAll g EC', EC := EC', C := C.filter fun c => ¬ scoreZero C c }

def init (edges : List Edge) (nodes : List Nat) (m0 : Nat) : St := rescore nodes m0 false edges []

/-- one iteration of `while self.has_edges()` with the clique `pick`; `none` if `pick` is not in `C` -/
def step (nodes : List Nat) (m0 : Nat) (s : St) (pick : List Nat) : Option St :=
  if pick ∈ s.C then
    some (rescore nodes m0 true (removePairs s.g pick) (s.EC ++ [pick]))
  else none

/-- replay a pick sequence; `none` = a pick was not allowed, picks ran out while edges remain, or picks are left over -/
def run (nodes : List Nat) (m0 : Nat) : St → List (List Nat) → Option St
  | s, [] => if s.g.isEmpty then some s else none
  | s, p :: ps =>
    if s.g.isEmpty then none else
    match step nodes m0 s p with
    | none => none
    | some s' => run nodes m0 s' ps

/-- the heuristic's own candidate set under exact scores: largest order among the minimum-score members of `C` -/
def candidates (s : St) : List (List Nat) :=
  -- compare scores k/C(order,2) exactly by cross-multiplication
  let all := s.C
  let scoreLe (a b : List Nat) : Bool :=
    overlapCount all a * (b.length * (b.length - 1) / 2) ≤ overlapCount all b * (a.length * (a.length - 1) / 2)
  let mins := all.filter fun a => all.all fun b => scoreLe a b
  let mo := (mins.map List.length).foldl max 0
  mins.filter fun c => c.length = mo

end Gcmpy.EECC
