/-
Executable part of the model of `gcmpy/distributions/power_law.py` and `scale_free_cut_off.py`: the two
`while 1` truncation loops, in exact rational arithmetic, for INTEGER exponents `s` (for which `k**s` is
rational).  The real-number model of all four distributions, for real parameters, is in Properties/C19.lean
(noncomputable, Mathlib).

    l = 0.0; k = 1
    while 1:
        term = 1.0 / k**s            (polylog: term = zk / k**s, then zk *= z)
        l += term
        if abs(term) < tol: break
        k += 1
    return l
-/
namespace Gcmpy.Distributions

/-- the zeta loop; returns (sum, last k); `fuel` bounds the number of iterations (`none` = fuel exhausted) -/
def zetaLoop (s : Nat) (tol : Rat) : Nat → Nat → Rat → Option (Rat × Nat)
  | 0, _, _ => none
  | fuel+1, k, l =>
    let term : Rat := 1 / ((k ^ s : Nat) : Rat)
    let l' := l + term
    if term < tol then some (l', k) else zetaLoop s tol fuel (k + 1) l'

def zetaTrunc (s : Nat) (tol : Rat) (fuel : Nat) : Option (Rat × Nat) := zetaLoop s tol fuel 1 0

/-- the polylogarithm loop for non-negative `z` -/
def polylogLoop (s : Nat) (z tol : Rat) : Nat → Nat → Rat → Rat → Option (Rat × Nat)
  | 0, _, _, _ => none
  | fuel+1, k, zk, l =>
    let term : Rat := zk / ((k ^ s : Nat) : Rat)
    let l' := l + term
    if (if term < 0 then -term else term) < tol then some (l', k) else polylogLoop s z tol fuel (k + 1) (zk * z) l'

def polylogTrunc (s : Nat) (z tol : Rat) (fuel : Nat) : Option (Rat × Nat) := polylogLoop s z tol fuel 1 z 0

end Gcmpy.Distributions
