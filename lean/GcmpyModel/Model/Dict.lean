/-
Python `dict` as an insertion-ordered association list with at most one entry per key:
`set` overwrites in place or appends (insertion order of first assignment is kept), `get` looks up.
-/
namespace Gcmpy.Dict
variable {κ ν : Type} [DecidableEq κ]

def get : List (κ × ν) → κ → Option ν
  | [], _ => none
  | (k', v) :: r, k => if k' = k then some v else get r k

def set : List (κ × ν) → κ → ν → List (κ × ν)
  | [], k, v => [(k, v)]
  | (k', w) :: r, k, v => if k' = k then (k', v) :: r else (k', w) :: set r k v

def keys (d : List (κ × ν)) : List κ := d.map (·.1)

def contains (d : List (κ × ν)) (k : κ) : Bool := (get d k).isSome

/-- `d[k] = f(d.get(k, default))` -/
def update (d : List (κ × ν)) (k : κ) (default : ν) (f : ν → ν) : List (κ × ν) :=
  set d k (f ((get d k).getD default))

end Gcmpy.Dict
