import GcmpyModel.Model.MCMC
/-
Model of the WHOLE of `MarkovChainMonteCarloRewiring.rewire()` (gcmpy/tools/markov_chain_monte_carlo_rewiring.py):
the copy of the network, the drawable edge set built from it, the outer `while convergence_count <= limit` loop,
the inner `while search_count <= search_limit` loop with its `continue` on a topology mismatch and its `break`,
the `if search_count >= search_limit: continue` test, the call of `swap_condition`, the application of an accepted
swap to the graph AND to the drawable edge set, and the edge-count test.

Inputs that the code takes from outside are arguments:
  * each `EdgeSet.draw()` is an event carrying the edge that was drawn (C20: a draw returns a member, every member
    can be drawn) together with the corner list `get_all_edges` built for it, in the order networkx listed it (that
    order is not modelled; the list is VALIDATED against `corner`: `cornerOk`);
  * the uniform numbers of the Metropolis tests are a list with ONE entry per proposal (call of `swap_condition`):
    `some r` = the number in `[0, 1)` the call consumed, `none` = it consumed none.  `none` is legitimate when the call
    returns before its last comparison (`consumesR` false), and also when the ratio is at least one — then every `r`
    in `[0, 1)` gives the same answer, and an implementation that does not spend a number on it samples the same chain;
    `none` on a proposal whose answer depends on `r` is the outcome `missingUniform`.
The drawable edge set is the `DrawSet.St` of Model/DrawSet.lean (C20), driven with the very `add` / `remove` calls
`rewire()` makes, so that the agreement of the set with the graph is a theorem about both models together.

Not modelled: logging; the acceptance-ratio list (it is never appended to: the instance attribute `_proposal_count`
set in `__init__` shadows the class attribute the decorator increments — not part of any property).
-/
namespace Gcmpy.Rewire
open Gcmpy Gcmpy.Graph Gcmpy.MCMC

/-- one `EdgeSet.draw()` and what `get_all_edges` returned for it (`[]` when it was not called) -/
structure DrawEv where
  e : Edge
  given : List Edge
deriving Repr, DecidableEq

structure Cfg where
  names : List String
  target : Target
  climit : Nat                -- `_convergence_limit`
  slimit : Nat                -- `_search_limit`
  fixed : Bool                -- `false`: attribute assignment as coded (known finding); `true`: intended assignment

structure St where
  G : Net
  S : DrawSet.St Edge
  count : Nat                 -- `convergence_count` = accepted swaps so far

/-- one observed proposal -/
structure Rec where
  u0 : Nat
  v0 : Nat
  e0s : List Edge
  e1s : List Edge
  r : Option Rat              -- the uniform number, when one was consumed
  d : Decision
deriving Repr

inductive Outcome where
  | done                      -- the outer loop ended: `convergence_count > limit`
  | exhausted                 -- the script of draws ran out (the run was cut short)
  | notMember                 -- a draw returned something that is not in the drawable set (C20 violated)
  | badCorner                 -- a corner list handed in is not the corner of the graph (correspondence failure)
  | keyError                  -- `G.edges[e]` for a drawn edge that the graph does not have
  | raisedIndex               -- `swap_condition`: IndexError → ErrorMarkovChainMonteCarloRewiring
  | raisedDivZero             -- `swap_condition() divide by zero`
  | raisedEdgePresent         -- `Edge … already present in network!`
  | raisedRemove              -- `EdgeSet.remove` of an absent edge (KeyError)
  | raisedCount               -- edge count not preserved
  | missingUniform            -- a proposal whose outcome depends on the uniform number was decided without one
deriving Repr, DecidableEq

/-- the drawable set as `rewire()` fills it: `for e in G.edges(): EdgeSet.add(tuple(sorted(e)))` -/
def initSet (G : Net) : DrawSet.St Edge :=
  (G.edges.map (·.1)).foldl (fun s e => DrawSet.add s (normE e)) DrawSet.empty

def init (G : Net) : St := { G := G, S := initSet G, count := 0 }

/-- the list handed in for `get_all_edges(G, u, e)` is the corner: non-empty, duplicate-free, oriented away from `u`,
    all of motif id `m`, and containing every edge of `corner G u m` -/
def cornerOk (G : Net) (u m : Nat) (es : List Edge) : Bool :=
  !es.isEmpty && decide es.Nodup &&
  es.all (fun e => e.1 = u && (attrOf G e.1 e.2).map (·.mid) = some m) &&
  (corner G u m).all (fun e => e ∈ es)

/-- does `swap_condition` reach `value > random.random()` ? -/
def consumesR (G : Net) (names : List String) (target : Target) (u0 v0 : Nat) (e0s e1s : List Edge) : Bool :=
  match pairUp G e0s e1s with
  | none => false
  | some ps =>
    match numerator G names target u0 v0 ps 1 with
    | none => false
    | some _ =>
      match denominator G names target (e0s.zip e1s) 1 with
      | none => false
      | some bottom => bottom ≠ 0

/-- the Metropolis ratio `top / bottom`, when `swap_condition` reaches its last comparison -/
def ratioOf (G : Net) (names : List String) (target : Target) (u0 v0 : Nat) (e0s e1s : List Edge) : Option Rat :=
  match pairUp G e0s e1s with
  | none => none
  | some ps =>
    match numerator G names target u0 v0 ps 1 with
    | none => none
    | some top =>
      match denominator G names target (e0s.zip e1s) 1 with
      | none => none
      | some bottom => if bottom = 0 then none else some (top / bottom)

inductive Inner where
  | found (v0 : Nat) (e1s : List Edge) (search : Nat) (rest : List DrawEv)
  | notFound (rest : List DrawEv)          -- the loop condition became false
  | stop (o : Outcome)

/-- the inner `while search_count <= self._search_limit` loop -/
def inner (G : Net) (S : DrawSet.St Edge) (slimit : Nat) (t0 : String) (u0 : Nat) (e0s : List Edge) :
    Nat → List DrawEv → Inner
  | search, [] => if search ≤ slimit then .stop .exhausted else .notFound []
  | search, ev :: rest =>
    if search ≤ slimit then
      if DrawSet.contains S ev.e then
        match attrOf G ev.e.1 ev.e.2 with
        | none => .stop .keyError
        | some a1 =>
          if a1.top ≠ t0 then inner G S slimit t0 u0 e0s search rest            -- `continue`
          else
            let v0 := ev.e.1
            if cornerOk G v0 a1.mid ev.given then
              if suitable G u0 v0 e0s ev.given then .found v0 ev.given search rest   -- `break`
              else inner G S slimit t0 u0 e0s (search + 1) rest
            else .stop .badCorner
      else .stop .notMember
    else .notFound (ev :: rest)

/-- the proposal edges of an accepted swap, in the order `swap_condition` appended them -/
def propsOf (cfg : Cfg) (G : Net) (u0 v0 : Nat) (ps : List (Edge × Edge)) : List (Edge × Option Attr) :=
  if cfg.fixed then proposalsFixed G u0 v0 ps else proposals G u0 v0 ps

def applyGraph (cfg : Cfg) (G : Net) (u0 v0 : Nat) (e0s e1s : List Edge) : Option Net :=
  if cfg.fixed then applySwapFixed G u0 v0 e0s e1s else applySwap G u0 v0 e0s e1s

/-- the drawable set after an accepted swap: `add` every new edge, then `remove` both corners pairwise -/
def applySet (S : DrawSet.St Edge) (news : List Edge) (e0s e1s : List Edge) : Option (DrawSet.St Edge) :=
  let S1 := news.foldl (fun s e => DrawSet.add s (normE e)) S
  (e0s.zip e1s).foldl (fun (acc : Option (DrawSet.St Edge)) (p : Edge × Edge) =>
    match acc with
    | none => none
    | some s =>
      match DrawSet.remove s (normE p.1) with
      | none => none
      | some s' => DrawSet.remove s' (normE p.2)) (some S1)

structure Result where
  st : St
  trace : List Rec
  outcome : Outcome
  drawsLeft : Nat
  rsLeft : Nat

/-- the outer loop; `fuel` bounds the number of iterations (each consumes at least one draw) -/
def outer (cfg : Cfg) : Nat → St → List DrawEv → List (Option Rat) → List Rec → Result
  | 0, st, evs, rs, tr => ⟨st, tr.reverse, .exhausted, evs.length, rs.length⟩
  | fuel + 1, st, evs, rs, tr =>
    let fin (o : Outcome) (evs : List DrawEv) (rs : List (Option Rat)) (tr : List Rec) : Result :=
      ⟨st, tr.reverse, o, evs.length, rs.length⟩
    if st.count ≤ cfg.climit then
      match evs with
      | [] => fin .exhausted [] rs tr
      | ev0 :: evs1 =>
        if DrawSet.contains st.S ev0.e then
          match attrOf st.G ev0.e.1 ev0.e.2 with
          | none => fin .keyError evs1 rs tr
          | some a0 =>
            let u0 := ev0.e.1
            if cornerOk st.G u0 a0.mid ev0.given then
              match inner st.G st.S cfg.slimit a0.top u0 ev0.given 0 evs1 with
              | .stop o => fin o [] rs tr
              | .notFound evs2 => outer cfg fuel st evs2 rs tr
              | .found v0 e1s search evs2 =>
                if search ≥ cfg.slimit then outer cfg fuel st evs2 rs tr        -- found on the last try: discarded
                else
                  let e0s := ev0.given
                  match rs with
                  | [] => fin .exhausted evs2 [] tr             -- the run was cut short inside this proposal
                  | ro :: rs' =>
                    let needs := consumesR st.G cfg.names cfg.target u0 v0 e0s e1s
                    -- no number was drawn although the last comparison is reached: every `r` in `[0, 1)` must give the
                    -- same answer, i.e. the ratio is at least one (then `r := 0` gives that answer: accept)
                    if needs && ro.isNone && !((ratioOf st.G cfg.names cfg.target u0 v0 e0s e1s).any (1 ≤ ·)) then
                      fin .missingUniform evs2 rs' tr
                    else
                    let r : Rat := ro.getD 0
                    let d := swapCondition st.G cfg.names cfg.target u0 v0 e0s e1s r
                    let rec' : Rec := ⟨u0, v0, e0s, e1s, ro, d⟩
                    match d with
                    | .reject => outer cfg fuel st evs2 rs' (rec' :: tr)
                    | .raiseIndex => fin .raisedIndex evs2 rs' (rec' :: tr)
                    | .raiseDivZero => fin .raisedDivZero evs2 rs' (rec' :: tr)
                    | .accept =>
                      match applyGraph cfg st.G u0 v0 e0s e1s with
                      | none => fin .raisedEdgePresent evs2 rs' (rec' :: tr)
                      | some G' =>
                        let news := (propsOf cfg st.G u0 v0 ((pairUp st.G e0s e1s).getD [])).map (·.1)
                        match applySet st.S news e0s e1s with
                        | none => fin .raisedRemove evs2 rs' (rec' :: tr)
                        | some S' =>
                          if G'.edges.length ≠ st.G.edges.length then fin .raisedCount evs2 rs' (rec' :: tr)
                          else outer cfg fuel { G := G', S := S', count := st.count + 1 } evs2 rs' (rec' :: tr)
            else fin .badCorner evs1 rs tr
        else fin .notMember evs1 rs tr
    else ⟨st, tr.reverse, .done, evs.length, rs.length⟩

/-- `rewire()` on network `G` under the script `(evs, rs)` -/
def rewire (cfg : Cfg) (G : Net) (evs : List DrawEv) (rs : List (Option Rat)) : Result :=
  outer cfg (evs.length + 1) (init G) evs rs []

end Gcmpy.Rewire
