import GcmpyModel.Model.Loaders
/-
Model of the mixing-matrix extractors (property C13):
  gcmpy/tools/joint_excess_joint_degree.py          (class JointExcessJointDegree, repaired: the edge-type
                                                     counter is reset at the start of `count_edge_types`)
  gcmpy/tools/joint_excess_degree.py                (JointExcessDegree.get_ejk, plain degrees)
  gcmpy/tools/joint_excess_joint_degree_matrices.py (get_excess_degree_keys)

A network is the list of (node, joint degree) annotations in node order and the list of
(u, v, topology) edges in `G.edges()` order.  Matrix keys are concatenated excess tuples.
`jd[i] - 1` is truncated subtraction: it differs from Python only for an edge of topology `i` at a vertex
annotated with `jd[i] = 0` (inconsistent annotation, outside the property).
-/
namespace Gcmpy.Mixing
open Gcmpy Gcmpy.Loaders

structure ANet where
  jd : List (Nat × JD)
  edges : List (Nat × Nat × String)
deriving Repr

def jdOf (net : ANet) (v : Nat) : JD := (Dict.get net.jd v).getD []

/-- `jd = list(jd); jd[i] -= 1` -/
def excess (jd : JD) (i : Nat) : JD := jd.modify i (· - 1)

/-- `count_edge_types` starting from the table `start` (the repaired code starts from `{}`) -/
def countEdgeTypes (net : ANet) (start : List (String × Nat)) : List (String × Nat) :=
  net.edges.foldl (fun d e => Dict.update d e.2.2 0 (· + 1)) start

/-- `get_ejk(i, name)` given the edge counter in force -/
def getEjk (net : ANet) (numEdges : List (String × Nat)) (i : Nat) (name : String) : Table :=
  net.edges.foldl (fun ejk e =>
    if e.2.2 = name then
      let ue := excess (jdOf net e.1) i
      let ve := excess (jdOf net e.2.1) i
      let key1 := ue ++ ve
      let key2 := ve ++ ue
      let E : Rat := ((Dict.get numEdges name).getD 0 : Nat)
      if key1 = key2 then Dict.update ejk key1 0 (· + 1 / E)
      else Dict.update (Dict.update ejk key1 0 (· + (1 / 2) / E)) key2 0 (· + (1 / 2) / E)
    else ejk) []

/-- `resolve_excess_degree_keys` for topology index `i`: excess tuples of the annotated joint degrees with
    a positive `i`-th component (as a duplicate-free list; Python builds `list(set(...))`) -/
def excessKeys (net : ANet) (i : Nat) : List JD :=
  ((net.jd.map (·.2)).filter (fun jd => jd.getD i 0 > 0)).map (fun jd => excess jd i) |>.eraseDups

/-- extractor state: the persistent edge counter -/
structure Ext where
  numEdges : List (String × Nat)
deriving Repr

/-- `get_ejks()` (repaired): reset the counter, count, one matrix per topology name -/
def getEjks (net : ANet) (names : List String) (_s : Ext) : Ext × List (String × Table) :=
  let ne := countEdgeTypes net []
  (⟨ne⟩, names.zipIdx.map fun (name, i) => (name, getEjk net ne i name))

/-- the pinned (unrepaired) behaviour, kept as a regression witness: the counter keeps accumulating -/
def getEjksUnrepaired (net : ANet) (names : List String) (s : Ext) : Ext × List (String × Table) :=
  let ne := countEdgeTypes net s.numEdges
  (⟨ne⟩, names.zipIdx.map fun (name, i) => (name, getEjk net ne i name))

/-- `n` successive calls on one extractor -/
def callsFrom (net : ANet) (names : List String) : Nat → Ext → List (List (String × Table))
  | 0, _ => []
  | n+1, s => let (s', m) := getEjks net names s; m :: callsFrom net names n s'

/-- degree of `v` as networkx counts it (a self-loop counts twice) -/
def degree (edges : List (Nat × Nat)) (v : Nat) : Nat :=
  (edges.map fun (a, b) => (if a = v then 1 else 0) + (if b = v then 1 else 0)).sum

/-- `JointExcessDegree.get_ejk`: overall-degree variant, keys are pairs `[j, k]` -/
def overallEjk (edges : List (Nat × Nat)) : Table :=
  let E : Rat := (edges.length : Nat)
  edges.foldl (fun ejk (u, v) =>
    let ue := degree edges u - 1
    let ve := degree edges v - 1
    Dict.update (Dict.update ejk [ue, ve] 0 (· + (1 / 2) / E)) [ve, ue] 0 (· + (1 / 2) / E)) []

/-- `JointExcessJointDegreeMatrices.get_excess_degree_keys`: both halves of every matrix key -/
def splitKeys (ejk : Table) : List JD :=
  (ejk.flatMap fun (k, _) => [k.take (k.length / 2), k.drop (k.length / 2)]).eraseDups

end Gcmpy.Mixing
