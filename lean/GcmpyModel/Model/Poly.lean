/-
Executable multivariate polynomials with integer... rational coefficients in a canonical normal form
(sorted monomials, no zero coefficients), so that equality of polynomials is structural equality.
Used only by the driver to instantiate the ring-generic models at `R = Poly` (no theorem mentions it).
-/
namespace Gcmpy

/-- a monomial: (variable index, exponent > 0), strictly increasing variable indices -/
abbrev Mono := List (Nat × Nat)

def Mono.mul : Mono → Mono → Mono
  | [], m => m
  | m, [] => m
  | (v, e) :: r, (w, f) :: s =>
    if v < w then (v, e) :: Mono.mul r ((w, f) :: s)
    else if w < v then (w, f) :: Mono.mul ((v, e) :: r) s
    else (v, e + f) :: Mono.mul r s

def Mono.lt : Mono → Mono → Bool
  | [], [] => false
  | [], _ => true
  | _, [] => false
  | (v, e) :: r, (w, f) :: s =>
    if v < w then true else if w < v then false
    else if e < f then true else if f < e then false
    else Mono.lt r s

structure Poly where
  terms : List (Mono × Rat)
deriving Repr, DecidableEq

namespace Poly

def addTerms : List (Mono × Rat) → List (Mono × Rat) → List (Mono × Rat)
  | [], t => t
  | t, [] => t
  | (m, a) :: r, (n, b) :: s =>
    if Mono.lt m n then (m, a) :: addTerms r ((n, b) :: s)
    else if Mono.lt n m then (n, b) :: addTerms ((m, a) :: r) s
    else if a + b = 0 then addTerms r s else (m, a + b) :: addTerms r s

def add (p q : Poly) : Poly := ⟨addTerms p.terms q.terms⟩
def neg (p : Poly) : Poly := ⟨p.terms.map fun (m, a) => (m, -a)⟩
def sub (p q : Poly) : Poly := add p (neg q)
def mulTerm (m : Mono) (a : Rat) (q : Poly) : Poly :=
  if a = 0 then ⟨[]⟩ else ⟨q.terms.map fun (n, b) => (Mono.mul m n, a * b)⟩   -- order preserved by monomial multiplication
def mul (p q : Poly) : Poly := p.terms.foldl (fun acc (m, a) => add acc (mulTerm m a q)) ⟨[]⟩
def const (c : Rat) : Poly := if c = 0 then ⟨[]⟩ else ⟨[([], c)]⟩
def var (v : Nat) : Poly := ⟨[([(v, 1)], 1)]⟩

instance : Add Poly := ⟨add⟩
instance : Sub Poly := ⟨sub⟩
instance : Mul Poly := ⟨mul⟩
instance : Neg Poly := ⟨neg⟩
instance : OfNat Poly 0 := ⟨const 0⟩
instance : OfNat Poly 1 := ⟨const 1⟩

end Poly
end Gcmpy

namespace Gcmpy.Poly
instance : IntCast Poly := ⟨fun z => const (z : Rat)⟩
end Gcmpy.Poly
