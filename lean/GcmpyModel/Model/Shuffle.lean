/-
Model of CPython 3.12 `random.Random.shuffle` and `random.Random.choice`
(Lib/random.py), as used by gcmpy's generators, `DrawSet.draw`, EECC and MPCC:

    def shuffle(self, x):
        randbelow = self._randbelow
        for i in reversed(range(1, len(x))):
            j = randbelow(i + 1)
            x[i], x[j] = x[j], x[i]

The harness diffs this text against `inspect.getsource(random.Random.shuffle)` on every run.
Randomness is an explicit argument: the list of `randbelow` results in the order they are drawn.
-/
namespace Gcmpy.Shuffle
variable {α : Type}

/-- Python `x[i], x[j] = x[j], x[i]` (in range) -/
def swap (l : List α) (i j : Nat) : List α :=
  match l[i]?, l[j]? with
  | some a, some b => (l.set i b).set j a
  | _, _ => l

/-- CPython `random.shuffle`: `for i in reversed(range(1, n)): j = randbelow(i+1); swap i j`.
    `cs` lists the draws in the order they are made. -/
def shuffle : (n : Nat) → List α → List Nat → List α
  | 0, l, _ => l
  | 1, l, _ => l
  | _+2, l, [] => l
  | n+2, l, j :: cs => shuffle (n+1) (swap l (n+1) j) cs

def Valid : Nat → List Nat → Prop
  | 0, cs => cs = []
  | 1, cs => cs = []
  | _+2, [] => False
  | n+2, j :: cs => j ≤ n+1 ∧ Valid (n+1) cs

/-- number of `randbelow` draws a shuffle of `n` items consumes -/
def ndraws (n : Nat) : Nat := n - 1

/-- decidable version of `Valid`, for the driver -/
def validB : Nat → List Nat → Bool
  | 0, cs => cs.isEmpty
  | 1, cs => cs.isEmpty
  | _+2, [] => false
  | n+2, j :: cs => decide (j ≤ n+1) && validB (n+1) cs

end Gcmpy.Shuffle
