import GcmpyModel.Model.Graph
/-
Model of `gcmpy/tools/bond_percolate.py`:

    G = g.copy()
    es = [e for e in G.edges() if random.random() > phi]     -- one uniform draw per edge, in edge order
    G.remove_edges_from(es)
    Gcc = sorted(nx.connected_components(G), key=len, reverse=True)
    return float(len(Gcc[0])) / G.order()

Randomness: `draws` = the successive `random.random()` results (rationals in [0,1)).
An empty graph raises IndexError in Python (`none`).
-/
namespace Gcmpy.Percolate
open Gcmpy.Graph

/-- the edges that are retained: edge `t` is dropped iff `draws[t] > φ` -/
def kept (es : List Edge) (φ : Rat) (draws : List Rat) : List Edge :=
  ((es.zip draws).filter fun (_, d) => ¬ (d > φ)).map (·.1)

def percolate (es : List Edge) (nodes : List Nat) (φ : Rat) (draws : List Rat) : Option Rat :=
  if nodes.isEmpty then none
  else some ((lccSize (kept es φ draws) nodes : Rat) / (nodes.length : Rat))

end Gcmpy.Percolate
