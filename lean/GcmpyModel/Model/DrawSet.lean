/-
Model of `gcmpy/tools/draw_set.py` (class `DrawSet`).

  self._edges        : list  -> `edges : List α`
  self._edge_hashmap : dict  -> `map : α → Option Nat`   (a dict *is* a finite partial function;
                                `pop` of an absent key raises KeyError)

The statements of `add` and `remove` are transcribed one by one.
-/
namespace Gcmpy.DrawSet

structure St (α : Type) where
  edges : List α
  map   : α → Option Nat

variable {α : Type} [DecidableEq α]

/-- `DrawSet()` -/
def empty : St α := ⟨[], fun _ => none⟩

/-- dict assignment `m[x] = v` -/
def assign (m : α → Option Nat) (x : α) (v : Nat) : α → Option Nat :=
  fun y => if y = x then some v else m y

/-- dict deletion -/
def erase (m : α → Option Nat) (x : α) : α → Option Nat :=
  fun y => if y = x then none else m y

/-- `__contains__` -/
def contains (s : St α) (x : α) : Bool := (s.map x).isSome

/-- `__len__` -/
def len (s : St α) : Nat := s.edges.length

/-- `__iter__` -/
def iter (s : St α) : List α := s.edges

/-- `add` -/
def add (s : St α) (x : α) : St α :=
  if contains s x then s                                   -- if e in self._edge_hashmap: return
  else ⟨s.edges ++ [x], assign s.map x s.edges.length⟩     -- append; map[e] = len - 1

/-- `remove`; `none` = the KeyError raised by `self._edge_hashmap.pop(e)` (nothing was mutated yet) -/
def remove (s : St α) (x : α) : Option (St α) :=
  match s.map x with
  | none => none
  | some position =>
    let map1 := erase s.map x                    -- position = self._edge_hashmap.pop(e)
    match s.edges.getLast? with                  -- last_item = self._edges.pop()
    | none => none                               -- IndexError; unreachable under the invariant
    | some last =>
      let edges1 := s.edges.dropLast
      if position ≠ edges1.length then           -- if position != len(self._edges):
        some ⟨edges1.set position last, assign map1 last position⟩
      else
        some ⟨edges1, map1⟩

/-- `draw`: `random.choice(self._edges)` is `self._edges[randbelow(len)]`; `none` = IndexError on empty -/
def draw (s : St α) (i : Nat) : Option α := s.edges[i]?

/-- operations of a history -/
inductive Op (α : Type) where
  | add (x : α)
  | remove (x : α)
  | draw (i : Nat)
  | contains (x : α)
  | len
  | iter

/-- one step of a history; an absent removal raises and leaves the state as it was -/
def step (s : St α) : Op α → St α
  | .add x => add s x
  | .remove x => (remove s x).getD s
  | _ => s

def run (s : St α) (ops : List (Op α)) : St α := ops.foldl step s

end Gcmpy.DrawSet
