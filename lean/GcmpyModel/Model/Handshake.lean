import GcmpyModel.Model.Generate
/-
Model of `JointDegree.handshaking_lemma` and `sample_jds_from_jdd` (gcmpy/joint_degree/joint_degree.py).

    ntops = list(map(sum, zip(*jds)))                  -- column sums, computed ONCE
    for i, ntop in enumerate(ntops):
        if ntop % sizes[i] != 0:
            for j in range(sizes[i] - ntop % sizes[i]):
                j = random.randrange(0, len(jds))      -- `picks`, consumed left to right
                t = list(jds[j]); t[i] += 1; jds[j] = tuple(t)

Randomness: `picks` = successive `randrange(0, N)` results.  An exhausted pick list behaves like the
constant 0 (any in-range value would do for the theorems; the driver always supplies enough picks).
`sizes[i] = 0` raises ZeroDivisionError in Python; theorems assume positive sizes.
-/
namespace Gcmpy.Handshake
open Gcmpy.Generate

/-- `t = list(jds[j]); t[i] += 1; jds[j] = tuple(t)` -/
def bump (jds : List (List Nat)) (j i : Nat) : List (List Nat) :=
  jds.modify j fun r => r.modify i (· + 1)

/-- the inner `for j in range(need)` loop for column `i`; returns the patched sequence and the unused picks -/
def patchCol (i : Nat) : Nat → List (List Nat) → List Nat → List (List Nat) × List Nat
  | 0, jds, picks => (jds, picks)
  | n+1, jds, picks => patchCol i n (bump jds (picks.headD 0) i) picks.tail

/-- stubs to add in a column whose sum is `ntop` -/
def need (size ntop : Nat) : Nat := if ntop % size ≠ 0 then size - ntop % size else 0

/-- the outer loop over the pre-computed column sums `ntops` (paired with their column index) -/
def patchAll (sizes : List Nat) : List (Nat × Nat) → List (List Nat) → List Nat → List (List Nat) × List Nat
  | [], jds, picks => (jds, picks)
  | (ntop, i) :: r, jds, picks =>
    let (jds', picks') := patchCol i (need (sizes.getD i 0) ntop) jds picks
    patchAll sizes r jds' picks'

def handshake (sizes : List Nat) (jds : List (List Nat)) (picks : List Nat) : List (List Nat) :=
  (patchAll sizes ((List.range (ncols jds)).map fun i => (colSum jds i, i)) jds picks).1

/-- number of picks consumed -/
def picksUsed (sizes : List Nat) (jds : List (List Nat)) : Nat :=
  ((List.range (ncols jds)).map fun i => need (sizes.getD i 0) (colSum jds i)).sum

/-- `random.choices(population=keys, weights=weights, k=N)`: what is handed to the stdlib draw -/
def sampleCall {κ ω : Type} (jdd : List (κ × ω)) (N : Nat) : List κ × List ω × Nat :=
  (jdd.map (·.1), jdd.map (·.2), N)

end Gcmpy.Handshake
