import GcmpyModel.Model.Dict
import GcmpyModel.Model.Generate
/-
Model of
  gcmpy/network/edge_list_to_network.py   (`toNetwork`, with the repaired add_nodes_from(range(N)))
  gcmpy/network/network_to_edge_list.py   (`toEdgeList`)
on top of the set-level semantics of networkx `Graph.add_nodes_from / add_edges_from /
set_node_attributes / set_edge_attributes / edges() / nodes`.

An undirected edge is stored under the key `(min u v, max u v)`.  Edge attributes may be missing
(`none`) exactly when `zip(edge_list, topologies, motif_id)` was cut short by a shorter column.
-/
namespace Gcmpy.Network
open Gcmpy

abbrev Key := Nat × Nat
def norm (e : Nat × Nat) : Key := (min e.1 e.2, max e.1 e.2)

structure Net where
  nodes : List Nat                                           -- insertion order
  jd    : List (Nat × List Nat)                              -- node attribute 'joint_degree'
  edges : List (Key × (Option String × Option Nat))          -- edge attributes 'topology', 'motif_ids'
deriving Repr, DecidableEq

structure EL where
  edges : List (Nat × Nat)
  topologies : List String
  motifId : List Nat
  jointDegrees : List (List Nat)
deriving Repr, DecidableEq

def addNode (ns : List Nat) (n : Nat) : List Nat := if n ∈ ns then ns else ns ++ [n]

/-- `add_edges_from`: both end points become nodes, the edge gets an (initially empty) attribute dict -/
def addEdges (nodes : List Nat) (edges : List (Key × (Option String × Option Nat))) :
    List (Nat × Nat) → List Nat × List (Key × (Option String × Option Nat))
  | [] => (nodes, edges)
  | (u, v) :: r =>
    let nodes' := addNode (addNode nodes u) v
    let edges' := if Dict.contains edges (norm (u, v)) then edges else edges ++ [(norm (u, v), (none, none))]
    addEdges nodes' edges' r

/-- the two dicts `topologies[e] = name; motif_ids[e] = id` filled row by row (keys are *oriented* tuples) -/
def attrDict : List ((Nat × Nat) × String × Nat) → List ((Nat × Nat) × (String × Nat)) → List ((Nat × Nat) × (String × Nat))
  | [], d => d
  | (e, name, id) :: r, d => attrDict r (Dict.set d e (name, id))

/-- `set_edge_attributes`: for each (oriented) key in dict order, write into the undirected edge if it exists -/
def applyAttrs (edges : List (Key × (Option String × Option Nat))) :
    List ((Nat × Nat) × (String × Nat)) → List (Key × (Option String × Option Nat))
  | [] => edges
  | (e, (name, id)) :: r =>
    applyAttrs (if Dict.contains edges (norm e) then Dict.set edges (norm e) (some name, some id) else edges) r

/-- `set_node_attributes`: absent nodes are skipped silently -/
def setJd (nodes : List Nat) : List (Nat × List Nat) → List (Nat × List Nat) → List (Nat × List Nat)
  | [], d => d
  | (n, jd) :: r, d => setJd nodes r (if n ∈ nodes then Dict.set d n jd else d)

def toNetwork (el : EL) : Net :=
  let nodes0 := List.range el.jointDegrees.length            -- repaired: add_nodes_from(range(N))
  let (nodes, edges0) := addEdges nodes0 [] el.edges
  let jd := setJd nodes (el.jointDegrees.zipIdx.map fun (j, n) => (n, j)) []
  let rows := el.edges.zip (el.topologies.zip el.motifId)
  { nodes := nodes, jd := jd, edges := applyAttrs edges0 (attrDict rows []) }

/-- reverse conversion; `none` = KeyError (a number below `order` that is not a node, a node without
    joint degree, or an edge without topology / motif id) -/
def toEdgeList (net : Net) : Option EL := do
  let jds ← (List.range net.nodes.length).mapM fun n => if n ∈ net.nodes then Dict.get net.jd n else none
  let tops ← net.edges.mapM fun (_, a) => a.1
  let ids ← net.edges.mapM fun (_, a) => a.2
  pure { edges := net.edges.map (·.1), topologies := tops, motifId := ids, jointDegrees := jds }

end Gcmpy.Network
