import GcmpyModel.Model.Dict
/-
Model of the deterministic joint-degree loaders (property C06):
  gcmpy/joint_degree/joint_degree.py                      `convert_jds_to_jdd`, `normalise_jdd`
  gcmpy/joint_degree/joint_degree_loaders/joint_degree_{manual,empirical,marginal,function}.py
  gcmpy/joint_degree/joint_degree_distribution.py         (`load` = construct, then `create_jdd()` once more)

Weights are exact rationals (core `Rat`); the harness runs the real code on an exact number type.
A callable is an arbitrary function; a table (dict) is an insertion-ordered association list.
-/
namespace Gcmpy.Loaders
open Gcmpy

abbrev JD := List Nat
abbrev Table := List (JD × Rat)

inductive Err where
  | zeroDivision
deriving Repr, DecidableEq

/-- `collections.Counter(jds)`: insertion-ordered counts -/
def counterFrom : List JD → List (JD × Nat) → List (JD × Nat)
  | [], d => d
  | y :: ys, d => counterFrom ys (Dict.update d y 0 (· + 1))

def counter (jds : List JD) : List (JD × Nat) := counterFrom jds []

/-- `convert_jds_to_jdd`: `{k: v / n_samples for k, v in Counter(jds).items()}` -/
def empirical (jds : List JD) : Table :=
  (counter jds).map fun (k, c) => (k, (c : Rat) / (jds.length : Rat))

/-- `JointDegreeManual`: the dictionary is taken as given -/
def manual (d : Table) : Table := d

/-- `itertools.product(*ks)`: lexicographic, last position varying fastest -/
def product : List (List Nat) → List JD
  | [] => [[]]
  | ks :: rest => ks.flatMap fun k => (product rest).map fun r => k :: r

/-- `range(a, b)` -/
def rangeAB (a b : Nat) : List Nat := (List.range (b - a)).map (· + a)

/-- `evaluate_prob_of_joint_degree`: `prod = 1.0; for i, deg in enumerate(jd): prod *= arr_fp[i](deg)` -/
def marginalWeight (fs : List (Nat → Rat)) (jd : JD) : Rat :=
  (jd.zipIdx.map fun (deg, i) => (fs.getD i (fun _ => 0)) deg).foldl (· * ·) 1

/-- `normalise_jdd`: divide every entry by the total (ZeroDivisionError on a zero total of a non-empty table) -/
def normalise (t : Table) : Except Err Table :=
  let z := (t.map (·.2)).foldl (· + ·) 0
  if t.isEmpty then .ok t else if z = 0 then .error .zeroDivision else .ok (t.map fun (k, v) => (k, v / z))

/-- `create_jdd_directly`: keys = product of the EXCLUSIVE ranges `range(kmin, kmax)` -/
def marginalDirect (fs : List (Nat → Rat)) (bounds : List (Nat × Nat)) : Except Err Table :=
  let keys := product (bounds.map fun (lo, hi) => rangeAB lo hi)
  normalise (keys.map fun k => (k, marginalWeight fs k))

/-- what `draw_from_analytical_joint` hands to `random.choices` for dimension `i`:
    the INCLUSIVE range `range(kmin, kmax + 1)`, its weights, and the sample count -/
def sampledCalls (fs : List (Nat → Rat)) (bounds : List (Nat × Nat)) (n : Nat) : List (List Nat × List Rat × Nat) :=
  bounds.zipIdx.map fun ((lo, hi), i) =>
    let ks := rangeAB lo (hi + 1)
    (ks, ks.map (fs.getD i (fun _ => 0)), n)

/-- rows of `np.column_stack(cols)` -/
def transpose (cols : List (List Nat)) : List JD :=
  match cols with
  | [] => []
  | c :: _ => (List.range c.length).map fun r => cols.map fun col => col.getD r 0

/-- `create_jdd_by_sampling`: frequency table of the zipped per-dimension samples -/
def marginalSampled (cols : List (List Nat)) : Table := empirical (transpose cols)

/-- `JointDegreeFunction.create_jdd`: `fp` on the whole INCLUSIVE box, not normalised -/
def functionLoader (fp : JD → Rat) (bounds : List (Nat × Nat)) : Table :=
  (product (bounds.map fun (lo, hi) => rangeAB lo (hi + 1))).map fun k => (k, fp k)

end Gcmpy.Loaders
