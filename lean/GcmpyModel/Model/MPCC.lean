import GcmpyModel.Model.Graph
import GcmpyModel.Model.Generate
import GcmpyModel.Model.Dict
/-
Model of `gcmpy/covers/mpcc.py` (function MPCC).

Input: the edge list of `G`, `max_size`, and the clique list `L` AS IT IS AFTER `shuffle(cliques)`
(`nx.enumerate_all_cliques` returns every clique, singletons included; the harness validates that contract
per instance and scripts the shuffle).
-/
namespace Gcmpy.MPCC
open Gcmpy Gcmpy.Graph Gcmpy.Generate

/-- `sorted(cliques, key=len, reverse=True)` — a stable sort: equal lengths keep their (shuffled) order -/
def sortDesc (L : List (List Nat)) : List (List Nat) :=
  let m := (L.map List.length).foldl max 0
  (List.range (m + 1)).reverse.flatMap fun k => L.filter fun c => c.length = k

/-- every pair of `c` is still an unclaimed edge of the working graph -/
def allPairsPresent (g : List Edge) (c : List Nat) : Bool := (pairs c).all fun e => hasEdge g e.1 e.2

/-- `g.remove_edges_from(combinations(c, 2))` -/
def removePairs (g : List Edge) (c : List Nat) : List Edge :=
  g.filter fun e => ¬ (pairs c).any fun p => normE p = normE e

/-- the acceptance loop -/
def greedy (maxSize : Nat) : List (List Nat) → List Edge → List (List Nat)
  | [], _ => []
  | c :: cs, g =>
    if c.length > maxSize ∧ maxSize > 0 then greedy maxSize cs g
    else if allPairsPresent g c then c :: greedy maxSize cs (removePairs g c)
    else greedy maxSize cs g

def cover (edges : List Edge) (maxSize : Nat) (L : List (List Nat)) : List (List Nat) :=
  greedy maxSize (sortDesc L) edges

/-- a label `f"{len(c)}-{c}-{ID}"` in parsed form -/
structure Lab where
  size : Nat
  members : List Nat
  id : Nat
deriving Repr, DecidableEq

/-- the labelling loop: ids run over ALL accepted cliques (singletons included), later writes overwrite -/
def labelMap (cov : List (List Nat)) : List (Edge × Lab) :=
  cov.zipIdx.foldl (fun d (c, id) => (pairs c).foldl (fun d e => Dict.set d (normE e) ⟨c.length, c, id⟩) d) []

/-- the `clique` attribute of every edge of `G` after `MPCC(G, max_size)` (`none` = unlabelled) -/
def mpcc (edges : List Edge) (maxSize : Nat) (L : List (List Nat)) : List (Edge × Option Lab) :=
  let lm := labelMap (cover edges maxSize L)
  edges.map fun e => (normE e, Dict.get lm (normE e))

/-- brute-force `enumerate_all_cliques` (as a set): every non-empty duplicate-free vertex list, in node order,
    all of whose pairs are edges -/
def allCliques (edges : List Edge) (nodes : List Nat) : List (List Nat) :=
  (sublists nodes).filter fun c => c ≠ [] ∧ (pairs c).all fun e => hasEdge edges e.1 e.2

end Gcmpy.MPCC
