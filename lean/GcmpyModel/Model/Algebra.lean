import GcmpyModel.Model.Mixing
/-
Model of the degree-distribution algebra (property C14):
  gcmpy/tools/average_joint_degree_from_jdd.py      `averages`
  gcmpy/tools/joint_excess_from_jdd.py              `excessFromJdd`
  gcmpy/tools/joint_degree_from_excess.py           `invertSingle`, `jddFromExcess` (repaired: reference
                                                     topology = first supplied name)
  gcmpy/tools/joint_excess_from_ejk.py              `excessFromEjk`
  gcmpy/tools/joint_degree_distribution_from_network.py  `jddFromNetwork`
-/
namespace Gcmpy.Algebra
open Gcmpy Gcmpy.Loaders

/-- `get_average_joint_degrees`: number of topologies = length of the first key (IndexError on `{}`: `none`) -/
def averages (jdd : Table) : Option (List Rat) :=
  match jdd with
  | [] => none
  | (k0, _) :: _ =>
    some ((List.range k0.length).map fun i => (jdd.map fun (k, p) => ((k.getD i 0 : Nat) : Rat) * p).foldl (· + ·) 0)

/-- `get_joint_excess_distributions`; `none` = IndexError (empty table) or ZeroDivisionError (zero mean with a
    positive component present) -/
def excessFromJdd (jdd : Table) : Option (List Table) := do
  let avs ← averages jdd
  avs.zipIdx.mapM fun (av, i) =>
    let entries := jdd.filter fun (k, _) => k.getD i 0 > 0
    if entries.isEmpty then some [] else
    if av = 0 then none else
    some (entries.foldl (fun q (k, p) =>
      Dict.set q (k.modify i (· - 1)) ((((k.getD i 0 : Nat) : Rat) * p) / av)) [])

/-- `invert_single(qk, i)`; `none` = ZeroDivisionError -/
def invertSingle (qk : Table) (i : Nat) : Option Table :=
  let bottom := (qk.map fun (k, q) => q / (((k.getD i 0 + 1 : Nat)) : Rat)).foldl (· + ·) 0
  if qk.isEmpty then some [] else
  if bottom = 0 then none else
  some (qk.foldl (fun P (k, q) => Dict.set P (k.modify i (· + 1)) ((q / (((k.getD i 0 + 1 : Nat)) : Rat)) / bottom)) [])

/-- `get_joint_degree_distribution(qks, keys)` with the common key chosen by the code passed in;
    `none` = the code raises (no common key / missing topology / division by zero) -/
def observations (qks : List (String × Table)) : List (String × Nat) → Option (List (String × Table))
  | [] => some []
  | (name, i) :: rest =>
    match Dict.get qks name with
    | none => none                                   -- KeyError
    | some q =>
      match invertSingle q i with
      | none => none
      | some p =>
        match observations qks rest with
        | none => none
        | some r => some ((name, p) :: r)

/-- scale every observation other than the reference one so that it agrees with it on the common key -/
def scaleAll (ref : String) (base : Rat) (common : JD) : List (String × Table) → Option (List (String × Table))
  | [] => some []
  | (name, p) :: rest =>
    match scaleAll ref base common rest with
    | none => none
    | some r =>
      if name = ref then some ((name, p) :: r) else
      match Dict.get p common with
      | none => none                                 -- KeyError (cannot happen for a common key)
      | some c => if c = 0 then none else some ((name, p.map fun (k, v) => (k, v * (base / c))) :: r)

/-- `P.update(p_obs[topology])` for every topology in order -/
def mergeAll (scaled : List (String × Table)) : Table :=
  scaled.foldl (fun P (np : String × Table) => np.2.foldl (fun P (kv : JD × Rat) => Dict.set P kv.1 kv.2) P) []

/-- final renormalisation -/
def renormalise (merged : Table) : Option Table :=
  let total := (merged.map (·.2)).foldl (· + ·) 0
  if merged.isEmpty then some [] else
  if total = 0 then none else
  some (merged.map fun (k, v) => (k, v / total))

/-- value of the reference observation on the common key -/
def baseValue (obs : List (String × Table)) (ref : String) (common : JD) : Option Rat :=
  match Dict.get obs ref with
  | none => none
  | some pref => Dict.get pref common

def jddFromExcess (qks : List (String × Table)) (names : List String) (common : JD) : Option Table :=
  match names.head? with
  | none => none
  | some ref =>
    match observations qks names.zipIdx with
    | none => none
    | some obs =>
      match baseValue obs ref common with
      | none => none
      | some base =>
        match scaleAll ref base common obs with
        | none => none
        | some scaled => renormalise (mergeAll scaled)

/-- `get_excess_joint_distributions`: row sums of each matrix over the listed key halves -/
def excessFromEjk (ejks : List (String × Table)) (keys : List (String × List JD)) : Option (List (String × Table)) :=
  if ejks.length ≠ keys.length then none else
  ejks.mapM fun (name, ejk) => do
    let ks ← Dict.get keys name
    some (name, ks.foldl (fun q left =>
      ks.foldl (fun q right =>
        match Dict.get ejk (left ++ right) with
        | some v => Dict.update q left 0 (· + v)
        | none => q) q) [])

/-- `get_joint_degree_distribution(G)`: histogram of the vertex annotations -/
def jddFromNetwork (jds : List JD) : Table :=
  let n : Rat := (jds.length : Nat)
  jds.foldl (fun PK k => Dict.update PK k 0 (· + 1 / n)) []

end Gcmpy.Algebra
