/-
Small executable graph library shared by the models (core Lean only).
Undirected simple graphs are edge lists over `Nat` vertices; set-level semantics of the networkx calls the
repository makes (`neighbors`, `connected_components`, `is_connected`, `has_edge`, `remove_edges_from`).
-/
namespace Gcmpy.Graph

abbrev Edge := Nat × Nat

def dedup : List Nat → List Nat
  | [] => []
  | x :: xs => if x ∈ xs then dedup xs else x :: dedup xs

/-- neighbours of `v` (with repetitions if the edge list repeats an edge; a self-loop lists `v` itself) -/
def nbrs (es : List Edge) (v : Nat) : List Nat :=
  es.flatMap fun (a, b) => (if a = v then [b] else []) ++ (if b = v then [a] else [])

def hasEdge (es : List Edge) (u v : Nat) : Bool := es.any fun (a, b) => (a = u ∧ b = v) ∨ (a = v ∧ b = u)

/-- one round of breadth-first expansion -/
def expand (es : List Edge) (seen : List Nat) : List Nat := dedup (seen ++ seen.flatMap (nbrs es))

/-- `fuel` rounds of expansion -/
def closure (es : List Edge) : Nat → List Nat → List Nat
  | 0, s => s
  | n+1, s => closure es n (expand es s)

/-- the connected component of `r` in a graph with `n` vertices (`n` rounds suffice: Lemmas/Reach) -/
def comp (es : List Edge) (n : Nat) (r : Nat) : List Nat := closure es n [r]

/-- size of the largest connected component (`0` for the empty graph) -/
def lccSize (es : List Edge) (nodes : List Nat) : Nat :=
  (nodes.map fun v => (comp es nodes.length v).length).foldl max 0

/-- `nx.is_connected` on a non-empty node list -/
def connected (es : List Edge) (nodes : List Nat) : Bool :=
  match nodes with
  | [] => false            -- networkx raises NetworkXPointlessConcept; callers never pass an empty graph
  | r :: _ => nodes.all fun v => v ∈ comp es nodes.length r

/-- all sublists (subsets), each element either taken or not, order preserved -/
def sublists {α : Type} : List α → List (List α)
  | [] => [[]]
  | x :: xs => (sublists xs) ++ (sublists xs).map (x :: ·)

/-- `itertools.combinations(l, k)` in lexicographic position order -/
def combinations {α : Type} : Nat → List α → List (List α)
  | 0, _ => [[]]
  | _+1, [] => []
  | k+1, x :: xs => (combinations k xs).map (x :: ·) ++ combinations (k+1) xs

def normE (e : Edge) : Edge := (min e.1 e.2, max e.1 e.2)

end Gcmpy.Graph
