import GcmpyModel.Model.Loaders
/-
Model of `JointDegreeCover` (property C08), on the repaired code (columns deleted from the right,
rows tabulated as tuples).
-/
namespace Gcmpy.Cover
open Gcmpy Gcmpy.Loaders

/-- `sorted(list(set(len(c) for c in cover)))` -/
def insertSorted (x : Nat) : List Nat → List Nat
  | [] => [x]
  | y :: ys => if x < y then x :: y :: ys else if x = y then y :: ys else y :: insertSorted x ys

def motifSizes (cover : List (List Nat)) : List Nat := (cover.map List.length).foldr insertSorted []

def vertexIds (cover : List (List Nat)) : List Nat := (cover.flatten).eraseDups

/-- `0` if the smallest id is 0, else `1` (`min([])` raises ValueError: `none`) -/
def zeroIndex (cover : List (List Nat)) : Option Nat :=
  match (vertexIds cover).min? with
  | none => none
  | some m => some (if m ≠ 0 then 1 else 0)

def largest (cover : List (List Nat)) : Nat := (cover.map List.length).foldl max 0

/-- `jds[vertex - zero_index][clique_size - 1] += 1`; `none` = IndexError.
    (`vertex - zero_index` cannot be negative: zero_index = 1 only when every id is ≥ 1.) -/
def bumpAt (jds : List (List Nat)) (row col : Nat) : Option (List (List Nat)) :=
  match jds[row]? with
  | none => none
  | some r => if col < r.length then some (jds.set row (r.modify col (· + 1))) else none

def countClique (z : Nat) (size : Nat) : List Nat → List (List Nat) → Option (List (List Nat))
  | [], jds => some jds
  | v :: vs, jds =>
    match bumpAt jds (v - z) (size - 1) with       -- an empty clique has no vertices, so size ≥ 1 here
    | none => none
    | some jds' => countClique z size vs jds'

def countAll (z : Nat) : List (List Nat) → List (List Nat) → Option (List (List Nat))
  | [], jds => some jds
  | c :: cs, jds =>
    match countClique z c.length c jds with
    | none => none
    | some jds' => countAll z cs jds'

/-- indices of all-zero columns (`zip(*jds)` has `largest` columns when there is at least one row) -/
def zeroCols (jds : List (List Nat)) (ncol : Nat) : List Nat :=
  (List.range ncol).filter fun i => jds.all fun r => r.getD i 0 = 0

/-- `del jd[i]` for the zero columns, highest index first -/
def dropCols (jds : List (List Nat)) (cols : List Nat) : List (List Nat) :=
  cols.reverse.foldl (fun js i => js.map fun r => r.eraseIdx i) jds

/-- per-vertex counters after the column deletion; `none` = the code raises -/
def coverJds (cover : List (List Nat)) : Option (List (List Nat)) :=
  match zeroIndex cover with
  | none => none
  | some z =>
    let n := (vertexIds cover).length
    let L := largest cover
    match countAll z cover (List.replicate n (List.replicate L 0)) with
    | none => none
    | some jds => some (dropCols jds (zeroCols jds L))

def coverJdd (cover : List (List Nat)) : Option Table := (coverJds cover).map empirical

end Gcmpy.Cover
