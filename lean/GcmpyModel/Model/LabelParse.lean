/-
Model of the cover-label parser of `gcmpy/message_passing/message_passing_mixin.py`:

    get_motif_topology(label)     = int(label.split('-')[0])
    get_motif_ID(label)           = int(label.split('-')[-1])
    get_vertices_in_motif(label)  = ast.literal_eval(label.split('-')[1])
    get_edges_in_motif(label)     = ast.literal_eval(label.split('-')[2])

on labels of the documented form `f"{key}-{[v, …]}-{[(a, b), …]}-{id}"` over non-negative integers.
Strings are lists of characters.  `int(…)` and `literal_eval(…)` are modelled on the grammar the labels use:
decimal numbers, `[ … ]` and `( … )` sequences separated by commas (an optional trailing comma), blanks anywhere
between tokens; everything else (signs, underscores, floats, strings, deeper nesting, a parenthesised single number,
which Python reads as that number) is OUTSIDE the model and answered `none` — the correspondence check sends such
labels only where Python rejects them too.  `none` = the call raises.
-/
namespace Gcmpy.LabelParse

abbrev Edge := Nat × Nat

/-! ### writing (Python `str` of a non-negative int, of a list of ints, of a list of pairs) -/

def natRepr (n : Nat) : List Char := Nat.toDigits 10 n

def commaSep : List (List Char) → List Char
  | [] => []
  | [x] => x
  | x :: y :: r => x ++ [',', ' '] ++ commaSep (y :: r)

def fmtNatList (ns : List Nat) : List Char := ['['] ++ commaSep (ns.map natRepr) ++ [']']

def fmtEdge (e : Edge) : List Char := ['('] ++ natRepr e.1 ++ [',', ' '] ++ natRepr e.2 ++ [')']

def fmtEdgeList (es : List Edge) : List Char := ['['] ++ commaSep (es.map fmtEdge) ++ [']']

/-- `f"{key}-{verts}-{edges}-{id}"` -/
def fmtLabel (key : Nat) (verts : List Nat) (edges : List Edge) (id : Nat) : List Char :=
  natRepr key ++ ['-'] ++ fmtNatList verts ++ ['-'] ++ fmtEdgeList edges ++ ['-'] ++ natRepr id

/-! ### reading -/

/-- `s.split(sep)` -/
def splitOn (sep : Char) : List Char → List (List Char)
  | [] => [[]]
  | c :: cs =>
    if c = sep then [] :: splitOn sep cs
    else match splitOn sep cs with
      | [] => [[c]]                 -- unreachable: `splitOn` never returns `[]`
      | p :: ps => (c :: p) :: ps

inductive Tok where
  | lb | rb | lp | rp | comma
  | num (n : Nat)
deriving Repr, DecidableEq

def tokOf (c : Char) : Option Tok :=
  if c = '[' then some .lb else if c = ']' then some .rb else if c = '(' then some .lp
  else if c = ')' then some .rp else if c = ',' then some .comma else none

def digitVal (c : Char) : Nat := c.toNat - 48

/-- tokens of a string; `acc` is the number being read -/
def tokenize : List Char → Option Nat → Option (List Tok)
  | [], none => some []
  | [], some n => some [.num n]
  | c :: cs, acc =>
    if c.isDigit then tokenize cs (some (10 * acc.getD 0 + digitVal c))
    else
      let flush : List Tok := match acc with | none => [] | some n => [.num n]
      if c = ' ' then (tokenize cs none).map (flush ++ ·)
      else match tokOf c with
        | none => none
        | some t => (tokenize cs none).map (flush ++ t :: ·)

/-- after the opening bracket: `n, n, … close` -/
def natItems (close : Tok) : List Tok → Option (List Nat × List Tok)
  | [] => none
  | t :: rest =>
    if t = close then some ([], rest) else
    match t, rest with
    | .num n, .comma :: rest' => (natItems close rest').map fun (ns, r) => (n :: ns, r)
    | .num n, t' :: rest' => if t' = close then some ([n], rest') else none
    | _, _ => none

def natSeq : List Tok → Option (List Nat × List Tok)
  | .lb :: r => natItems .rb r
  | .lp :: r => natItems .rp r
  | _ => none

/-- after the opening bracket: `(a, b), (a, b), … close`; `fuel` bounds the number of items -/
def edgeItems (close : Tok) : Nat → List Tok → Option (List Edge × List Tok)
  | 0, _ => none
  | _, [] => none
  | fuel + 1, t :: rest =>
    if t = close then some ([], rest) else
    match natSeq (t :: rest) with
    | some ([a, b], .comma :: r) => (edgeItems close fuel r).map fun (es, r') => ((a, b) :: es, r')
    | some ([a, b], t' :: r) => if t' = close then some ([(a, b)], r) else none
    | _ => none

def edgeSeq (ts : List Tok) : Option (List Edge × List Tok) :=
  match ts with
  | .lb :: r => edgeItems .rb (r.length + 1) r
  | .lp :: r => edgeItems .rp (r.length + 1) r
  | _ => none

/-- `int(s)` on decimal digits with optional surrounding blanks -/
def parseInt (cs : List Char) : Option Nat :=
  match tokenize cs none with
  | some [.num n] => some n
  | _ => none

/-- `ast.literal_eval(s)` read as a sequence of numbers -/
def parseNatList (cs : List Char) : Option (List Nat) :=
  match tokenize cs none with
  | some ts => match natSeq ts with
    | some (ns, []) => some ns
    | _ => none
  | none => none

/-- `ast.literal_eval(s)` read as a sequence of pairs -/
def parseEdgeList (cs : List Char) : Option (List Edge) :=
  match tokenize cs none with
  | some ts => match edgeSeq ts with
    | some (es, []) => some es
    | _ => none
  | none => none

/-- the four accessors of the mixin -/
def motifTopology (label : List Char) : Option Nat := ((splitOn '-' label)[0]?).bind parseInt
def motifID (label : List Char) : Option Nat := (splitOn '-' label).getLast?.bind parseInt
def verticesInMotif (label : List Char) : Option (List Nat) := ((splitOn '-' label)[1]?).bind parseNatList
def edgesInMotif (label : List Char) : Option (List Edge) := ((splitOn '-' label)[2]?).bind parseEdgeList

end Gcmpy.LabelParse
