import GcmpyModel.Model.Mixing
import GcmpyModel.Model.Graph
import GcmpyModel.Model.DrawSet
/-
Model of `gcmpy/tools/markov_chain_monte_carlo_rewiring.py` (one proposal = one call of `swap_condition` and
the application of its result in `rewire`), `proposal_edge.py` and `joint_excess_joint_degree_keys_view.py`.

Graph: node annotations + annotated undirected edges keyed by `(min, max)`.
A step is given the two corner lists exactly as the code built them (the order in which networkx lists a
vertex's edges is not modelled; the harness validates the lists as sets against `corner`).
Randomness: the uniform draw `r` of the Metropolis test is an argument.

KNOWN FINDING (not repaired, see known_findings.json): `swap_condition` gives the new edge `(u0, v1)` the
attributes of the old edge `(u0, u1)` and `(v0, u1)` those of `(v0, v1)` — `proposals` below transcribes that;
`proposalsFixed` is the intended assignment.
-/
namespace Gcmpy.MCMC
open Gcmpy Gcmpy.Graph Gcmpy.Loaders

structure Attr where
  top : String
  mid : Nat
deriving Repr, DecidableEq

structure Net where
  jd : List (Nat × JD)
  edges : List (Edge × Attr)          -- keys normalised with `normE`
deriving Repr, DecidableEq

def attrOf (G : Net) (a b : Nat) : Option Attr := Dict.get G.edges (normE (a, b))
def hasE (G : Net) (a b : Nat) : Bool := (attrOf G a b).isSome
def jdOf (G : Net) (v : Nat) : JD := (Dict.get G.jd v).getD []

/-- `get_all_edges(G, u0, edge)`: edges at `u0` carrying the motif id of `edge`, oriented away from `u0` (as a set) -/
def corner (G : Net) (u0 : Nat) (mid : Nat) : List Edge :=
  G.edges.filterMap fun (e, a) =>
    if a.mid = mid then (if e.1 = u0 then some (u0, e.2) else if e.2 = u0 then some (u0, e.1) else none) else none

/-- `get_motif_vertices`: vertices reachable from `u0` along edges carrying motif id `mid` -/
def motifVertices (G : Net) (u0 : Nat) (mid : Nat) : List Nat :=
  let es := (G.edges.filter fun p => p.2.mid = mid).map (·.1)
  comp es (G.edges.length + 1) u0

def topsOf (G : Net) (es : List Edge) : List String := es.filterMap fun e => (attrOf G e.1 e.2).map (·.top)

def countTop (G : Net) (es : List Edge) (t : String) : Nat := ((topsOf G es).filter (· = t)).length

/-- `is_edge_choice_suitable(G, u0, v0, e0s, e1s)` (with the repaired membership clause) -/
def suitable (G : Net) (u0 v0 : Nat) (e0s e1s : List Edge) : Bool :=
  e0s.length = e1s.length &&
  (topsOf G e0s).all (fun t => countTop G e0s t = countTop G e1s t) &&
  (topsOf G e1s).all (fun t => countTop G e0s t = countTop G e1s t) &&
  (e0s.zip e1s).all (fun (e0, e1) => (attrOf G e0.1 e0.2).map (·.mid) ≠ (attrOf G e1.1 e1.2).map (·.mid)) &&
  (match e0s.head?, e1s.head? with
   | some e0, some e1 =>
     match attrOf G e0.1 e0.2, attrOf G e1.1 e1.2 with
     | some a0, some a1 => decide (v0 ∉ motifVertices G u0 a0.mid) && decide (u0 ∉ motifVertices G v0 a1.mid)
     | _, _ => false
   | _, _ => false) &&
  e0s.all (fun e0 =>
    let t0 := (attrOf G e0.1 e0.2).map (·.top)
    (e1s.filter fun e1 => (attrOf G e1.1 e1.2).map (·.top) = t0).all fun e1 =>
      ¬ hasE G u0 e1.2 && ¬ hasE G v0 e0.2)

/-- pairing of `swap_condition`: each `e0` takes the LAST not-yet-used `e1` of its topology (`lst.pop()`) -/
def pairUp (G : Net) : List Edge → List Edge → Option (List (Edge × Edge))
  | [], _ => some []
  | e0 :: rest, e1s =>
    let t0 := (attrOf G e0.1 e0.2).map (·.top)
    match (e1s.reverse.find? fun e1 => (attrOf G e1.1 e1.2).map (·.top) = t0) with
    | none => none                                  -- IndexError → ErrorMarkovChainMonteCarloRewiring
    | some e1 =>
      match pairUp G rest (e1s.erase e1) with
      | none => none
      | some ps => some ((e0, e1) :: ps)

/-- the proposal edges as the code builds them: `(u0, v1)` inherits from `e0`, `(v0, u1)` from `e1` -/
def proposals (G : Net) (u0 v0 : Nat) (ps : List (Edge × Edge)) : List (Edge × Option Attr) :=
  ps.flatMap fun (e0, e1) => [((u0, e1.2), attrOf G e0.1 e0.2), ((v0, e0.2), attrOf G e1.1 e1.2)]

/-- the intended assignment: each new edge inherits from the edge it replaces in its motif -/
def proposalsFixed (G : Net) (u0 v0 : Nat) (ps : List (Edge × Edge)) : List (Edge × Option Attr) :=
  ps.flatMap fun (e0, e1) => [((u0, e1.2), attrOf G e1.1 e1.2), ((v0, e0.2), attrOf G e0.1 e0.2)]

abbrev Target := List (String × Table)

def topIndex (names : List String) (t : String) : Option Nat :=
  (names.zipIdx.find? fun p => p.1 = t).map (·.2)

def excessOf (G : Net) (v i : Nat) : JD := Mixing.excess (jdOf G v) i

/-- Metropolis numerator; `none` = reject (swap changes nothing, missing key, or zero product) -/
def numerator (G : Net) (names : List String) (target : Target) (u0 v0 : Nat) :
    List (Edge × Edge) → Rat → Option Rat
  | [], acc => some acc
  | (e0, e1) :: rest, acc =>
    match attrOf G e0.1 e0.2 with
    | none => none
    | some a0 =>
      match topIndex names a0.top, Dict.get target a0.top with
      | some i, some ejk =>
        let xu0 := excessOf G u0 i; let xu1 := excessOf G e0.2 i
        let xv0 := excessOf G v0 i; let xv1 := excessOf G e1.2 i
        let u0v1 := xu0 ++ xv1; let v0u1 := xv0 ++ xu1
        let starting := [xu0 ++ xu1, xu1 ++ xu0, xv0 ++ xv1, xv1 ++ xv0]
        if u0v1 ∈ starting ∧ v0u1 ∈ starting then none else
        match Dict.get ejk u0v1, Dict.get ejk v0u1 with
        | some a, some b => let acc' := acc * (a * b); if acc' = 0 then none else numerator G names target u0 v0 rest acc'
        | _, _ => none
      | _, _ => none

/-- Metropolis denominator over `zip(e0s, e1s)`; `none` = KeyError → reject -/
def denominator (G : Net) (names : List String) (target : Target) : List (Edge × Edge) → Rat → Option Rat
  | [], acc => some acc
  | (e0, e1) :: rest, acc =>
    match attrOf G e0.1 e0.2, attrOf G e1.1 e1.2 with
    | some a0, some a1 =>
      match topIndex names a0.top, topIndex names a1.top, Dict.get target a0.top, Dict.get target a1.top with
      | some i0, some i1, some ejk0, some ejk1 =>
        match Dict.get ejk0 (excessOf G e0.1 i0 ++ excessOf G e0.2 i0), Dict.get ejk1 (excessOf G e1.1 i1 ++ excessOf G e1.2 i1) with
        | some a, some b => denominator G names target rest (acc * (a * b))
        | _, _ => none
      | _, _, _, _ => none
    | _, _ => none

inductive Decision where
  | accept | reject | raiseDivZero | raiseIndex
deriving Repr, DecidableEq

/-- `swap_condition(G, e0s, e1s, u0, v0)` with uniform draw `r` -/
def swapCondition (G : Net) (names : List String) (target : Target) (u0 v0 : Nat) (e0s e1s : List Edge) (r : Rat) : Decision :=
  match pairUp G e0s e1s with
  | none => .raiseIndex
  | some ps =>
    match numerator G names target u0 v0 ps 1 with
    | none => .reject
    | some top =>
      match denominator G names target (e0s.zip e1s) 1 with
      | none => .reject
      | some bottom => if bottom = 0 then .raiseDivZero else if top / bottom > r then .accept else .reject

/-- application of an accepted swap in `rewire`: add the proposal edges (raise if one exists), remove both corners -/
def applySwap (G : Net) (u0 v0 : Nat) (e0s e1s : List Edge) : Option Net :=
  match pairUp G e0s e1s with
  | none => none
  | some ps =>
    let props := proposals G u0 v0 ps
    let added := props.foldl (fun (acc : Option (List (Edge × Attr))) (e, a) =>
      match acc, a with
      | some es, some a => if (Dict.get es (normE e)).isSome then none else some (es ++ [(normE e, a)])
      | _, _ => none) (some G.edges)
    match added with
    | none => none                                   -- "Edge … already present in network!"
    | some es =>
      let removed := (e0s ++ e1s).foldl (fun es e => es.filter fun p => p.1 ≠ normE e) es
      some { G with edges := removed }

/-- the same with the intended attribute assignment -/
def applySwapFixed (G : Net) (u0 v0 : Nat) (e0s e1s : List Edge) : Option Net :=
  match pairUp G e0s e1s with
  | none => none
  | some ps =>
    let props := proposalsFixed G u0 v0 ps
    let added := props.foldl (fun (acc : Option (List (Edge × Attr))) (e, a) =>
      match acc, a with
      | some es, some a => if (Dict.get es (normE e)).isSome then none else some (es ++ [(normE e, a)])
      | _, _ => none) (some G.edges)
    match added with
    | none => none
    | some es =>
      let removed := (e0s ++ e1s).foldl (fun es e => es.filter fun p => p.1 ≠ normE e) es
      some { G with edges := removed }

/-- one observed proposal: state, corners, draw; result state (unchanged on rejection) -/
def stepNet (G : Net) (names : List String) (target : Target) (u0 v0 : Nat) (e0s e1s : List Edge) (r : Rat) :
    Decision × Option Net :=
  match swapCondition G names target u0 v0 e0s e1s r with
  | .accept => (.accept, applySwap G u0 v0 e0s e1s)
  | d => (d, some G)

end Gcmpy.MCMC
