import GcmpyModel.Model.Loaders
/-
Model of `JointDegreeSplitDegree` and `JointDegreeDelta` (property C07), on the repaired code
(the table is created once in `create_jdd`, not in `resolve_degree`).
-/
namespace Gcmpy.SplitDegree
open Gcmpy Gcmpy.Loaders

/-- `get_valid_joint_degrees(remaining, topology)` (a member of the i-th clique topology consumes i edges);
    `topology = 0` divides by zero in Python, the model returns no split -/
def validSplits : Nat → Nat → List JD
  | _, 0 => []
  | remaining, 1 => [[remaining]]
  | remaining, t+2 =>
    (List.range (remaining / (t+2) + 1)).flatMap fun i =>
      (validSplits (remaining - i * (t+2)) (t+1)).map fun row => row ++ [i]

/-- `calc_prob_of_joint_degree`: `prod *= pow(probs[i], (i + 1) * degree)` -/
def splitWeight (probs : List Rat) (jd : JD) : Rat :=
  (jd.zipIdx.map fun (d, i) => (probs.getD i 0) ^ ((i + 1) * d)).foldl (· * ·) 1

/-- number of edges a joint degree uses -/
def edgesOf (jd : JD) : Nat := (jd.zipIdx.map fun (d, i) => (i + 1) * d).sum

/-- `resolve_degree(k, w)`: the splits of `k`, weights normalised to 1 and scaled by `w`, written into the table -/
def resolve (probs : List Rat) (k : Nat) (w : Rat) (table : Table) : Except Err Table :=
  let splits := validSplits k probs.length
  let ws := splits.map (splitWeight probs)
  let total := ws.foldl (· + ·) 0
  if splits.isEmpty then .ok table
  else if total = 0 then .error .zeroDivision
  else .ok ((splits.zip ws).foldl (fun t (jd, p) => Dict.set t jd (w * (p / total))) table)

def resolveRange (probs : List Rat) (fp : Nat → Rat) : List Nat → Table → Except Err Table
  | [], t => .ok t
  | k :: ks, t => do
    let t' ← resolve probs k (fp k) t
    resolveRange probs fp ks t'

/-- `JointDegreeSplitDegree.create_jdd` over `range(lo, hi)` -/
def splitDegree (fp : Nat → Rat) (probs : List Rat) (lo hi : Nat) : Except Err Table := do
  let t ← resolveRange probs fp (rangeAB lo hi) []
  normalise t

def deltaRange (nTop : Nat) (probs : List Rat) (fp : Nat → Rat) (target : Nat) : List Nat → Table → Except Err Table
  | [], t => .ok t
  | k :: ks, t =>
    if k ≠ target then
      -- zeros = [0] * len(motif_sizes); zeros[0] = k   (IndexError for an empty motif_sizes: not modelled)
      deltaRange nTop probs fp target ks (Dict.set t (k :: List.replicate (nTop - 1) 0) (fp k))
    else do
      let t' ← resolve probs k (fp k) t
      deltaRange nTop probs fp target ks t'

/-- `JointDegreeDelta.create_jdd` -/
def delta (nTop : Nat) (fp : Nat → Rat) (probs : List Rat) (lo hi target : Nat) : Except Err Table := do
  let t ← deltaRange nTop probs fp target (rangeAB lo hi) []
  normalise t

end Gcmpy.SplitDegree
