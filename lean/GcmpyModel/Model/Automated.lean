import GcmpyModel.Model.Graph
import GcmpyModel.Model.Dict
/-
Model of `gcmpy/message_passing/equations/automated_equation.py` (class AutomatedEquation), generic over
the number type `R` (any type with +, -, *, 0, 1: ℚ, ℝ, polynomial rings …).

Sets are duplicate-free lists.  The order in which Python iterates a `set` is not part of the model: the
loop over `possible - excluded` runs over that set in list order, and the theorems (Properties/C15) hold
for the resulting *set* of vertex sets / for sums, which do not depend on the order.
-/
namespace Gcmpy.Automated
open Gcmpy Gcmpy.Graph

structure Motif where
  nodes : List Nat          -- `G.nodes()`
  edges : List Edge         -- `G.edges()`
deriving Repr, DecidableEq

/-- `pow(x, n)` for a non-negative integer `n` -/
def powN {R : Type} [Mul R] [OfNat R 1] (x : R) : Nat → R
  | 0 => 1
  | n+1 => powN x n * x

/-- the `for j in possible - excluded` loop; `excluded` accumulates across iterations -/
def loopWith (rec : List Nat → List Nat → List Nat → List (List Nat)) (adj : Nat → List Nat)
    (sub possible : List Nat) : List Nat → List Nat → List (List Nat)
  | [], _ => []
  | j :: cs, excluded =>
    rec (j :: sub) ((possible ++ adj j).filter (fun x => x ∉ j :: excluded)) (j :: excluded)
      ++ loopWith rec adj sub possible cs (j :: excluded)

/-- `_get_connected_subgraphs(G, subgraph, possible, excluded, results, max_size)`; `fuel` bounds the recursion
    depth (Properties/C15 shows `|V|` is enough) -/
def go (adj : Nat → List Nat) (maxSize : Nat) : Nat → List Nat → List Nat → List Nat → List (List Nat)
  | 0, sub, _, _ => [sub]
  | f+1, sub, possible, excluded =>
    if sub.length = maxSize then [sub]                       -- `if len(subgraph) == max_size: return`
    else sub :: loopWith (go adj maxSize f) adj sub possible
            (dedup (possible.filter (fun x => x ∉ excluded))) excluded

/-- `get_connected_subgraphs(G, root)` without the cache -/
def connectedSubgraphs (G : Motif) (root : Nat) : List (List Nat) :=
  go (nbrs G.edges) G.nodes.length G.nodes.length [root] (dedup (nbrs G.edges root)) [root]

/-- `get_edge_combinations(g, c)` without the cache: for every subset `es` of the edges (by size, then in
    `itertools.combinations` order) whose removal leaves `g` connected, the number of removed edges -/
def edgeCombinations (g : Motif) : List Nat :=
  ((List.range (g.edges.length + 1)).flatMap fun l => combinations l g.edges).filterMap fun es =>
    if connected (g.edges.filter fun e => e ∉ es) g.nodes then some es.length else none

/-- the subgraph kept for component `c` (|c| ≥ 2): edges with both ends in `c`; isolated vertices removed -/
def inner (G : Motif) (c : List Nat) : Motif :=
  let es := G.edges.filter fun e => e.1 ∈ c ∧ e.2 ∈ c
  { nodes := G.nodes.filter fun n => (nbrs es n).length ≠ 0, edges := es }

/-- number of interface edges of `c` (exactly one end in `c`) -/
def interfaceCount (G : Motif) (c : List Nat) : Nat :=
  (G.edges.filter fun e => ¬ (e.1 ∉ c ∧ e.2 ∉ c) ∧ ¬ (e.1 ∈ c ∧ e.2 ∈ c)).length

section ring
variable {R : Type} [Add R] [Sub R] [Mul R] [OfNat R 0] [OfNat R 1]

/-- `get_us(g, root)`: product of `u` over the vertices of `g` other than `root` -/
def us (g : Motif) (u : Nat → R) (root : Nat) : R :=
  (g.nodes.filter (· ≠ root)).foldl (fun acc n => acc * u n) 1

/-- contribution of one component, given the edge-combination list for its inner subgraph -/
def componentTerm (G : Motif) (p : R) (u : Nat → R) (root : Nat) (c : List Nat) (combos : List Nat) : R :=
  if c.length = 1 then
    powN (1 - p) (dedup (nbrs G.edges (c.headD root))).length     -- `len(list(G.neighbors(c[0])))` (simple graph)
  else
    let g := inner G c
    let iface := powN (1 - p) (interfaceCount G c)
    let w := us g u root
    combos.foldl (fun acc n => acc + (powN p (g.edges.length - n) * powN (1 - p) n) * iface * w) 0

/-- `automated_equation(G, p, root)` on a fresh evaluator -/
def automatedEquation (G : Motif) (p : R) (u : Nat → R) (root : Nat) : R :=
  (connectedSubgraphs G root).foldl
    (fun acc c => acc + componentTerm G p u root c (if c.length = 1 then [] else edgeCombinations (inner G c))) 0

/-! ### the evaluator object with its two structural caches -/

/-- cache keys: `f"{root}-{G.name}"` and `f"{c}-{G.name}"` (the component as the list Python printed) -/
structure Caches where
  conn   : List ((Nat × String) × List (List Nat))
  combos : List ((List Nat × String) × List Nat)
deriving Repr

def Caches.empty : Caches := ⟨[], []⟩

def getConn (st : Caches) (G : Motif) (name : String) (root : Nat) : Caches × List (List Nat) :=
  match Dict.get st.conn (root, name) with
  | some r => (st, r)
  | none => let r := connectedSubgraphs G root; ({ st with conn := Dict.set st.conn (root, name) r }, r)

def getCombos (st : Caches) (g : Motif) (name : String) (c : List Nat) : Caches × List Nat :=
  match Dict.get st.combos (c, name) with
  | some r => (st, r)
  | none => let r := edgeCombinations g; ({ st with combos := Dict.set st.combos (c, name) r }, r)

/-- `automated_equation` on an evaluator in state `st`: same computation, structure read through the caches -/
def automatedEquationM (st : Caches) (G : Motif) (name : String) (p : R) (u : Nat → R) (root : Nat) : Caches × R :=
  let (st1, comps) := getConn st G name root
  comps.foldl (fun (acc : Caches × R) c =>
    if c.length = 1 then (acc.1, acc.2 + componentTerm G p u root c [])
    else
      let (st', cb) := getCombos acc.1 (inner G c) name c
      (st', acc.2 + componentTerm G p u root c cb)) (st1, 0)

end ring
end Gcmpy.Automated
