import GcmpyModel.Model.Automated
/-
Model of the closed-form equations and graph counts (property C16):
  gcmpy/message_passing/equations/clique_equation.py           `omega`, `cliqueEquation`
  gcmpy/message_passing/equations/chordless_cycle_equation.py  `chordlessCycle`
  gcmpy/message_passing/number_connected_graphs.py             `binomial`, `Q` (memoised recursion as a
                                                               bottom-up table), `numberOfConnectedGraphs`, `QQ`
`lru_cache` is semantically transparent and is not modelled.
-/
namespace Gcmpy.ClosedForms
open Gcmpy Gcmpy.Graph Gcmpy.Automated

def fact : Nat → Nat
  | 0 => 1
  | n+1 => (n+1) * fact n

/-- `binomial(n, k)`: `0` if `n - k < 0`, else `n! // k! // (n-k)!` -/
def binomial (n k : Nat) : Nat := if n < k then 0 else fact n / fact k / fact (n - k)

/-- `Q(n, k)` given the rows for 1 … n-1 (`rows[m]` = row of `m+1` vertices, indexed by `k`) -/
def qEntry (rows : List (List Int)) (n k : Nat) : Int :=
  let s := n * (n - 1) / 2
  if k < n - 1 ∨ k > s then 0
  else if k = n - 1 then ((n ^ (n - 2) : Nat) : Int)          -- Cayley shortcut `int(pow(n, n - 2))`
  else
    (List.range (n - 1)).foldl (fun (res : Int) m =>
      let lb := k - (m + 1) * m / 2                             -- max(0, …) = truncated subtraction
      let np := (n - 1 - m) * (n - 2 - m) / 2
      let res1 := ((List.range (k - m + 1 - lb)).map (· + lb)).foldl (fun (acc : Int) p =>
        acc + (binomial np p : Int) * ((rows.getD m []).getD (k - p) 0)) 0
      res - (binomial (n - 1) m : Int) * res1) (binomial s k : Int)

def qRow (rows : List (List Int)) (n : Nat) : List Int :=
  (List.range (n * (n - 1) / 2 + 1)).map (qEntry rows n)

/-- rows for 1, 2, …, n vertices -/
def qTable : Nat → List (List Int)
  | 0 => []
  | n+1 => let rows := qTable n; rows ++ [qRow rows (n+1)]

/-- `Q(n, k)` for `n ≥ 1` (0 outside the table: k > n(n-1)/2) -/
def Q (n k : Nat) : Int := if n = 0 then (if k = 0 then 1 else 0) else ((qTable n).getD (n - 1) []).getD k 0

/-- the same recursion WITHOUT the `k == n - 1` shortcut -/
def qEntryGen (rows : List (List Int)) (n k : Nat) : Int :=
  let s := n * (n - 1) / 2
  if k < n - 1 ∨ k > s then 0
  else
    (List.range (n - 1)).foldl (fun (res : Int) m =>
      let lb := k - (m + 1) * m / 2
      let np := (n - 1 - m) * (n - 2 - m) / 2
      let res1 := ((List.range (k - m + 1 - lb)).map (· + lb)).foldl (fun (acc : Int) p =>
        acc + (binomial np p : Int) * ((rows.getD m []).getD (k - p) 0)) 0
      res - (binomial (n - 1) m : Int) * res1) (binomial s k : Int)

def qTableGen : Nat → List (List Int)
  | 0 => []
  | n+1 => let rows := qTableGen n; rows ++ [(List.range ((n+1) * n / 2 + 1)).map (qEntryGen rows (n+1))]

def Qgen (n k : Nat) : Int := ((qTableGen n).getD (n - 1) []).getD k 0

/-- `number_of_connected_graphs(G, ak, i, k)`: number of `k`-subsets of the edges of the subgraph induced on
    `ak ∪ {i}` whose deletion leaves it connected -/
def numberOfConnectedGraphs (G : Motif) (ak : List Nat) (i k : Nat) : Nat :=
  let nodes := G.nodes.filter fun n => n = i ∨ n ∈ ak
  let edges := G.edges.filter fun e => e.1 ∈ nodes ∧ e.2 ∈ nodes
  ((combinations k edges).filter fun comb => connected (edges.filter fun e => e ∉ comb) nodes).length

/-- `nx.complete_graph(n)` -/
def completeGraph (n : Nat) : Motif :=
  { nodes := List.range n, edges := (List.range n).flatMap fun a => ((List.range n).filter (a < ·)).map fun b => (a, b) }

/-- `QQ(n, k)`: brute force on the complete graph -/
def QQ (n k : Nat) : Nat :=
  numberOfConnectedGraphs (completeGraph n) ((List.range n).filter (0 < ·)) 0 (n * (n - 1) / 2 - k)

/-- `omega(tau, kappa)` as the code computes it: Σ_{v=1..r} (tau - v) − r(r-1)/2 with r = tau - kappa - 1 -/
def omega (tau kappa : Nat) : Nat :=
  let r := tau - kappa - 1
  (((List.range r).map fun v => tau - (v + 1)).sum) - r * (r - 1) / 2

section ring
variable {R : Type} [Add R] [Sub R] [Mul R] [OfNat R 0] [OfNat R 1] [IntCast R]

/-- `sum(prod(comb) for comb in combinations(Hs, kappa))` -/
def esym (Hs : List R) (kappa : Nat) : R :=
  ((combinations kappa Hs).map fun comb => comb.foldl (· * ·) 1).foldl (· + ·) 0

/-- `clique_equation(tau, phi, Hs)` -/
def cliqueEquation (tau : Nat) (phi : R) (Hs : List R) : R :=
  (List.range tau).foldl (fun acc kappa =>
    let e := esym Hs kappa
    (List.range (kappa * (kappa - 1) / 2 + 1)).foldl (fun acc m =>
      let full := kappa * (kappa + 1) / 2
      acc + (((Q (kappa + 1) (full - m) : Int) : R) * powN phi (full - m) * powN (1 - phi) (omega tau kappa + m)) * e) acc) 0

/-- `chordless_cycle_equation(n, u, phi)` -/
def chordlessCycle (n : Nat) (u phi : R) : R :=
  let q2 := powN (1 - phi) 2
  let summation := ((List.range (n - 2)).map (· + 1)).foldl (fun acc i =>
      acc + ((((i + 1 : Nat) : Int) : R)) * powN (phi * u) i * q2) 0
  q2 + summation + (((n : Nat) : Int) : R) * powN (u * phi) (n - 1) * (1 - phi) + phi * powN (phi * u) (n - 1)

end ring
end Gcmpy.ClosedForms
