import GcmpyModel.Model.Automated
/-
Model of `gcmpy/message_passing/message_passing.py` (class MessagePassing) on top of the model of the
automated equation, generic over the number type.  Cover labels `size-[vertices]-[edges]-id` are taken in
parsed form (`Label`); the harness checks the real parser (`message_passing_mixin.py`) against the
structure it generated the label from.

Sets/dicts: `H_tau` is an association list keyed by `(vertex, motif id)`; a missing key (KeyError in Python,
only possible for inconsistent labels) reads as 0.
-/
namespace Gcmpy.MessagePassing
open Gcmpy Gcmpy.Graph Gcmpy.Automated

structure Label where
  verts : List Nat
  edges : List Edge
  id    : Nat
deriving Repr, DecidableEq

structure Net where
  nodes : List Nat                       -- `G.nodes()`
  edges : List (Nat × Nat × Label)       -- `G.edges()` order, with the edge's cover label
deriving Repr

/-- `G.edges[j, l]['CoverLabel']` -/
def labelOf (net : Net) (a b : Nat) : Option Label :=
  (net.edges.find? fun e => (e.1 = a ∧ e.2.1 = b) ∨ (e.1 = b ∧ e.2.1 = a)).map (·.2.2)

def neighbours (net : Net) (v : Nat) : List Nat :=
  dedup (nbrs (net.edges.map fun e => (e.1, e.2.1)) v)

/-- vertices of a motif's own graph in first-appearance order (`nx.Graph.add_edges_from`) -/
def motifNodes (es : List Edge) : List Nat :=
  (es.flatMap fun e => [e.1, e.2]).foldl (fun acc v => if v ∈ acc then acc else acc ++ [v]) []

section ring
variable {R : Type} [Add R] [Sub R] [Mul R] [OfNat R 0] [OfNat R 1]

abbrev HMap (R : Type) := List ((Nat × Nat) × R)

def readH (H : HMap R) (k : Nat × Nat) : R := (Dict.get H k).getD 0

/-- product, over the distinct motif ids met among the neighbours `ls` of `j`, of `H[(j, id)]`
    (`done_motifs` makes each motif count once) -/
def prodOver (net : Net) (H : HMap R) (j : Nat) : List Nat → List Nat → R → R
  | [], _, acc => acc
  | l :: ls, done, acc =>
    match labelOf net j l with
    | none => prodOver net H j ls done acc
    | some lab =>
      if lab.id ∈ done then prodOver net H j ls done acc
      else prodOver net H j ls (lab.id :: done) (acc * readH H (j, lab.id))

/-- `calculate_H_tau(focal, label)`: new value of `H[(focal, id)]` -/
def newMessage (net : Net) (φ : R) (H : HMap R) (focal : Nat) (lab : Label) : R :=
  let prods : Nat → R := fun j =>
    prodOver net H j ((neighbours net j).filter fun l => l ∉ lab.verts) [] 1
  automatedEquation ⟨motifNodes lab.edges, lab.edges⟩ φ prods focal

def calcH (net : Net) (φ : R) (H : HMap R) (focal : Nat) (lab : Label) : HMap R :=
  Dict.set H (focal, lab.id) (newMessage net φ H focal lab)

/-- one sweep over the edges: both end points of every edge, in place (Gauss–Seidel) -/
def sweep (net : Net) (φ : R) (H : HMap R) : HMap R :=
  net.edges.foldl (fun H e => calcH net φ (calcH net φ H e.1 e.2.2) e.2.1 e.2.2) H

def sweeps (net : Net) (φ : R) : Nat → HMap R → HMap R
  | 0, H => H
  | n+1, H => sweeps net φ n (sweep net φ H)

/-- initial messages: `half` on every member of every motif -/
def initH (net : Net) (half : R) : HMap R :=
  net.edges.foldl (fun H e => e.2.2.verts.foldl (fun H k => Dict.set H (k, e.2.2.id) half) H) []

/-- `Σ_i Π_{motifs of i} H[(i, id)]` -/
def outerSum (net : Net) (H : HMap R) : R :=
  net.nodes.foldl (fun acc i => acc + prodOver net H i (neighbours net i) [] 1) 0

/-- messages after `iterations` sweeps from the uniform start -/
def finalH (net : Net) (iterations : Nat) (φ half : R) : HMap R := sweeps net φ iterations (initH net half)

end ring

/-- `theoretical(phi)` over the rationals (`1 - outer_sum / G.order()`; division by zero for an empty graph: `none`) -/
def theoretical (net : Net) (iterations : Nat) (φ : Rat) : Option Rat :=
  if net.nodes.isEmpty then none
  else some (1 - outerSum net (finalH net iterations φ (1/2)) / (net.nodes.length : Rat))

/-- the same computation in double precision (used only to compare the default 25-sweep run numerically) -/
def theoreticalFloat (net : Net) (iterations : Nat) (φ : Float) : Float :=
  1 - outerSum net (finalH net iterations φ 0.5) / net.nodes.length.toFloat

end Gcmpy.MessagePassing
