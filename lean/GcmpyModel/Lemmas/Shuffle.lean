import GcmpyModel.Model.Shuffle
/-! Fisher–Yates: permutation, and bijection between valid draw sequences and arrangements. -/
namespace Gcmpy.Shuffle
variable {α : Type}

@[simp] theorem length_swap (l : List α) (i j : Nat) : (swap l i j).length = l.length := by
  unfold swap; split <;> simp

theorem getElem?_swap (l : List α) (i j k : Nat) (hi : i < l.length) (hj : j < l.length) :
    (swap l i j)[k]? = if k = j then l[i]? else if k = i then l[j]? else l[k]? := by
  unfold swap
  have h1 : l[i]? = some l[i] := by simp [hi]
  have h2 : l[j]? = some l[j] := by simp [hj]
  rw [h1, h2]
  simp only [List.getElem?_set]
  grind

theorem swap_perm (l : List α) (i j : Nat) : (swap l i j).Perm l := by
  unfold swap
  split
  · rename_i a b ha hb
    rcases List.getElem?_eq_some_iff.1 ha with ⟨hi, rfl⟩
    rcases List.getElem?_eq_some_iff.1 hb with ⟨hj, rfl⟩
    exact List.set_set_perm hi hj
  · exact List.Perm.refl _

@[simp] theorem length_shuffle (n : Nat) (l : List α) (cs : List Nat) :
    (shuffle n l cs).length = l.length := by
  fun_induction shuffle n l cs <;> simp_all

theorem shuffle_perm (n : Nat) (l : List α) (cs : List Nat) : (shuffle n l cs).Perm l := by
  fun_induction shuffle n l cs with
  | case1 | case2 | case3 => exact List.Perm.refl _
  | case4 n l j cs ih => exact ih.trans (swap_perm _ _ _)

/-- positions at or beyond `n` are never touched -/
theorem shuffle_fix (n : Nat) (l : List α) (cs : List Nat) (hn : n ≤ l.length) (hv : Valid n cs)
    (i : Nat) (hi : n ≤ i) : (shuffle n l cs)[i]? = l[i]? := by
  fun_induction shuffle n l cs with
  | case1 | case2 | case3 => rfl
  | case4 n l j cs ih =>
    simp only [Valid] at hv
    rw [ih (by simp; omega) hv.2 (by omega)]
    rw [getElem?_swap _ _ _ _ (by omega) (by omega)]
    grind

/-- the element placed last is the one the first draw selects -/
theorem shuffle_last (n : Nat) (l : List α) (j : Nat) (cs : List Nat) (hn : n + 2 ≤ l.length)
    (hv : Valid (n+2) (j :: cs)) : (shuffle (n+2) l (j :: cs))[n+1]? = l[j]? := by
  simp only [Valid] at hv
  show (shuffle (n+1) (swap l (n+1) j) cs)[n+1]? = _
  rw [shuffle_fix _ _ _ (by simp; omega) hv.2 _ (Nat.le_refl _)]
  rw [getElem?_swap _ _ _ _ (by omega) (by omega)]
  grind

theorem nodup_idx_inj (l : List α) (hl : l.Nodup) (i j : Nat) (hi : i < l.length)
    (h : l[i]? = l[j]?) : i = j := by
  have hj : j < l.length := by
    rcases Nat.lt_or_ge j l.length with h' | h'
    · exact h'
    · rw [List.getElem?_eq_none h'] at h; simp [hi] at h
  rw [List.getElem?_eq_getElem hi, List.getElem?_eq_getElem hj] at h
  exact (List.getElem_inj hl).1 (Option.some.inj h)

/-- Injectivity: distinct valid draw sequences give distinct arrangements. -/
theorem shuffle_inj (n : Nat) (l : List α) (hl : l.Nodup) (hn : n ≤ l.length) (cs cs' : List Nat)
    (hv : Valid n cs) (hv' : Valid n cs') (h : shuffle n l cs = shuffle n l cs') : cs = cs' := by
  induction n generalizing l cs cs' with
  | zero => simp only [Valid] at hv hv'; rw [hv, hv']
  | succ n ih =>
    cases n with
    | zero => simp only [Valid] at hv hv'; rw [hv, hv']
    | succ n =>
      match cs, cs', hv, hv' with
      | j :: cs, j' :: cs', hv, hv' =>
        have e1 := shuffle_last n l j cs hn hv
        have e2 := shuffle_last n l j' cs' hn hv'
        rw [h, e2] at e1
        simp only [Valid] at hv hv'
        have hjj : j' = j := nodup_idx_inj l hl j' j (by omega) e1
        subst hjj
        have : shuffle (n+1) (swap l (n+1) j') cs = shuffle (n+1) (swap l (n+1) j') cs' := h
        rw [ih (swap l (n+1) j') ((swap_perm _ _ _).nodup_iff.2 hl) (by simp; omega) cs cs' hv.2 hv'.2 this]

/-- Surjectivity: every arrangement of the first `n` slots arises from a valid draw sequence. -/
theorem shuffle_surj (n : Nat) (l p : List α) (hl : l.Nodup) (hn : n ≤ l.length)
    (hp : p.Perm l) (hfix : ∀ i, n ≤ i → p[i]? = l[i]?) :
    ∃ cs, Valid n cs ∧ shuffle n l cs = p := by
  induction n generalizing l with
  | zero =>
    refine ⟨[], rfl, ?_⟩
    show l = p
    exact (List.ext_getElem? (fun i => hfix i (Nat.zero_le _))).symm
  | succ n ih =>
    cases n with
    | zero =>
      refine ⟨[], rfl, ?_⟩
      show l = p
      have hlen : p.length = l.length := hp.length_eq
      have hpn : p.Nodup := hp.nodup_iff.2 hl
      refine (List.ext_getElem? (fun i => ?_)).symm
      rcases Nat.eq_zero_or_pos i with rfl | hi
      · -- position 0: the only place left
        have h0 : 0 < p.length := by omega
        have hx : p[0] ∈ l := hp.mem_iff.1 (List.getElem_mem h0)
        rcases List.getElem_of_mem hx with ⟨k, hk, hke⟩
        rcases Nat.eq_zero_or_pos k with rfl | hkpos
        · rw [List.getElem?_eq_getElem h0, List.getElem?_eq_getElem hk, hke]
        · have : p[k]? = l[k]? := hfix k hkpos
          have hk' : k < p.length := by omega
          rw [List.getElem?_eq_getElem hk, List.getElem?_eq_getElem hk'] at this
          have : p[k] = p[0] := by rw [Option.some.inj this, hke]
          have := (List.getElem_inj hpn).1 this
          omega
      · exact hfix i hi
    | succ n =>
      have hlen : p.length = l.length := hp.length_eq
      have hpn : p.Nodup := hp.nodup_iff.2 hl
      have hx : p[n+1]'(by omega) ∈ l := hp.mem_iff.1 (List.getElem_mem _)
      rcases List.getElem_of_mem hx with ⟨j, hj, hje⟩
      have hjle : j ≤ n + 1 := by
        rcases Nat.lt_or_ge (n+1) j with hgt | hle
        · exfalso
          have : p[j]? = l[j]? := hfix j (by omega)
          have hj' : j < p.length := by omega
          rw [List.getElem?_eq_getElem hj, List.getElem?_eq_getElem hj'] at this
          have : p[j] = p[n+1]'(by omega) := by rw [Option.some.inj this, hje]
          have := (List.getElem_inj hpn).1 this
          omega
        · exact hle
      have hfix' : ∀ i, n + 1 ≤ i → p[i]? = (swap l (n+1) j)[i]? := by
        intro i hi
        rw [getElem?_swap _ _ _ _ (by omega) (by omega)]
        rcases Nat.eq_or_lt_of_le hi with rfl | hlt
        · have : p[n+1]? = some l[j] := by rw [List.getElem?_eq_getElem (by omega), hje]
          rw [this]; grind
        · rw [hfix i (by omega)]; grind
      rcases ih (swap l (n+1) j) ((swap_perm _ _ _).nodup_iff.2 hl) (by simp; omega)
        (hp.trans (swap_perm _ _ _).symm) hfix' with ⟨cs, hv, hs⟩
      exact ⟨j :: cs, ⟨hjle, hv⟩, hs⟩

/-- **Fisher–Yates is a bijection** between valid draw sequences and arrangements. -/
theorem shuffle_bijective (l p : List α) (hl : l.Nodup) (hp : p.Perm l) :
    ∃ cs, (Valid l.length cs ∧ shuffle l.length l cs = p) ∧
      ∀ cs', Valid l.length cs' ∧ shuffle l.length l cs' = p → cs' = cs := by
  rcases shuffle_surj l.length l p hl (Nat.le_refl _) hp
    (fun i hi => by rw [List.getElem?_eq_none hi, List.getElem?_eq_none (by rw [hp.length_eq]; exact hi)])
    with ⟨cs, hv, hs⟩
  exact ⟨cs, ⟨hv, hs⟩, fun cs' h => shuffle_inj _ l hl (Nat.le_refl _) cs' cs h.1 hv (h.2.trans hs.symm)⟩

end Gcmpy.Shuffle