import Mathlib.Algebra.BigOperators.Ring.Finset
import Mathlib.Data.Finset.Powerset
import Mathlib.Logic.Relation
import Mathlib.Data.Fintype.Basic
import Mathlib.Tactic.Ring
import Mathlib.Tactic.Tauto
import Mathlib.Algebra.BigOperators.Group.Finset.Sigma
import Mathlib.Algebra.BigOperators.Group.Finset.Powerset
import Mathlib.Algebra.Order.BigOperators.Ring.Finset
import Mathlib.Algebra.Order.Field.Basic
import Mathlib.Tactic.Linarith
import Mathlib.Tactic.Positivity
/-
Bond percolation on a finite graph, without probability theory.

* Part 1 (any commutative ring): the exact expectation `exactE` of `∏ u` over the open
  component of a root equals the "sum over root components" decomposition `autoE`
  (`exactE_eq_autoE`), over an explicit finite vertex set `Vs`.
* Part 2 (linearly ordered field): `exactE` lies in `[0,1]`, equals `1` at `p = 0`,
  is monotone in `u` and antitone in `p`.
-/

open Finset BigOperators

namespace Gcmpy.Perc
variable {V : Type}
variable {R : Type} [CommRing R]
variable {ι : Type} [DecidableEq ι]

/-! ## Part 1 : the component decomposition -/

/-- adjacency induced by a set of (ordered-pair-encoded, undirected) edges -/
def Adj (A : Finset (V × V)) (x y : V) : Prop := (x, y) ∈ A ∨ (y, x) ∈ A

def Reach (A : Finset (V × V)) (r v : V) : Prop := Relation.ReflTransGen (Adj A) r v

open Classical in
/-- the open component of `r` (inside the vertex set `Vs`) under the open edges `A` -/
noncomputable def comp (Vs : Finset V) (A : Finset (V × V)) (r : V) : Finset V :=
  Vs.filter (Reach A r)

theorem Reach.mono {A B : Finset (V × V)} (h : A ⊆ B) {r v : V} (hr : Reach A r v) :
    Reach B r v := by
  induction hr with
  | refl => exact Relation.ReflTransGen.refl
  | tail _ hab ih =>
    refine Relation.ReflTransGen.tail ih ?_
    rcases hab with h1 | h1
    · exact Or.inl (h h1)
    · exact Or.inr (h h1)

/-- a walk that starts in `Vs` and uses edges with endpoints in `Vs` stays in `Vs` -/
theorem Reach.mem_of_mem {Vs : Finset V} {A : Finset (V × V)}
    (hA : ∀ e ∈ A, e.1 ∈ Vs ∧ e.2 ∈ Vs) {r v : V} (hr : r ∈ Vs) (h : Reach A r v) :
    v ∈ Vs := by
  induction h with
  | refl => exact hr
  | tail _ hab _ =>
    rcases hab with h1 | h1
    · exact (hA _ h1).2
    · exact (hA _ h1).1

theorem mem_comp {Vs : Finset V} {A : Finset (V × V)} {r v : V} :
    v ∈ comp Vs A r ↔ v ∈ Vs ∧ Reach A r v := by
  classical simp [comp]

theorem comp_subset (Vs : Finset V) (A : Finset (V × V)) (r : V) : comp Vs A r ⊆ Vs := by
  classical exact filter_subset _ _

theorem root_mem_comp {Vs : Finset V} (A : Finset (V × V)) {r : V} (hr : r ∈ Vs) :
    r ∈ comp Vs A r :=
  mem_comp.2 ⟨hr, Relation.ReflTransGen.refl⟩

theorem comp_mono (Vs : Finset V) {A B : Finset (V × V)} (h : A ⊆ B) (r : V) :
    comp Vs A r ⊆ comp Vs B r := by
  intro v hv
  rw [mem_comp] at hv ⊢
  exact ⟨hv.1, hv.2.mono h⟩

variable [DecidableEq V]

def inner (E : Finset (V × V)) (S : Finset V) : Finset (V × V) :=
  E.filter fun e => e.1 ∈ S ∧ e.2 ∈ S
def outer (E : Finset (V × V)) (S : Finset V) : Finset (V × V) :=
  E.filter fun e => e.1 ∉ S ∧ e.2 ∉ S
def bdry (E : Finset (V × V)) (S : Finset V) : Finset (V × V) :=
  E.filter fun e => ¬ (e.1 ∈ S ∧ e.2 ∈ S) ∧ ¬ (e.1 ∉ S ∧ e.2 ∉ S)

/-- L1: the component of `r` under `A` is `S` iff no `A`-edge crosses the boundary of `S`
and `S` is the component of `r` under the `A`-edges inside `S`. -/
theorem comp_eq_iff (Vs : Finset V) (A : Finset (V × V))
    (hA : ∀ e ∈ A, e.1 ∈ Vs ∧ e.2 ∈ Vs) (r : V) (S : Finset V) (hr : r ∈ S) :
    comp Vs A r = S ↔ (bdry A S = ∅) ∧ comp Vs (inner A S) r = S := by
  classical
  constructor
  · intro h
    have hSV : S ⊆ Vs := h ▸ comp_subset Vs A r
    have hS : ∀ v, Reach A r v ↔ v ∈ S := fun v => by
      rw [← h, mem_comp]
      exact ⟨fun hv => ⟨hv.mem_of_mem hA (hSV hr), hv⟩, fun hv => hv.2⟩
    have hb : bdry A S = ∅ := by
      apply Finset.eq_empty_of_forall_notMem
      rintro ⟨x, y⟩ hxy
      simp only [bdry, mem_filter] at hxy
      rcases hxy with ⟨hA', h1, h2⟩
      by_cases hx : x ∈ S
      · have : y ∈ S := (hS y).1 (((hS x).2 hx).tail (Or.inl hA'))
        exact h1 ⟨hx, this⟩
      · by_cases hy : y ∈ S
        · have : x ∈ S := (hS x).1 (((hS y).2 hy).tail (Or.inr hA'))
          exact hx this
        · exact h2 ⟨hx, hy⟩
    refine ⟨hb, ?_⟩
    ext v
    rw [mem_comp]
    constructor
    · rintro ⟨_, hv⟩
      exact (hS v).1 (hv.mono (filter_subset _ _))
    · intro hvS
      refine ⟨hSV hvS, ?_⟩
      have hv : Reach A r v := (hS v).2 hvS
      clear hvS
      induction hv with
      | refl => exact Relation.ReflTransGen.refl
      | @tail b c hb' hbc ih =>
        refine Relation.ReflTransGen.tail ih ?_
        have hbS : b ∈ S := (hS b).1 hb'
        have hcS : c ∈ S := (hS c).1 (hb'.tail hbc)
        rcases hbc with h1 | h1
        · exact Or.inl (by simp [inner, h1, hbS, hcS])
        · exact Or.inr (by simp [inner, h1, hbS, hcS])
  · rintro ⟨hb, hi⟩
    ext v
    rw [mem_comp]
    constructor
    · rintro ⟨-, hv⟩
      induction hv with
      | refl => exact hr
      | @tail b c _ hbc ih =>
        by_contra hc
        have : bdry A S ≠ ∅ := by
          rcases hbc with h1 | h1
          · exact Finset.ne_empty_of_mem (a := (b, c)) (by simp [bdry, h1, ih, hc])
          · exact Finset.ne_empty_of_mem (a := (c, b)) (by simp [bdry, h1, ih, hc])
        exact this hb
    · intro hv
      rw [← hi, mem_comp] at hv
      exact ⟨hv.1, hv.2.mono (filter_subset _ _)⟩

omit [DecidableEq V] in
/-- Direct characterisation of "the component of `r` is `S`": `S` is a set of vertices
containing `r`, all of `S` is reachable from `r`, and no open edge leaves `S`. -/
theorem comp_eq_iff' (Vs : Finset V) (F : Finset (V × V))
    (hF : ∀ e ∈ F, e.1 ∈ Vs ∧ e.2 ∈ Vs) (r : V) (hr : r ∈ Vs) (S : Finset V) :
    comp Vs F r = S ↔
      S ⊆ Vs ∧ r ∈ S ∧ (∀ v ∈ S, Reach F r v) ∧ (∀ e ∈ F, (e.1 ∈ S ↔ e.2 ∈ S)) := by
  constructor
  · intro h
    subst h
    refine ⟨comp_subset _ _ _, root_mem_comp _ hr, fun v hv => (mem_comp.1 hv).2, ?_⟩
    rintro ⟨x, y⟩ he
    have hxy := hF _ he
    simp only [mem_comp]
    constructor
    · rintro ⟨_, hx⟩
      exact ⟨hxy.2, hx.tail (Or.inl he)⟩
    · rintro ⟨_, hy⟩
      exact ⟨hxy.1, hy.tail (Or.inr he)⟩
  · rintro ⟨hSV, hrS, hreach, hclosed⟩
    ext v
    rw [mem_comp]
    constructor
    · rintro ⟨-, hv⟩
      induction hv with
      | refl => exact hrS
      | @tail b c _ hbc ih =>
        rcases hbc with h1 | h1
        · exact (hclosed _ h1).1 ih
        · exact (hclosed _ h1).2 ih
    · intro hv
      exact ⟨hSV hv, hreach v hv⟩

/-- For open edges `F` inside `S`, "the component of `r` is `S`" says exactly that the
graph `(S, F)` is connected. -/
theorem inner_fiber_eq_connected (Vs : Finset V) (E : Finset (V × V)) (S : Finset V)
    (hSV : S ⊆ Vs) (r : V) (hr : r ∈ S) (F : Finset (V × V)) (hF : F ⊆ inner E S) :
    comp Vs F r = S ↔ ∀ v ∈ S, Relation.ReflTransGen (fun a b => Adj F a b) r v := by
  have hin : ∀ e ∈ F, e.1 ∈ S ∧ e.2 ∈ S := fun e he => by
    have := hF he
    simp only [inner, mem_filter] at this
    exact this.2
  constructor
  · intro h v hv
    rw [← h, mem_comp] at hv
    exact hv.2
  · intro hconn
    ext v
    rw [mem_comp]
    constructor
    · rintro ⟨-, hv⟩
      induction hv with
      | refl => exact hr
      | @tail b c _ hbc _ =>
        rcases hbc with h1 | h1
        · exact (hin _ h1).2
        · exact (hin _ h1).1
    · intro hv
      exact ⟨hSV hv, hconn v hv⟩

/-- bond-percolation weight of the open set `A` inside `E` -/
def wt (p : R) (E A : Finset ι) : R := (∏ _e ∈ A, p) * ∏ _e ∈ E \ A, (1 - p)

theorem wt_eq_pow (p : R) {E A : Finset ι} (h : A ⊆ E) :
    wt p E A = p ^ A.card * (1 - p) ^ (E.card - A.card) := by
  simp only [wt, Finset.prod_const, Finset.card_sdiff_of_subset h]

/-- exact expectation of the product of `u` over the other vertices of `r`'s open component -/
noncomputable def exactE (Vs : Finset V) (E : Finset (V × V)) (p : R) (u : V → R) (r : V) : R :=
  ∑ A ∈ E.powerset, wt p E A * ∏ v ∈ (comp Vs A r).erase r, u v

theorem wt_total (p : R) (X : Finset ι) : ∑ O ∈ X.powerset, wt p X O = 1 := by
  have := Finset.prod_add (fun _ : ι => p) (fun _ => 1 - p) X
  simp only [wt]
  rw [← this]
  simp

theorem part_E (E : Finset (V × V)) (S : Finset V) :
    E = inner E S ∪ (bdry E S ∪ outer E S) := by
  ext e; simp only [inner, bdry, outer, mem_union, mem_filter]; tauto

theorem inner_union (E : Finset (V × V)) (S : Finset V) {F O : Finset (V × V)}
    (hF : F ⊆ inner E S) (hO : O ⊆ outer E S) : inner (F ∪ O) S = F := by
  ext e
  simp only [inner, mem_filter, mem_union]
  constructor
  · rintro ⟨h | h, h2⟩
    · exact h
    · have := hO h; simp only [outer, mem_filter] at this; tauto
  · intro h; have := hF h; simp only [inner, mem_filter] at this; tauto

theorem bdry_union (E : Finset (V × V)) (S : Finset V) {F O : Finset (V × V)}
    (hF : F ⊆ inner E S) (hO : O ⊆ outer E S) : bdry (F ∪ O) S = ∅ := by
  apply Finset.eq_empty_of_forall_notMem
  intro e he
  simp only [bdry, mem_filter, mem_union] at he
  rcases he with ⟨h | h, h1, h2⟩
  · have := hF h; simp only [inner, mem_filter] at this; tauto
  · have := hO h; simp only [outer, mem_filter] at this; tauto

theorem wt_split (p : R) (E : Finset (V × V)) (S : Finset V) {F O : Finset (V × V)}
    (hF : F ⊆ inner E S) (hO : O ⊆ outer E S) :
    wt p E (F ∪ O) = wt p (inner E S) F * (∏ _e ∈ bdry E S, (1 - p)) * wt p (outer E S) O := by
  have hdIO : Disjoint (inner E S) (outer E S) := by
    rw [Finset.disjoint_left]; intro e h1 h2
    simp only [inner, outer, mem_filter] at h1 h2; tauto
  have hdFO : Disjoint F O :=
    Finset.disjoint_of_subset_left hF (Finset.disjoint_of_subset_right hO hdIO)
  have hsd : E \ (F ∪ O) = (inner E S \ F) ∪ (bdry E S ∪ (outer E S \ O)) := by
    ext e
    have hF' := @hF e
    have hO' := @hO e
    simp only [inner, bdry, outer, mem_union, mem_filter, mem_sdiff] at hF' hO' ⊢
    tauto
  have hd1 : Disjoint (inner E S \ F) (bdry E S ∪ (outer E S \ O)) := by
    rw [Finset.disjoint_left]; intro e h1 h2
    simp only [inner, bdry, outer, mem_union, mem_filter, mem_sdiff] at h1 h2; tauto
  have hd2 : Disjoint (bdry E S) (outer E S \ O) := by
    rw [Finset.disjoint_left]; intro e h1 h2
    simp only [bdry, outer, mem_filter, mem_sdiff] at h1 h2; tauto
  simp only [wt]
  rw [hsd, Finset.prod_union hdFO, Finset.prod_union hd1, Finset.prod_union hd2]
  ring

/-- L2: total weight of the configurations whose root component is exactly `S`. -/
theorem fiber_sum (p : R) (Vs : Finset V) (E : Finset (V × V))
    (hE : ∀ e ∈ E, e.1 ∈ Vs ∧ e.2 ∈ Vs) (r : V) (S : Finset V) (hr : r ∈ S) :
    ∑ A ∈ E.powerset.filter (fun A => comp Vs A r = S), wt p E A
      = (∏ _e ∈ bdry E S, (1 - p)) *
        ∑ F ∈ (inner E S).powerset.filter (fun F => comp Vs F r = S), wt p (inner E S) F := by
  classical
  have hsub : ∀ {A : Finset (V × V)}, A ⊆ E → ∀ e ∈ A, e.1 ∈ Vs ∧ e.2 ∈ Vs :=
    fun hA e he => hE e (hA he)
  have key : ∑ A ∈ E.powerset.filter (fun A => comp Vs A r = S), wt p E A
      = ∑ x ∈ ((inner E S).powerset.filter (fun F => comp Vs F r = S)) ×ˢ (outer E S).powerset,
          wt p E (x.1 ∪ x.2) := by
    symm
    refine Finset.sum_nbij' (fun x => x.1 ∪ x.2) (fun A => (inner A S, outer A S)) ?_ ?_ ?_ ?_ ?_
    · rintro ⟨F, O⟩ h
      simp only [mem_product, mem_filter, mem_powerset] at h
      rcases h with ⟨⟨hF, hc⟩, hO⟩
      simp only [mem_filter, mem_powerset]
      have hFOE : F ∪ O ⊆ E := by
        rw [part_E E S]
        exact Finset.union_subset_union hF (hO.trans Finset.subset_union_right)
      refine ⟨hFOE, ?_⟩
      rw [comp_eq_iff Vs _ (hsub hFOE) _ _ hr, bdry_union E S hF hO, inner_union E S hF hO]
      exact ⟨rfl, hc⟩
    · intro A h
      simp only [mem_filter, mem_powerset] at h
      rcases h with ⟨hA, hc⟩
      rw [comp_eq_iff Vs _ (hsub hA) _ _ hr] at hc
      simp only [mem_product, mem_filter, mem_powerset]
      refine ⟨⟨?_, hc.2⟩, ?_⟩
      · intro e he; simp only [inner, mem_filter] at he ⊢; exact ⟨hA he.1, he.2⟩
      · intro e he; simp only [outer, mem_filter] at he ⊢; exact ⟨hA he.1, he.2⟩
    · rintro ⟨F, O⟩ h
      simp only [mem_product, mem_filter, mem_powerset] at h
      rcases h with ⟨⟨hF, _⟩, hO⟩
      have h2 : outer (F ∪ O) S = O := by
        ext e
        simp only [outer, mem_filter, mem_union]
        constructor
        · rintro ⟨h | h, h2⟩
          · have := hF h; simp only [inner, mem_filter] at this; tauto
          · exact h
        · intro h; have := hO h; simp only [outer, mem_filter] at this; tauto
      simp [inner_union E S hF hO, h2]
    · intro A h
      simp only [mem_filter, mem_powerset] at h
      rcases h with ⟨hA, hc⟩
      rw [comp_eq_iff Vs _ (hsub hA) _ _ hr] at hc
      have := part_E A S
      rw [hc.1, Finset.empty_union] at this
      exact this.symm
    · intro x _; rfl
  rw [key, Finset.sum_product]
  have : ∀ F ∈ (inner E S).powerset.filter (fun F => comp Vs F r = S),
      ∑ O ∈ (outer E S).powerset, wt p E (F ∪ O)
        = (∏ _e ∈ bdry E S, (1 - p)) * wt p (inner E S) F := by
    intro F hF
    simp only [mem_filter, mem_powerset] at hF
    calc ∑ O ∈ (outer E S).powerset, wt p E (F ∪ O)
        = ∑ O ∈ (outer E S).powerset,
            (wt p (inner E S) F * (∏ _e ∈ bdry E S, (1 - p))) * wt p (outer E S) O := by
          refine Finset.sum_congr rfl fun O hO => ?_
          rw [wt_split p E S hF.1 (mem_powerset.1 hO)]
      _ = (wt p (inner E S) F * (∏ _e ∈ bdry E S, (1 - p))) * 1 := by
          rw [← Finset.mul_sum, wt_total]
      _ = _ := by ring
  rw [Finset.sum_congr rfl this, Finset.mul_sum]

/-- the decomposition the automated equation computes, stated over finsets -/
noncomputable def autoE (Vs : Finset V) (E : Finset (V × V)) (p : R) (u : V → R) (r : V) : R :=
  ∑ S ∈ Vs.powerset.filter (fun S => r ∈ S),
    (∏ _e ∈ bdry E S, (1 - p)) * (∏ v ∈ S.erase r, u v) *
      ∑ F ∈ (inner E S).powerset.filter (fun F => comp Vs F r = S), wt p (inner E S) F

/-- **C15 core**: exact bond-percolation expectation = sum over root components. -/
theorem exactE_eq_autoE (Vs : Finset V) (E : Finset (V × V))
    (hE : ∀ e ∈ E, e.1 ∈ Vs ∧ e.2 ∈ Vs) (p : R) (u : V → R) (r : V) (hr : r ∈ Vs) :
    exactE Vs E p u r = autoE Vs E p u r := by
  classical
  unfold exactE autoE
  rw [← Finset.sum_fiberwise_of_maps_to (s := E.powerset)
    (t := Vs.powerset.filter (fun S => r ∈ S)) (g := fun A => comp Vs A r)
    (fun A _ => by simp [root_mem_comp A hr, comp_subset])]
  refine Finset.sum_congr rfl fun S hS => ?_
  simp only [mem_filter, mem_powerset] at hS
  have : ∀ A ∈ E.powerset.filter (fun A => comp Vs A r = S),
      wt p E A * ∏ v ∈ (comp Vs A r).erase r, u v = wt p E A * ∏ v ∈ S.erase r, u v := by
    intro A hA; simp only [mem_filter] at hA; rw [hA.2]
  rw [Finset.sum_congr rfl this, ← Finset.sum_mul, fiber_sum p Vs E hE r S hS.2]
  ring

/-- the probe's statement: `V` a fintype and `Vs = univ` (no side conditions left) -/
theorem exactE_eq_autoE_univ [Fintype V] (E : Finset (V × V)) (p : R) (u : V → R) (r : V) :
    exactE univ E p u r = autoE univ E p u r :=
  exactE_eq_autoE univ E (fun _ _ => ⟨mem_univ _, mem_univ _⟩) p u r (mem_univ r)

/-- at `p = 0` only the empty configuration has weight -/
theorem wt_zero (E A : Finset ι) : wt (0 : R) E A = if A = ∅ then 1 else 0 := by
  unfold wt
  split_ifs with h
  · subst h; simp
  · have : A.card ≠ 0 := fun hc => h (Finset.card_eq_zero.1 hc)
    simp [Finset.prod_const, this]

theorem comp_empty_erase (Vs : Finset V) (r : V) : (comp Vs ∅ r).erase r = ∅ := by
  apply Finset.eq_empty_of_forall_notMem
  intro v hv
  rw [mem_erase, mem_comp] at hv
  rcases hv with ⟨hne, _, hreach⟩
  apply hne
  induction hreach with
  | refl => rfl
  | tail _ hbc _ => rcases hbc with h | h <;> simp at h

theorem exactE_at_zero (Vs : Finset V) (E : Finset (V × V)) (u : V → R) (r : V) :
    exactE Vs E 0 u r = 1 := by
  unfold exactE
  rw [Finset.sum_eq_single ∅]
  · simp [wt_zero, comp_empty_erase]
  · intro A _ hA
    simp [wt_zero, hA]
  · intro h
    exact absurd (Finset.empty_mem_powerset E) h

/-- percolation average of `g` over the subsets of `E` -/
def avg (p : R) (E : Finset ι) (g : Finset ι → R) : R := ∑ A ∈ E.powerset, wt p E A * g A

theorem avg_insert (p : R) (E : Finset ι) (e : ι) (he : e ∉ E) (g : Finset ι → R) :
    avg p (insert e E) g = avg p E (fun A => (1 - p) * g A + p * g (insert e A)) := by
  unfold avg
  rw [Finset.sum_powerset_insert he, ← Finset.sum_add_distrib]
  refine Finset.sum_congr rfl fun A hA => ?_
  have hAE : A ⊆ E := mem_powerset.1 hA
  have heA : e ∉ A := fun h => he (hAE h)
  have h1 : wt p (insert e E) A = wt p E A * (1 - p) := by
    unfold wt
    have : insert e E \ A = insert e (E \ A) := by
      ext x; simp only [mem_sdiff, mem_insert]; constructor
      · rintro ⟨h | h, hx⟩
        · exact Or.inl h
        · exact Or.inr ⟨h, hx⟩
      · rintro (h | ⟨h, hx⟩)
        · exact ⟨Or.inl h, by rw [h]; exact heA⟩
        · exact ⟨Or.inr h, hx⟩
    rw [this, Finset.prod_insert (by simp [he])]
    ring
  have h2 : wt p (insert e E) (insert e A) = wt p E A * p := by
    unfold wt
    have : insert e E \ insert e A = E \ A := by
      ext x; simp only [mem_sdiff, mem_insert, not_or]; constructor
      · rintro ⟨h | h, hx1, hx2⟩
        · exact absurd h hx1
        · exact ⟨h, hx2⟩
      · rintro ⟨h, hx⟩
        exact ⟨Or.inr h, fun hxe => he (hxe ▸ h), hx⟩
    rw [this, Finset.prod_insert heA]
    ring
  rw [h1, h2]; ring

theorem exactE_eq_avg (Vs : Finset V) (E : Finset (V × V)) (p : R) (u : V → R) (r : V) :
    exactE Vs E p u r = avg p E (fun A => ∏ v ∈ (comp Vs A r).erase r, u v) := rfl

/-! ## Part 2 : order properties -/

section Order
variable {K : Type} [Field K] [LinearOrder K] [IsStrictOrderedRing K]

theorem wt_nonneg (p : K) (hp : 0 ≤ p) (hp1 : p ≤ 1) (E A : Finset ι) : 0 ≤ wt p E A := by
  unfold wt
  apply mul_nonneg
  · exact Finset.prod_nonneg fun _ _ => hp
  · exact Finset.prod_nonneg fun _ _ => by linarith

/-- **Monotone coupling without probability**: if `g` is decreasing in the open set, its
percolation average is non-increasing in the occupation probability. -/
theorem avg_antitone (E : Finset ι) :
    ∀ (g : Finset ι → K), (∀ A B, A ⊆ B → B ⊆ E → g B ≤ g A) →
      ∀ p q : K, 0 ≤ p → p ≤ q → q ≤ 1 → avg q E g ≤ avg p E g := by
  induction E using Finset.induction_on with
  | empty =>
    intro g _ p q _ _ _
    simp [avg, wt]
  | insert e E he ih =>
    intro g hg p q hp hpq hq
    rw [avg_insert q E e he g, avg_insert p E e he g]
    have hstep : ∀ A ⊆ E, g (insert e A) ≤ g A := fun A hA =>
      hg A (insert e A) (subset_insert _ _) (insert_subset_insert _ hA)
    -- first change the integrand at fixed `q`, then the parameter by the induction hypothesis
    calc avg q E (fun A => (1 - q) * g A + q * g (insert e A))
        ≤ avg q E (fun A => (1 - p) * g A + p * g (insert e A)) := by
          unfold avg
          refine Finset.sum_le_sum fun A hA => ?_
          have hw := wt_nonneg q (by linarith) hq E A
          have := hstep A (mem_powerset.1 hA)
          apply mul_le_mul_of_nonneg_left _ hw
          nlinarith
      _ ≤ avg p E (fun A => (1 - p) * g A + p * g (insert e A)) := by
          apply ih _ _ p q hp hpq hq
          intro A B hAB hBE
          have h1 := hg A B hAB (hBE.trans (subset_insert _ _))
          have h2 := hg (insert e A) (insert e B) (insert_subset_insert _ hAB)
            (insert_subset_insert _ hBE)
          have hp1 : p ≤ 1 := by linarith
          nlinarith

/-- the integrand of `exactE` lies in `[0,1]` when `u` does on `Vs` -/
theorem prod_comp_mem_unit (Vs : Finset V) (u : V → K) (hu : ∀ v ∈ Vs, 0 ≤ u v ∧ u v ≤ 1)
    (A : Finset (V × V)) (r : V) :
    0 ≤ ∏ v ∈ (comp Vs A r).erase r, u v ∧ ∏ v ∈ (comp Vs A r).erase r, u v ≤ 1 := by
  have hsub : ∀ v ∈ (comp Vs A r).erase r, v ∈ Vs := fun v hv =>
    comp_subset Vs A r (Finset.mem_of_mem_erase hv)
  exact ⟨Finset.prod_nonneg fun v hv => (hu v (hsub v hv)).1,
    Finset.prod_le_one (fun v hv => (hu v (hsub v hv)).1) (fun v hv => (hu v (hsub v hv)).2)⟩

theorem exactE_nonneg_le_one (Vs : Finset V) (E : Finset (V × V)) (p : K) (u : V → K) (r : V)
    (hp : 0 ≤ p) (hp1 : p ≤ 1) (hu : ∀ v ∈ Vs, 0 ≤ u v ∧ u v ≤ 1) :
    0 ≤ exactE Vs E p u r ∧ exactE Vs E p u r ≤ 1 := by
  unfold exactE
  constructor
  · exact Finset.sum_nonneg fun A _ =>
      mul_nonneg (wt_nonneg p hp hp1 E A) (prod_comp_mem_unit Vs u hu A r).1
  · calc ∑ A ∈ E.powerset, wt p E A * ∏ v ∈ (comp Vs A r).erase r, u v
        ≤ ∑ A ∈ E.powerset, wt p E A := by
          refine Finset.sum_le_sum fun A _ => ?_
          exact mul_le_of_le_one_right (wt_nonneg p hp hp1 E A) (prod_comp_mem_unit Vs u hu A r).2
      _ = 1 := wt_total p E

theorem exactE_mono_u (Vs : Finset V) (E : Finset (V × V)) (p : K) (u u' : V → K) (r : V)
    (hu : ∀ v ∈ Vs, 0 ≤ u v ∧ u v ≤ u' v) (hp : 0 ≤ p) (hp1 : p ≤ 1) :
    exactE Vs E p u r ≤ exactE Vs E p u' r := by
  unfold exactE
  refine Finset.sum_le_sum fun A _ => ?_
  apply mul_le_mul_of_nonneg_left _ (wt_nonneg p hp hp1 E A)
  have hsub : ∀ v ∈ (comp Vs A r).erase r, v ∈ Vs := fun v hv =>
    comp_subset Vs A r (Finset.mem_of_mem_erase hv)
  exact Finset.prod_le_prod (fun v hv => (hu v (hsub v hv)).1) (fun v hv => (hu v (hsub v hv)).2)

theorem exactE_antitone_p (Vs : Finset V) (E : Finset (V × V)) (p p' : K) (u : V → K) (r : V)
    (hp : 0 ≤ p) (hpp : p ≤ p') (hp1 : p' ≤ 1) (hu : ∀ v ∈ Vs, 0 ≤ u v ∧ u v ≤ 1) :
    exactE Vs E p' u r ≤ exactE Vs E p u r := by
  rw [exactE_eq_avg, exactE_eq_avg]
  apply avg_antitone E _ _ p p' hp hpp hp1
  intro A B hAB _
  have hsub : (comp Vs A r).erase r ⊆ (comp Vs B r).erase r :=
    Finset.erase_subset_erase r (comp_mono Vs hAB r)
  have hB : ∀ v ∈ (comp Vs B r).erase r, v ∈ Vs := fun v hv =>
    comp_subset Vs B r (Finset.mem_of_mem_erase hv)
  rw [← Finset.prod_sdiff hsub]
  apply mul_le_of_le_one_left (prod_comp_mem_unit Vs u hu A r).1
  exact Finset.prod_le_one (fun v hv => (hu v (hB v (Finset.mem_sdiff.1 hv).1)).1)
    (fun v hv => (hu v (hB v (Finset.mem_sdiff.1 hv).1)).2)

theorem exactE_antitone (Vs : Finset V) (E : Finset (V × V)) (p p' : K) (u u' : V → K) (r : V)
    (hp : 0 ≤ p) (hpp : p ≤ p') (hp1 : p' ≤ 1)
    (huu : ∀ v ∈ Vs, u' v ≤ u v) (hu' : ∀ v ∈ Vs, 0 ≤ u' v) (hu : ∀ v ∈ Vs, u v ≤ 1) :
    exactE Vs E p' u' r ≤ exactE Vs E p u r :=
  calc exactE Vs E p' u' r
      ≤ exactE Vs E p' u r :=
        exactE_mono_u Vs E p' u' u r (fun v hv => ⟨hu' v hv, huu v hv⟩) (hp.trans hpp) hp1
    _ ≤ exactE Vs E p u r :=
        exactE_antitone_p Vs E p p' u r hp hpp hp1
          (fun v hv => ⟨(hu' v hv).trans (huu v hv), hu v hv⟩)

end Order

end Gcmpy.Perc

#print axioms Gcmpy.Perc.exactE_eq_autoE
#print axioms Gcmpy.Perc.fiber_sum
#print axioms Gcmpy.Perc.comp_eq_iff'
#print axioms Gcmpy.Perc.inner_fiber_eq_connected
#print axioms Gcmpy.Perc.wt_eq_pow
#print axioms Gcmpy.Perc.exactE_at_zero
#print axioms Gcmpy.Perc.avg_antitone
#print axioms Gcmpy.Perc.exactE_nonneg_le_one
#print axioms Gcmpy.Perc.exactE_mono_u
#print axioms Gcmpy.Perc.exactE_antitone_p
#print axioms Gcmpy.Perc.exactE_antitone
