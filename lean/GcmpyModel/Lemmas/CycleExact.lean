import Mathlib.Algebra.BigOperators.Intervals
import Mathlib.Algebra.BigOperators.Group.Finset.Sigma
import Mathlib.Algebra.BigOperators.Ring.Finset
import Mathlib.Order.Interval.Finset.Nat
import Mathlib.Data.Finset.Max
import Mathlib.Tactic.Ring
import GcmpyModel.Lemmas.ClosedForms
import GcmpyModel.Lemmas.AutomatedExact
/-
The chordless-cycle closed form is the automated equation on `C_n` (property C16, `cycle_exact`).

Route: `automated_exact_finset` + `Perc.exactE_eq_autoE` turn `automatedEquation (cycleGraph n) φ (fun _ => u) 0` into the
finset-level sum over the vertex sets `S ∋ 0` of
  `(1-φ)^|∂S| · u^(|S|-1) · Σ_{F ⊆ E(S), comp_F(0) = S} wt F`.
For the cycle:
* `term_arc`   : `S` = an arc `{0..a} ∪ {n-b..n-1}` (`a + b + 2 ≤ n`): two boundary edges, the only connected spanning edge
                 subset of the induced path is the whole path;
* `term_full`  : `S` = all vertices: no boundary edge, connected spanning edge subsets = all edges or all but one;
* `term_other` : every other `S` has an empty fibre.
-/
namespace Gcmpy.ClosedForms
open Gcmpy Gcmpy.Graph Gcmpy.Automated

/-- the cycle `0 - 1 - … - (n-1) - 0` -/
def cycleGraph (n : Nat) : Motif :=
  { nodes := List.range n, edges := (List.range (n - 1)).map (fun i => (i, i + 1)) ++ [(0, n - 1)] }

/-- the `i`-th edge of `cycleGraph n` (`i < n`): `(i, i+1)`, the last one being the closing edge `(0, n-1)` -/
def ce (n i : Nat) : Edge := if i + 1 = n then (0, i) else (i, i + 1)

/-- the edges of `cycleGraph n` as a finset -/
def cycE (n : Nat) : Finset Edge := (cycleGraph n).edges.toFinset

theorem mem_cycleGraph_edges {n : Nat} (hn : 1 ≤ n) {e : Edge} :
    e ∈ (cycleGraph n).edges ↔ ∃ i, i < n ∧ e = ce n i := by
  unfold cycleGraph ce
  simp only [List.mem_append, List.mem_map, List.mem_range, List.mem_singleton]
  constructor
  · rintro (⟨i, hi, rfl⟩ | rfl)
    · exact ⟨i, by omega, by rw [if_neg (by omega)]⟩
    · exact ⟨n - 1, by omega, by rw [if_pos (by omega)]⟩
  · rintro ⟨i, hi, rfl⟩
    by_cases h : i + 1 = n
    · right; rw [if_pos h]; congr 1; omega
    · left; rw [if_neg h]; exact ⟨i, by omega, rfl⟩

theorem mem_cycE {n : Nat} (hn : 1 ≤ n) {e : Edge} : e ∈ cycE n ↔ ∃ i, i < n ∧ e = ce n i := by
  unfold cycE
  rw [List.mem_toFinset, mem_cycleGraph_edges hn]

theorem ce_mem_cycE {n i : Nat} (hi : i < n) : ce n i ∈ cycE n :=
  (mem_cycE (by omega)).2 ⟨i, hi, rfl⟩

theorem ce_inj {n i j : Nat} (hn : 3 ≤ n) (h : ce n i = ce n j) : i = j := by
  unfold ce at h
  split_ifs at h with h1 h2 h2
  · omega
  · simp only [Prod.mk.injEq] at h; omega
  · simp only [Prod.mk.injEq] at h; omega
  · simp only [Prod.mk.injEq] at h; omega

theorem ce_injective {n : Nat} (hn : 3 ≤ n) : Function.Injective (ce n) := fun _ _ h => ce_inj hn h

/-- a set of cycle edges described by a set of indices -/
theorem eq_image_ce {n : Nat} (hn : 1 ≤ n) {X : Finset Edge} {J : Finset Nat} (hX : X ⊆ cycE n)
    (hJ : J ⊆ Finset.range n) (h : ∀ k, k < n → (ce n k ∈ X ↔ k ∈ J)) : X = J.image (ce n) := by
  ext e
  rw [Finset.mem_image]
  constructor
  · intro he
    obtain ⟨k, hk, rfl⟩ := (mem_cycE hn).1 (hX he)
    exact ⟨k, (h k hk).1 he, rfl⟩
  · rintro ⟨k, hk, rfl⟩
    exact (h k (Finset.mem_range.1 (hJ hk))).2 hk

/-! ### `cycleGraph n` is a well-formed simple motif -/

theorem cycleGraph_wf {n : Nat} (hn : 1 ≤ n) : WFGraph (cycleGraph n).edges (cycleGraph n).nodes := by
  refine ⟨List.nodup_range, fun e he => ?_⟩
  obtain ⟨i, hi, rfl⟩ := (mem_cycleGraph_edges hn).1 he
  show (ce n i).1 ∈ List.range n ∧ (ce n i).2 ∈ List.range n
  unfold ce
  split_ifs with h
  · simp only [List.mem_range]; omega
  · simp only [List.mem_range]; omega

theorem cycleGraph_edges_nodup {n : Nat} (hn : 3 ≤ n) : (cycleGraph n).edges.Nodup := by
  unfold cycleGraph
  simp only
  rw [List.nodup_append]
  refine ⟨?_, List.nodup_singleton _, ?_⟩
  · apply List.Nodup.map _ List.nodup_range
    intro i j h
    simp only [Prod.mk.injEq] at h
    exact h.1
  · intro a ha b hb
    simp only [List.mem_map, List.mem_range] at ha
    simp only [List.mem_singleton] at hb
    obtain ⟨i, hi, rfl⟩ := ha
    subst hb
    simp only [ne_eq, Prod.mk.injEq, not_and]
    omega

theorem cycleGraph_simple {n : Nat} (hn : 3 ≤ n) : Simple (cycleGraph n).edges := by
  refine ⟨cycleGraph_edges_nodup hn, fun e he => ?_, fun e he he' => ?_⟩
  · obtain ⟨i, hi, rfl⟩ := (mem_cycleGraph_edges (by omega)).1 he
    unfold ce
    split_ifs with h
    · simp only [ne_eq]; omega
    · simp only [ne_eq]; omega
  · obtain ⟨i, hi, rfl⟩ := (mem_cycleGraph_edges (by omega)).1 he
    obtain ⟨j, hj, h⟩ := (mem_cycleGraph_edges (by omega)).1 he'
    unfold ce at h
    split_ifs at h with h1 h2 h2 <;> simp only [Prod.mk.injEq] at h <;> omega

theorem cycleGraph_nodes_toFinset (n : Nat) : (cycleGraph n).nodes.toFinset = Finset.range n := by
  ext v
  simp [cycleGraph]

theorem card_cycE {n : Nat} (hn : 3 ≤ n) : (cycE n).card = n := by
  unfold cycE
  rw [List.toFinset_card_of_nodup (cycleGraph_edges_nodup hn)]
  simp [cycleGraph]
  omega

/-! ### walks in a subgraph of the cycle -/

/-- a vertex predicate containing the start and respected by every open edge contains everything reachable -/
theorem reach_invariant {F : Finset Edge} (P : Nat → Prop) (hcl : ∀ e ∈ F, (P e.1 ↔ P e.2)) {r v : Nat}
    (hr : P r) (h : Perc.Reach F r v) : P v := by
  induction h with
  | refl => exact hr
  | tail _ hbc ih =>
    rcases hbc with h1 | h1
    · exact (hcl _ h1).1 ih
    · exact (hcl _ h1).2 ih

/-- **cut lemma**: if the edges number `i < j` are closed, the walks from `0` stay in `{0..i} ∪ {j+1..n-1}` -/
theorem reach_cut {n : Nat} (hn : 1 ≤ n) {F : Finset Edge} (hF : F ⊆ cycE n) {i j : Nat} (hij : i < j)
    (hj : j < n) (hi' : ce n i ∉ F) (hj' : ce n j ∉ F) {v : Nat} (h : Perc.Reach F 0 v) : v ≤ i ∨ j < v := by
  refine reach_invariant (fun v => v ≤ i ∨ j < v) ?_ (Or.inl (Nat.zero_le i)) h
  intro e he
  obtain ⟨k, hk, rfl⟩ := (mem_cycE hn).1 (hF he)
  have hki : k ≠ i := fun h => hi' (h ▸ he)
  have hkj : k ≠ j := fun h => hj' (h ▸ he)
  unfold ce
  split_ifs with h1
  · simp only; omega
  · simp only; omega

/-- going up: `0 → 1 → … → v` -/
theorem reach_up {n : Nat} {F : Finset Edge} : ∀ v, v < n → (∀ k, k < v → ce n k ∈ F) → Perc.Reach F 0 v
  | 0, _, _ => Relation.ReflTransGen.refl
  | v+1, hv, h => by
    refine (reach_up v (by omega) fun k hk => h k (by omega)).tail (Or.inl ?_)
    have := h v (by omega)
    unfold ce at this
    rwa [if_neg (by omega)] at this

/-- going down: `0 → n-1 → … → v` -/
theorem reach_down {n : Nat} {F : Finset Edge} : ∀ d v, v + d + 1 = n → (∀ k, v ≤ k → k < n → ce n k ∈ F) →
    Perc.Reach F 0 v
  | 0, v, hv, h => by
    refine Relation.ReflTransGen.single (Or.inl ?_)
    have := h v (le_refl v) (by omega)
    unfold ce at this
    rwa [if_pos (by omega)] at this
  | d+1, v, hv, h => by
    refine (reach_down d (v + 1) (by omega) fun k hk hk' => h k (by omega) hk').tail (Or.inr ?_)
    have := h v (le_refl v) (by omega)
    unfold ce at this
    rwa [if_neg (by omega)] at this

/-! ### the term attached to a vertex set -/

section term
variable {R : Type} [CommRing R]

/-- the summand of `Perc.autoE` on the cycle, all `u` equal -/
noncomputable def cterm (n : Nat) (p u : R) (S : Finset Nat) : R :=
  (∏ _e ∈ Perc.bdry (cycE n) S, (1 - p)) * (∏ _v ∈ S.erase 0, u) *
    ∑ F ∈ (Perc.inner (cycE n) S).powerset.filter (fun F => Perc.comp (Finset.range n) F 0 = S),
      Perc.wt p (Perc.inner (cycE n) S) F

theorem autoE_cycle (n : Nat) (p u : R) :
    Perc.autoE (Finset.range n) (cycE n) p (fun _ => u) 0
      = ∑ S ∈ (Finset.range n).powerset.filter (fun S => 0 ∈ S), cterm n p u S := rfl

/-- the arc `{0..a} ∪ {n-b..n-1}` -/
def arc (n a b : Nat) : Finset Nat := Finset.range (a + 1) ∪ Finset.Ico (n - b) n

theorem mem_arc {n a b v : Nat} : v ∈ arc n a b ↔ v ≤ a ∨ (n - b ≤ v ∧ v < n) := by
  unfold arc
  simp only [Finset.mem_union, Finset.mem_range, Finset.mem_Ico]
  omega

theorem card_arc {n a b : Nat} (h : a + b + 2 ≤ n) : (arc n a b).card = a + b + 1 := by
  unfold arc
  rw [Finset.card_union_of_disjoint, Finset.card_range, Nat.card_Ico]
  · omega
  · rw [Finset.disjoint_left]
    intro v h1 h2
    simp only [Finset.mem_range, Finset.mem_Ico] at h1 h2
    omega

theorem arc_subset {n a b : Nat} (h : a + b + 2 ≤ n) : arc n a b ⊆ Finset.range n := by
  intro v hv
  rw [mem_arc] at hv
  rw [Finset.mem_range]; omega

theorem zero_mem_arc {n a b : Nat} : 0 ∈ arc n a b := mem_arc.2 (Or.inl (Nat.zero_le a))

/-- index set of the edges inside an arc -/
def arcIdx (n a b : Nat) : Finset Nat := Finset.range a ∪ Finset.Ico (n - b) n

theorem mem_arcIdx {n a b k : Nat} : k ∈ arcIdx n a b ↔ k < a ∨ (n - b ≤ k ∧ k < n) := by
  unfold arcIdx
  simp only [Finset.mem_union, Finset.mem_range, Finset.mem_Ico]

theorem card_arcIdx {n a b : Nat} (h : a + b + 2 ≤ n) : (arcIdx n a b).card = a + b := by
  unfold arcIdx
  rw [Finset.card_union_of_disjoint, Finset.card_range, Nat.card_Ico]
  · omega
  · rw [Finset.disjoint_left]
    intro v h1 h2
    simp only [Finset.mem_range, Finset.mem_Ico] at h1 h2
    omega

theorem ce_mem_inner_arc {n a b k : Nat} (h : a + b + 2 ≤ n) (hk : k < n) :
    ce n k ∈ Perc.inner (cycE n) (arc n a b) ↔ k ∈ arcIdx n a b := by
  unfold Perc.inner
  rw [Finset.mem_filter, mem_arcIdx]
  simp only [ce_mem_cycE hk, true_and, mem_arc]
  unfold ce
  split_ifs with h1
  · simp only; omega
  · simp only; omega

theorem ce_mem_bdry_arc {n a b k : Nat} (h : a + b + 2 ≤ n) (hk : k < n) :
    ce n k ∈ Perc.bdry (cycE n) (arc n a b) ↔ k ∈ ({a, n - b - 1} : Finset Nat) := by
  unfold Perc.bdry
  rw [Finset.mem_filter, Finset.mem_insert, Finset.mem_singleton]
  simp only [ce_mem_cycE hk, true_and, mem_arc]
  unfold ce
  split_ifs with h1
  · simp only; omega
  · simp only; omega

theorem inner_subset (E : Finset Edge) (S : Finset Nat) : Perc.inner E S ⊆ E := Finset.filter_subset _ _
theorem bdry_subset (E : Finset Edge) (S : Finset Nat) : Perc.bdry E S ⊆ E := Finset.filter_subset _ _

theorem inner_arc {n a b : Nat} (h : a + b + 2 ≤ n) :
    Perc.inner (cycE n) (arc n a b) = (arcIdx n a b).image (ce n) := by
  apply eq_image_ce (by omega) (inner_subset _ _)
  · intro k hk; rw [mem_arcIdx] at hk; rw [Finset.mem_range]; omega
  · intro k hk; exact ce_mem_inner_arc h hk

theorem card_inner_arc {n a b : Nat} (hn : 3 ≤ n) (h : a + b + 2 ≤ n) :
    (Perc.inner (cycE n) (arc n a b)).card = a + b := by
  rw [inner_arc h, Finset.card_image_of_injective _ (ce_injective hn), card_arcIdx h]

theorem card_bdry_arc {n a b : Nat} (hn : 3 ≤ n) (h : a + b + 2 ≤ n) :
    (Perc.bdry (cycE n) (arc n a b)).card = 2 := by
  have hsub : ({a, n - b - 1} : Finset Nat) ⊆ Finset.range n := by
    intro k hk
    rw [Finset.mem_insert, Finset.mem_singleton] at hk
    rw [Finset.mem_range]; omega
  rw [eq_image_ce (by omega) (bdry_subset _ _) hsub (fun k hk => ce_mem_bdry_arc h hk),
    Finset.card_image_of_injective _ (ce_injective hn), Finset.card_pair (by omega)]

/-- the only connected spanning edge subset of the path induced on an arc is the whole path -/
theorem fiber_arc {n a b : Nat} (hn : 3 ≤ n) (h : a + b + 2 ≤ n) {F : Finset Edge}
    (hF : F ⊆ Perc.inner (cycE n) (arc n a b)) :
    Perc.comp (Finset.range n) F 0 = arc n a b ↔ F = Perc.inner (cycE n) (arc n a b) := by
  constructor
  · intro hc
    apply Finset.Subset.antisymm hF
    intro e he
    by_contra heF
    have hFE : F ⊆ cycE n := hF.trans (inner_subset _ _)
    obtain ⟨k, hk, rfl⟩ := (mem_cycE (by omega)).1 (inner_subset _ _ he)
    have hka := (ce_mem_inner_arc h hk).1 he
    rw [mem_arcIdx] at hka
    have haF : ce n a ∉ F := fun hh => by
      have := (ce_mem_inner_arc h (by omega)).1 (hF hh)
      rw [mem_arcIdx] at this; omega
    have hreach : ∀ v, v ∈ arc n a b → Perc.Reach F 0 v := fun v hv => by
      rw [← hc, Perc.mem_comp] at hv; exact hv.2
    rcases hka with hka | hka
    · have := reach_cut (by omega) hFE hka (by omega) heF haF (hreach (k + 1) (mem_arc.2 (by omega)))
      omega
    · have hak : a < k := by omega
      have := reach_cut (by omega) hFE hak hk haF heF (hreach k (mem_arc.2 (by omega)))
      omega
  · rintro rfl
    rw [Perc.inner_fiber_eq_connected (Finset.range n) (cycE n) (arc n a b) (arc_subset h) 0 zero_mem_arc _
      (Finset.Subset.refl _)]
    intro v hv
    rw [mem_arc] at hv
    show Perc.Reach _ 0 v
    rcases hv with hv | hv
    · apply reach_up (n := n) v (by omega)
      intro k hk
      exact (ce_mem_inner_arc h (by omega)).2 (mem_arcIdx.2 (by omega))
    · apply reach_down (n := n) (n - 1 - v) v (by omega)
      intro k hk hk'
      exact (ce_mem_inner_arc h hk').2 (mem_arcIdx.2 (by omega))

theorem term_arc {n a b : Nat} (hn : 3 ≤ n) (h : a + b + 2 ≤ n) (p u : R) :
    cterm n p u (arc n a b) = (1 - p) ^ 2 * u ^ (a + b) * p ^ (a + b) := by
  unfold cterm
  have hfil : (Perc.inner (cycE n) (arc n a b)).powerset.filter
      (fun F => Perc.comp (Finset.range n) F 0 = arc n a b) = {Perc.inner (cycE n) (arc n a b)} := by
    ext F
    rw [Finset.mem_filter, Finset.mem_powerset, Finset.mem_singleton]
    constructor
    · rintro ⟨h1, h2⟩; exact (fiber_arc hn h h1).1 h2
    · rintro rfl; exact ⟨Finset.Subset.refl _, (fiber_arc hn h (Finset.Subset.refl _)).2 rfl⟩
  rw [hfil, Finset.sum_singleton, Perc.wt_eq_pow p (Finset.Subset.refl _), Finset.prod_const, Finset.prod_const,
    card_bdry_arc hn h, card_inner_arc hn h, Finset.card_erase_of_mem zero_mem_arc, card_arc h]
  simp

/-! #### the whole vertex set -/

theorem inner_full {n : Nat} (hn : 1 ≤ n) : Perc.inner (cycE n) (Finset.range n) = cycE n := by
  unfold Perc.inner
  apply Finset.filter_true_of_mem
  intro e he
  have := (cycleGraph_wf hn).2 e (List.mem_toFinset.1 he)
  simpa [cycleGraph] using this

theorem bdry_full {n : Nat} (hn : 1 ≤ n) : Perc.bdry (cycE n) (Finset.range n) = ∅ := by
  unfold Perc.bdry
  apply Finset.filter_false_of_mem
  intro e he hh
  have := (cycleGraph_wf hn).2 e (List.mem_toFinset.1 he)
  exact hh.1 (by simpa [cycleGraph] using this)

theorem comp_eq_range_iff {n : Nat} {F : Finset Edge} :
    Perc.comp (Finset.range n) F 0 = Finset.range n ↔ ∀ v, v < n → Perc.Reach F 0 v := by
  constructor
  · intro h v hv
    have : v ∈ Perc.comp (Finset.range n) F 0 := by rw [h]; exact Finset.mem_range.2 hv
    exact (Perc.mem_comp.1 this).2
  · intro h
    ext v
    rw [Perc.mem_comp]
    exact ⟨fun hv => hv.1, fun hv => ⟨hv, h v (Finset.mem_range.1 hv)⟩⟩

/-- the connected spanning edge subsets of the cycle: all edges, or all but one -/
theorem fiber_full {n : Nat} (hn : 3 ≤ n) {F : Finset Edge} (hF : F ⊆ cycE n) :
    Perc.comp (Finset.range n) F 0 = Finset.range n ↔
      F = cycE n ∨ ∃ e ∈ cycE n, F = (cycE n).erase e := by
  rw [comp_eq_range_iff]
  constructor
  · intro hreach
    by_cases hFE : F = cycE n
    · exact Or.inl hFE
    · right
      have : ¬ cycE n ⊆ F := fun hh => hFE (Finset.Subset.antisymm hF hh)
      obtain ⟨e, heE, heF⟩ := Finset.not_subset.1 this
      refine ⟨e, heE, Finset.Subset.antisymm ?_ ?_⟩
      · intro x hx
        exact Finset.mem_erase.2 ⟨fun hxe => heF (hxe ▸ hx), hF hx⟩
      · intro x hx
        rw [Finset.mem_erase] at hx
        by_contra hxF
        obtain ⟨i, hi, rfl⟩ := (mem_cycE (by omega)).1 heE
        obtain ⟨j, hj, rfl⟩ := (mem_cycE (by omega)).1 hx.2
        have hij : i ≠ j := fun hh => hx.1 (hh ▸ rfl)
        rcases Nat.lt_or_gt_of_ne hij with hlt | hlt
        · have := reach_cut (by omega) hF hlt hj heF hxF (hreach (i + 1) (by omega))
          omega
        · have := reach_cut (by omega) hF hlt hi hxF heF (hreach (j + 1) (by omega))
          omega
  · intro hcase
    have key : ∀ i, i < n → ∀ v, v < n → (∀ k, k < n → k ≠ i → ce n k ∈ F) → Perc.Reach F 0 v := by
      intro i hi v hv hk
      by_cases hvi : v ≤ i
      · exact reach_up (n := n) v hv fun k hk' => hk k (by omega) (by omega)
      · exact reach_down (n := n) (n - 1 - v) v (by omega) fun k hk1 hk2 => hk k hk2 (by omega)
    intro v hv
    rcases hcase with rfl | ⟨e, heE, rfl⟩
    · exact key 0 (by omega) v hv fun k hk _ => ce_mem_cycE hk
    · obtain ⟨i, hi, rfl⟩ := (mem_cycE (by omega)).1 heE
      refine key i hi v hv fun k hk hki => Finset.mem_erase.2 ⟨fun hh => hki (ce_inj hn hh), ce_mem_cycE hk⟩

theorem term_full {n : Nat} (hn : 3 ≤ n) (p u : R) :
    cterm n p u (Finset.range n) = u ^ (n - 1) * (p ^ n + (n : R) * p ^ (n - 1) * (1 - p)) := by
  unfold cterm
  rw [inner_full (by omega), bdry_full (by omega)]
  have hfil : (cycE n).powerset.filter (fun F => Perc.comp (Finset.range n) F 0 = Finset.range n)
      = insert (cycE n) ((cycE n).image fun e => (cycE n).erase e) := by
    ext F
    rw [Finset.mem_filter, Finset.mem_powerset, Finset.mem_insert, Finset.mem_image]
    constructor
    · rintro ⟨h1, h2⟩
      rcases (fiber_full hn h1).1 h2 with h3 | ⟨e, he, h3⟩
      · exact Or.inl h3
      · exact Or.inr ⟨e, he, h3.symm⟩
    · rintro (rfl | ⟨e, he, rfl⟩)
      · exact ⟨Finset.Subset.refl _, (fiber_full hn (Finset.Subset.refl _)).2 (Or.inl rfl)⟩
      · exact ⟨Finset.erase_subset _ _, (fiber_full hn (Finset.erase_subset _ _)).2 (Or.inr ⟨e, he, rfl⟩)⟩
  have hnot : cycE n ∉ (cycE n).image fun e => (cycE n).erase e := by
    rw [Finset.mem_image]
    rintro ⟨e, he, hh⟩
    have : e ∈ (cycE n).erase e := by rw [hh]; exact he
    exact (Finset.mem_erase.1 this).1 rfl
  have hinj : Set.InjOn (fun e => (cycE n).erase e) (cycE n : Set Edge) := by
    intro e he e' he' hh
    by_contra hne
    have : e ∈ (cycE n).erase e' := Finset.mem_erase.2 ⟨hne, he⟩
    have hh' : (cycE n).erase e = (cycE n).erase e' := hh
    rw [← hh'] at this
    exact (Finset.mem_erase.1 this).1 rfl
  have hw : ∀ e ∈ cycE n, Perc.wt p (cycE n) ((cycE n).erase e) = p ^ (n - 1) * (1 - p) := by
    intro e he
    rw [Perc.wt_eq_pow p (Finset.erase_subset _ _), Finset.card_erase_of_mem he, card_cycE hn]
    have : n - (n - 1) = 1 := by omega
    rw [this, pow_one]
  rw [hfil, Finset.sum_insert hnot, Finset.sum_image hinj, Finset.sum_congr rfl hw, Finset.sum_const,
    Perc.wt_eq_pow p (Finset.Subset.refl _), card_cycE hn, Finset.prod_empty, Finset.prod_const,
    Finset.card_erase_of_mem (Finset.mem_range.2 (by omega)), Finset.card_range, nsmul_eq_mul]
  simp only [Nat.sub_self, pow_zero, mul_one, one_mul]
  ring

/-! #### every other vertex set -/

theorem mem_of_ce_mem_inner {n k : Nat} {E : Finset Edge} {S : Finset Nat} (h : ce n k ∈ Perc.inner E S) :
    k ∈ S ∧ (k + 1 < n → k + 1 ∈ S) := by
  unfold Perc.inner at h
  rw [Finset.mem_filter] at h
  unfold ce at h
  split_ifs at h with h1
  · exact ⟨h.2.2, fun hh => by omega⟩
  · exact ⟨h.2.1, fun _ => h.2.2⟩

/-- a vertex set that is the root component of a configuration inside it is an arc or everything -/
theorem fiber_classify {n : Nat} (hn : 3 ≤ n) {S : Finset Nat} (hS : S ⊆ Finset.range n) (h0 : 0 ∈ S)
    {F : Finset Edge} (hF : F ⊆ Perc.inner (cycE n) S) (hc : Perc.comp (Finset.range n) F 0 = S) :
    S = Finset.range n ∨ ∃ a b, a + b + 2 ≤ n ∧ S = arc n a b := by
  by_cases hfull : S = Finset.range n
  · exact Or.inl hfull
  right
  have hD : (Finset.range n \ S).Nonempty := by
    rw [Finset.nonempty_iff_ne_empty, ne_eq, Finset.sdiff_eq_empty_iff_subset]
    exact fun hh => hfull (Finset.Subset.antisymm hS hh)
  have hmD := Finset.min'_mem _ hD
  have hMD := Finset.max'_mem _ hD
  have hmle : ∀ x ∈ Finset.range n \ S, (Finset.range n \ S).min' hD ≤ x := fun x hx => Finset.min'_le _ x hx
  have hleM : ∀ x ∈ Finset.range n \ S, x ≤ (Finset.range n \ S).max' hD := fun x hx => Finset.le_max' _ x hx
  generalize (Finset.range n \ S).min' hD = m at hmD hmle
  generalize (Finset.range n \ S).max' hD = M at hMD hleM
  rw [Finset.mem_sdiff, Finset.mem_range] at hmD hMD
  have hmM : m ≤ M := hmle M (Finset.mem_sdiff.2 ⟨Finset.mem_range.2 hMD.1, hMD.2⟩)
  have hm0 : m ≠ 0 := fun hh => hmD.2 (hh ▸ h0)
  have hFE : F ⊆ cycE n := hF.trans (inner_subset _ _)
  have h1 : ce n (m - 1) ∉ F := fun hh => by
    have := (mem_of_ce_mem_inner (hF hh)).2 (by omega)
    rw [show m - 1 + 1 = m by omega] at this
    exact hmD.2 this
  have h2 : ce n M ∉ F := fun hh => hMD.2 (mem_of_ce_mem_inner (hF hh)).1
  refine ⟨m - 1, n - 1 - M, by omega, ?_⟩
  ext v
  rw [mem_arc]
  constructor
  · intro hv
    have hvn : v < n := Finset.mem_range.1 (hS hv)
    have hr : Perc.Reach F 0 v := by rw [← hc, Perc.mem_comp] at hv; exact hv.2
    have := reach_cut (by omega) hFE (show m - 1 < M by omega) hMD.1 h1 h2 hr
    omega
  · intro hv
    by_contra hvS
    have hvn : v < n := by omega
    have hvD : v ∈ Finset.range n \ S := Finset.mem_sdiff.2 ⟨Finset.mem_range.2 hvn, hvS⟩
    have := hmle v hvD
    have := hleM v hvD
    omega

theorem term_other {n : Nat} (hn : 3 ≤ n) (p u : R) {S : Finset Nat} (hS : S ⊆ Finset.range n) (h0 : 0 ∈ S)
    (hfull : S ≠ Finset.range n) (harc : ∀ a b, a + b + 2 ≤ n → S ≠ arc n a b) : cterm n p u S = 0 := by
  unfold cterm
  rw [Finset.filter_false_of_mem, Finset.sum_empty, mul_zero]
  intro F hF hc
  rcases fiber_classify hn hS h0 (Finset.mem_powerset.1 hF) hc with h | ⟨a, b, hab, h⟩
  · exact hfull h
  · exact harc a b hab h

/-! #### assembling -/

theorem arc_inj {n a b a' b' : Nat} (h : a + b + 2 ≤ n) (h' : a' + b' + 2 ≤ n)
    (heq : arc n a b = arc n a' b') : a = a' ∧ b = b' := by
  have key : ∀ v, (v ≤ a ∨ (n - b ≤ v ∧ v < n)) ↔ (v ≤ a' ∨ (n - b' ≤ v ∧ v < n)) := fun v => by
    rw [← mem_arc, ← mem_arc, heq]
  have h1 := key (a + 1)
  have h2 := key (a' + 1)
  have h3 := key (n - b - 1)
  have h4 := key (n - b' - 1)
  omega

/-- the finset-level decomposition on the cycle, summed -/
theorem autoE_cycle_eq {n : Nat} (hn : 3 ≤ n) (p u : R) :
    Perc.autoE (Finset.range n) (cycE n) p (fun _ => u) 0
      = (∑ s ∈ Finset.Icc 1 (n - 1), (s : R) * (p * u) ^ (s - 1) * (1 - p) ^ 2)
        + u ^ (n - 1) * (p ^ n + (n : R) * p ^ (n - 1) * (1 - p)) := by
  rw [autoE_cycle]
  -- index set of the proper arcs: `(s, a)` = (size, number of vertices on the `1, 2, …` side)
  set r : Finset (Nat × Nat) := (Finset.Icc 1 (n - 1) ×ˢ Finset.range n).filter (fun x => x.2 < x.1) with hr
  have hmem : ∀ x : Nat × Nat, x ∈ r ↔ x.1 ∈ Finset.Icc 1 (n - 1) ∧ x.2 ∈ Finset.range x.1 := by
    intro x
    rw [hr, Finset.mem_filter, Finset.mem_product, Finset.mem_Icc, Finset.mem_range, Finset.mem_range]
    omega
  have hmem' : ∀ x : Nat × Nat, x ∈ r → x.2 + (x.1 - 1 - x.2) + 2 ≤ n := by
    intro x hx
    rw [hmem, Finset.mem_Icc, Finset.mem_range] at hx
    omega
  let g : Nat × Nat → Finset Nat := fun x => arc n x.2 (x.1 - 1 - x.2)
  have hsub : insert (Finset.range n) (r.image g) ⊆ (Finset.range n).powerset.filter (fun S => 0 ∈ S) := by
    intro S hS
    rw [Finset.mem_insert, Finset.mem_image] at hS
    rw [Finset.mem_filter, Finset.mem_powerset]
    rcases hS with rfl | ⟨x, hx, rfl⟩
    · exact ⟨Finset.Subset.refl _, Finset.mem_range.2 (by omega)⟩
    · exact ⟨arc_subset (hmem' x hx), zero_mem_arc⟩
  have hzero : ∀ S ∈ (Finset.range n).powerset.filter (fun S => 0 ∈ S),
      S ∉ insert (Finset.range n) (r.image g) → cterm n p u S = 0 := by
    intro S hS hnot
    rw [Finset.mem_filter, Finset.mem_powerset] at hS
    rw [Finset.mem_insert, Finset.mem_image, not_or] at hnot
    refine term_other hn p u hS.1 hS.2 hnot.1 fun a b hab hSarc => hnot.2 ⟨(a + b + 1, a), ?_, ?_⟩
    · rw [hmem, Finset.mem_Icc, Finset.mem_range]
      simp only
      omega
    · show arc n a (a + b + 1 - 1 - a) = S
      rw [hSarc, show a + b + 1 - 1 - a = b by omega]
  have hnot : Finset.range n ∉ r.image g := by
    rw [Finset.mem_image]
    rintro ⟨x, hx, hh⟩
    have h1 := hmem' x hx
    have h2 : x.2 + 1 ∈ arc n x.2 (x.1 - 1 - x.2) := by
      show x.2 + 1 ∈ g x
      rw [hh, Finset.mem_range]; omega
    rw [mem_arc] at h2
    omega
  have hinj : Set.InjOn g (r : Set (Nat × Nat)) := by
    rintro ⟨s, a⟩ hx ⟨s', a'⟩ hy hh
    have h1 := hmem' _ hx
    have h2 := hmem' _ hy
    have hx' := (hmem _).1 hx
    have hy' := (hmem _).1 hy
    simp only [Finset.mem_Icc, Finset.mem_range] at h1 h2 hx' hy'
    have := arc_inj h1 h2 hh
    rw [Prod.mk.injEq]
    omega
  rw [← Finset.sum_subset hsub hzero, Finset.sum_insert hnot, Finset.sum_image hinj,
    Finset.sum_finset_product r _ _ hmem, term_full hn, add_comm]
  congr 1
  apply Finset.sum_congr rfl
  intro s hs
  rw [Finset.mem_Icc] at hs
  have : ∀ a ∈ Finset.range s, cterm n p u (g (s, a)) = (1 - p) ^ 2 * u ^ (s - 1) * p ^ (s - 1) := by
    intro a ha
    rw [Finset.mem_range] at ha
    show cterm n p u (arc n a (s - 1 - a)) = _
    rw [term_arc hn (by omega), show a + (s - 1 - a) = s - 1 by omega]
  rw [Finset.sum_congr rfl this, Finset.sum_const, Finset.card_range, nsmul_eq_mul, mul_pow]
  ring

/-- **the automated equation on the cycle `C_n`, rooted at `0`, all `u` equal, in closed form**: the root component
is one of the `s` arcs of `s < n` vertices (`s - 1` open edges, two closed boundary edges), or the whole cycle (all
edges open, or exactly one of the `n` edges closed) -/
theorem automated_cycle {n : Nat} (hn : 3 ≤ n) (p u : R) :
    automatedEquation (cycleGraph n) p (fun _ => u) 0
      = (∑ s ∈ Finset.Icc 1 (n - 1), (s : R) * (p * u) ^ (s - 1) * (1 - p) ^ 2)
        + u ^ (n - 1) * (p ^ n + (n : R) * p ^ (n - 1) * (1 - p)) := by
  have h0 : 0 ∈ (cycleGraph n).nodes := by
    show 0 ∈ List.range n
    rw [List.mem_range]; omega
  rw [← percAutoE_eq_automatedEquation (cycleGraph n) (cycleGraph_wf (by omega)) (cycleGraph_simple hn) h0,
    cycleGraph_nodes_toFinset]
  exact autoE_cycle_eq hn p u

end term

end Gcmpy.ClosedForms
