import GcmpyModel.Lemmas.Mixing
import GcmpyModel.Lemmas.Algebra
/-!
Helper lemmas for the composition theorem of property C14 (fourth sentence): the row sums of the mixing
matrix extracted from a clean annotated network ARE the excess distribution of the network's empirical
joint degree distribution.  Statements: `GcmpyModel/Properties/C14Network.lean`.

Models connected here: `Gcmpy.Mixing.getEjk` / `getEjks` / `excessKeys` (proved in `Lemmas/Mixing.lean`) and
`Gcmpy.Algebra.jddFromNetwork` / `excessFromJdd` / `excessFromEjk` (proved in `Lemmas/Algebra.lean`).

Route: the edge ends of one topology are grouped by their own vertex (`sum_ends_by_vertex`); a vertex `v` is
the own end of `endsAt name v` ends, which for a loop-free edge list is the number of incident edges
(`endsAt_eq_incident`), i.e. `c · jd(v)[i]` in a clean network.
-/
namespace Gcmpy.Algebra
open Gcmpy Gcmpy.Loaders Gcmpy.Mixing

/-! ## vocabulary -/

/-- number of edges of topology `name` incident to `v` (entries of the edge list) -/
def incident (net : ANet) (name : String) (v : Nat) : Nat :=
  (net.edges.filter fun e => decide (e.2.2 = name ∧ (e.1 = v ∨ e.2.1 = v))).length

/-- number of edge ends of topology `name` among `es` whose own vertex is `v` -/
def endsAt (name : String) (v : Nat) (es : List (Nat × Nat × String)) : Nat :=
  ((es.filter fun e => decide (e.2.2 = name)).map fun e =>
    (if e.1 = v then 1 else 0) + (if e.2.1 = v then 1 else 0)).sum

/-- number of vertices whose joint degree `k` has `k[i] ≥ 1` and excess tuple `k - e_i = a` -/
def nVert (net : ANet) (i : Nat) (a : JD) : Nat :=
  ((net.jd.map (·.2)).filter fun k => decide (1 ≤ k.getD i 0 ∧ excess k i = a)).length

/-- `Σ_v jd(v)[i]` -/
def degSum (net : ANet) (i : Nat) : Nat := ((net.jd.map (·.2)).map fun k => k.getD i 0).sum

/-! ## generic list facts -/

theorem nodup_eraseDups_aux {α : Type} [BEq α] [LawfulBEq α] :
    ∀ (n : Nat) (l : List α), l.length ≤ n → l.eraseDups.Nodup
  | 0, l, h => by
    have : l = [] := List.eq_nil_of_length_eq_zero (by omega)
    subst this; simp
  | _+1, [], _ => by simp
  | n+1, a :: as, h => by
    rw [List.eraseDups_cons, List.nodup_cons]
    refine ⟨?_, nodup_eraseDups_aux n _ ?_⟩
    · simp [List.mem_eraseDups, List.mem_filter]
    · have := List.length_filter_le (fun b => !b == a) as
      simp only [List.length_cons] at h
      omega

theorem nodup_eraseDups' {α : Type} [BEq α] [LawfulBEq α] (l : List α) : l.eraseDups.Nodup :=
  nodup_eraseDups_aux _ l (Nat.le_refl _)

theorem sum_indicator (V : List Nat) (f : Nat → Nat) (u : Nat) :
    (V.map fun v => f v * (if u = v then 1 else 0)).sum = f u * V.count u := by
  induction V with
  | nil => simp
  | cons w V ih =>
    simp only [List.map_cons, List.sum_cons, ih, List.count_cons]
    by_cases h : u = w
    · subst h; simp [Nat.mul_add, Nat.add_comm]
    · have : (w == u) = false := by simpa using fun e => h e.symm
      simp [h, this]

theorem sum_indicator_one (V : List Nat) (hV : V.Nodup) (f : Nat → Nat) (u : Nat) (hu : u ∈ V) :
    (V.map fun v => f v * (if u = v then 1 else 0)).sum = f u := by
  rw [sum_indicator, List.count_eq_one_of_mem hV hu, Nat.mul_one]

theorem sum_map_mul_left {α : Type} (l : List α) (f : α → Nat) (c : Nat) :
    (l.map fun v => c * f v).sum = c * (l.map f).sum := by
  induction l with
  | nil => simp
  | cons a l ih => simp [ih, Nat.mul_add]

theorem cast_sum_map {α : Type} (l : List α) (f : α → Nat) :
    (((l.map f).sum : Nat) : Rat) = (l.map fun x => ((f x : Nat) : Rat)).sum := by
  induction l with
  | nil => simp
  | cons a l ih => simp [ih]

theorem le_sum_of_mem {α : Type} (l : List α) (f : α → Nat) (a : α) (h : a ∈ l) : f a ≤ (l.map f).sum := by
  induction l with
  | nil => simp at h
  | cons b l ih =>
    rcases List.mem_cons.1 h with rfl | h'
    · simp
    · have := ih h'; simp only [List.map_cons, List.sum_cons]; omega

/-! ## edge ends grouped by their own vertex -/

theorem endsAt_nil (name : String) (v : Nat) : endsAt name v [] = 0 := rfl

theorem endsAt_cons_pos {name : String} {e : Nat × Nat × String} (v : Nat) (es : List (Nat × Nat × String))
    (h : e.2.2 = name) :
    endsAt name v (e :: es) =
      ((if e.1 = v then 1 else 0) + (if e.2.1 = v then 1 else 0)) + endsAt name v es := by
  simp [endsAt, h]

theorem endsAt_cons_neg {name : String} {e : Nat × Nat × String} (v : Nat) (es : List (Nat × Nat × String))
    (h : ¬ e.2.2 = name) : endsAt name v (e :: es) = endsAt name v es := by
  simp [endsAt, h]

/-- a quantity attached to the own vertex of every edge end, summed over the ends of one topology, is the sum
    over the vertices of that quantity times the number of ends at the vertex -/
theorem sum_ends_by_vertex (name : String) (V : List Nat) (hV : V.Nodup) (f : Nat → Nat)
    (es : List (Nat × Nat × String)) (hes : ∀ e ∈ es, e.1 ∈ V ∧ e.2.1 ∈ V) :
    ((es.filter fun e => decide (e.2.2 = name)).map fun e => f e.1 + f e.2.1).sum =
      (V.map fun v => f v * endsAt name v es).sum := by
  induction es with
  | nil => simp [endsAt_nil]
  | cons e es ih =>
    have ih' := ih fun e he => hes e (List.mem_cons_of_mem _ he)
    obtain ⟨h1, h2⟩ := hes e List.mem_cons_self
    by_cases h : e.2.2 = name
    · have hfun : (fun v => f v * endsAt name v (e :: es)) =
          fun v => (f v * (if e.1 = v then 1 else 0) + f v * (if e.2.1 = v then 1 else 0)) +
            f v * endsAt name v es := by
        funext v; rw [endsAt_cons_pos v es h, Nat.mul_add, Nat.mul_add]
      have hsum : (V.map fun v => f v * endsAt name v (e :: es)).sum =
          f e.1 + f e.2.1 + (V.map fun v => f v * endsAt name v es).sum := by
        rw [hfun, List.sum_map_add, List.sum_map_add, sum_indicator_one V hV f _ h1,
          sum_indicator_one V hV f _ h2]
      rw [hsum, ← ih']
      simp [h]
    · have hfun : (fun v => f v * endsAt name v (e :: es)) = fun v => f v * endsAt name v es := by
        funext v; rw [endsAt_cons_neg v es h]
      rw [hfun, ← ih']
      simp [h]

/-- for a loop-free edge list the ends at `v` are the incident edges -/
theorem endsAt_eq_incident (name : String) (v : Nat) (es : List (Nat × Nat × String))
    (hL : ∀ e ∈ es, e.1 ≠ e.2.1) :
    endsAt name v es = (es.filter fun e => decide (e.2.2 = name ∧ (e.1 = v ∨ e.2.1 = v))).length := by
  induction es with
  | nil => rfl
  | cons e es ih =>
    have ih' := ih fun e he => hL e (List.mem_cons_of_mem _ he)
    have hl := hL e List.mem_cons_self
    by_cases h : e.2.2 = name
    · rw [endsAt_cons_pos v es h, ih']
      by_cases h1 : e.1 = v
      · have h2 : ¬ e.2.1 = v := fun h2 => hl (h1.trans h2.symm)
        simp [h, h1, h2, Nat.add_comm]
      · by_cases h2 : e.2.1 = v
        · simp [h, h1, h2, Nat.add_comm]
        · simp [h, h1, h2]
    · rw [endsAt_cons_neg v es h, ih']
      simp [h]

theorem length_filter_endsIn (net : ANet) (i : Nat) (name : String) (a : JD)
    (es : List (Nat × Nat × String)) :
    ((endsIn net i name es).filter fun q => decide (q.1 = a)).length =
      ((es.filter fun e => decide (e.2.2 = name)).map fun e =>
        (if excess (jdOf net e.1) i = a then 1 else 0) +
        (if excess (jdOf net e.2.1) i = a then 1 else 0)).sum := by
  induction es with
  | nil => rfl
  | cons e es ih =>
    by_cases h : e.2.2 = name
    · rw [endsIn_cons_pos net i es h]
      simp only [List.filter_cons, h, decide_true, if_true, List.map_cons, List.sum_cons, ← ih]
      by_cases h1 : excess (jdOf net e.1) i = a <;> by_cases h2 : excess (jdOf net e.2.1) i = a <;>
        simp [h1, h2] <;> omega
    · rw [endsIn_cons_neg net i es h, ih]
      simp [h]

/-! ## annotations -/

theorem jdOf_of_mem {net : ANet} (hV : (net.jd.map (·.1)).Nodup) (p : Nat × JD) (hp : p ∈ net.jd) :
    jdOf net p.1 = p.2 := by
  unfold jdOf
  rw [Dict.get_of_mem net.jd hV p hp]; rfl

theorem mem_vertices_of_isSome {net : ANet} {v : Nat} (h : (Dict.get net.jd v).isSome) :
    v ∈ net.jd.map (·.1) :=
  (Dict.get_isSome_iff_mem_keys net.jd v).1 h

theorem edges_in_vertices {net : ANet} (hA : Annotated net) :
    ∀ e ∈ net.edges, e.1 ∈ net.jd.map (·.1) ∧ e.2.1 ∈ net.jd.map (·.1) := fun e he =>
  ⟨mem_vertices_of_isSome (hA e he).1, mem_vertices_of_isSome (hA e he).2⟩

/-- a sum over the vertices of a function of the vertex's annotation is a sum over the annotations -/
theorem sum_vertices_eq {net : ANet} (hV : (net.jd.map (·.1)).Nodup) (g : JD → Nat) :
    ((net.jd.map (·.1)).map fun v => g (jdOf net v)).sum = ((net.jd.map (·.2)).map g).sum := by
  rw [List.map_map, List.map_map]
  congr 1
  apply List.map_congr_left
  intro p hp
  simp only [Function.comp, jdOf_of_mem hV p hp]

theorem getD_excess {k : JD} {i : Nat} (h : 1 ≤ k.getD i 0) : (excess k i).getD i 0 + 1 = k.getD i 0 :=
  getD_modify_pred k i h

theorem sum_excess_weight (l : List JD) (i c : Nat) (a : JD) :
    (l.map fun k => (if excess k i = a then 1 else 0) * (c * k.getD i 0)).sum =
      (l.filter fun k => decide (1 ≤ k.getD i 0 ∧ excess k i = a)).length * c * (a.getD i 0 + 1) := by
  induction l with
  | nil => simp
  | cons k l ih =>
    simp only [List.map_cons, List.sum_cons, ih, List.filter_cons]
    by_cases h1 : excess k i = a
    · by_cases h0 : 1 ≤ k.getD i 0
      · have := getD_excess h0
        rw [h1] at this
        simp only [h1, h0, and_self, decide_true, if_true, List.length_cons, Nat.one_mul, this]
        rw [Nat.add_mul, Nat.add_mul, Nat.one_mul, Nat.add_comm]
      · have : k.getD i 0 = 0 := by omega
        rw [this]
        simp [h1]
    · simp [h1]


/-! ## the excess keys -/

theorem mem_excessKeys_iff (net : ANet) (i : Nat) (a : JD) :
    a ∈ excessKeys net i ↔ ∃ k ∈ net.jd.map (·.2), 1 ≤ k.getD i 0 ∧ excess k i = a := by
  unfold excessKeys
  rw [List.mem_eraseDups, List.mem_map]
  constructor
  · rintro ⟨k, hk, rfl⟩
    rw [List.mem_filter] at hk
    exact ⟨k, hk.1, of_decide_eq_true hk.2, rfl⟩
  · rintro ⟨k, hk, hp, rfl⟩
    exact ⟨k, List.mem_filter.2 ⟨hk, decide_eq_true hp⟩, rfl⟩

theorem nodup_excessKeys (net : ANet) (i : Nat) : (excessKeys net i).Nodup := nodup_eraseDups' _

theorem length_of_mem_excessKeys {net : ANet} {T : Nat} (hU : Mixing.Uniform net T) {i : Nat} {a : JD}
    (h : a ∈ excessKeys net i) : a.length = T := by
  obtain ⟨k, hk, _, rfl⟩ := (mem_excessKeys_iff net i a).1 h
  obtain ⟨p, hp, rfl⟩ := List.mem_map.1 hk
  rw [length_excess]; exact hU p hp

theorem nVert_pos_iff (net : ANet) (i : Nat) (a : JD) : 0 < nVert net i a ↔ a ∈ excessKeys net i := by
  rw [mem_excessKeys_iff, nVert, List.length_pos_iff_exists_mem]
  constructor
  · rintro ⟨k, hk⟩
    rw [List.mem_filter] at hk
    exact ⟨k, hk.1, of_decide_eq_true hk.2⟩
  · rintro ⟨k, hk, hp⟩
    exact ⟨k, List.mem_filter.2 ⟨hk, decide_eq_true hp⟩⟩

/-- the vertices counted by `nVert` at `a = k - e_i` are those of joint degree `k` -/
theorem nVert_eq_count (net : ANet) (i : Nat) (k : JD) (hk : 1 ≤ k.getD i 0) :
    nVert net i (excess k i) = (net.jd.map (·.2)).count k := by
  rw [nVert, List.count_eq_length_filter]
  congr 1
  apply List.filter_congr
  intro k' _
  by_cases h : k' = k
  · subst h
    rw [decide_eq_true (⟨hk, rfl⟩ : 1 ≤ k'.getD i 0 ∧ excess k' i = excess k' i), beq_self_eq_true]
  · have : ¬ (1 ≤ k'.getD i 0 ∧ excess k' i = excess k i) := by
      rintro ⟨h1, h2⟩
      exact h (modify_pred_inj h1 hk h2)
    rw [decide_eq_false this, beq_false_of_ne h]

/-- an edge of topology `name` is incident to both of its end points -/
theorem incident_pos {net : ANet} {name : String} {e : Nat × Nat × String} (he : e ∈ net.edges)
    (hn : e.2.2 = name) : 1 ≤ incident net name e.1 ∧ 1 ≤ incident net name e.2.1 := by
  constructor <;>
  · apply List.length_pos_of_mem (a := e)
    rw [List.mem_filter]
    exact ⟨he, by simp [hn]⟩

theorem clean_positive {net : ANet} {i c : Nat} {name : String} (hA : Annotated net)
    (hC : ∀ v ∈ net.jd.map (·.1), incident net name v = c * (jdOf net v).getD i 0) :
    ∀ e ∈ net.edges, e.2.2 = name → 1 ≤ (jdOf net e.1).getD i 0 ∧ 1 ≤ (jdOf net e.2.1).getD i 0 := by
  intro e he hn
  obtain ⟨h1, h2⟩ := incident_pos he hn
  obtain ⟨v1, v2⟩ := edges_in_vertices hA e he
  rw [hC _ v1] at h1
  rw [hC _ v2] at h2
  exact ⟨Nat.pos_of_mul_pos_left h1, Nat.pos_of_mul_pos_left h2⟩

/-! ## the empirical joint degree distribution -/

theorem get_jdd (jds : List JD) (k : JD) :
    Dict.get (jddFromNetwork jds) k =
      if k ∈ jds then some ((jds.count k : Rat) / (jds.length : Rat)) else none := by
  rw [jddFromNetwork_eq, get_accum]
  simp only [Dict.keys, List.map_nil, List.not_mem_nil, or_false, Dict.get, Option.getD_none, zero_add,
    mul_one_div]

theorem mem_keys_jdd (jds : List JD) (k : JD) : k ∈ Dict.keys (jddFromNetwork jds) ↔ k ∈ jds := by
  rw [← Dict.get_isSome_iff_mem_keys, get_jdd]
  split <;> simp [*]

theorem nodup_keys_jdd (jds : List JD) : (Dict.keys (jddFromNetwork jds)).Nodup := by
  rw [jddFromNetwork_eq]; exact nodup_keys_accum _ jds [] (by simp [Dict.keys])

theorem uniform_jdd (jds : List JD) (T : Nat) (h : ∀ k ∈ jds, k.length = T) :
    Uniform (jddFromNetwork jds) T := fun kp hkp =>
  h _ ((mem_keys_jdd jds kp.1).1 (mem_keys_of_mem hkp))

theorem mem_jdd {jds : List JD} {k : JD} (hk : k ∈ jds) :
    (k, (jds.count k : Rat) / (jds.length : Rat)) ∈ jddFromNetwork jds :=
  Dict.mem_of_get (by rw [get_jdd, if_pos hk])

theorem sum_weighted_update (g : JD → Rat) (d : Table) (k : JD) (c : Rat) :
    ((Dict.update d k 0 (· + c)).map fun kp => g kp.1 * kp.2).sum =
      (d.map fun kp => g kp.1 * kp.2).sum + g k * c := by
  unfold Dict.update
  induction d with
  | nil => simp [Dict.set, Dict.get]
  | cons x r ih =>
    obtain ⟨a, w⟩ := x
    by_cases h : a = k
    · subst h; simp [Dict.set, Dict.get]; ring
    · simp only [Dict.set, Dict.get, if_neg h, List.map_cons, List.sum_cons, ih]; ring

theorem sum_weighted_accum (g : JD → Rat) (c : Rat) (jds : List JD) (d : Table) :
    ((accum c jds d).map fun kp => g kp.1 * kp.2).sum =
      (d.map fun kp => g kp.1 * kp.2).sum + (jds.map g).sum * c := by
  induction jds generalizing d with
  | nil => simp [accum]
  | cons y ys ih =>
    have hstep : accum c (y :: ys) d = accum c ys (Dict.update d y 0 (· + c)) := rfl
    rw [hstep, ih, sum_weighted_update]
    simp only [List.map_cons, List.sum_cons]
    ring

/-- the mean of the empirical distribution is the mean of the annotations -/
theorem mean_jdd (jds : List JD) (i : Nat) :
    mean (jddFromNetwork jds) i =
      (((jds.map fun k => k.getD i 0).sum : Nat) : Rat) / ((jds.length : Nat) : Rat) := by
  rw [mean, jddFromNetwork_eq, sum_weighted_accum (fun k => ((k.getD i 0 : Nat) : Rat)), cast_sum_map]
  simp only [List.map_nil, List.sum_nil, zero_add, mul_one_div]

/-- `k_i (m/n) / (S/n) = m c k_i / (2E)` when `2E = c S` -/
theorem excess_arith (x m n S c E : Nat) (hn : 0 < n) (hc : 0 < c) (hE : 2 * E = c * S) :
    ((x : Rat) * ((m : Rat) / (n : Rat))) / ((S : Rat) / (n : Rat)) =
      ((m : Rat) * (c : Rat) * (x : Rat)) / (2 * (E : Rat)) := by
  have hE' : (2 * (E : Rat)) = (c : Rat) * (S : Rat) := by exact_mod_cast hE
  have hn' : (n : Rat) ≠ 0 := by exact_mod_cast (Nat.pos_iff_ne_zero.1 hn)
  have hc' : (c : Rat) ≠ 0 := by exact_mod_cast (Nat.pos_iff_ne_zero.1 hc)
  rw [hE']
  by_cases hS : (S : Rat) = 0
  · simp [hS]
  · field_simp

/-! ## looking a name up in an index-built table -/

theorem get_zipIdx_map {β : Type} (f : Nat → β) (names : List String) (hn : names.Nodup) (k i : Nat)
    (hi : i < names.length) :
    Dict.get ((names.zipIdx k).map fun p => (p.1, f p.2)) names[i] = some (f (k + i)) := by
  induction names generalizing k i with
  | nil => simp at hi
  | cons nm rest ih =>
    rw [List.nodup_cons] at hn
    cases i with
    | zero => simp [Dict.get]
    | succ j =>
      have hj : j < rest.length := by simpa using hi
      have hne : ¬ nm = rest[j] := fun e => hn.1 (e ▸ List.getElem_mem hj)
      simp only [List.zipIdx_cons, List.map_cons, Dict.get, List.getElem_cons_succ, if_neg hne]
      rw [ih hn.2 (k + 1) j hj]
      congr 2; omega

/-! ## the two counting identities of a clean network -/

section Clean
variable {net : ANet} {i c : Nat} {name : String}

/-- the ends of topology `name` at `v`, under the clean-network hypothesis -/
theorem endsAt_clean (hL : ∀ e ∈ net.edges, e.1 ≠ e.2.1)
    (hC : ∀ v ∈ net.jd.map (·.1), incident net name v = c * (jdOf net v).getD i 0)
    (v : Nat) (hv : v ∈ net.jd.map (·.1)) :
    endsAt name v net.edges = c * (jdOf net v).getD i 0 := by
  rw [endsAt_eq_incident name v net.edges hL]; exact hC v hv

/-- the number of edge ends whose own vertex has excess tuple `a` -/
theorem count_own_ends (hV : (net.jd.map (·.1)).Nodup) (hA : Annotated net)
    (hL : ∀ e ∈ net.edges, e.1 ≠ e.2.1)
    (hC : ∀ v ∈ net.jd.map (·.1), incident net name v = c * (jdOf net v).getD i 0) (a : JD) :
    ((ends net i name).filter fun q => decide (q.1 = a)).length = nVert net i a * c * (a.getD i 0 + 1) := by
  unfold ends
  rw [length_filter_endsIn,
    sum_ends_by_vertex name _ hV (fun v => if excess (jdOf net v) i = a then 1 else 0) net.edges
      (edges_in_vertices hA)]
  have h1 : ((net.jd.map (·.1)).map fun v =>
        (if excess (jdOf net v) i = a then 1 else 0) * endsAt name v net.edges) =
      (net.jd.map (·.1)).map fun v =>
        (if excess (jdOf net v) i = a then 1 else 0) * (c * (jdOf net v).getD i 0) := by
    apply List.map_congr_left
    intro v hv
    rw [endsAt_clean hL hC v hv]
  rw [h1]
  refine (sum_vertices_eq hV fun k : JD => (if excess k i = a then 1 else 0) * (c * k.getD i 0)).trans ?_
  rw [sum_excess_weight]
  rfl

/-- handshake: every edge has two ends -/
theorem two_numE_eq (hV : (net.jd.map (·.1)).Nodup) (hA : Annotated net)
    (hL : ∀ e ∈ net.edges, e.1 ≠ e.2.1)
    (hC : ∀ v ∈ net.jd.map (·.1), incident net name v = c * (jdOf net v).getD i 0) :
    2 * numE net name = c * degSum net i := by
  have h := sum_ends_by_vertex name _ hV (fun _ => 1) net.edges (edges_in_vertices hA)
  have hl : ((net.edges.filter fun e => decide (e.2.2 = name)).map fun _ => 1 + 1).sum =
      2 * numE net name := by
    simp [numE, Nat.mul_comm]
  rw [hl] at h
  rw [h]
  have h1 : ((net.jd.map (·.1)).map fun v => 1 * endsAt name v net.edges) =
      (net.jd.map (·.1)).map fun v => c * (jdOf net v).getD i 0 := by
    apply List.map_congr_left
    intro v hv
    rw [Nat.one_mul, endsAt_clean hL hC v hv]
  rw [h1, degSum]
  exact (sum_vertices_eq hV fun k : JD => c * k.getD i 0).trans (sum_map_mul_left _ _ _)

end Clean

end Gcmpy.Algebra
