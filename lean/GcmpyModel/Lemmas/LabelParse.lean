import GcmpyModel.Model.LabelParse
/-! Lemmas about the cover-label parser (`Model/LabelParse.lean`); property theorems in `Properties/C17Label.lean`. -/
namespace Gcmpy.LabelParse
namespace Lemmas

/-! ### digits -/

theorem isDigit_of_mem_natRepr {n : Nat} {c : Char} (h : c ∈ natRepr n) : c.isDigit = true :=
  Nat.isDigit_of_mem_toDigits (by decide) (by decide) h

theorem natRepr_ne_nil (n : Nat) : natRepr n ≠ [] := Nat.toDigits_ne_nil

theorem tokenize_cons_digit (c : Char) (cs : List Char) (acc : Option Nat) (h : c.isDigit = true) :
    tokenize (c :: cs) acc = tokenize cs (some (10 * acc.getD 0 + digitVal c)) := by
  cases acc <;> rw [tokenize] <;> simp [h]

theorem tokenize_digits (ds rest : List Char) (a : Nat) (h : ∀ c ∈ ds, c.isDigit = true) :
    tokenize (ds ++ rest) (some a) = tokenize rest (some (Nat.ofDigitChars 10 ds a)) := by
  induction ds generalizing a with
  | nil => simp
  | cons c ds ih =>
    rw [List.cons_append, tokenize_cons_digit _ _ _ (h c (by simp)),
      ih _ (fun d hd => h d (by simp [hd])), Nat.ofDigitChars_cons]
    rfl

/-- a written number is read back as that number, whatever follows -/
theorem tokenize_natRepr (n : Nat) (rest : List Char) :
    tokenize (natRepr n ++ rest) none = tokenize rest (some n) := by
  have hd : ∀ c ∈ natRepr n, c.isDigit = true := fun c hc => isDigit_of_mem_natRepr hc
  have hv : Nat.ofDigitChars 10 (natRepr n) 0 = n := Nat.ofDigitChars_ten_toDigits
  cases hr : natRepr n with
  | nil => exact absurd hr (natRepr_ne_nil n)
  | cons c ds =>
    rw [hr] at hd hv
    rw [List.cons_append, tokenize_cons_digit _ _ _ (hd c (by simp)),
      tokenize_digits _ _ _ (fun d h => hd d (by simp [h]))]
    rw [Nat.ofDigitChars_cons] at hv
    have : 10 * (none : Option Nat).getD 0 + digitVal c = 10 * 0 + (c.toNat - '0'.toNat) := rfl
    rw [this, hv]

/-! ### symbols -/

theorem tokenize_comma_some (n : Nat) (cs : List Char) :
    tokenize (',' :: cs) (some n) = (tokenize cs none).map (fun ts => .num n :: .comma :: ts) := by
  rw [tokenize]; simp [tokOf]

theorem tokenize_rb_some (n : Nat) (cs : List Char) :
    tokenize (']' :: cs) (some n) = (tokenize cs none).map (fun ts => .num n :: .rb :: ts) := by
  rw [tokenize]; simp [tokOf]

theorem tokenize_rp_some (n : Nat) (cs : List Char) :
    tokenize (')' :: cs) (some n) = (tokenize cs none).map (fun ts => .num n :: .rp :: ts) := by
  rw [tokenize]; simp [tokOf]

theorem tokenize_comma_none (cs : List Char) :
    tokenize (',' :: cs) none = (tokenize cs none).map (fun ts => .comma :: ts) := by
  rw [tokenize]; simp [tokOf]

theorem tokenize_rb_none (cs : List Char) :
    tokenize (']' :: cs) none = (tokenize cs none).map (fun ts => .rb :: ts) := by
  rw [tokenize]; simp [tokOf]

theorem tokenize_lb_none (cs : List Char) :
    tokenize ('[' :: cs) none = (tokenize cs none).map (fun ts => .lb :: ts) := by
  rw [tokenize]; simp [tokOf]

theorem tokenize_lp_none (cs : List Char) :
    tokenize ('(' :: cs) none = (tokenize cs none).map (fun ts => .lp :: ts) := by
  rw [tokenize]; simp [tokOf]

theorem tokenize_space_none (cs : List Char) :
    tokenize (' ' :: cs) none = tokenize cs none := by
  rw [tokenize]; simp

theorem tokenize_nil_none : tokenize [] none = some [] := by rw [tokenize]

/-! ### tokens of a comma-separated sequence -/

def sepToks : List (List Tok) → List Tok
  | [] => []
  | [x] => x
  | x :: y :: r => x ++ .comma :: sepToks (y :: r)

/-- the item `x` is read as the tokens `t` when a comma or the closing bracket follows -/
def ItemOK (x : List Char) (t : List Tok) : Prop :=
  (∀ rest, tokenize (x ++ ',' :: rest) none = (tokenize rest none).map (fun ts => t ++ .comma :: ts)) ∧
  (∀ rest, tokenize (x ++ ']' :: rest) none = (tokenize rest none).map (fun ts => t ++ .rb :: ts))

theorem tokenize_commaSep {α : Type} (f : α → List Char) (g : α → List Tok) (l : List α)
    (h : ∀ a ∈ l, ItemOK (f a) (g a)) (rest : List Char) :
    tokenize (commaSep (l.map f) ++ ']' :: rest) none
      = (tokenize rest none).map (fun ts => sepToks (l.map g) ++ .rb :: ts) := by
  induction l with
  | nil => simp [commaSep, sepToks, tokenize_rb_none]
  | cons a l ih =>
    cases l with
    | nil => simpa [commaSep, sepToks] using (h a (by simp)).2 rest
    | cons b r =>
      have ih' := ih (fun x hx => h x (by simp [hx]))
      simp only [List.map_cons, commaSep, sepToks, List.append_assoc, List.cons_append,
        List.nil_append] at ih' ⊢
      rw [(h a (by simp)).1, tokenize_space_none, ih', Option.map_map]
      congr 1

theorem itemOK_nat (n : Nat) : ItemOK (natRepr n) [.num n] :=
  ⟨fun rest => by rw [tokenize_natRepr, tokenize_comma_some]; rfl,
   fun rest => by rw [tokenize_natRepr, tokenize_rb_some]; rfl⟩

def edgeToks (e : Edge) : List Tok := [.lp, .num e.1, .comma, .num e.2, .rp]

theorem tokenize_fmtEdge (e : Edge) (rest : List Char) :
    tokenize (fmtEdge e ++ rest) none = (tokenize rest none).map (fun ts => edgeToks e ++ ts) := by
  simp only [fmtEdge, List.append_assoc, List.cons_append, List.nil_append]
  rw [tokenize_lp_none, tokenize_natRepr, tokenize_comma_some, tokenize_space_none, tokenize_natRepr,
    tokenize_rp_some]
  simp [Option.map_map, edgeToks, Function.comp_def]

theorem itemOK_edge (e : Edge) : ItemOK (fmtEdge e) (edgeToks e) :=
  ⟨fun rest => by rw [tokenize_fmtEdge, tokenize_comma_none, Option.map_map]; rfl,
   fun rest => by rw [tokenize_fmtEdge, tokenize_rb_none, Option.map_map]; rfl⟩

theorem tokenize_fmtNatList (ns : List Nat) :
    tokenize (fmtNatList ns) none = some (.lb :: (sepToks (ns.map fun n => [.num n]) ++ [.rb])) := by
  simp only [fmtNatList, List.cons_append, List.nil_append]
  rw [tokenize_lb_none, tokenize_commaSep natRepr (fun n => [.num n]) ns (fun n _ => itemOK_nat n),
    tokenize_nil_none]
  rfl

theorem tokenize_fmtEdgeList (es : List Edge) :
    tokenize (fmtEdgeList es) none = some (.lb :: (sepToks (es.map edgeToks) ++ [.rb])) := by
  simp only [fmtEdgeList, List.cons_append, List.nil_append]
  rw [tokenize_lb_none, tokenize_commaSep fmtEdge edgeToks es (fun e _ => itemOK_edge e),
    tokenize_nil_none]
  rfl

/-! ### parsing the tokens -/

theorem natItems_sepToks (ns : List Nat) (rest : List Tok) :
    natItems .rb (sepToks (ns.map fun n => [.num n]) ++ .rb :: rest) = some (ns, rest) := by
  induction ns with
  | nil => simp [sepToks, natItems]
  | cons n ns ih =>
    cases ns with
    | nil => simp [sepToks, natItems]
    | cons m r =>
      simp only [List.map_cons, sepToks, List.cons_append, List.nil_append] at ih ⊢
      rw [natItems]
      simp [ih]

theorem natSeq_edgeToks (e : Edge) (rest : List Tok) :
    natSeq (edgeToks e ++ rest) = some ([e.1, e.2], rest) := by
  simp [edgeToks, natSeq, natItems]

theorem length_le_sepToks (es : List Edge) : es.length ≤ (sepToks (es.map edgeToks)).length := by
  induction es with
  | nil => simp
  | cons e es ih =>
    cases es with
    | nil => simp [sepToks, edgeToks]
    | cons e' r =>
      simp only [List.map_cons, sepToks, List.length_append, List.length_cons] at ih ⊢
      omega

theorem edgeItems_step (e : Edge) (fuel : Nat) (X : List Tok) :
    edgeItems .rb (fuel + 1) (edgeToks e ++ .comma :: X)
      = (edgeItems .rb fuel X).map fun (es, r') => (e :: es, r') := by
  have := natSeq_edgeToks e (.comma :: X)
  simp only [edgeToks, List.cons_append, List.nil_append] at this ⊢
  rw [edgeItems]
  simp [this]

theorem edgeItems_last (e : Edge) (fuel : Nat) (rest : List Tok) :
    edgeItems .rb (fuel + 1) (edgeToks e ++ .rb :: rest) = some ([e], rest) := by
  have := natSeq_edgeToks e (.rb :: rest)
  simp only [edgeToks, List.cons_append, List.nil_append] at this ⊢
  rw [edgeItems]
  simp [this]

theorem edgeItems_sepToks (es : List Edge) (rest : List Tok) (fuel : Nat) (hf : es.length < fuel) :
    edgeItems .rb fuel (sepToks (es.map edgeToks) ++ .rb :: rest) = some (es, rest) := by
  induction es generalizing fuel with
  | nil =>
    cases fuel with
    | zero => omega
    | succ fuel => simp [sepToks, edgeItems]
  | cons e es ih =>
    cases fuel with
    | zero => omega
    | succ fuel =>
      cases es with
      | nil =>
        simp only [List.map_cons, List.map_nil, sepToks]
        exact edgeItems_last e fuel rest
      | cons e' r =>
        have ih' := ih fuel (by simp at hf ⊢; omega)
        simp only [List.map_cons, sepToks, List.append_assoc, List.cons_append] at ih' ⊢
        rw [edgeItems_step, ih']
        rfl

theorem parseInt_natRepr (n : Nat) : parseInt (natRepr n) = some n := by
  have := tokenize_natRepr n []
  rw [List.append_nil] at this
  simp [parseInt, this, tokenize]

theorem parseNatList_fmt (ns : List Nat) : parseNatList (fmtNatList ns) = some ns := by
  simp [parseNatList, tokenize_fmtNatList, natSeq, natItems_sepToks]

theorem parseEdgeList_fmt (es : List Edge) : parseEdgeList (fmtEdgeList es) = some es := by
  have hl := length_le_sepToks es
  simp only [parseEdgeList, tokenize_fmtEdgeList, edgeSeq]
  rw [edgeItems_sepToks es [] _ (by simp; omega)]

/-! ### `split('-')` -/

theorem splitOn_of_not_mem (sep : Char) (a : List Char) (h : sep ∉ a) : splitOn sep a = [a] := by
  induction a with
  | nil => simp [splitOn]
  | cons c cs ih =>
    have hc : c ≠ sep := fun e => h (by simp [e])
    have := ih (fun hm => h (by simp [hm]))
    simp [splitOn, hc, this]

theorem splitOn_append (sep : Char) (a b : List Char) (h : sep ∉ a) :
    splitOn sep (a ++ sep :: b) = a :: splitOn sep b := by
  induction a with
  | nil => simp [splitOn]
  | cons c cs ih =>
    have hc : c ≠ sep := fun e => h (by simp [e])
    have := ih (fun hm => h (by simp [hm]))
    simp [splitOn, hc, this]

theorem dash_not_mem_natRepr (n : Nat) : '-' ∉ natRepr n := fun h => by
  have := isDigit_of_mem_natRepr h
  exact absurd this (by decide)

theorem dash_not_mem_commaSep (xs : List (List Char)) (h : ∀ x ∈ xs, '-' ∉ x) : '-' ∉ commaSep xs := by
  induction xs with
  | nil => simp [commaSep]
  | cons x xs ih =>
    cases xs with
    | nil => simpa [commaSep] using h x (by simp)
    | cons y r =>
      have h1 := h x (by simp)
      have h2 := ih (fun z hz => h z (by simp [hz]))
      simp only [commaSep, List.mem_append, not_or]
      exact ⟨⟨h1, by decide⟩, h2⟩

theorem dash_not_mem_fmtNatList (ns : List Nat) : '-' ∉ fmtNatList ns := by
  have := dash_not_mem_commaSep (ns.map natRepr) (by
    intro x hx; obtain ⟨n, _, rfl⟩ := List.mem_map.1 hx; exact dash_not_mem_natRepr n)
  simp only [fmtNatList, List.mem_append, not_or]
  exact ⟨⟨by decide, this⟩, by decide⟩

theorem dash_not_mem_fmtEdge (e : Edge) : '-' ∉ fmtEdge e := by
  simp only [fmtEdge, List.mem_append, not_or]
  exact ⟨⟨⟨⟨by decide, dash_not_mem_natRepr _⟩, by decide⟩, dash_not_mem_natRepr _⟩, by decide⟩

theorem dash_not_mem_fmtEdgeList (es : List Edge) : '-' ∉ fmtEdgeList es := by
  have := dash_not_mem_commaSep (es.map fmtEdge) (by
    intro x hx; obtain ⟨e, _, rfl⟩ := List.mem_map.1 hx; exact dash_not_mem_fmtEdge e)
  simp only [fmtEdgeList, List.mem_append, not_or]
  exact ⟨⟨by decide, this⟩, by decide⟩

theorem splitOn_fmtLabel (key : Nat) (verts : List Nat) (edges : List Edge) (id : Nat) :
    splitOn '-' (fmtLabel key verts edges id)
      = [natRepr key, fmtNatList verts, fmtEdgeList edges, natRepr id] := by
  simp only [fmtLabel, List.append_assoc, List.cons_append, List.nil_append]
  rw [splitOn_append _ _ _ (dash_not_mem_natRepr key), splitOn_append _ _ _ (dash_not_mem_fmtNatList verts),
    splitOn_append _ _ _ (dash_not_mem_fmtEdgeList edges), splitOn_of_not_mem _ _ (dash_not_mem_natRepr id)]

/-! ### the four accessors -/

theorem topology_of_format (key : Nat) (verts : List Nat) (edges : List Edge) (id : Nat) :
    motifTopology (fmtLabel key verts edges id) = some key := by
  simp [motifTopology, splitOn_fmtLabel, parseInt_natRepr]

theorem id_of_format (key : Nat) (verts : List Nat) (edges : List Edge) (id : Nat) :
    motifID (fmtLabel key verts edges id) = some id := by
  simp [motifID, splitOn_fmtLabel, parseInt_natRepr]

theorem vertices_of_format (key : Nat) (verts : List Nat) (edges : List Edge) (id : Nat) :
    verticesInMotif (fmtLabel key verts edges id) = some verts := by
  simp [verticesInMotif, splitOn_fmtLabel, parseNatList_fmt]

theorem edges_of_format (key : Nat) (verts : List Nat) (edges : List Edge) (id : Nat) :
    edgesInMotif (fmtLabel key verts edges id) = some edges := by
  simp [edgesInMotif, splitOn_fmtLabel, parseEdgeList_fmt]

end Lemmas
end Gcmpy.LabelParse
