import GcmpyModel.Model.LabelParse
/-! Lemmas about the cover-label parser (`Model/LabelParse.lean`); property theorems in `Properties/C17Label.lean`. -/
namespace Gcmpy.LabelParse
namespace Lemmas
-- TO BE PROVED: topology_of_format, id_of_format, vertices_of_format, edges_of_format
end Lemmas
end Gcmpy.LabelParse
